// Package bm builds real block.Manager instances on the logging datastore with doubles for the
// layers outside the repository (execution, sequencing, DA, broadcasters) and renders their state
// canonically.  Shared by the producer, syncer, submitter, retriever and includer streams.
package bm

import (
	"bytes"
	"context"
	"crypto/ed25519"
	"encoding/binary"
	"fmt"
	"os"
	"path/filepath"
	"sort"
	"strings"
	"time"

	goheader "github.com/celestiaorg/go-header"
	logging "github.com/ipfs/go-log/v2"
	"github.com/libp2p/go-libp2p/core/crypto"

	"verifharness/hx"

	"github.com/evstack/ev-node/block"
	coresequencer "github.com/evstack/ev-node/core/sequencer"
	"github.com/evstack/ev-node/pkg/config"
	genesispkg "github.com/evstack/ev-node/pkg/genesis"
	"github.com/evstack/ev-node/pkg/signer"
	noopsigner "github.com/evstack/ev-node/pkg/signer/noop"
	storepkg "github.com/evstack/ev-node/pkg/store"
	"github.com/evstack/ev-node/types"
)

const ChainID = "vchain"

// DetKey: deterministic ed25519 key from a seed byte. Key id k in the Lean model = DetKey(k).
func DetKey(seed byte) (crypto.PrivKey, crypto.PubKey) {
	sd := bytes.Repeat([]byte{seed}, ed25519.SeedSize)
	priv, pub, err := crypto.GenerateEd25519Key(bytes.NewReader(sd))
	if err != nil {
		panic(err)
	}
	return priv, pub
}

// Env is one node under test with its doubles.
type Env struct {
	DS      *hx.LogDS
	Store   storepkg.Store
	M       *block.Manager
	Exec    *hx.Exec
	Seq     *hx.Seq
	DA      *hx.DA
	HB      *hx.Bcast[*types.SignedHeader]
	DB      *hx.Bcast[*types.Data]
	Gen     genesispkg.Genesis
	Priv    crypto.PrivKey
	Pub     crypto.PubKey
	Signer  signer.Signer
	Root    string
	Cfg     config.Config
	Options Options
	RealSeq coresequencer.Sequencer
}

type Options struct {
	InitialHeight uint64
	GenesisTime   time.Time
	MaxPending    uint64
	Aggregator    bool
	DAStart       uint64
	Lazy          bool
	BlockTime     time.Duration
	LazyInterval  time.Duration
	DABlockTime   time.Duration
	Image         map[string][]byte // durable image to start from (nil = empty)
	Root          string            // config root dir (cache files); "" = fresh temp dir
	DA            *hx.DA            // share a DA double between nodes
	Exec          *hx.Exec
	Seq           *hx.Seq
	KeySeed       byte // signing key of an aggregator (default 1)
	// HeaderStore / DataStore: go-header stores polled by the P2P store loops (default nil)
	HeaderStore goheader.Store[*types.SignedHeader]
	DataStore   goheader.Store[*types.Data]
	// CustomPayload: use a non-default signature payload provider (header bytes + a suffix)
	CustomPayload bool
	// WrapSigner (optional): wraps the signer the node is given, e.g. to run a callback at a signer call
	WrapSigner func(signer.Signer) signer.Signer
	// MakeSeq builds the sequencing layer on the node's datastore (default: the scripted double)
	MakeSeq func(ds *hx.LogDS) (coresequencer.Sequencer, error)
}

func WorkDir() string {
	if d := os.Getenv("VERIF_WORK"); d != "" {
		return d
	}
	return os.TempDir()
}

// New starts a real manager. The returned error is NewManager's.
func New(o Options) (*Env, error) {
	if o.KeySeed == 0 {
		o.KeySeed = 1
	}
	if o.InitialHeight == 0 {
		o.InitialHeight = 1
	}
	e := &Env{Options: o}
	e.Priv, e.Pub = DetKey(1) // the genesis proposer is always key 1
	gaddr := types.KeyAddress(e.Pub)
	e.Gen = genesispkg.NewGenesis(ChainID, o.InitialHeight, o.GenesisTime, gaddr)
	var sg signer.Signer
	if o.Aggregator {
		priv, _ := DetKey(o.KeySeed)
		s, err := noopsigner.NewNoopSigner(priv)
		if err != nil {
			return nil, err
		}
		sg = s
		if o.WrapSigner != nil {
			sg = o.WrapSigner(sg)
		}
	}
	e.Signer = sg
	e.DS = hx.NewLogDS(o.Image)
	e.Store = storepkg.New(e.DS)
	e.Exec, e.Seq, e.DA = o.Exec, o.Seq, o.DA
	if e.Exec == nil {
		e.Exec = &hx.Exec{}
	}
	if e.Seq == nil {
		e.Seq = &hx.Seq{}
	}
	if e.DA == nil {
		e.DA = hx.NewDA()
	}
	e.HB, e.DB = &hx.Bcast[*types.SignedHeader]{}, &hx.Bcast[*types.Data]{}
	e.Root = o.Root
	if e.Root == "" {
		d, err := os.MkdirTemp(WorkDir(), "node-")
		if err != nil {
			return nil, err
		}
		e.Root = d
	}
	cfg := config.DefaultConfig
	cfg.RootDir = e.Root
	// a non-default db_path: whatever the manager keeps on disk itself (the cache files under <root>/data) must not
	// depend on it unless saving and loading agree (seed C07-H saved under db_path and loaded from "data")
	cfg.DBPath = "db-alt"
	cfg.Node.Aggregator = o.Aggregator
	cfg.Node.MaxPendingHeadersAndData = o.MaxPending
	cfg.Node.LazyMode = o.Lazy
	cfg.DA.StartHeight = o.DAStart
	cfg.DA.BlockTime.Duration = time.Millisecond
	cfg.DA.MempoolTTL = 1
	if o.DABlockTime > 0 {
		cfg.DA.BlockTime.Duration = o.DABlockTime
	}
	if o.BlockTime > 0 {
		cfg.Node.BlockTime.Duration = o.BlockTime
	}
	if o.LazyInterval > 0 {
		cfg.Node.LazyBlockInterval.Duration = o.LazyInterval
	}
	e.Cfg = cfg
	var sq coresequencer.Sequencer = e.Seq
	if o.MakeSeq != nil {
		rs, err := o.MakeSeq(e.DS)
		if err != nil {
			return e, err
		}
		sq = rs
		e.RealSeq = rs
	}
	mo := block.DefaultManagerOptions()
	if o.CustomPayload {
		mo.SignaturePayloadProvider = CustomPayloadProvider
	}
	m, err := block.NewManager(context.Background(), sg, cfg, e.Gen, e.Store, e.Exec, sq, e.DA, logging.Logger("verif"), o.HeaderStore, o.DataStore,
		e.HB, e.DB, block.NopMetrics(), -1, 0, mo)
	if err != nil {
		return e, err
	}
	e.M = m
	return e, nil
}

func (e *Env) Cleanup() {
	if e != nil && e.Options.Root == "" && e.Root != "" && strings.HasPrefix(e.Root, WorkDir()) {
		_ = os.RemoveAll(e.Root)
	}
}

// CacheDir is where the manager's cache files live.
func (e *Env) CacheDir() string { return filepath.Join(e.Root, "data", "cache") }

// ---- canonical rendering ----

func H8(b []byte) string {
	if len(b) == 0 {
		return "-"
	}
	return hx.Hex(b)
}

// CustomPayloadProvider: the header bytes followed by a domain-separation suffix.
func CustomPayloadProvider(h *types.Header) ([]byte, error) {
	b, err := h.MarshalBinary()
	if err != nil {
		return nil, err
	}
	return append(b, []byte("/verif-custom-payload")...), nil
}

// SigClass classifies a signature against a header payload (default or custom provider) and the proposer key.
func SigClass(pub crypto.PubKey, h *types.Header, sig []byte) string {
	if len(sig) == 0 {
		return "empty"
	}
	pl, err := h.MarshalBinary()
	if err != nil {
		return "invalid"
	}
	if ok, err := pub.Verify(pl, sig); err == nil && ok {
		return "valid"
	}
	if cp, err := CustomPayloadProvider(h); err == nil {
		if ok, err := pub.Verify(cp, sig); err == nil && ok {
			return "valid"
		}
	}
	return "invalid"
}

// ShowBlock renders the block stored at a height ("none" if absent).
func (e *Env) ShowBlock(h uint64) string {
	ctx := context.Background()
	sh, d, err := e.Store.GetBlockData(ctx, h)
	if err != nil {
		return "none"
	}
	sig, _ := e.Store.GetSignature(ctx, h)
	var ssig []byte
	if sig != nil {
		ssig = *sig
	}
	return ShowSH(e.Pub, sh) + " " + ShowD(d) + " ssig=" + SigClass(e.Pub, &sh.Header, ssig)
}

func ShowSH(pub crypto.PubKey, sh *types.SignedHeader) string {
	hd := &sh.Header
	signer := "none"
	if sh.Signer.PubKey != nil {
		if sh.Signer.PubKey.Equals(pub) {
			signer = "k1"
		} else {
			signer = "other"
		}
	}
	return fmt.Sprintf("h=%d t=%d v=%d.%d cid=%s lhh=%s dh=%s ah=%s pa=%s vh=%s ch=%s hash=%s sig=%s signer=%s/%s",
		hd.Height(), hd.BaseHeader.Time, hd.Version.Block, hd.Version.App, hd.ChainID(), H8(hd.LastHeaderHash), H8(hd.DataHash), H8(hd.AppHash),
		H8(hd.ProposerAddress), H8(hd.ValidatorHash), H8(hd.ConsensusHash), H8(hd.Hash()), SigClass(pub, hd, sh.Signature), signer, H8(sh.Signer.Address))
}

func ShowD(d *types.Data) string {
	meta := "meta=none"
	if d.Metadata != nil {
		meta = fmt.Sprintf("meta=%s/%d/%d/%s", d.Metadata.ChainID, d.Metadata.Height, d.Metadata.Time, H8(d.Metadata.LastDataHash))
	}
	txs := make([][]byte, len(d.Txs))
	for i := range d.Txs {
		txs[i] = d.Txs[i]
	}
	return meta + " txs=" + hx.HexList(txs)
}

func ShowState(s types.State) string {
	return fmt.Sprintf("%d/%d/%s/da%d", s.LastBlockHeight, s.LastBlockTime.UnixNano(), H8(s.AppHash), s.DAHeight)
}

// DescribeWrites classifies the atomic writes logged since index `from`.
func DescribeWrites(ds *hx.LogDS, from int) string {
	var out []string
	n := ds.NumWrites()
	for _, ws := range ds.Log[from:n] {
		out = append(out, DescribeWS(ws))
	}
	if len(out) == 0 {
		return "-"
	}
	return strings.Join(out, ",")
}

// DescribeWS: blk:<h> (one batch holding header/data/signature/index of one height), height:<n>, state, meta:<key>
func DescribeWS(ws hx.WriteSet) string {
	var kinds []string
	seenBlk := map[string]int{}
	for _, w := range ws {
		k := w.Key
		op := ""
		if w.Del {
			op = "del-"
		}
		switch {
		case strings.HasPrefix(k, "/h/"), strings.HasPrefix(k, "/d/"), strings.HasPrefix(k, "/c/"):
			seenBlk[k[3:]]++
		case strings.HasPrefix(k, "/i/"):
			seenBlk["idx"]++
		case k == "/t":
			kinds = append(kinds, fmt.Sprintf("%sheight:%d", op, binary.LittleEndian.Uint64(pad8(w.Val))))
		case k == "/s":
			kinds = append(kinds, op+"state")
		case strings.HasPrefix(k, "/m/"):
			kinds = append(kinds, op+"meta:"+k[3:])
		default:
			kinds = append(kinds, op+"other:"+k)
		}
	}
	for h, c := range seenBlk {
		if h == "idx" {
			continue
		}
		if c == 3 && seenBlk["idx"] >= 1 {
			kinds = append(kinds, "blk:"+h)
		} else {
			kinds = append(kinds, fmt.Sprintf("partial-blk:%s/%d", h, c))
		}
	}
	sort.Strings(kinds)
	return strings.Join(kinds, "+")
}

func pad8(b []byte) []byte {
	if len(b) >= 8 {
		return b
	}
	out := make([]byte, 8)
	copy(out, b)
	return out
}

// Height of the store.
func (e *Env) Height() uint64 {
	h, _ := e.Store.Height(context.Background())
	return h
}
