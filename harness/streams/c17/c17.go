// Package c17: stream `lazy` — the real AggregationLoop (lazy and normal mode) of a real
// block.Manager against the timer automaton of lean/Model/Lazy.lean, plus monitors for the clauses
// of C17 that do not use the model.
//
// op line   run mode=lazy|normal B=<ms> I=<ms> span=<ms> edge=<ms> dd=<ms> tol=<ms> script=<k:d:o1+o2,…|->
// the k-th production lasts d ms and NotifyNewTransactions() is called o ms after its start
// (inside the production when o < d).  Observation line = the model's admissible runs (all select
// resolutions), computed here by the Go port in model.go and by the Lean driver: the diff ties the
// port to the Lean model; the real loop's measured productions must match one admissible run
// within `tol` (reported through the monitor interface when they do not, after two re-runs).
package c17

import (
	"fmt"
	"io"
	"math"
	"sort"
	"strings"
	"sync"

	"verifharness/hx"
)

func init() { hx.Register("C17", hx.Stream{Gen: Gen, Run: Run}) }

const (
	sigKnownIdleShorter = "C17/rate/idle-interval-shorter-than-block-interval"
	rateTol             = 10.0 // ms: recorder timestamp vs the loop's own `start := time.Now()`
	parallel            = 8
	attempts            = 3
)

// ---------------------------------------------------------------- generator

func (sc *script) line() string {
	return fmt.Sprintf("run mode=%s B=%d I=%d span=%d edge=%d dd=%d tol=%d script=%s",
		sc.mode, sc.B, sc.I, sc.span, sc.edge, sc.dd, sc.tol, showScript(sc.prods))
}

func mk(mode string, b, i, span int, prods ...pspec) *script {
	return &script{mode: mode, B: b, I: i, span: span, edge: 60, dd: 10, tol: 30, prods: prods}
}

func shifted(sc *script, v int) *script {
	c := *sc
	c.prods = nil
	for _, p := range sc.prods {
		q := pspec{idx: p.idx, dur: p.dur}
		for _, o := range p.offs {
			if o >= p.dur {
				o += v
				if o < p.dur+1 {
					o = p.dur + 1
				}
			}
			q.offs = append(q.offs, o)
		}
		c.prods = append(c.prods, q)
	}
	return &c
}

// robust: one admissible run, and moving every out-of-production notification by ±m does not change
// the number of productions nor move any of them by more than m (so scheduler jitter cannot flip
// the outcome of the real run).
func robust(sc *script, m int) bool {
	c := cfg{block: sc.B, idle: sc.I, lazy: sc.mode == "lazy"}
	h := sc.span + sc.edge
	base := runsOf(c, sc, h)
	if len(base) != 1 {
		return false
	}
	for _, p := range sc.prods {
		if abs(p.dur-sc.B) < m || (sc.mode == "lazy" && abs(p.dur-sc.I) < m) {
			return false
		}
	}
	for _, p := range base[0] { // nothing right at the edge of the observation window
		if abs(p-sc.span) < sc.edge/2 {
			return false
		}
	}
	for _, v := range []int{-m, -m / 2, m / 2, m} {
		rs := runsOf(c, shifted(sc, v), h)
		if len(rs) != 1 || len(rs[0]) != len(base[0]) {
			return false
		}
		for i := range rs[0] {
			if abs(rs[0][i]-base[0][i]) > m {
				return false
			}
		}
	}
	return true
}

func abs(x int) int {
	if x < 0 {
		return -x
	}
	return x
}

func fixedScenarios() []*script {
	return []*script{
		mk("lazy", 100, 500, 2300),                                                        // idle chain
		mk("lazy", 100, 500, 2000, pspec{0, 70, []int{30}}),                                // notification inside a lazy-timer production
		mk("lazy", 100, 500, 2000, pspec{0, 10, []int{150}}, pspec{1, 70, []int{30}}),      // … inside a block-timer production
		mk("lazy", 200, 80, 1500),                                                         // idle < block (known finding)
		mk("lazy", 150, 60, 1400, pspec{1, 10, []int{40}}),                                 // idle < block with a notification
		mk("normal", 100, 500, 1800, pspec{0, 10, []int{30, 130}}, pspec{2, 10, []int{50}}), // normal mode ignores notifications
		mk("normal", 100, 500, 1800, pspec{1, 160, []int{20}}),                             // normal mode, production longer than the interval
		mk("lazy", 100, 500, 2000, pspec{0, 10, []int{100}}),                               // notification exactly on a block tick (two admissible runs)
		mk("lazy", 100, 500, 2000, pspec{0, 10, []int{350}}),                               // block timer keeps ticking without txs
		mk("lazy", 100, 500, 2200, pspec{0, 10, []int{150}}, pspec{1, 160, []int{50}}),     // production longer than the block interval
		mk("lazy", 100, 250, 2000, pspec{0, 300, []int{100}}),                              // production longer than both intervals
		mk("lazy", 100, 100, 1500, pspec{3, 10, []int{45}}),                                // idle = block
		mk("lazy", 100, 500, 2000, pspec{0, 10, []int{140, 145, 150, 155}}),                // burst: one slot
		mk("lazy", 100, 500, 2200, pspec{0, 10, []int{150}}, pspec{1, 10, []int{140}}, pspec{2, 70, []int{20, 50}}),
		withDD(mk("lazy", 100, 400, 2100), 130),  // idle chain whose productions all outlast the block interval
		withDD(mk("normal", 100, 500, 1700), 60), // normal mode: elapsed production time is deducted from the interval
		withDD(mk("lazy", 80, 300, 2000, pspec{1, 60, []int{100}}, pspec{3, 60, []int{20}}), 60),
	}
}

func withDD(sc *script, dd int) *script { sc.dd = dd; return sc }

var ratios = [][2]int{{100, 500}, {100, 250}, {100, 100}, {80, 400}, {120, 300}, {100, 300}, {200, 80}, {150, 60}, {90, 450}, {110, 165}}

func randomScenario(r *hx.Rng) *script {
	for try := 0; try < 40; try++ {
		bi := ratios[r.Intn(len(ratios))]
		mode := "lazy"
		if r.Chance(20) {
			mode = "normal"
		}
		sc := mk(mode, bi[0], bi[1], 1800+100*r.Intn(7))
		for k := 0; k < 6; k++ {
			if !r.Chance(45) {
				continue
			}
			var d int
			switch r.Intn(5) {
			case 0, 1:
				d = 5 + r.Intn(20)
			case 2:
				d = sc.B * (55 + r.Intn(10)) / 100
			case 3:
				d = sc.B * (150 + r.Intn(30)) / 100
			default:
				d = sc.I + 40 + r.Intn(40)
				if d > 400 {
					d = 5 + r.Intn(20)
				}
			}
			p := pspec{idx: k, dur: d}
			for j := r.Intn(3); j > 0; j-- {
				if d >= 40 && r.Bool() {
					p.offs = append(p.offs, 10+r.Intn(d-20))
				} else {
					p.offs = append(p.offs, d+20+r.Intn(sc.B*7/2))
				}
			}
			sort.Ints(p.offs)
			sc.prods = append(sc.prods, p)
		}
		if robust(sc, 30) {
			return sc
		}
	}
	return mk("lazy", 100, 500, 2000, pspec{0, 10, []int{150}})
}

func Gen(r *hx.Rng, tier string, w io.Writer) {
	n := 10
	if tier == "thorough" {
		n = 50
	}
	var scs []*script
	scs = append(scs, fixedScenarios()...)
	for i := 0; i < n; i++ {
		scs = append(scs, randomScenario(r))
	}
	for _, sc := range scs {
		fmt.Fprintln(w, "reset")
		fmt.Fprintln(w, sc.line())
	}
	// malformed ops (both sides must answer bad-op)
	fmt.Fprintln(w, "reset")
	fmt.Fprintln(w, "run mode=eager B=100 I=500 span=1000 edge=60 dd=10 tol=30 script=-")
	fmt.Fprintln(w, "run mode=lazy B=0 I=500 span=1000 edge=60 dd=10 tol=30 script=-")
	fmt.Fprintln(w, "run mode=lazy B=100 I=500 span=1000 edge=60 dd=10 tol=30 script=0:x:1")
	fmt.Fprintln(w, "produce now")
}

// ---------------------------------------------------------------- monitors

type finding struct{ sig, what string }

func parseRun(o hx.Op) (*script, bool) {
	sc := &script{mode: o.Str("mode"), raw: o.Raw}
	sc.B, _ = parseNat(o.Str("B"))
	sc.I, _ = parseNat(o.Str("I"))
	sc.span, _ = parseNat(o.Str("span"))
	sc.edge, _ = parseNat(o.Str("edge"))
	sc.dd, _ = parseNat(o.Str("dd"))
	sc.tol, _ = parseNat(o.Str("tol"))
	if sc.tol == 0 {
		sc.tol = 30
	}
	ps, ok := parseScript(o.Str("script"))
	if !ok {
		return nil, false
	}
	sc.prods = ps
	if (sc.mode != "lazy" && sc.mode != "normal") || sc.B == 0 || sc.I == 0 || sc.span == 0 || sc.span+sc.edge > 30000 {
		return nil, false
	}
	return sc, true
}

func fmtF(l []float64) string {
	parts := make([]string, len(l))
	for i, x := range l {
		parts[i] = fmt.Sprintf("%.0f", x)
	}
	return strings.Join(parts, ",")
}

// matchRun: does the measured run agree with the admissible run r (gaps within tol, count within the edge)?
func matchRun(sc *script, tol float64, starts []float64, stopMs float64, r []int) (bool, string) {
	n := len(starts)
	if n > len(r) {
		return false, fmt.Sprintf("%d productions, the model admits at most %d", n, len(r))
	}
	if n == 0 {
		if len(r) > 0 && stopMs > 3*tol {
			return false, "no production at all, the model says the first one starts at 0"
		}
		return true, ""
	}
	if starts[0] > 3*tol {
		return false, fmt.Sprintf("first production %.0f ms after the loop started, the model says 0", starts[0])
	}
	for i := 1; i < n; i++ {
		gm := starts[i] - starts[i-1]
		gr := float64(r[i] - r[i-1])
		if math.Abs(gm-gr) > tol {
			return false, fmt.Sprintf("production %d started %.0f ms after production %d, the model says %.0f ms", i, gm, i-1, gr)
		}
	}
	// the run was cancelled at stopMs: was the model's next production overdue by then?  (compared
	// relative to the last measured production, so that accumulated timer lateness does not count)
	if n < len(r) && r[n] < sc.span {
		waited := stopMs - starts[n-1]
		gr := float64(r[n] - r[n-1])
		if waited > gr+tol+float64(sc.edge) {
			return false, fmt.Sprintf("%d productions; %.0f ms after the last one no further production had started, the model says %.0f ms", n, waited, gr)
		}
	}
	return true, ""
}

func evaluate(sc *script, ms measurement, runs [][]int) []finding {
	var out []finding
	add := func(sig, what string) {
		for _, f := range out {
			if f.sig == sig {
				return
			}
		}
		out = append(out, finding{sig, what + " [" + sc.line() + "; measured starts(ms)=" + fmtF(ms.starts) + fmt.Sprintf("; scheduler noise %.0f ms", ms.noise) + "]"})
	}
	if ms.panicked != "" {
		add("C17/panic/aggregation-loop", "AggregationLoop panicked: "+ms.panicked)
		return out
	}
	if ms.loopErr != "" {
		add("C17/loop/returned-error", "AggregationLoop reported "+ms.loopErr)
	}
	// tolerances widen with the scheduler noise measured during this very run (a loaded machine wakes
	// timers late; it never makes the loop early by more than the lateness of the preceding event)
	B, I, tol := float64(sc.B), float64(sc.I), float64(sc.tol)+2*ms.noise
	rateTol := rateTol + 2*ms.noise
	lazy := sc.mode == "lazy"
	// productions started before the cancellation
	var starts, ends []float64
	for i, s := range ms.starts {
		if s <= ms.stopMs {
			starts = append(starts, s)
			ends = append(ends, ms.ends[i])
		}
	}
	n := len(starts)

	// (0) correspondence with the model: some admissible run matches
	okAny, why := false, ""
	for i, r := range runs {
		ok, w := matchRun(sc, tol, starts, ms.stopMs, r)
		if ok {
			okAny = true
			break
		}
		if i == 0 {
			why = w
		}
	}
	if !okAny {
		var rs []string
		for i, r := range runs {
			if i < 3 {
				rs = append(rs, natList(r))
			}
		}
		add("C17/model/real-loop-outside-admissible-runs", "the real loop's productions match none of the model's admissible runs ("+why+"); model runs: "+strings.Join(rs, " | "))
	}

	// (1) no lost wake-up (lazy mode): every notification is followed by a production start within
	//     one block interval after max(notification, end of the production in flight)
	if lazy {
		for _, nf := range ms.notifs {
			base, after, inflight := nf.at, -1, false
			skip := false
			for k := 0; k < n; k++ {
				if starts[k] <= nf.at && (ends[k] < 0 || nf.at <= ends[k]) {
					if ends[k] < 0 {
						skip = true // still in flight when the run was cancelled
					}
					base, after, inflight = math.Max(nf.at, ends[k]), k, true
				}
			}
			deadline := base + B + tol
			if skip || deadline > ms.stopMs-5 {
				continue
			}
			served := false
			for k := 0; k < n; k++ {
				if k > after && starts[k] >= nf.at && starts[k] <= deadline {
					served = true
				}
			}
			if !served {
				if inflight {
					add("C17/lost-wakeup/notification-during-production", fmt.Sprintf("NotifyNewTransactions at %.0f ms, during production %d (ended %.0f ms): no further production started by %.0f ms", nf.at, after, ends[after], deadline))
				} else {
					add("C17/lost-wakeup/notification-while-waiting", fmt.Sprintf("NotifyNewTransactions at %.0f ms: no production started by %.0f ms", nf.at, deadline))
				}
			}
		}
	}

	// (2) rate: never faster than one per block interval
	for i := 1; i < n; i++ {
		gap := starts[i] - starts[i-1]
		switch {
		case !lazy:
			if gap < B-rateTol {
				add("C17/normal/faster-than-block-interval", fmt.Sprintf("normal mode: productions %d and %d are %.0f ms apart, block interval %d ms", i-1, i, gap, sc.B))
			}
		case gap < math.Min(B, I)-rateTol:
			add("C17/rate/faster-than-block-interval", fmt.Sprintf("productions %d and %d are %.0f ms apart, block interval %d ms, idle interval %d ms", i-1, i, gap, sc.B, sc.I))
		case gap < B-rateTol:
			// only reachable when idle < block: the lazy timer alone is re-armed every idle interval
			add(sigKnownIdleShorter, fmt.Sprintf("productions %d and %d are %.0f ms apart although the block interval is %d ms (idle interval %d ms)", i-1, i, gap, sc.B, sc.I))
		}
	}

	// (3) idle chain / normal cadence: after each production the next one starts within the idle
	//     (normal mode: block) interval, or right after it when it took longer
	iv, sig := I, "C17/idle/no-block-within-idle-interval"
	if !lazy {
		iv, sig = B, "C17/normal/no-block-within-block-interval"
	}
	for k := 0; k < n; k++ {
		if ends[k] < 0 {
			continue
		}
		deadline := math.Max(starts[k]+iv, ends[k]) + tol
		if deadline > ms.stopMs-5 {
			continue
		}
		if !(k+1 < n && starts[k+1] <= deadline) {
			add(sig, fmt.Sprintf("production %d started at %.0f ms (ended %.0f ms): no production started by %.0f ms", k, starts[k], ends[k], deadline))
		}
	}
	// (3b) a loop that was never notified produces exactly one block per idle interval
	if lazy && len(ms.notifs) == 0 && !sc.hasNotifs() {
		for i := 1; i < n; i++ {
			if gap := starts[i] - starts[i-1]; gap < I-rateTol {
				add("C17/idle/more-than-one-block-per-idle-interval", fmt.Sprintf("no notification was ever sent, yet productions %d and %d are %.0f ms apart (idle interval %d ms)", i-1, i, gap, sc.I))
			}
		}
	}
	return out
}

// ---------------------------------------------------------------- run

type job struct {
	scenario int
	ops      []string
	sc       *script
	runs     [][]int
	findings []finding
	noise    float64
}

func attempt(j *job) []finding {
	ms, err := runReal(j.sc)
	if err != nil {
		return []finding{{"C17/setup/new-manager-failed", err.Error()}}
	}
	if ms.noise > j.noise {
		j.noise = ms.noise
	}
	return evaluate(j.sc, ms, j.runs)
}

func needsRetry(fs []finding) bool {
	for _, f := range fs {
		if f.sig != sigKnownIdleShorter { // deterministic on idle < block: no point in re-running
			return true
		}
	}
	return false
}

func intersect(a, b []finding) []finding {
	var out []finding
	for _, x := range a {
		for _, y := range b {
			if x.sig == y.sig {
				out = append(out, x)
				break
			}
		}
	}
	return out
}

func Run(c *hx.Ctx) {
	type line struct {
		out string
		j   *job
	}
	var lines []line
	var jobs []*job
	scenario := -1
	resetLine := "reset"
	for {
		o, ok := c.Next()
		if !ok {
			break
		}
		switch o.Verb {
		case "reset":
			scenario++
			resetLine = o.Raw
			lines = append(lines, line{out: "ok"})
		case "run":
			sc, ok := parseRun(o)
			if !ok {
				lines = append(lines, line{out: "bad-op"})
				c.Hit("bad-op")
				continue
			}
			ml, runs := modelLine(sc)
			j := &job{scenario: scenario, ops: []string{resetLine, o.Raw}, sc: sc, runs: runs}
			if scenario < 0 {
				j.scenario, j.ops = 0, []string{o.Raw}
			}
			jobs = append(jobs, j)
			lines = append(lines, line{out: ml, j: j})
			c.Hit("mode/" + sc.mode)
			switch {
			case sc.I < sc.B:
				c.Hit("ratio/idle<block")
			case sc.I == sc.B:
				c.Hit("ratio/idle=block")
			default:
				c.Hit("ratio/idle>block")
			}
			if len(runs) > 1 {
				c.Hit("select-tie")
			}
			for _, p := range sc.prods {
				for _, off := range p.offs {
					if off < p.dur {
						c.Hit("notify/in-flight")
					} else {
						c.Hit("notify/waiting")
					}
				}
				if p.dur >= sc.B {
					c.Hit("production/longer-than-block-interval")
				}
			}
		default:
			lines = append(lines, line{out: "bad-op"})
			c.Hit("bad-op")
		}
	}

	// first attempt of every timing scenario, `parallel` at a time
	sem := make(chan struct{}, parallel)
	var wg sync.WaitGroup
	for _, j := range jobs {
		wg.Add(1)
		sem <- struct{}{}
		go func(j *job) {
			defer wg.Done()
			defer func() { <-sem }()
			j.findings = attempt(j)
		}(j)
	}
	wg.Wait()
	// a scenario with a finding is re-run alone (scheduler noise filter): a signature is reported
	// only when every attempt shows it
	for _, j := range jobs {
		for a := 1; a < attempts && needsRetry(j.findings); a++ {
			c.Hit("retry")
			first := j.findings
			j.findings = intersect(attempt(j), first)
			for _, f := range first {
				c.St.Notes = append(c.St.Notes, fmt.Sprintf("attempt %d of scenario %d: %s — %s", a, j.scenario, f.sig, f.what))
			}
		}
		if j.noise > 15 {
			c.Hit("noisy-run(>15ms timer lateness)")
		}
		seen := map[string]bool{}
		for _, f := range j.findings {
			if seen[f.sig] {
				continue
			}
			seen[f.sig] = true
			c.St.Findings = append(c.St.Findings, hx.Finding{Signature: f.sig, What: f.what, Scenario: j.scenario, Ops: j.ops})
		}
	}
	if c.St.Findings == nil {
		c.St.Findings = []hx.Finding{} // "findings": [] rather than null in the stats file
	}
	for _, l := range lines {
		c.Emit("%s", l.out)
	}
}
