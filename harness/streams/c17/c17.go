// Package c17: stream `lazy` — the real AggregationLoop (lazy and normal mode) of a real
// block.Manager against the timer automaton of lean/Model/Lazy.lean, plus monitors for the clauses
// of C17 that do not use the model.
//
// op line   run mode=lazy|normal B=<ms> I=<ms> span=<ms> dd=<ms> tol=<ms> jit=<ms> upto=<M> script=<k:d:o1+o2:p1+p2,…|->
// the k-th production lasts d ms; NotifyNewTransactions() is called o ms after its start (inside the
// production when o < d) and a probe (a pure time marker) is recorded p ms after its start — both
// from goroutines of their own, as the reaper does.
//
// Start-up wait of AggregationLoop: `… since=<ms> via=last|genesis sn=<o1+o2|-> sp=<p1+p2|->` — the clock of
// the scenario starts at the reference instant of the wait (via=last: the time of a REAL block in the
// store the Manager is re-opened on = a restart right after a block; via=genesis: genesis time, empty
// store), AggregationLoop is called `since` ms later, NotifyNewTransactions() o ms after that call for
// every o of sn (token w<j>), probes p ms after it (token q<j>).  Without `since`: no wait, as before.
//
// Observation line: `outs=` the ORDER of the first `upto` events the REAL loop went through
// (production starts with the select case that caused them, production ends, notifications, probes).
// It is compared with the Lean driver's set of admissible outcomes (all select resolutions, all
// interleavings of one instant, delivery of every notification/probe anywhere within `jit` ms of its
// scripted time): when the set has one element the line is the real loop's own order and must be
// the same text as the driver's; when it has several (near-tie scenario) the real order must be a
// member.  `runs=` are the production start times of the admissible runs (model only; the Go port of
// model.go is thereby diffed against Lean); the measured production times are matched against them
// within a tolerance by the timing monitor.
package c17

import (
	"fmt"
	"io"
	"math"
	"os"
	"sort"
	"strings"
	"sync"

	"verifharness/hx"
)

func init() { hx.Register("C17", hx.Stream{Gen: Gen, Run: Run}) }

const (
	sigKnownIdleShorter = "C17/rate/idle-interval-shorter-than-block-interval"
	sigKnownLongFlight  = "C17/notify/later-than-one-block-interval/production-in-flight-longer-than-block-interval"
	sigKnownRefused     = "C17/lost-wakeup/notification-consumed-by-refused-production"
	sigLateNotify       = "C17/notify/later-than-one-block-interval/other"
	sigLateBlockTimer   = "C17/notify/block-timer-production-late"
	sigOrder            = "C17/model/real-order-outside-admissible-outcomes"
	sigTiming           = "C17/model/real-loop-outside-admissible-runs"
	sigEarlyStartNotif  = "C17/rate/first-block-after-start-too-early/notification-during-the-start-up-wait"
	sigEarlyStartOther  = "C17/rate/first-block-after-start-too-early/other"
	sigLostStartNotif   = "C17/lost-wakeup/notification-during-the-start-up-wait"

	rateTol  = 10.0 // ms: recorder timestamp vs the loop's own `start := time.Now()`
	parallel = 8
	jit0     = 30       // ms: the admissible outcomes are computed for deliveries within ±jit0 of the scripted instant …
	sep      = 2 * jit0 // … and a scenario is only used when ±sep gives the same set
	noiseCap = 20.0     // ms: an attempt with more scheduler noise than this is re-run instead of counted

	cleanNeeded = 3 // attempts with noise ≤ noiseCap that decide a signature …
	showsNeeded = 2 // … which is reported when this many of them show it
	maxAttempts = 5
)

// ---------------------------------------------------------------- generator

func (sc *script) line() string {
	l := fmt.Sprintf("run mode=%s B=%d I=%d span=%d dd=%d tol=%d jit=%d upto=%d script=%s",
		sc.mode, sc.B, sc.I, sc.span, sc.dd, sc.tol, sc.jit, sc.upto, showScript(sc.prods))
	if sc.since >= 0 {
		l += fmt.Sprintf(" since=%d via=%s sn=%s sp=%s", sc.since, sc.via, showOffs(sc.sn), showOffs(sc.sp))
	}
	return l
}

func mk(mode string, b, i, span int, prods ...pspec) *script {
	return &script{mode: mode, B: b, I: i, span: span, dd: 10, tol: 30, prods: prods, since: -1}
}

// mkStart: AggregationLoop is (re)started `since` ms after the last block (via "last": a real block in the
// store the new Manager is opened on) or after genesis time (via "genesis": nothing produced yet), and
// NotifyNewTransactions is called sn[i] ms after the (re)start.
func mkStart(mode string, b, i, span int, via string, since int, sn []int, prods ...pspec) *script {
	sc := mk(mode, b, i, span, prods...)
	sc.since, sc.via, sc.sn = since, via, sn
	return sc
}

func pr(k, d int, offs ...int) pspec { return pspec{idx: k, dur: d, offs: offs} }

// prR: the k-th production is refused (publishBlock returns at once without producing, as at the pending limit)
func prR(k int, offs ...int) pspec { return pspec{idx: k, refused: true, offs: offs} }

func withDD(sc *script, dd int) *script { sc.dd = dd; return sc }

func abs(x int) int {
	if x < 0 {
		return -x
	}
	return x
}

func (sc *script) addProbe(k, o int) {
	if p := sc.spec(k); p != nil {
		p.probes = append(p.probes, o)
		sort.Ints(p.probes)
		return
	}
	sc.prods = append(sc.prods, pspec{idx: k, dur: sc.dd, probes: []int{o}})
	sort.SliceStable(sc.prods, func(a, b int) bool { return sc.prods[a].idx < sc.prods[b].idx })
}

func equalStrs(a, b []string) bool {
	if len(a) != len(b) {
		return false
	}
	for i := range a {
		if a[i] != b[i] {
			return false
		}
	}
	return true
}

// finalize completes a scenario (durations and notifications given): probes on both sides of every
// production start (they put the time of the production into the order of events), the number of
// events to compare, and the check that the scenario is usable — the set of admissible outcomes does
// not change when every delivery may move by ±sep instead of ±jit0 (nothing else is within reach of
// scheduler jitter; second chance: ±sep and ±(sep+jit0)) and no near-tie of the two timers with a
// notification pending.  Scenarios with ties are NOT dropped: a tie simply means that the set has more
// than one element.
func finalize(sc *script) bool {
	sc.frontierCap = 300
	defer func() { sc.frontierCap = 0 }()
	sc.jit, sc.upto, sc.guard = 0, 1<<20, 0
	base := finals(sc.cfg(), sc, sc.span)
	if len(base) == 0 || len(base) > 64 {
		return false
	}
	type pt struct{ k, o int }
	var acc []pt
	// at: the instant of an event scripted o ms after production k's start (k = -1: after the call of AggregationLoop)
	at := func(x sim, k, o int) int {
		if k < 0 {
			return sc.since + o
		}
		return x.starts[k] + o
	}
	probeOK := func(k, o int) bool {
		for _, x := range base {
			if k >= len(x.starts) {
				continue
			}
			t := at(x, k, o)
			if t > sc.span-150 {
				return false
			}
			for i, tau := range x.ttimes {
				need := sep + 20 // a production start or end: only the probe moves
				if c := x.toks[i][0]; c == 'n' || c == 'p' {
					need = 2*sep + 10 // both move
				}
				if abs(t-tau) < need {
					return false
				}
			}
			for _, a := range acc {
				if a.k < len(x.starts) && abs(t-at(x, a.k, a.o)) < 2*sep+10 {
					return false
				}
			}
		}
		return true
	}
	ref := base[0]
	if sc.since >= 0 && len(ref.starts) > 0 && len(sc.sp) == 0 {
		// probes on both sides of the FIRST production: they put the end of the start-up wait into the order of events
		for _, o := range []int{ref.starts[0] - sc.since - 90, ref.starts[0] - sc.since + 90} {
			if o >= sep+20 && probeOK(-1, o) {
				acc = append(acc, pt{-1, o})
			}
		}
	}
	for k := 0; k+1 < len(ref.starts); k++ {
		g := ref.starts[k+1] - ref.starts[k]
		for _, o := range []int{g - 90, g + 90} {
			if o >= sep+20 && probeOK(k, o) {
				acc = append(acc, pt{k, o})
			}
		}
	}
	for _, a := range acc {
		if a.k < 0 {
			sc.sp = append(sc.sp, a.o)
			sort.Ints(sc.sp)
			continue
		}
		sc.addProbe(a.k, a.o)
	}
	withP := finals(sc.cfg(), sc, sc.span)
	if len(withP) == 0 {
		return false
	}
	slack := 250 + sc.span/10
	m := -1
	for _, x := range withP {
		n := 0
		for _, t := range x.ttimes {
			if t <= sc.span-slack {
				n++
			}
		}
		if m < 0 || n < m {
			m = n
		}
	}
	if m < 4 {
		return false
	}
	sc.upto = m
	// usable with deliveries anywhere within ±jit0 if ±sep gives the same set; a scenario with something
	// between jit0 and sep away from a threshold gets a second chance with ±sep / ±(sep+jit0)
	for _, jj := range [][2]int{{jit0, sep}, {sep, sep + jit0}} {
		sc.jit, sc.guard = jj[0], jj[1]
		p1 := predict(sc)
		sc.jit = jj[1]
		p2 := predict(sc)
		sc.jit, sc.guard = jj[0], 0
		if os.Getenv("C17_DEBUG") != "" {
			fmt.Fprintf(os.Stderr, "finalize %s\n  flags=%d/%d\n  outs(%d)=%v\n  outs(%d)=%v\n", sc.line(), p1.flags, p2.flags, jj[0], p1.outs, jj[1], p2.outs)
		}
		if p1.flags == 0 && p2.flags == 0 && len(p1.outs) > 0 && len(p1.outs) <= 40 && equalStrs(p1.outs, p2.outs) {
			return true
		}
	}
	return false
}

func fixedScenarios() []*script {
	return []*script{
		mk("lazy", 200, 1000, 4700),                                        // idle chain
		mk("lazy", 200, 1000, 3400, pr(0, 140, 40)),                        // notification inside a lazy-timer production
		mk("lazy", 200, 1000, 3400, pr(0, 10, 300), pr(1, 140, 40)),        // … inside a block-timer production
		mk("lazy", 400, 160, 1900),                                         // idle < block (known finding: the idle timer alone)
		mk("lazy", 400, 160, 1900, pr(1, 10, 80)),                          // idle < block with a notification
		mk("normal", 200, 1000, 2600, pr(0, 10, 100, 300), pr(2, 10, 100)), // normal mode ignores notifications
		mk("normal", 200, 1000, 2600, pr(1, 330, 40)),                      // normal mode, production longer than the interval
		mk("lazy", 200, 1000, 3400, pr(0, 10, 200)),                        // TIE: notification exactly on a block tick
		mk("lazy", 200, 1000, 3400, pr(0, 10, 700)),                        // block timer keeps ticking without txs
		mk("lazy", 200, 1000, 3600, pr(0, 10, 300), pr(1, 400, 60)),        // in-flight production longer than the block interval (known finding by the letter)
		mk("lazy", 200, 500, 3000, pr(0, 600, 200)),                        // TIE: production longer than both intervals, both timers re-armed to 1 ms
		mk("lazy", 200, 200, 2200, pr(3, 10, 100)),                         // idle = block: the two timers tie on every tick
		mk("lazy", 200, 1000, 3400, pr(0, 10, 285, 300, 315)),              // burst on the one-slot channel
		mk("lazy", 200, 1000, 3800, pr(0, 10, 300), pr(1, 10, 300), pr(2, 140, 40, 70)),
		withDD(mk("lazy", 200, 800, 4000), 270),    // idle chain whose productions all outlast the block interval
		withDD(mk("normal", 200, 1000, 2400), 120), // normal mode: elapsed production time is deducted from the interval
		withDD(mk("lazy", 200, 700, 3600, pr(1, 120, 300), pr(3, 120, 40)), 120),
		mk("lazy", 200, 1000, 3600, pr(0, 10, 900)),                 // TIE: lazy and block timer expire together with a notification pending
		mk("lazy", 200, 1000, 3400, pr(0, 100, 100)),                // TIE: notification exactly at the end of a production
		mk("lazy", 200, 1000, 3400, pr(0, 10, 195)),                 // NEAR-TIE: notification 5 ms before a block tick
		mk("lazy", 240, 840, 3600, pr(0, 10, 600), pr(1, 150, 143)), // NEAR-TIE: notification 7 ms before the end of a production
		mk("lazy", 200, 1000, 3600, pr(0, 10, 300), prR(1)),         // the block-timer production that serves the notification is refused (known finding: the wake-up is consumed)
		mk("lazy", 200, 1000, 3800, pr(0, 10, 300), prR(1, 300)),    // … and a second notification after the refusal gets its block
	}
}

// startScenarios: the loop is (re)started inside / after the block interval that follows the last block
// (or genesis time), with 0, 1 or several notifications during the remaining wait.  Block intervals of
// 500-600 ms: the remaining wait is 350-480 ms, a notification in its first half is > 200 ms away from
// the instant the first block is due.
func startScenarios() []*script {
	return []*script{
		mkStart("lazy", 500, 1500, 2300, "last", 120, []int{100}),                 // restart right after a block, ONE notification during the wait
		mkStart("normal", 500, 1500, 1900, "last", 120, []int{100}),               // … normal mode: the notification changes nothing
		mkStart("lazy", 600, 1500, 2500, "genesis", 150, []int{40, 200}),          // first start before genesis time + block interval, two notifications (one slot)
		mkStart("normal", 600, 1500, 2100, "genesis", 120, nil),                   // no notification: the wait alone
		mkStart("lazy", 500, 1200, 2400, "last", 150, nil),                        // lazy, no notification: first block at last + block interval, then the idle chain
		mkStart("lazy", 500, 1500, 2500, "last", 700, []int{150}),                 // restarted later than one block interval after the last block: no wait
		mkStart("lazy", 500, 1500, 2300, "last", 120, []int{530}),                 // control: the notification arrives after the wait
		mkStart("normal", 700, 1500, 2500, "last", 100, []int{40, 170, 300}),      // burst during the wait, normal mode
		mkStart("lazy", 600, 1500, 2700, "genesis", 100, []int{150}, pr(0, 250, 60)), // notified during the wait and again inside the first production
	}
}

func randomStart(r *hx.Rng, soak bool) *script {
	for try := 0; try < 60; try++ {
		b := []int{400, 500, 600, 800}[r.Intn(4)]
		if soak {
			b = []int{1200, 1600, 2000}[r.Intn(3)]
		}
		mode, via := "lazy", "last"
		if r.Chance(40) {
			mode = "normal"
		}
		if r.Chance(35) {
			via = "genesis"
		}
		i := b * []int{2, 3, 1}[r.Intn(3)]
		since := 100 + r.Intn(b-340)
		if r.Chance(10) {
			since = b + 50 + r.Intn(200) // no wait
		}
		var sn []int
		if room := b - since - 230; room > 40 {
			o := 30 + r.Intn(60)
			for j := r.Intn(5) % 4; j > 0 && o < room; j-- {
				sn = append(sn, o)
				o += 135 + r.Intn(80)
			}
		}
		span := 3*b + 700
		if span < 2*b+i+300 && i <= 1600 {
			span = 2*b + i + 300
		}
		var prods []pspec
		if r.Chance(40) {
			d := b * (30 + r.Intn(40)) / 100
			prods = append(prods, pr(0, d, 20+r.Intn(d-30)))
		}
		sc := mkStart(mode, b, i, span, via, since, sn, prods...)
		if finalize(sc) {
			return sc
		}
	}
	sc := mkStart("lazy", 500, 1500, 2300, "last", 120, []int{100})
	finalize(sc)
	return sc
}

var ratios = [][2]int{{200, 1000}, {200, 500}, {200, 200}, {240, 840}, {300, 750}, {200, 600}, {400, 160}, {450, 180}, {220, 330}, {200, 800}}

func randomBase(r *hx.Rng) *script {
	bi := ratios[r.Intn(len(ratios))]
	mode := "lazy"
	if r.Chance(20) {
		mode = "normal"
	}
	span := 3*bi[1] + 900
	if span < 2400 {
		span = 2400
	}
	if span > 4400 {
		span = 4400
	}
	sc := mk(mode, bi[0], bi[1], span+100*r.Intn(4))
	for k := 0; k < 6; k++ {
		if !r.Chance(45) {
			continue
		}
		var d int
		refused := false
		switch r.Intn(5) {
		case 0, 1:
			d = 5 + r.Intn(20)
			if r.Chance(20) {
				d, refused = 0, true
			}
		case 2:
			d = sc.B * (55 + r.Intn(10)) / 100
		case 3:
			d = sc.B * (150 + r.Intn(30)) / 100
		default:
			d = sc.I + 80 + r.Intn(80)
			if d > 700 {
				d = 5 + r.Intn(20)
			}
		}
		p := pspec{idx: k, dur: d, refused: refused}
		for j := r.Intn(3); j > 0; j-- {
			if d >= 150 && r.Bool() {
				p.offs = append(p.offs, 10+r.Intn(d-80)) // during the production
			} else {
				// while the loop is waiting: somewhere in the middle between two expiries of the timer
				// that ticks (a notification next to a tick is what snapToTie makes)
				iv, first := sc.B, 0
				if mode == "lazy" && sc.I < iv {
					iv = sc.I
				}
				if d >= iv {
					first = d + 1
				}
				o := first + r.Intn(4)*iv + 75 + r.Intn(iv-149)
				if o < d+70 {
					o += iv
				}
				p.offs = append(p.offs, o)
			}
		}
		sort.Ints(p.offs)
		sc.prods = append(sc.prods, p)
	}
	return sc
}

// snapToTie moves one waiting notification onto (or a few ms next to) an instant at which a timer
// case runs or a production ends.
func snapToTie(r *hx.Rng, sc *script) {
	sc.jit, sc.upto, sc.guard, sc.frontierCap = 0, 1<<20, 0, 300
	base := finals(sc.cfg(), sc, sc.span)
	sc.frontierCap = 0
	if len(base) == 0 {
		return
	}
	x := base[0]
	var cands [][2]int // (index in prods, index in offs)
	for i, p := range sc.prods {
		for j, o := range p.offs {
			if o >= p.dur && p.idx < len(x.starts) {
				cands = append(cands, [2]int{i, j})
			}
		}
	}
	if len(cands) == 0 {
		return
	}
	c := cands[r.Intn(len(cands))]
	p := &sc.prods[c[0]]
	at := x.starts[p.idx] + p.offs[c[1]]
	best := -1
	for _, t := range x.thr {
		if t > x.starts[p.idx]+p.dur && (best < 0 || abs(t-at) < abs(best-at)) {
			best = t
		}
	}
	if best < 0 {
		return
	}
	o := best - x.starts[p.idx] + []int{0, 0, -4, 4, -9, 9}[r.Intn(6)]
	if o > p.dur {
		p.offs[c[1]] = o
		sort.Ints(p.offs)
	}
}

func randomScenario(r *hx.Rng, tie bool) *script {
	for try := 0; try < 60; try++ {
		sc := randomBase(r)
		if tie {
			snapToTie(r, sc)
		}
		if finalize(sc) {
			return sc
		}
	}
	sc := mk("lazy", 200, 1000, 3400, pr(0, 10, 300))
	finalize(sc)
	return sc
}

func Gen(r *hx.Rng, tier string, w io.Writer) {
	n := 8
	if tier == "thorough" {
		n = 40
	}
	var scs []*script
	for _, sc := range fixedScenarios() {
		if !finalize(sc) {
			panic("c17: fixed scenario is not stable under jitter: " + sc.line())
		}
		scs = append(scs, sc)
	}
	for i := 0; i < n; i++ {
		scs = append(scs, randomScenario(r, i%3 == 2))
	}
	for _, sc := range startScenarios() {
		if !finalize(sc) {
			panic("c17: fixed start-up scenario is not stable under jitter: " + sc.line())
		}
		scs = append(scs, sc)
	}
	ns := 2
	if tier == "thorough" {
		ns = 12
	}
	for i := 0; i < ns; i++ {
		scs = append(scs, randomStart(r, tier == "thorough" && i%4 == 3))
	}
	for _, sc := range scs {
		fmt.Fprintln(w, "reset")
		fmt.Fprintln(w, sc.line())
	}
	// malformed ops (both sides must answer bad-op)
	fmt.Fprintln(w, "reset")
	fmt.Fprintln(w, "run mode=eager B=200 I=1000 span=1000 dd=10 tol=30 jit=30 upto=5 script=-")
	fmt.Fprintln(w, "run mode=lazy B=0 I=1000 span=1000 dd=10 tol=30 jit=30 upto=5 script=-")
	fmt.Fprintln(w, "run mode=lazy B=200 I=1000 span=1000 dd=10 tol=30 jit=30 upto=5 script=0:x:1")
	fmt.Fprintln(w, "run mode=lazy B=200 I=1000 span=1000 dd=10 tol=30 jit=30 script=-")
	fmt.Fprintln(w, "run mode=lazy B=500 I=1500 span=1000 dd=10 tol=30 jit=30 upto=5 script=- since=x via=last sn=- sp=-")
	fmt.Fprintln(w, "run mode=lazy B=500 I=1500 span=1000 dd=10 tol=30 jit=30 upto=5 script=- since=100 via=sideways sn=- sp=-")
	fmt.Fprintln(w, "produce now")
}

// ---------------------------------------------------------------- monitors

type finding struct{ sig, what string }

func parseRun(o hx.Op) (*script, bool) {
	sc := &script{mode: o.Str("mode"), raw: o.Raw, since: -1}
	if o.Has("since") {
		n, ok := parseNat(o.Str("since"))
		sc.via = o.Str("via")
		if !ok || n > 30000 || (sc.via != "genesis" && sc.via != "last") {
			return nil, false
		}
		sc.since, sc.sn, sc.sp = n, parseOffs(o.Str("sn")), parseOffs(o.Str("sp"))
	}
	sc.B, _ = parseNat(o.Str("B"))
	sc.I, _ = parseNat(o.Str("I"))
	sc.span, _ = parseNat(o.Str("span"))
	sc.dd, _ = parseNat(o.Str("dd"))
	sc.tol, _ = parseNat(o.Str("tol"))
	sc.jit, _ = parseNat(o.Str("jit"))
	sc.upto, _ = parseNat(o.Str("upto"))
	if sc.tol == 0 {
		sc.tol = 30
	}
	ps, ok := parseScript(o.Str("script"))
	if !ok {
		return nil, false
	}
	sc.prods = ps
	if (sc.mode != "lazy" && sc.mode != "normal") || sc.B == 0 || sc.I == 0 || sc.span == 0 || sc.span > 30000 || sc.upto == 0 || sc.jit > 500 {
		return nil, false
	}
	return sc, true
}

func fmtF(l []float64) string {
	parts := make([]string, len(l))
	for i, x := range l {
		parts[i] = fmt.Sprintf("%.0f", x)
	}
	return strings.Join(parts, ",")
}

// matchRun: does the measured run agree with the admissible run r (gaps within tol, nothing overdue)?
func matchRun(tol float64, starts []float64, stopMs float64, r []int) (bool, string) {
	n := len(starts)
	if n > len(r) {
		return false, fmt.Sprintf("%d productions, the model admits at most %d", n, len(r))
	}
	if n == 0 {
		if len(r) > 0 && stopMs > float64(r[0])+3*tol {
			return false, fmt.Sprintf("no production at all, the model says the first one starts at %d", r[0])
		}
		return true, ""
	}
	if starts[0] > float64(r[0])+3*tol || starts[0] < float64(r[0])-tol {
		return false, fmt.Sprintf("first production at %.0f ms, the model says %d", starts[0], r[0])
	}
	for i := 1; i < n; i++ {
		gm := starts[i] - starts[i-1]
		gr := float64(r[i] - r[i-1])
		if math.Abs(gm-gr) > tol {
			return false, fmt.Sprintf("production %d started %.0f ms after production %d, the model says %.0f ms", i, gm, i-1, gr)
		}
	}
	// the run was cancelled at stopMs: was the model's next production overdue by then?  (compared
	// relative to the last measured production, so that accumulated timer lateness does not count)
	if n < len(r) {
		waited := stopMs - starts[n-1]
		gr := float64(r[n] - r[n-1])
		if waited > gr+tol+sep {
			return false, fmt.Sprintf("%d productions; %.0f ms after the last one no further production had started, the model says %.0f ms", n, waited, gr)
		}
	}
	return true, ""
}

func contains(l []string, s string) bool {
	for _, x := range l {
		if x == s {
			return true
		}
	}
	return false
}

func evaluate(sc *script, ms measurement, pred prediction) []finding {
	var out []finding
	lazy := sc.mode == "lazy"
	real := ms.outcome(lazy, sc.upto)
	add := func(sig, what string) {
		for _, f := range out {
			if f.sig == sig {
				return
			}
		}
		out = append(out, finding{sig, what + " [" + sc.line() + "; measured starts(ms)=" + fmtF(ms.starts) + "; order=" + real + fmt.Sprintf("; scheduler noise %.0f ms", ms.noise) + "]"})
	}
	if ms.panicked != "" {
		add("C17/panic/aggregation-loop", "AggregationLoop panicked: "+ms.panicked)
		return out
	}
	if ms.loopErr != "" {
		add("C17/loop/returned-error", "AggregationLoop reported "+ms.loopErr)
	}
	// tolerances widen with the scheduler noise measured during this very run (a loaded machine wakes
	// timers late; it never makes the loop early by more than the lateness of the preceding event);
	// an attempt whose noise exceeds noiseCap is not counted (see Run)
	B, I, tol := float64(sc.B), float64(sc.I), float64(sc.tol)+2*ms.noise
	rateTol := rateTol + 2*ms.noise
	// productions started before the cancellation
	var starts, ends []float64
	for i, s := range ms.starts {
		if s <= ms.stopMs {
			starts = append(starts, s)
			ends = append(ends, ms.ends[i])
		}
	}
	n := len(starts)

	// (0a) order of events: one of the model's admissible outcomes
	if !contains(pred.outs, real) {
		shown := pred.outs
		if len(shown) > 3 {
			shown = shown[:3]
		}
		add(sigOrder, fmt.Sprintf("the order of events of the real loop is none of the model's %d admissible outcomes (%s)", len(pred.outs), strings.Join(shown, " | ")))
	}
	// (0b) times of the productions: some admissible run matches
	okAny, why := false, ""
	for i, r := range pred.runs {
		ok, w := matchRun(tol, starts, ms.stopMs, r)
		if ok {
			okAny = true
			break
		}
		if i == 0 {
			why = w
		}
	}
	if !okAny {
		var rs []string
		for i, r := range pred.runs {
			if i < 3 {
				rs = append(rs, natList(r))
			}
		}
		add(sigTiming, "the real loop's productions match none of the model's admissible runs ("+why+"); model runs: "+strings.Join(rs, " | "))
	}

	// (1) no lost wake-up (lazy mode): every notification is followed by a block (a production that was not
	//     refused) within one block interval after max(notification, end of the production in flight); by
	//     the letter of the property: within one block interval after the notification
	if lazy {
		notifs := ms.notifs
		for _, nf := range ms.bootNotifs {
			if n >= 1 && nf.at > starts[0] { // scripted relative to the call of the loop, arrived after the first production started
				notifs = append(append([]notifRec(nil), notifs...), nf)
			}
		}
		for _, nf := range notifs {
			base, after, inflight := nf.at, -1, false
			skip := false
			for k := 0; k < n; k++ {
				if starts[k] <= nf.at && (ends[k] < 0 || nf.at <= ends[k]) {
					if ends[k] < 0 {
						skip = true // still in flight when the run was cancelled
					}
					base, after, inflight = math.Max(nf.at, ends[k]), k, true
				}
			}
			deadline := base + B + tol
			if skip || deadline > ms.stopMs-sep {
				continue
			}
			// kn: the first block started after the call; refusedAt: a production started in time but refused
			kn, refusedAt := -1, -1
			for k := after + 1; k < n; k++ {
				if starts[k] < nf.at {
					continue
				}
				if sc.refusedOf(k) {
					if starts[k] <= deadline && refusedAt < 0 {
						refusedAt = k
					}
					continue
				}
				kn = k
				break
			}
			where := "while-waiting"
			during := ""
			if inflight {
				where = "during-production"
				during = fmt.Sprintf(", during production %d (ended %.0f ms)", after, ends[after])
			}
			if kn < 0 || starts[kn] > deadline {
				// no block in time
				next := "no production at all until the run ended"
				if kn >= 0 {
					next = fmt.Sprintf("the next block is production %d at %.0f ms, started from select case %s", kn, starts[kn], ms.causeOf(true, kn))
				}
				switch {
				case refusedAt >= 0:
					add(sigKnownRefused, fmt.Sprintf("NotifyNewTransactions at %.0f ms%s: production %d started at %.0f ms but publishBlock refused (returned nil without producing, as at the pending limit); the loop cleared the wake-up, no block by %.0f ms; %s", nf.at, during, refusedAt, starts[refusedAt], deadline, next))
				case kn >= 0 && ms.causeOf(true, kn) == "B":
					// the block-timer case did serve it, only late: a wall-clock margin
					add(sigLateBlockTimer, fmt.Sprintf("NotifyNewTransactions at %.0f ms%s: the block-timer production %d started at %.0f ms, later than %.0f ms", nf.at, during, kn, starts[kn], deadline))
				default:
					// nothing, or only the idle timer's next production: the wake-up is lost
					add("C17/lost-wakeup/notification-"+where, fmt.Sprintf("NotifyNewTransactions at %.0f ms%s: no block started by %.0f ms; %s", nf.at, during, deadline, next))
				}
				continue
			}
			if inflight && starts[kn] > nf.at+B+tol {
				// the further block came, but later than one block interval after the call
				dur, cause := ends[after]-starts[after], ms.causeOf(true, kn)
				switch {
				case refusedAt >= 0:
					// the loop did start a production in time, publishBlock refused it; the block came with a later production
					add(sigKnownRefused, fmt.Sprintf("NotifyNewTransactions at %.0f ms, during production %d (ended %.0f ms): production %d started at %.0f ms but publishBlock refused (returned nil without producing, as at the pending limit); the first block is production %d at %.0f ms (select case %s), later than %.0f ms", nf.at, after, ends[after], refusedAt, starts[refusedAt], kn, starts[kn], cause, nf.at+B+tol))
				case dur >= B && starts[kn] <= ends[after]+tol && (cause == "B" || (cause == "L" && dur >= I-2)):
					// by the letter only: the production in flight outlasted the block interval, the block timer was re-armed
					// to 1 ms and started the further block right after it (the lazy timer may tie when it was re-armed to 1 ms too)
					add(sigKnownLongFlight, fmt.Sprintf("NotifyNewTransactions at %.0f ms, during production %d which lasted %.0f ms (block interval %d ms): the further block (production %d, select case %s) started right after its end at %.0f ms, later than %.0f ms", nf.at, after, dur, sc.B, kn, cause, starts[kn], nf.at+B+tol))
				case cause != "B":
					// served by the idle timer only
					add("C17/lost-wakeup/notification-during-production", fmt.Sprintf("NotifyNewTransactions at %.0f ms, during production %d (lasted %.0f ms, ended %.0f ms): the next block is production %d at %.0f ms, started from select case %s, not by the notification", nf.at, after, dur, ends[after], kn, starts[kn], cause))
				default:
					add(sigLateNotify, fmt.Sprintf("NotifyNewTransactions at %.0f ms, during production %d which lasted %.0f ms (block interval %d ms): the block-timer production %d started at %.0f ms, later than %.0f ms", nf.at, after, dur, sc.B, kn, starts[kn], nf.at+B+tol))
				}
			}
		}
	}

	// (S) the (re)start of the loop (scenarios with since=; the clock starts at the time of the last block /
	//     genesis time)
	if sc.since >= 0 {
		// (S1) rate across the (re)start: the first block no earlier than one block interval after the last
		//      block (after genesis time), whatever was notified in between — both modes
		if n >= 1 && starts[0] < B-rateTol {
			sig, cause := sigEarlyStartOther, "no NotifyNewTransactions call before it"
			for _, nf := range ms.bootNotifs {
				if nf.at <= starts[0]+rateTol {
					sig, cause = sigEarlyStartNotif, fmt.Sprintf("NotifyNewTransactions was called at %.0f ms, during the start-up wait", nf.at)
					break
				}
			}
			what := "the last block before the restart"
			if sc.via == "genesis" {
				what = "genesis time (nothing produced yet)"
			}
			add(sig, fmt.Sprintf("%s mode: AggregationLoop was called %.0f ms after %s and started its first production at %.0f ms, earlier than one block interval (%d ms) after it; %s", sc.mode, ms.loopCalled, what, starts[0], sc.B, cause))
		}
		// (S2) lazy mode: a notification during the wait is not lost — a block starts after it, within one
		//      block interval of the end of the wait
		if lazy {
			for _, nf := range ms.bootNotifs {
				if n >= 1 && nf.at > starts[0] {
					continue // after the first production started: judged like any other notification, below
				}
				deadline := math.Max(nf.at, math.Max(B, ms.loopCalled)) + B + tol
				if deadline > ms.stopMs-sep {
					continue
				}
				found := false
				for k := 0; k < n; k++ {
					if starts[k] >= nf.at && starts[k] <= deadline && !sc.refusedOf(k) {
						found = true
					}
				}
				if !found {
					add(sigLostStartNotif, fmt.Sprintf("NotifyNewTransactions at %.0f ms, during the start-up wait of AggregationLoop (called at %.0f ms): no block started between the call and %.0f ms", nf.at, ms.loopCalled, deadline))
				}
			}
		}
	}

	// (2) rate: never faster than one per block interval
	for i := 1; i < n; i++ {
		gap := starts[i] - starts[i-1]
		switch {
		case !lazy:
			if gap < B-rateTol {
				add("C17/normal/faster-than-block-interval", fmt.Sprintf("normal mode: productions %d and %d are %.0f ms apart, block interval %d ms", i-1, i, gap, sc.B))
			}
		case gap < math.Min(B, I)-rateTol:
			add("C17/rate/faster-than-block-interval", fmt.Sprintf("productions %d and %d are %.0f ms apart, block interval %d ms, idle interval %d ms", i-1, i, gap, sc.B, sc.I))
		case gap < B-rateTol:
			// only reachable when idle < block.  The known finding is the lazy timer alone being re-armed every
			// idle interval: it applies when the too-early production is the one the lazy-timer case started.
			if cause := ms.causeOf(true, i); cause == "L" {
				add(sigKnownIdleShorter, fmt.Sprintf("production %d, started by the lazy timer, is %.0f ms after production %d although the block interval is %d ms (idle interval %d ms)", i, gap, i-1, sc.B, sc.I))
			} else {
				add("C17/rate/faster-than-block-interval", fmt.Sprintf("production %d (started from select case %q) is %.0f ms after production %d, block interval %d ms, idle interval %d ms", i, cause, gap, i-1, sc.B, sc.I))
			}
		}
	}

	// (3) idle chain / normal cadence: after each production the next one starts within the idle
	//     (normal mode: block) interval, or right after it when it took longer
	iv, sig := I, "C17/idle/no-block-within-idle-interval"
	if !lazy {
		iv, sig = B, "C17/normal/no-block-within-block-interval"
	}
	for k := 0; k < n; k++ {
		if ends[k] < 0 {
			continue
		}
		deadline := math.Max(starts[k]+iv, ends[k]) + tol
		if deadline > ms.stopMs-5 {
			continue
		}
		if !(k+1 < n && starts[k+1] <= deadline) {
			add(sig, fmt.Sprintf("production %d started at %.0f ms (ended %.0f ms): no production started by %.0f ms", k, starts[k], ends[k], deadline))
		}
	}
	// (3b) a loop that was never notified produces exactly one block per idle interval
	if lazy && len(ms.notifs) == 0 && !sc.hasNotifs() {
		for i := 1; i < n; i++ {
			if gap := starts[i] - starts[i-1]; gap < I-rateTol {
				add("C17/idle/more-than-one-block-per-idle-interval", fmt.Sprintf("no notification was ever sent, yet productions %d and %d are %.0f ms apart (idle interval %d ms)", i-1, i, gap, sc.I))
			}
		}
	}
	return out
}

// ---------------------------------------------------------------- run

type att struct {
	fs      []finding
	outcome string
	noise   float64
	clean   bool // noise ≤ noiseCap: the attempt counts
}

func (a att) shows(sig string) *finding {
	for i := range a.fs {
		if a.fs[i].sig == sig {
			return &a.fs[i]
		}
	}
	return nil
}

type job struct {
	scenario int
	ops      []string
	sc       *script
	pred     prediction
	atts     []att
}

func attempt(j *job) att {
	ms, err := runReal(j.sc)
	if err != nil {
		return att{fs: []finding{{"C17/setup/new-manager-failed", err.Error()}}, clean: true}
	}
	if ms.late > ms.noise {
		ms.noise = ms.late
	}
	return att{fs: evaluate(j.sc, ms, j.pred), outcome: ms.outcome(j.sc.mode == "lazy", j.sc.upto), noise: ms.noise, clean: ms.noise <= noiseCap}
}

// deterministic by-the-letter findings of the unchanged tree: no point in re-running
func knownSig(sig string) bool {
	return sig == sigKnownIdleShorter || sig == sigKnownLongFlight || sig == sigKnownRefused
}

// logical: a signature that is about WHAT happened (an order of events the model does not admit, a
// notification that no block followed, a panic), not about a wall-clock margin: one counted attempt that
// shows it is a finding.  Everything else compares a measured time with a threshold and needs
// showsNeeded counted attempts.
func logical(sig string) bool {
	return sig == sigOrder || strings.HasPrefix(sig, "C17/rate/first-block-after-start-too-early/") || strings.HasPrefix(sig, "C17/lost-wakeup/") || strings.HasPrefix(sig, "C17/panic/") ||
		strings.HasPrefix(sig, "C17/loop/") || strings.HasPrefix(sig, "C17/setup/")
}

// sigs: every signature some attempt showed (except the deterministic known ones), in order of appearance
func (j *job) sigs() []string {
	var out []string
	for _, a := range j.atts {
		for _, f := range a.fs {
			if !knownSig(f.sig) && !contains(out, f.sig) {
				out = append(out, f.sig)
			}
		}
	}
	return out
}

// verdict on one signature: (reported, decided).  A logical signature is reported when ONE counted
// attempt (noise ≤ noiseCap) shows it; a wall-clock signature when showsNeeded of up to cleanNeeded
// counted attempts show it.  When the machine is so loaded that not enough attempts could be counted
// at all (none / fewer than showsNeeded): when every one of the maxAttempts attempts shows it.
func (j *job) verdict(sig string) (bool, bool) {
	need := showsNeeded
	if logical(sig) {
		need = 1
	}
	total, clean, cleanShows, allShow := len(j.atts), 0, 0, true
	for _, a := range j.atts {
		s := a.shows(sig) != nil
		if a.clean {
			clean++
			if s {
				cleanShows++
			}
		}
		if !s {
			allShow = false
		}
	}
	if cleanShows >= need {
		return true, true
	}
	left := maxAttempts - total
	if cleanNeeded-clean < left {
		left = cleanNeeded - clean
	}
	if left <= 0 {
		return clean < need && total >= maxAttempts && allShow, true
	}
	if allShow {
		return false, false // may still be reported by either rule
	}
	if clean >= 1 && cleanShows == 0 {
		return false, true // only ever seen in attempts that do not count
	}
	return false, cleanShows+left < need
}

// counted: some attempt had noise ≤ noiseCap
func (j *job) counted() bool {
	for _, a := range j.atts {
		if a.clean {
			return true
		}
	}
	return false
}

func (j *job) needsMore() bool {
	for _, sig := range j.sigs() {
		if _, decided := j.verdict(sig); !decided {
			return true
		}
	}
	return false
}

// observation: the order of events of the real loop that goes into the diffed line — of the attempt
// that shows the reported order deviation, otherwise of an attempt whose order was admissible.
func (j *job) observation() string {
	if rep, _ := j.verdict(sigOrder); rep {
		for _, a := range j.atts {
			if a.clean && a.shows(sigOrder) != nil {
				return a.outcome
			}
		}
		return j.atts[0].outcome
	}
	for _, pass := range []bool{true, false} { // prefer an attempt that counts
		for i := len(j.atts) - 1; i >= 0; i-- {
			if a := j.atts[i]; a.clean == pass && a.shows(sigOrder) == nil && a.outcome != "" {
				return a.outcome
			}
		}
	}
	return j.atts[0].outcome
}

func (j *job) obsLine() string {
	real := j.observation()
	switch {
	case len(j.pred.outs) == 1:
		// well-separated scenario: the line is the real loop's own order of events
		return obsLine([]string{real}, j.pred)
	case contains(j.pred.outs, real):
		return obsLine(j.pred.outs, j.pred)
	default:
		return obsLine(j.pred.outs, j.pred) + " real-outside-the-set=" + real
	}
}

func Run(c *hx.Ctx) {
	type line struct {
		out string
		j   *job
	}
	var lines []line
	var jobs []*job
	scenario := -1
	resetLine := "reset"
	for {
		o, ok := c.Next()
		if !ok {
			break
		}
		switch o.Verb {
		case "reset":
			scenario++
			resetLine = o.Raw
			lines = append(lines, line{out: "ok"})
		case "run":
			sc, ok := parseRun(o)
			if !ok {
				lines = append(lines, line{out: "bad-op"})
				c.Hit("bad-op")
				continue
			}
			j := &job{scenario: scenario, ops: []string{resetLine, o.Raw}, sc: sc, pred: predict(sc)}
			if scenario < 0 {
				j.scenario, j.ops = 0, []string{o.Raw}
			}
			jobs = append(jobs, j)
			lines = append(lines, line{j: j})
			c.Hit("mode/" + sc.mode)
			switch {
			case sc.I < sc.B:
				c.Hit("ratio/idle<block")
			case sc.I == sc.B:
				c.Hit("ratio/idle=block")
			default:
				c.Hit("ratio/idle>block")
			}
			if sc.since >= 0 {
				c.Hit("startup/via-" + sc.via)
				if sc.since < sc.B {
					during := 0
					for _, o := range sc.sn {
						if sc.since+o < sc.B {
							during++
						}
					}
					c.Hit(fmt.Sprintf("startup/wait: %d notification(s) during it", during))
				} else {
					c.Hit("startup/no-wait: later than one block interval after the last block")
				}
			}
			if len(j.pred.outs) > 1 {
				c.Hit("outcome/near-tie: real order must be a member of the admissible set")
			} else {
				c.Hit("outcome/separated: real order diffed as text")
			}
			for _, p := range sc.prods {
				for _, off := range p.offs {
					if off < p.dur {
						c.Hit("notify/in-flight")
					} else {
						c.Hit("notify/waiting")
					}
				}
				c.St.Hist["probe"] += len(p.probes)
				if p.refused {
					c.Hit("production/refused")
				}
				if p.dur >= sc.B {
					c.Hit("production/longer-than-block-interval")
				}
			}
		default:
			lines = append(lines, line{out: "bad-op"})
			c.Hit("bad-op")
		}
	}

	// the refused productions of the scenarios are played by the recorder (returns nil at once): ask the
	// real publishBlock whether that is what it does at the pending limit
	for _, j := range jobs {
		refusal := false
		for _, p := range j.sc.prods {
			refusal = refusal || p.refused
		}
		if !refusal {
			continue
		}
		if ok, detail := refusalProbe(); ok {
			c.Hit("refusal/real-publishBlock-at-the-pending-limit-returns-nil-without-a-block")
		} else {
			c.St.Findings = append(c.St.Findings, hx.Finding{Signature: "C17/model/refusal-is-not-what-publishBlock-does-at-the-pending-limit",
				What: "the scenarios play a refused production as `publishBlock returns nil at once, no block`; the real publishBlockInternal at the pending limit: " + detail, Scenario: j.scenario, Ops: j.ops})
		}
		break
	}

	// rounds of attempts, `parallel` at a time.  A scenario takes part in the next round while it has no
	// attempt that counts (noise ≤ noiseCap) — an attempt that does not count is not accepted as "nothing
	// seen" either, its tolerances are wide — or while a signature is undecided; at most maxAttempts rounds.
	// A logical signature (order of events, lost wake-up) is reported when one counted attempt shows it, a
	// wall-clock signature when showsNeeded of up to cleanNeeded counted attempts show it.
	for round := 0; round < maxAttempts; round++ {
		var todo []*job
		for _, j := range jobs {
			if len(j.atts) == 0 || !j.counted() || j.needsMore() {
				todo = append(todo, j)
			}
		}
		if len(todo) == 0 {
			break
		}
		if round > 0 {
			c.St.Hist["retry"] += len(todo)
		}
		sem := make(chan struct{}, parallel)
		var wg sync.WaitGroup
		for _, j := range todo {
			wg.Add(1)
			sem <- struct{}{}
			go func(j *job) {
				defer wg.Done()
				defer func() { <-sem }()
				j.atts = append(j.atts, attempt(j))
			}(j)
		}
		wg.Wait()
	}
	for _, j := range jobs {
		if !j.counted() {
			c.Hit("scenario/judged-on-noisy-attempts-only")
		}
		for i, a := range j.atts {
			if !a.clean {
				c.Hit(fmt.Sprintf("attempt/noisy(>%.0fms): not counted", noiseCap))
			} else {
				c.Hit("attempt/counted")
			}
			for _, f := range a.fs {
				if len(j.atts) > 1 {
					c.St.Notes = append(c.St.Notes, fmt.Sprintf("attempt %d of scenario %d (noise %.0f ms): %s — %s", i+1, j.scenario, a.noise, f.sig, f.what))
				}
			}
		}
		report := func(sig string) {
			for _, pass := range []bool{true, false} { // prefer the text of a counted attempt
				for _, a := range j.atts {
					if f := a.shows(sig); f != nil && a.clean == pass {
						c.St.Findings = append(c.St.Findings, hx.Finding{Signature: f.sig, What: f.what, Scenario: j.scenario, Ops: j.ops})
						return
					}
				}
			}
		}
		for _, sig := range []string{sigKnownIdleShorter, sigKnownLongFlight, sigKnownRefused} {
			report(sig)
		}
		for _, sig := range j.sigs() {
			if rep, _ := j.verdict(sig); rep {
				report(sig)
				continue
			}
			onlyNoisy := true
			for _, a := range j.atts {
				if a.clean && a.shows(sig) != nil {
					onlyNoisy = false
				}
			}
			if onlyNoisy {
				c.Hit("unconfirmed/seen-in-noisy-attempts-only/" + sig)
			} else {
				c.Hit("unconfirmed/seen-in-one-counted-attempt/" + sig)
			}
		}
		if obs := j.observation(); len(j.pred.outs) > 1 && contains(j.pred.outs, obs) {
			for i, o := range j.pred.outs {
				if o == obs {
					c.Hit(fmt.Sprintf("near-tie/real-loop-took-admissible-outcome-#%d", i+1))
				}
			}
		}
	}
	if c.St.Findings == nil {
		c.St.Findings = []hx.Finding{} // "findings": [] rather than null in the stats file
	}
	for _, l := range lines {
		if l.j != nil {
			c.Emit("%s", l.j.obsLine())
		} else {
			c.Emit("%s", l.out)
		}
	}
}
