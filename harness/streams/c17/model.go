package c17

// Go port of lean/Model/Lazy.lean + the exploration of lean/Drv/C17.lean.  It is used (a) by the
// generator (which scenarios are stable under jitter, where to put probes, how many events to compare),
// (b) by the timing monitor (admissible production times) and (c) for the membership test in near-tie
// scenarios.  Whatever it computes that reaches the observation line (`runs=`, the outcome set of a
// near-tie scenario) is diffed against the Lean driver on that very line, which ties this port to the
// model the theorems are about.  In a well-separated scenario the `outs=` part of the line is NOT
// computed here: it is the order of events the real loop went through (real.go).  Keep the
// definitions parallel to the Lean ones.

import (
	"fmt"
	"sort"
	"strconv"
	"strings"
)

type cfg struct {
	block, idle int
	lazy        bool
}

type flight struct {
	start, fin int
	viaBlock   bool
}

type st struct {
	now, lazyT, blockT int
	txs, ch            bool
	hasFlight          bool
	fl                 flight
	boot               bool // Lazy.Sys.waiting: still in the start-up wait of AggregationLoop (ch = the one-slot channel)
	wake               int  // … deadline of its time.After(delay)
}

const (
	caseLazy = iota
	caseBlock
	caseNotif
)

func remaining(elapsed, interval int) int {
	if elapsed < interval {
		return interval - elapsed
	}
	return 1
}

func enabled(c cfg, s st) []int {
	var out []int
	if c.lazy && s.lazyT <= s.now {
		out = append(out, caseLazy)
	}
	if s.blockT <= s.now {
		out = append(out, caseBlock)
	}
	if s.ch {
		out = append(out, caseNotif)
	}
	return out
}

func startFlight(s st, dur int, viaBlock bool) st {
	s.hasFlight = true
	s.fl = flight{start: s.now, fin: s.now + dur, viaBlock: viaBlock}
	return s
}

// fire returns the new state and the production start (-1 if none).
func fire(c cfg, s st, k int, dur int) (st, int) {
	switch k {
	case caseLazy:
		return startFlight(s, dur, false), s.now
	case caseBlock:
		if c.lazy {
			if s.txs {
				return startFlight(s, dur, true), s.now
			}
			s.blockT = s.now + c.block
			return s, -1
		}
		return startFlight(s, dur, false), s.now
	default:
		s.ch = false
		s.txs = true
		return s, -1
	}
}

func finish(c cfg, s st) st {
	f := s.fl
	el := s.now - f.start
	if c.lazy {
		s.lazyT = s.now + remaining(el, c.idle)
	}
	s.blockT = s.now + remaining(el, c.block)
	if f.viaBlock {
		s.txs = false
	}
	s.hasFlight = false
	s.fl = flight{}
	return s
}

func stepNotify(s st) st { s.ch = true; return s }

// bootSt: Lazy.boot c 0 since — AggregationLoop called `since` ms after the reference instant 0.
func bootSt(c cfg, since int) st {
	delay := c.block - since // startDelay, clipped like the subtraction of naturals
	if delay < 0 {
		delay = 0
	}
	return st{now: since, boot: true, wake: since + delay}
}

func stepTick(c cfg, s st, pick, dur int) (st, int) {
	if s.boot { // Lazy.sysStep, waiting
		if s.now < s.wake {
			s.now++
			return s, -1
		}
		return st{now: s.now, lazyT: s.now, blockT: s.now, ch: s.ch}, -1 // Lazy.enter
	}
	if s.hasFlight {
		if s.now < s.fl.fin {
			s.now++
			return s, -1
		}
		return finish(c, s), -1
	}
	en := enabled(c, s)
	if len(en) == 0 {
		s.now++
		return s, -1
	}
	return fire(c, s, en[pick%len(en)], dur)
}

// ---- script and exploration (Drv/C17.lean) ----

type pspec struct {
	idx, dur int
	refused  bool  // duration field `r`: publishBlock returns at once without producing (pending limit); dur = 0
	offs     []int // NotifyNewTransactions() this many ms after the production's start
	probes   []int // pure time markers this many ms after the production's start
}

type script struct {
	mode           string
	B, I, span, dd int
	tol, jit, upto int
	prods          []pspec
	raw            string
	since          int    // -1: no start-up wait (the loop proper starts at 0); otherwise AggregationLoop is called `since` ms after the reference instant
	via            string // "last" (time of the last block before the restart) | "genesis"
	sn, sp         []int  // NotifyNewTransactions() / probes this many ms after the call of AggregationLoop
	guard          int    // generator only: see near()
	frontierCap    int // generator only: give up (finals returns nil) when more runs than this are alive
}

func (sc *script) cfg() cfg { return cfg{block: sc.B, idle: sc.I, lazy: sc.mode == "lazy"} }

func (sc *script) spec(k int) *pspec {
	for i := range sc.prods {
		if sc.prods[i].idx == k {
			return &sc.prods[i]
		}
	}
	return nil
}
func (sc *script) durOf(k int) int {
	if p := sc.spec(k); p != nil {
		return p.dur
	}
	return sc.dd
}
func (sc *script) refusedOf(k int) bool {
	if p := sc.spec(k); p != nil {
		return p.refused
	}
	return false
}
func (sc *script) offsOf(k int) []int {
	if p := sc.spec(k); p != nil {
		return p.offs
	}
	return nil
}
func (sc *script) probesOf(k int) []int {
	if p := sc.spec(k); p != nil {
		return p.probes
	}
	return nil
}
func (sc *script) hasNotifs() bool {
	if sc.since >= 0 && len(sc.sn) > 0 {
		return true
	}
	for _, p := range sc.prods {
		if len(p.offs) > 0 {
			return true
		}
	}
	return false
}

func parseNat(s string) (int, bool) {
	if s == "" {
		return 0, false
	}
	for _, ch := range s {
		if ch < '0' || ch > '9' {
			return 0, false
		}
	}
	n, err := strconv.Atoi(s)
	return n, err == nil
}

func parseOffs(s string) []int {
	var out []int
	if s != "-" && s != "" {
		for _, o := range strings.Split(s, "+") {
			if n, ok := parseNat(o); ok {
				out = append(out, n)
			}
		}
	}
	return out
}

func parseScript(s string) ([]pspec, bool) {
	if s == "-" || s == "" {
		return nil, true
	}
	var out []pspec
	for _, it := range strings.Split(s, ",") {
		f := strings.Split(it, ":")
		if len(f) != 3 && len(f) != 4 {
			return nil, false
		}
		k, ok1 := parseNat(f[0])
		d, ok2 := parseNat(f[1])
		if f[1] == "r" {
			d, ok2 = 0, true
		}
		if !ok1 || !ok2 {
			return nil, false
		}
		p := pspec{idx: k, dur: d, refused: f[1] == "r", offs: parseOffs(f[2])}
		if len(f) == 4 {
			p.probes = parseOffs(f[3])
		}
		out = append(out, p)
	}
	return out, true
}

func showOffs(l []int) string {
	if len(l) == 0 {
		return "-"
	}
	var os []string
	for _, x := range l {
		os = append(os, strconv.Itoa(x))
	}
	return strings.Join(os, "+")
}

func showScript(ps []pspec) string {
	if len(ps) == 0 {
		return "-"
	}
	var items []string
	for _, p := range ps {
		d := strconv.Itoa(p.dur)
		if p.refused {
			d = "r"
		}
		items = append(items, fmt.Sprintf("%d:%s:%s:%s", p.idx, d, showOffs(p.offs), showOffs(p.probes)))
	}
	return strings.Join(items, ",")
}

// ev: a scripted NotifyNewTransactions call (notif) or a probe, delivered at some instant of [lo, hi].
type ev struct {
	lo, hi int
	notif  bool
	k, j   int
	pre    bool // scripted relative to the call of AggregationLoop (start-up wait)
}

func (e ev) key() [6]int {
	n := 1
	if e.notif {
		n = 0
	}
	p := 0
	if e.pre {
		p = 1
	}
	return [6]int{e.hi, e.lo, n, e.k, e.j, p}
}

func lexLe(a, b [6]int) bool {
	for i := range a {
		if a[i] < b[i] {
			return true
		}
		if b[i] < a[i] {
			return false
		}
	}
	return true
}

func insertEv(e ev, l []ev) []ev {
	out := make([]ev, 0, len(l)+1)
	i := 0
	for i < len(l) && !lexLe(e.key(), l[i].key()) {
		out = append(out, l[i])
		i++
	}
	out = append(out, e)
	out = append(out, l[i:]...)
	return out
}

func (e ev) tok() string {
	if e.pre {
		if e.notif {
			return fmt.Sprintf("w%d", e.j)
		}
		return fmt.Sprintf("q%d", e.j)
	}
	c := "p"
	if e.notif {
		c = "n"
	}
	return fmt.Sprintf("%s%d.%d", c, e.k, e.j)
}

type sim struct {
	s      st
	sched  []ev
	k      int
	toks   []string // in order (the Lean side keeps them reversed; equality is the same)
	starts []int
	// generator only (not part of the Lean driver, functions of the fields above):
	flags  int   // near-ties the exploration does not branch on
	ttimes []int // instant of every token
	thr    []int // instants at which a timer case ran or a production ended
}

func (x sim) key() string {
	b := make([]byte, 0, 160)
	num := func(n int) {
		b = strconv.AppendInt(b, int64(n), 10)
		b = append(b, ' ')
	}
	flag := func(f bool) {
		if f {
			b = append(b, 'T')
		} else {
			b = append(b, 'F')
		}
	}
	s := x.s
	num(s.now)
	num(s.lazyT)
	num(s.blockT)
	flag(s.txs)
	flag(s.ch)
	flag(s.hasFlight)
	num(s.fl.start)
	num(s.fl.fin)
	flag(s.fl.viaBlock)
	flag(s.boot)
	num(s.wake)
	b = append(b, '|')
	for _, e := range x.sched {
		num(e.lo)
		num(e.hi)
		flag(e.notif)
		num(e.k)
		num(e.j)
		flag(e.pre)
	}
	b = append(b, '|')
	num(x.k)
	for _, p := range x.starts {
		num(p)
	}
	b = append(b, '|')
	for _, t := range x.toks {
		b = append(b, t...)
		b = append(b, ',')
	}
	return string(b)
}

func mkEvs(jit, p, k int, notif bool, offs []int) []ev {
	var out []ev
	for j, o := range offs {
		lo := p + o - jit
		if lo < p {
			lo = p
		}
		out = append(out, ev{lo: lo, hi: p + o + jit, notif: notif, k: k, j: j})
	}
	return out
}

// near: two timer expiries closer than `guard` ms but not equal — a near-tie the exploration does not
// branch on (equal deadlines are a select tie, which it does); the generator keeps such scenarios out
// when a notification is pending at that moment (then the order of the two timers matters).
func near(a, b, guard int) bool { return a != b && abs(a-b) < guard }

func app[T any](l []T, x T) []T { return append(append([]T(nil), l...), x) }

func tickWith(c cfg, sc *script, x sim, pick int) sim {
	s2, p := stepTick(c, x.s, pick, sc.durOf(x.k))
	y := x
	y.s = s2
	now := x.s.now
	if p < 0 {
		if x.s.boot && !s2.boot {
			y.thr = app(x.thr, now) // the start-up wait ended
		} else if x.s.hasFlight && !s2.hasFlight {
			y.toks, y.ttimes, y.thr = app(x.toks, fmt.Sprintf("e%d", x.k-1)), app(x.ttimes, now), app(x.thr, now)
		} else if s2.blockT != x.s.blockT {
			y.thr = app(x.thr, now) // block tick without transactions
		}
		return y
	}
	cause := "N"
	if c.lazy {
		cause = "L"
		if s2.fl.viaBlock {
			cause = "B"
		}
		if sc.guard > 0 && (x.s.txs || x.s.ch) && near(x.s.lazyT, x.s.blockT, sc.guard) {
			y.flags++
		}
	}
	for _, e := range mkEvs(sc.jit, p, x.k, true, sc.offsOf(x.k)) {
		y.sched = insertEv(e, y.sched)
	}
	for _, e := range mkEvs(sc.jit, p, x.k, false, sc.probesOf(x.k)) {
		y.sched = insertEv(e, y.sched)
	}
	y.k = x.k + 1
	y.starts = app(x.starts, p)
	y.toks, y.ttimes, y.thr = app(x.toks, fmt.Sprintf("%s%d", cause, x.k)), app(x.ttimes, now), app(x.thr, now)
	return y
}

func deliver(x sim, e ev) sim {
	y := x
	if e.notif {
		y.s = stepNotify(x.s)
	}
	y.sched = nil
	for _, f := range x.sched {
		if f != e {
			y.sched = append(y.sched, f)
		}
	}
	y.toks, y.ttimes = app(x.toks, e.tok()), app(x.ttimes, x.s.now)
	return y
}

func loopReady(c cfg, s st) bool {
	if s.boot {
		return s.wake <= s.now
	}
	if s.hasFlight {
		return s.fl.fin <= s.now
	}
	return len(enabled(c, s)) > 0
}

func succs(c cfg, sc *script, x sim) []sim {
	now := x.s.now
	var out []sim
	overdue := false
	for _, e := range x.sched {
		if e.lo <= now {
			out = append(out, deliver(x, e))
		}
		if !(now < e.hi) {
			overdue = true
		}
	}
	ready := loopReady(c, x.s)
	if ready {
		if x.s.boot || x.s.hasFlight {
			out = append(out, tickWith(c, sc, x, 0))
		} else {
			for i := 0; i < len(enabled(c, x.s)); i++ {
				out = append(out, tickWith(c, sc, x, i))
			}
		}
	}
	if !ready && !overdue {
		out = append(out, tickWith(c, sc, x, 0))
	}
	return out
}

func closure(c cfg, sc *script, fuel int, x sim) []sim {
	if fuel == 0 {
		return []sim{x}
	}
	var out []sim
	for _, y := range succs(c, sc, x) {
		if y.s.now > x.s.now {
			out = append(out, y)
		} else {
			out = append(out, closure(c, sc, fuel-1, y)...)
		}
	}
	return out
}

func dedup(l []sim) []sim {
	seen := map[string]int{}
	var out []sim
	for _, x := range l {
		k := x.key()
		if i, ok := seen[k]; ok {
			if x.flags > out[i].flags {
				out[i].flags = x.flags
			}
			continue
		}
		seen[k] = len(out)
		out = append(out, x)
	}
	return out
}

// finals: the states of every admissible run at `horizon`.
func finals(c cfg, sc *script, horizon int) []sim {
	fr := []sim{{}}
	if sc.since >= 0 {
		x := sim{s: bootSt(c, sc.since)}
		for _, e := range mkEvs(sc.jit, sc.since, 0, true, sc.sn) {
			e.pre = true
			x.sched = insertEv(e, x.sched)
		}
		for _, e := range mkEvs(sc.jit, sc.since, 0, false, sc.sp) {
			e.pre = true
			x.sched = insertEv(e, x.sched)
		}
		fr = []sim{x}
	}
	for fuel := horizon + 1; fuel > 0; fuel-- {
		if len(fr) == 0 || fr[0].s.now >= horizon {
			break
		}
		var nx []sim
		for _, x := range fr {
			nx = append(nx, closure(c, sc, 32, x)...)
		}
		if len(nx) > 1 {
			nx = dedup(nx)
		}
		if sc.frontierCap > 0 && len(nx) > sc.frontierCap {
			return nil
		}
		fr = nx
	}
	return fr
}

func natList(l []int) string {
	if len(l) == 0 {
		return "-"
	}
	parts := make([]string, len(l))
	for i, x := range l {
		parts[i] = strconv.Itoa(x)
	}
	return strings.Join(parts, ",")
}

func outcomeOf(upto int, toks []string) string {
	if len(toks) > upto {
		toks = toks[:upto]
	}
	if len(toks) == 0 {
		return "-"
	}
	return strings.Join(toks, ",")
}

func sortStrs(l []string) []string {
	seen := map[string]bool{}
	var out []string
	for _, s := range l {
		if !seen[s] {
			seen[s] = true
			out = append(out, s)
		}
	}
	sort.Strings(out)
	return out
}

func showSet(max int, l []string) string {
	shown := l
	if len(shown) > max {
		shown = shown[:max]
	}
	return fmt.Sprintf("%d %s", len(l), strings.Join(shown, "|"))
}

// prediction of the model for one script: admissible outcomes (event orders cut after `upto` events),
// admissible runs (production start times) and, for the generator, the number of near-ties met.
type prediction struct {
	outs  []string
	runs  [][]int
	rstrs []string
	flags int
}

func predict(sc *script) prediction {
	fs := finals(sc.cfg(), sc, sc.span)
	var p prediction
	var os, rs []string
	seen := map[string]bool{}
	for _, x := range fs {
		os = append(os, outcomeOf(sc.upto, x.toks))
		r := natList(x.starts)
		rs = append(rs, r)
		if !seen[r] {
			seen[r] = true
			p.runs = append(p.runs, x.starts)
		}
		if x.flags > p.flags {
			p.flags = x.flags
		}
	}
	p.outs, p.rstrs = sortStrs(os), sortStrs(rs)
	return p
}

// obsLine: the canonical observation line (Drv.C17.step's), with `outs` = the given outcome set.
func obsLine(outs []string, p prediction) string {
	return fmt.Sprintf("outs=%s runs=%s", showSet(12, outs), showSet(4, p.rstrs))
}
