package c17

// Go port of lean/Model/Lazy.lean + the exploration of lean/Drv/C17.lean.  It exists so that the
// harness can (a) print the model's admissible runs for a script — that line is diffed against the
// Lean driver on every run, which ties this port to the model the theorems are about — and
// (b) compare the real loop's measured productions with those runs.  Keep it line-by-line parallel
// to the Lean definitions.

import (
	"fmt"
	"strconv"
	"strings"
)

type cfg struct {
	block, idle int
	lazy        bool
}

type flight struct {
	start, fin int
	viaBlock   bool
}

type st struct {
	now, lazyT, blockT int
	txs, ch            bool
	hasFlight          bool
	fl                 flight
}

const (
	caseLazy = iota
	caseBlock
	caseNotif
)

func remaining(elapsed, interval int) int {
	if elapsed < interval {
		return interval - elapsed
	}
	return 1
}

func enabled(c cfg, s st) []int {
	var out []int
	if c.lazy && s.lazyT <= s.now {
		out = append(out, caseLazy)
	}
	if s.blockT <= s.now {
		out = append(out, caseBlock)
	}
	if s.ch {
		out = append(out, caseNotif)
	}
	return out
}

func startFlight(s st, dur int, viaBlock bool) st {
	s.hasFlight = true
	s.fl = flight{start: s.now, fin: s.now + dur, viaBlock: viaBlock}
	return s
}

// fire returns the new state and the production start (-1 if none).
func fire(c cfg, s st, k int, dur int) (st, int) {
	switch k {
	case caseLazy:
		return startFlight(s, dur, false), s.now
	case caseBlock:
		if c.lazy {
			if s.txs {
				return startFlight(s, dur, true), s.now
			}
			s.blockT = s.now + c.block
			return s, -1
		}
		return startFlight(s, dur, false), s.now
	default:
		s.ch = false
		s.txs = true
		return s, -1
	}
}

func finish(c cfg, s st) st {
	f := s.fl
	el := s.now - f.start
	if c.lazy {
		s.lazyT = s.now + remaining(el, c.idle)
	}
	s.blockT = s.now + remaining(el, c.block)
	if f.viaBlock {
		s.txs = false
	}
	s.hasFlight = false
	s.fl = flight{}
	return s
}

func stepNotify(s st) st { s.ch = true; return s }

func stepTick(c cfg, s st, pick, dur int) (st, int) {
	if s.hasFlight {
		if s.now < s.fl.fin {
			s.now++
			return s, -1
		}
		return finish(c, s), -1
	}
	en := enabled(c, s)
	if len(en) == 0 {
		s.now++
		return s, -1
	}
	return fire(c, s, en[pick%len(en)], dur)
}

// ---- script and exploration (Drv/C17.lean) ----

type pspec struct {
	idx, dur int
	offs     []int
}

type script struct {
	mode                   string
	B, I, span, edge, dd   int
	tol                    int
	prods                  []pspec
	raw                    string
}

func (sc *script) spec(k int) *pspec {
	for i := range sc.prods {
		if sc.prods[i].idx == k {
			return &sc.prods[i]
		}
	}
	return nil
}
func (sc *script) durOf(k int) int {
	if p := sc.spec(k); p != nil {
		return p.dur
	}
	return sc.dd
}
func (sc *script) offsOf(k int) []int {
	if p := sc.spec(k); p != nil {
		return p.offs
	}
	return nil
}
func (sc *script) hasNotifs() bool {
	for _, p := range sc.prods {
		if len(p.offs) > 0 {
			return true
		}
	}
	return false
}

func parseNat(s string) (int, bool) {
	if s == "" {
		return 0, false
	}
	for _, ch := range s {
		if ch < '0' || ch > '9' {
			return 0, false
		}
	}
	n, err := strconv.Atoi(s)
	return n, err == nil
}

func parseScript(s string) ([]pspec, bool) {
	if s == "-" || s == "" {
		return nil, true
	}
	var out []pspec
	for _, it := range strings.Split(s, ",") {
		f := strings.Split(it, ":")
		if len(f) != 3 {
			return nil, false
		}
		k, ok1 := parseNat(f[0])
		d, ok2 := parseNat(f[1])
		if !ok1 || !ok2 {
			return nil, false
		}
		p := pspec{idx: k, dur: d}
		if f[2] != "-" && f[2] != "" {
			for _, o := range strings.Split(f[2], "+") {
				if n, ok := parseNat(o); ok {
					p.offs = append(p.offs, n)
				}
			}
		}
		out = append(out, p)
	}
	return out, true
}

func showScript(ps []pspec) string {
	if len(ps) == 0 {
		return "-"
	}
	var items []string
	for _, p := range ps {
		o := "-"
		if len(p.offs) > 0 {
			var os []string
			for _, x := range p.offs {
				os = append(os, strconv.Itoa(x))
			}
			o = strings.Join(os, "+")
		}
		items = append(items, fmt.Sprintf("%d:%d:%s", p.idx, p.dur, o))
	}
	return strings.Join(items, ",")
}

type sim struct {
	s      st
	sched  []int
	k      int
	starts []int // in order (the Lean side keeps them reversed; equality is the same)
}

func (x sim) key() string {
	return fmt.Sprintf("%v|%v|%d|%v", x.s, x.sched, x.k, x.starts)
}

func insertSorted(t int, l []int) []int {
	out := make([]int, 0, len(l)+1)
	i := 0
	for i < len(l) && !(t <= l[i]) {
		out = append(out, l[i])
		i++
	}
	out = append(out, t)
	out = append(out, l[i:]...)
	return out
}

func tickWith(c cfg, sc *script, x sim, pick int) sim {
	s2, p := stepTick(c, x.s, pick, sc.durOf(x.k))
	if p < 0 {
		return sim{s: s2, sched: x.sched, k: x.k, starts: x.starts}
	}
	sched := x.sched
	for _, o := range sc.offsOf(x.k) {
		sched = insertSorted(p+o, sched)
	}
	starts := append(append([]int(nil), x.starts...), p)
	return sim{s: s2, sched: sched, k: x.k + 1, starts: starts}
}

func succs(c cfg, sc *script, x sim) []sim {
	if len(x.sched) > 0 && x.sched[0] <= x.s.now {
		return []sim{{s: stepNotify(x.s), sched: x.sched[1:], k: x.k, starts: x.starts}}
	}
	if x.s.hasFlight {
		return []sim{tickWith(c, sc, x, 0)}
	}
	n := len(enabled(c, x.s))
	if n <= 1 {
		return []sim{tickWith(c, sc, x, 0)}
	}
	out := make([]sim, 0, n)
	for i := 0; i < n; i++ {
		out = append(out, tickWith(c, sc, x, i))
	}
	return out
}

func closure(c cfg, sc *script, fuel int, x sim) []sim {
	if fuel == 0 {
		return []sim{x}
	}
	var out []sim
	for _, y := range succs(c, sc, x) {
		if y.s.now > x.s.now {
			out = append(out, y)
		} else {
			out = append(out, closure(c, sc, fuel-1, y)...)
		}
	}
	return out
}

func dedup(l []sim) []sim {
	seen := map[string]bool{}
	var out []sim
	for _, x := range l {
		k := x.key()
		if !seen[k] {
			seen[k] = true
			out = append(out, x)
		}
	}
	return out
}

// runsOf: every admissible list of production starts (< horizon) over all select resolutions.
func runsOf(c cfg, sc *script, horizon int) [][]int {
	fr := []sim{{}}
	for fuel := horizon + 1; fuel > 0; fuel-- {
		if len(fr) == 0 || fr[0].s.now >= horizon {
			break
		}
		var nx []sim
		for _, x := range fr {
			nx = append(nx, closure(c, sc, 16, x)...)
		}
		fr = dedup(nx)
	}
	seen := map[string]bool{}
	var out [][]int
	for _, x := range fr {
		var r []int
		for _, p := range x.starts {
			if p < horizon {
				r = append(r, p)
			}
		}
		k := fmt.Sprint(r)
		if !seen[k] {
			seen[k] = true
			out = append(out, r)
		}
	}
	return out
}

func natList(l []int) string {
	if len(l) == 0 {
		return "-"
	}
	parts := make([]string, len(l))
	for i, x := range l {
		parts[i] = strconv.Itoa(x)
	}
	return strings.Join(parts, ",")
}

func countBelow(span int, r []int) int {
	n := 0
	for _, p := range r {
		if p < span {
			n++
		}
	}
	return n
}

// modelLine is the canonical observation line, identical to Drv.C17.step's.
func modelLine(sc *script) (string, [][]int) {
	c := cfg{block: sc.B, idle: sc.I, lazy: sc.mode == "lazy"}
	rs := runsOf(c, sc, sc.span+sc.edge)
	lo, hi := 0, 0
	for i, r := range rs {
		n := countBelow(sc.span, r)
		if i == 0 || n < lo {
			lo = n
		}
		if n > hi {
			hi = n
		}
	}
	var shown []string
	for i, r := range rs {
		if i >= 4 {
			break
		}
		shown = append(shown, natList(r))
	}
	return fmt.Sprintf("count=[%d,%d] runs=%d %s", lo, hi, len(rs), strings.Join(shown, "|")), rs
}
