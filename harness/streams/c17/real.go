package c17

import (
	"context"
	"fmt"
	"os"
	"strings"
	"sync"
	"time"

	logging "github.com/ipfs/go-log/v2"
	"github.com/libp2p/go-libp2p/core/crypto"

	"verifharness/hx"

	"github.com/evstack/ev-node/block"
	"github.com/evstack/ev-node/pkg/config"
	genesispkg "github.com/evstack/ev-node/pkg/genesis"
	noopsigner "github.com/evstack/ev-node/pkg/signer/noop"
	storepkg "github.com/evstack/ev-node/pkg/store"
	"github.com/evstack/ev-node/types"
)

// measurement of one real run; all times in milliseconds since the loop goroutine was started.
type notifRec struct {
	at   float64
	k, j int
}

// tokRec: one event of the run, in the order in which the events happened (appended under one mutex;
// a notification is appended and sent while the mutex is held, so its place in the order is the place
// of the channel send).
type tokRec struct {
	kind byte // 'P' production start, 'e' production end, 'n' notification, 'p' probe, 'w'/'q' notification/probe scripted relative to the call of AggregationLoop
	k, j int
	at   float64
}

type measurement struct {
	starts, ends []float64 // ends[i] < 0: production i was still in flight when the run was cancelled
	causes       []string  // lazy mode: `mode` of the i-th "published block" debug line of produceBlock
	notifs       []notifRec
	bootNotifs   []notifRec // NotifyNewTransactions calls scripted relative to the call of AggregationLoop (sn=)
	loopCalled   float64    // when AggregationLoop was called (ms after the reference instant; scenarios with since=)
	toks         []tokRec
	late         float64 // largest lateness (ms) of a scripted notification / probe / production end
	stopMs       float64 // when ctx was cancelled
	noise        float64 // largest overshoot (ms) of a 5 ms sleep observed by a canary goroutine during the run
	exited       bool
	panicked     string
	loopErr      string
}

// causeOf: what started production k — L lazy-timer case, B block-timer case (lazy loop), N normal loop.
func (ms *measurement) causeOf(lazy bool, k int) string {
	if !lazy {
		return "N"
	}
	if k < len(ms.causes) {
		switch ms.causes[k] {
		case "lazy_timer":
			return "L"
		case "block_timer":
			return "B"
		}
	}
	return "?"
}

// outcome: the order of the first `upto` events, in the vocabulary of Drv/C17.lean.
func (ms *measurement) outcome(lazy bool, upto int) string {
	var out []string
	for i, t := range ms.toks {
		if i >= upto || t.at > ms.stopMs {
			break
		}
		switch t.kind {
		case 'P':
			out = append(out, fmt.Sprintf("%s%d", ms.causeOf(lazy, t.k), t.k))
		case 'e':
			out = append(out, fmt.Sprintf("e%d", t.k))
		case 'w', 'q':
			out = append(out, fmt.Sprintf("%c%d", t.kind, t.j))
		default:
			out = append(out, fmt.Sprintf("%c%d.%d", t.kind, t.k, t.j))
		}
	}
	if len(out) == 0 {
		return "-"
	}
	return strings.Join(out, ",")
}

// capLogger hands the key/value debug lines of the loop to the harness (produceBlock says which
// select case it was called from: m.logger.Debug("Successfully published block", "mode", mode)).
type capLogger struct {
	logging.EventLogger
	onMode func(mode string)
}

func (l *capLogger) Debug(args ...interface{}) {
	for i := 1; i+1 < len(args); i += 2 {
		if k, ok := args[i].(string); ok && k == "mode" {
			if v, ok := args[i+1].(string); ok {
				l.onMode(v)
			}
		}
	}
}

func workDir() string {
	if d := os.Getenv("VERIF_WORK"); d != "" {
		return d
	}
	return os.TempDir()
}

func newManager(sc *script, logger logging.EventLogger) (*block.Manager, func(), error) {
	return newManagerWith(sc, logger, 0)
}

func newManagerWith(sc *script, logger logging.EventLogger, maxPending uint64) (*block.Manager, func(), error) {
	priv, _, err := crypto.GenerateEd25519Key(nil)
	if err != nil {
		return nil, nil, err
	}
	return newManagerOn(sc, logger, maxPending, priv, time.Now().Add(-time.Hour), hx.NewLogDS(nil), &hx.Seq{})
}

// newManagerOn: a Manager for the given signer key and genesis time on the given datastore (a second
// Manager on the datastore of a first one is a restart of the node).
func newManagerOn(sc *script, logger logging.EventLogger, maxPending uint64, priv crypto.PrivKey, genesisTime time.Time, dstore *hx.LogDS, seq *hx.Seq) (*block.Manager, func(), error) {
	pub := priv.GetPublic()
	sg, err := noopsigner.NewNoopSigner(priv)
	if err != nil {
		return nil, nil, err
	}
	gen := genesispkg.NewGenesis("c17", 1, genesisTime, types.KeyAddress(pub))
	root, err := os.MkdirTemp(workDir(), "c17-")
	if err != nil {
		return nil, nil, err
	}
	cleanup := func() { _ = os.RemoveAll(root) }
	cf := config.DefaultConfig
	cf.RootDir = root
	cf.Node.Aggregator = true
	cf.Node.LazyMode = sc.mode == "lazy"
	cf.Node.BlockTime.Duration = time.Duration(sc.B) * time.Millisecond
	cf.Node.LazyBlockInterval.Duration = time.Duration(sc.I) * time.Millisecond
	cf.DA.BlockTime.Duration = time.Second
	cf.Node.MaxPendingHeadersAndData = maxPending
	m, err := block.NewManager(context.Background(), sg, cf, gen, storepkg.New(dstore), &hx.Exec{}, seq, hx.NewDA(),
		logger, nil, nil, &hx.Bcast[*types.SignedHeader]{}, &hx.Bcast[*types.Data]{}, block.NopMetrics(), -1, 0, block.DefaultManagerOptions())
	if err != nil {
		cleanup()
		return nil, nil, err
	}
	return m, cleanup, nil
}

// startLead: how long before the call of AggregationLoop the Manager of a start-up scenario is built
const startLead = 80 * time.Millisecond

// startManager builds the Manager of a scenario and returns the reference instant of its start-up wait.
//   - no `since`: genesis time an hour ago, empty store — no wait (ref is not used);
//   - via=genesis: empty store (height 0 < initial height 1), genesis time = ref chosen so that the loop
//     can be called `since` ms after it;
//   - via=last: a first Manager produces REAL BLOCKS (real publishBlock, hx doubles; heights 1 and 2, the
//     time of the last one = now) into a datastore, then the Manager under test is opened on that datastore — the restart of a node
//     right after a block; ref = LastBlockTime of the state it loaded.
func startManager(sc *script, lg logging.EventLogger) (*block.Manager, time.Time, func(), error) {
	if sc.since < 0 {
		m, cleanup, err := newManager(sc, lg)
		return m, time.Time{}, cleanup, err
	}
	priv, _, err := crypto.GenerateEd25519Key(nil)
	if err != nil {
		return nil, time.Time{}, nil, err
	}
	since := time.Duration(sc.since) * time.Millisecond
	if sc.via == "genesis" {
		ref := time.Now().Add(startLead - since)
		m, cleanup, err := newManagerOn(sc, lg, 0, priv, ref, hx.NewLogDS(nil), &hx.Seq{})
		return m, ref, cleanup, err
	}
	dstore := hx.NewLogDS(nil)
	genesisTime := time.Now().Add(-time.Hour)
	blockTime := time.Now()
	seq := &hx.Seq{Next: &hx.SeqResp{Txs: [][]byte{{0xc1, 0x7}}, Ts: blockTime}}
	m1, cleanup1, err := newManagerOn(sc, logging.Logger("verif"), 0, priv, genesisTime, dstore, seq)
	if err != nil {
		return nil, time.Time{}, nil, err
	}
	// height 1 is the block NewManager itself stored for the initial height (time = genesis time; publishBlock
	// finds it as "pending block"); height 2 is created from the batch, with the batch's time
	if err = m1.VerifPublishBlock(context.Background()); err == nil {
		err = m1.VerifPublishBlock(context.Background())
	}
	cleanup1()
	if err != nil {
		return nil, time.Time{}, nil, fmt.Errorf("the block before the restart: %w", err)
	}
	m, cleanup, err := newManagerOn(sc, lg, 0, priv, genesisTime, dstore, &hx.Seq{})
	if err != nil {
		return nil, time.Time{}, nil, err
	}
	h, _ := m.GetStoreHeight(context.Background())
	ref := m.GetLastState().LastBlockTime
	if d := ref.Sub(blockTime); h != 2 || d > time.Millisecond || d < -time.Millisecond {
		cleanup()
		return nil, time.Time{}, nil, fmt.Errorf("restart: store height %d (want 2), LastBlockTime of the loaded state %v, time of the block %v", h, ref, blockTime)
	}
	return m, ref, cleanup, nil
}

func sleepUntil(ctx context.Context, t time.Time) bool {
	d := time.Until(t)
	if d <= 0 {
		return ctx.Err() == nil
	}
	tm := time.NewTimer(d)
	defer tm.Stop()
	select {
	case <-ctx.Done():
		return false
	case <-tm.C:
		return true
	}
}

// refusalProbe asks the REAL publishBlock what it does at the pending limit (the refused productions of
// the scenarios are played by the recorder): a manager with MaxPendingHeadersAndData = 1 produces one
// real block (hx doubles), then one header is pending and the next call must refuse.  Returns what the
// refusing call returned and whether the height moved.
func refusalProbe() (refusedSilently bool, detail string) {
	sc := &script{mode: "lazy", B: 200, I: 1000, since: -1}
	m, cleanup, err := newManagerWith(sc, logging.Logger("verif"), 1)
	if err != nil {
		return false, "NewManager: " + err.Error()
	}
	defer cleanup()
	ctx := context.Background()
	if err := m.VerifPublishBlock(ctx); err != nil {
		return false, "first production failed: " + err.Error()
	}
	h1, _ := m.GetStoreHeight(ctx)
	ph, pd := m.VerifPendingCounts()
	err = m.VerifPublishBlock(ctx)
	h2, _ := m.GetStoreHeight(ctx)
	detail = fmt.Sprintf("height %d, pending headers %d / data %d, limit 1: publishBlock returned %v, height afterwards %d", h1, ph, pd, err, h2)
	return h1 >= 1 && (ph >= 1 || pd >= 1) && err == nil && h2 == h1, detail
}

// runReal drives the real AggregationLoop of a real Manager with the production function replaced
// by a recorder that sleeps for the scripted duration.  NotifyNewTransactions is called — as the
// reaper does — from other goroutines at the scripted instants (also during a production); probes
// are recorded the same way.  The run ends when `upto` events have happened, at the latest after
// `span` ms.
func runReal(sc *script) (ms measurement, err error) {
	var mu sync.Mutex
	lg := &capLogger{EventLogger: logging.Logger("verif")}
	lg.onMode = func(mode string) {
		mu.Lock()
		ms.causes = append(ms.causes, mode)
		mu.Unlock()
	}
	m, ref, cleanup, err := startManager(sc, lg)
	if err != nil {
		return ms, err
	}
	defer cleanup()
	ctx, cancel := context.WithCancel(context.Background())
	defer cancel()

	var wg sync.WaitGroup
	var t0 time.Time
	since := func(t time.Time) float64 { return float64(t.Sub(t0).Microseconds()) / 1000 }
	reached := make(chan struct{})
	// push: call with mu held
	push := func(t tokRec) {
		ms.toks = append(ms.toks, t)
		if len(ms.toks) == sc.upto {
			close(reached)
		}
	}
	lateBy := func(target time.Time) {
		if l := float64(time.Since(target).Microseconds()) / 1000; l > ms.late {
			ms.late = l
		}
	}
	event := func(target time.Time, notif bool, k, j int) {
		defer wg.Done()
		if !sleepUntil(ctx, target) {
			return
		}
		mu.Lock()
		defer mu.Unlock()
		if ctx.Err() != nil {
			return
		}
		at := since(time.Now())
		lateBy(target)
		switch {
		case notif && k < 0:
			push(tokRec{kind: 'w', k: k, j: j, at: at})
			m.NotifyNewTransactions()
			ms.bootNotifs = append(ms.bootNotifs, notifRec{at: at, k: k, j: j})
		case notif:
			push(tokRec{kind: 'n', k: k, j: j, at: at})
			m.NotifyNewTransactions()
			ms.notifs = append(ms.notifs, notifRec{at: at, k: k, j: j})
		case k < 0:
			push(tokRec{kind: 'q', k: k, j: j, at: at})
		default:
			push(tokRec{kind: 'p', k: k, j: j, at: at})
		}
	}
	m.VerifSetPublishBlock(func(pctx context.Context) error {
		start := time.Now()
		mu.Lock()
		k := len(ms.starts)
		ms.starts = append(ms.starts, since(start))
		ms.ends = append(ms.ends, -1)
		push(tokRec{kind: 'P', k: k, at: since(start)})
		mu.Unlock()
		for j, o := range sc.offsOf(k) {
			wg.Add(1)
			go event(start.Add(time.Duration(o)*time.Millisecond), true, k, j)
		}
		for j, o := range sc.probesOf(k) {
			wg.Add(1)
			go event(start.Add(time.Duration(o)*time.Millisecond), false, k, j)
		}
		target := start.Add(time.Duration(sc.durOf(k)) * time.Millisecond)
		if !sleepUntil(pctx, target) {
			return nil
		}
		mu.Lock()
		if pctx.Err() == nil {
			ms.ends[k] = since(time.Now())
			lateBy(target)
			push(tokRec{kind: 'e', k: k, at: ms.ends[k]})
		}
		mu.Unlock()
		return nil
	})

	errCh := make(chan error, 4)
	done := make(chan struct{})
	// scheduler-noise canary: how late does a plain 5 ms timer wake up a goroutine right now?
	var noise float64
	canaryDone := make(chan struct{})
	go func() {
		defer close(canaryDone)
		for ctx.Err() == nil {
			t := time.Now()
			time.Sleep(5 * time.Millisecond)
			if over := float64(time.Since(t).Microseconds())/1000 - 5; over > noise {
				noise = over
			}
		}
	}()
	t0 = time.Now()
	if sc.since >= 0 {
		// the clock of the scenario starts at the reference instant of the start-up wait (time of the last
		// block / genesis time); AggregationLoop is called `since` ms later
		t0 = ref
		call := ref.Add(time.Duration(sc.since) * time.Millisecond)
		for j, o := range sc.sn {
			wg.Add(1)
			go event(call.Add(time.Duration(o)*time.Millisecond), true, -1, j)
		}
		for j, o := range sc.sp {
			wg.Add(1)
			go event(call.Add(time.Duration(o)*time.Millisecond), false, -1, j)
		}
		sleepUntil(ctx, call)
		mu.Lock()
		lateBy(call)
		ms.loopCalled = since(time.Now())
		mu.Unlock()
	}
	go func() {
		defer close(done)
		defer func() {
			if r := recover(); r != nil {
				mu.Lock()
				ms.panicked = fmt.Sprint(r)
				mu.Unlock()
			}
		}()
		m.AggregationLoop(ctx, errCh)
	}()
	limit := time.NewTimer(time.Until(t0.Add(time.Duration(sc.span) * time.Millisecond)))
	select {
	case <-reached:
	case <-limit.C:
	}
	limit.Stop()
	mu.Lock() // no event is recorded after the cancellation
	stop := time.Now()
	cancel()
	mu.Unlock()
	select {
	case <-done:
		ms.exited = true
	case <-time.After(3 * time.Second):
	}
	wg.Wait()
	<-canaryDone
	select {
	case e := <-errCh:
		ms.loopErr = e.Error()
	default:
	}
	mu.Lock()
	defer mu.Unlock()
	ms.noise = noise
	ms.stopMs = since(stop)
	// copy under the lock (the loop goroutine may still be alive if it did not exit)
	out := measurement{starts: append([]float64(nil), ms.starts...), ends: append([]float64(nil), ms.ends...),
		causes: append([]string(nil), ms.causes...), notifs: append([]notifRec(nil), ms.notifs...), toks: append([]tokRec(nil), ms.toks...),
		bootNotifs: append([]notifRec(nil), ms.bootNotifs...), loopCalled: ms.loopCalled,
		late: ms.late, stopMs: ms.stopMs, noise: ms.noise, exited: ms.exited, panicked: ms.panicked, loopErr: ms.loopErr}
	return out, nil
}
