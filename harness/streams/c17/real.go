package c17

import (
	"context"
	"fmt"
	"os"
	"sync"
	"time"

	logging "github.com/ipfs/go-log/v2"
	"github.com/libp2p/go-libp2p/core/crypto"

	"verifharness/hx"

	"github.com/evstack/ev-node/block"
	"github.com/evstack/ev-node/pkg/config"
	genesispkg "github.com/evstack/ev-node/pkg/genesis"
	noopsigner "github.com/evstack/ev-node/pkg/signer/noop"
	storepkg "github.com/evstack/ev-node/pkg/store"
	"github.com/evstack/ev-node/types"
)

// measurement of one real run; all times in milliseconds since the loop goroutine was started.
type notifRec struct {
	at float64
}
type measurement struct {
	starts, ends []float64 // ends[i] < 0: production i was still in flight when the run was cancelled
	notifs       []notifRec
	stopMs       float64 // when ctx was cancelled
	noise        float64 // largest overshoot (ms) of a 5 ms sleep observed by a canary goroutine during the run
	exited       bool
	panicked     string
	loopErr      string
}

func workDir() string {
	if d := os.Getenv("VERIF_WORK"); d != "" {
		return d
	}
	return os.TempDir()
}

func newManager(sc *script) (*block.Manager, func(), error) {
	priv, pub, err := crypto.GenerateEd25519Key(nil)
	if err != nil {
		return nil, nil, err
	}
	sg, err := noopsigner.NewNoopSigner(priv)
	if err != nil {
		return nil, nil, err
	}
	gen := genesispkg.NewGenesis("c17", 1, time.Now().Add(-time.Hour), types.KeyAddress(pub))
	root, err := os.MkdirTemp(workDir(), "c17-")
	if err != nil {
		return nil, nil, err
	}
	cleanup := func() { _ = os.RemoveAll(root) }
	cf := config.DefaultConfig
	cf.RootDir = root
	cf.Node.Aggregator = true
	cf.Node.LazyMode = sc.mode == "lazy"
	cf.Node.BlockTime.Duration = time.Duration(sc.B) * time.Millisecond
	cf.Node.LazyBlockInterval.Duration = time.Duration(sc.I) * time.Millisecond
	cf.DA.BlockTime.Duration = time.Second
	m, err := block.NewManager(context.Background(), sg, cf, gen, storepkg.New(hx.NewLogDS(nil)), &hx.Exec{}, &hx.Seq{}, hx.NewDA(),
		logging.Logger("verif"), nil, nil, &hx.Bcast[*types.SignedHeader]{}, &hx.Bcast[*types.Data]{}, block.NopMetrics(), -1, 0, block.DefaultManagerOptions())
	if err != nil {
		cleanup()
		return nil, nil, err
	}
	return m, cleanup, nil
}

func sleepUntil(ctx context.Context, t time.Time) bool {
	d := time.Until(t)
	if d <= 0 {
		return ctx.Err() == nil
	}
	tm := time.NewTimer(d)
	defer tm.Stop()
	select {
	case <-ctx.Done():
		return false
	case <-tm.C:
		return true
	}
}

// runReal drives the real AggregationLoop of a real Manager with the production function replaced
// by a recorder that sleeps for the scripted duration and calls NotifyNewTransactions at the
// scripted offsets (inside the production when the offset is shorter than its duration).
func runReal(sc *script) (ms measurement, err error) {
	m, cleanup, err := newManager(sc)
	if err != nil {
		return ms, err
	}
	defer cleanup()
	ctx, cancel := context.WithCancel(context.Background())
	defer cancel()

	var mu sync.Mutex
	var wg sync.WaitGroup
	var t0 time.Time
	since := func(t time.Time) float64 { return float64(t.Sub(t0).Microseconds()) / 1000 }
	notify := func() {
		at := time.Now()
		m.NotifyNewTransactions()
		mu.Lock()
		ms.notifs = append(ms.notifs, notifRec{at: since(at)})
		mu.Unlock()
	}
	m.VerifSetPublishBlock(func(pctx context.Context) error {
		start := time.Now()
		mu.Lock()
		k := len(ms.starts)
		ms.starts = append(ms.starts, since(start))
		ms.ends = append(ms.ends, -1)
		mu.Unlock()
		d := sc.durOf(k)
		for _, o := range sc.offsOf(k) {
			at := start.Add(time.Duration(o) * time.Millisecond)
			if o < d {
				if !sleepUntil(pctx, at) {
					return nil
				}
				notify()
			} else {
				wg.Add(1)
				go func() {
					defer wg.Done()
					if sleepUntil(ctx, at) {
						notify()
					}
				}()
			}
		}
		if !sleepUntil(pctx, start.Add(time.Duration(d)*time.Millisecond)) {
			return nil
		}
		end := time.Now()
		mu.Lock()
		ms.ends[k] = since(end)
		mu.Unlock()
		return nil
	})

	errCh := make(chan error, 4)
	done := make(chan struct{})
	// scheduler-noise canary: how late does a plain 5 ms timer wake up a goroutine right now?
	var noise float64
	canaryDone := make(chan struct{})
	go func() {
		defer close(canaryDone)
		for ctx.Err() == nil {
			t := time.Now()
			time.Sleep(5 * time.Millisecond)
			if over := float64(time.Since(t).Microseconds())/1000 - 5; over > noise {
				noise = over
			}
		}
	}()
	t0 = time.Now()
	go func() {
		defer close(done)
		defer func() {
			if r := recover(); r != nil {
				mu.Lock()
				ms.panicked = fmt.Sprint(r)
				mu.Unlock()
			}
		}()
		m.AggregationLoop(ctx, errCh)
	}()
	time.Sleep(time.Until(t0.Add(time.Duration(sc.span) * time.Millisecond)))
	stop := time.Now()
	cancel()
	select {
	case <-done:
		ms.exited = true
	case <-time.After(3 * time.Second):
	}
	wg.Wait()
	<-canaryDone
	ms.noise = noise
	select {
	case e := <-errCh:
		ms.loopErr = e.Error()
	default:
	}
	mu.Lock()
	defer mu.Unlock()
	ms.stopMs = since(stop)
	// copy under the lock (the loop goroutine may still be alive if it did not exit)
	out := measurement{starts: append([]float64(nil), ms.starts...), ends: append([]float64(nil), ms.ends...),
		notifs: append([]notifRec(nil), ms.notifs...), stopMs: ms.stopMs, noise: ms.noise, exited: ms.exited, panicked: ms.panicked, loopErr: ms.loopErr}
	return out, nil
}
