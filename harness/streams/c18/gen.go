package c18

import (
	"fmt"
	"io"
	"math"
	"regexp"
	"strconv"
	"strings"
	"time"

	"verifharness/hx"
)

// value pools per kind (canonical renderings)
var stringPool = []string{
	"plain", "with space", " leading", "trailing ", "", "null", "~", "true", "false", "yes", "no", "on", "off",
	"123", "-7", "0x1F", "0o17", "017", "1e3", "1.0", ".5", "+1", "1_000", ".inf", "NaN", "2001-01-01", "12:30:45",
	"a: b", "a #b", "#c", "- x", "-", "[1,2]", "{a: b}", "\"q\"", "'s'", "it's", "back\\slash", "tab\there", "line\nbreak",
	"cr\rlf", "%pct", "@at", "`bt`", "!tag", "&anchor", "*alias", "|", ">", "?", ",", "a,b,c", "k=v", "--dash",
	"ünï©ödé", "日本語", "emoji😀", "/ip4/1.2.3.4/tcp/26656", "http://host:7980/path?q=1&r=2", "tcp://0.0.0.0:26657",
	"12D3KooWQ@/ip4/127.0.0.1/tcp/7676,12D3KooWR@/dns/x/tcp/1", ":26660", "Null", "TRUE", "0", "00", "1e+21", "=", "<<",
}

var expFloatRe = regexp.MustCompile(`^[-+]?(\.[0-9]+|[0-9]+(\.[0-9]*)?)[eE][-+]?[0-9]+$`)
var infNanRe = regexp.MustCompile(`^([-+]?\.(inf|Inf|INF)|\.(nan|NaN|NAN))$`)

// Exotic reports string values on which the YAML writer used by SaveAsYaml (goccy/go-yaml) and the
// reader used by Load (viper, yaml.v3) are known to disagree; they go through `savex`, whose
// outcome the model does not predict (the monitor classifies the cause).
func Exotic(s string) bool {
	return strings.Contains(s, "\r") || s == "?" || strings.HasPrefix(s, "? ") || expFloatRe.MatchString(s) || infNanRe.MatchString(s)
}

func safeStrings() []string {
	var out []string
	for _, s := range stringPool {
		if !Exotic(s) {
			out = append(out, s)
		}
	}
	return out
}

var exoticPool = []string{"1e3", "1e+21", "12e4", "00e1", "5E-2", ".inf", "-.inf", ".nan", ".NaN", "?", "? a", "cr\rlf", "\r", "end\r"}

func uintPool(bits int) []string {
	out := []string{"0", "1", "2", "7", "1000", "4294967296"}
	if bits >= 64 {
		out = append(out, "9223372036854775807", "9223372036854775808", "18446744073709551615")
	}
	return out
}

func intPool(bits int) []string {
	out := []string{"0", "1", "-1", "7", "-5", "1000", "2147483647", "-2147483648"}
	if bits >= 64 {
		out = append(out, "9223372036854775807", "-9223372036854775808")
	}
	return out
}

var floatPool = func() []string {
	vs := []float64{-1, 0, 0.5, 1, 1.5, -2.25, 1e21, 1e-7, 123456789.125, math.MaxFloat64, math.SmallestNonzeroFloat64, 0.1, 3, 1e6, 100000000000000000000}
	out := make([]string, len(vs))
	for i, v := range vs {
		out[i] = strconv.FormatFloat(v, 'g', -1, 64)
	}
	return out
}()

var durationPool = func() []string {
	vs := []time.Duration{0, 1, time.Microsecond, 1500 * time.Millisecond, -3 * time.Second, time.Hour, math.MaxInt64, math.MinInt64 + 1, 100 * time.Millisecond, 90 * time.Second, 7 * time.Second, 36 * time.Hour}
	out := make([]string, len(vs))
	for i, v := range vs {
		out[i] = v.String()
	}
	return out
}()

func pool(f Field) []string {
	switch f.Kind {
	case "string":
		return stringPool
	case "bool":
		return []string{"true", "false"}
	case "uint":
		return uintPool(f.Bits)
	case "int":
		return intPool(f.Bits)
	case "float":
		return floatPool
	case "duration":
		return durationPool
	}
	return nil
}

// zeroOf is the canonical rendering of the Go zero value of the option's kind ("" for kinds the
// stream does not know; ok=false then).
func zeroOf(f Field) (string, bool) {
	switch f.Kind {
	case "string":
		return "", true
	case "bool":
		return "false", true
	case "uint", "int", "float":
		return "0", true
	case "duration":
		return "0s", true
	}
	return "", false
}

// mustValues are the values every option is taken through in EVERY run, whatever the seed: the zero
// value of its kind (a writer that omits "empty" values, a reader that treats zero as "unset"), the
// default itself, and one value that is neither - in particular zero for options whose default is
// not zero.
func mustValues(f Field, save bool) []string {
	var out []string
	add := func(v string) {
		for _, x := range out {
			if x == v {
				return
			}
		}
		if save && f.Kind == "string" && Exotic(v) {
			return
		}
		out = append(out, v)
	}
	z, ok := zeroOf(f)
	if ok {
		add(z)
	}
	add(f.Def)
	p := pool(f)
	if save {
		p = savePool(f)
	}
	for _, v := range p {
		if v != z && v != f.Def {
			add(v)
			break
		}
	}
	return out
}

func savePool(f Field) []string {
	if f.Kind == "string" {
		return safeStrings()
	}
	return pool(f)
}

// pick a value of the field's type outside `not` (when the type has enough values)
func pick(r *hx.Rng, f Field, not ...string) string {
	p := pool(f)
	if len(p) == 0 {
		return ""
	}
	for try := 0; try < 40; try++ {
		v := p[r.Intn(len(p))]
		ok := true
		for _, n := range not {
			ok = ok && v != n
		}
		if ok {
			return v
		}
	}
	return p[r.Intn(len(p))]
}

type gen struct {
	r  *hx.Rng
	w  io.Writer
	fs []Field
	fl []Flag
}

func (g *gen) flagNaming(f Field) (Flag, bool) {
	for _, fl := range g.fl {
		if stripKey(fl.Name) == f.YAML {
			return fl, true
		}
	}
	return Flag{}, false
}

func (g *gen) options() []Field {
	var out []Field
	for _, f := range g.fs {
		if isOption(f) && len(pool(f)) > 0 && f.YAML != "-" {
			out = append(out, f)
		}
	}
	return out
}

// noise: other options set in the file / on the command line
func (g *gen) noise(focus Field, n int) (fl, fi []pair) {
	opts := g.options()
	seen := map[string]bool{focus.Go: true}
	for i := 0; i < n; i++ {
		o := opts[g.r.Intn(len(opts))]
		if seen[o.Go] {
			continue
		}
		seen[o.Go] = true
		nf, has := g.flagNaming(o)
		if has && g.r.Chance(40) {
			fl = append(fl, pair{nf.Name, pick(g.r, o, o.Def)})
		}
		if g.r.Chance(70) {
			fi = append(fi, pair{o.YAML, pick(g.r, o, o.Def)})
		}
	}
	return
}

func (g *gen) load(focus Field, flagOn, fileOn bool, nnoise int) {
	fl, fi := g.noise(focus, nnoise)
	var fv, filev string
	nf, has := g.flagNaming(focus)
	if flagOn && has {
		fv = pick(g.r, focus, focus.Def)
		fl = append(fl, pair{nf.Name, fv})
	}
	if fileOn {
		if focus.Kind == "bool" && flagOn && has {
			filev = map[string]string{"true": "false", "false": "true"}[fv]
		} else {
			filev = pick(g.r, focus, focus.Def, fv)
		}
		fi = append(fi, pair{focus.YAML, filev})
	}
	// order on the command line / in the file must not matter
	g.r2shuffle(fl)
	g.r2shuffle(fi)
	fmt.Fprintf(g.w, "load f=%s fl=%s fi=%s\n", focus.Go, showPairs(fl), showPairs(fi))
}

func (g *gen) r2shuffle(p []pair) {
	for i := len(p) - 1; i > 0; i-- {
		j := g.r.Intn(i + 1)
		p[i], p[j] = p[j], p[i]
	}
}

func (g *gen) genesisOp(cid string, ih uint64, t string, off int, pa string) {
	fmt.Fprintf(g.w, "genesis cid=%s ih=%d t=%s off=%d pa=%s\n", hexS(cid), ih, t, off, pa)
}

// genesisAt saves to (and loads from) the scenario's path number `at`, which keeps whatever an
// earlier op of the scenario wrote there.
func (g *gen) genesisAt(at int, cid string, ih uint64, t string, off int, pa string) {
	fmt.Fprintf(g.w, "genesis at=%d cid=%s ih=%d t=%s off=%d pa=%s\n", at, hexS(cid), ih, t, off, pa)
}

// samePath: genesis documents of different encoded lengths saved to the SAME path - longer first,
// then shorter (by many bytes and by exactly one byte), then longer again - with a load after every
// save, a second load later, a second path that must not be disturbed, and invalid documents
// written over valid ones (and the other way round).
func (g *gen) samePath() {
	r, w := g.r, g.w
	long := strings.Repeat("a-rather-long-chain-id.", 4)
	a64, a32, a20, a1 := hx.Hex(r.Bytes(64)), hx.Hex(r.Bytes(32)), hx.Hex(r.Bytes(20)), hx.Hex(r.Bytes(1))
	fmt.Fprintln(w, "reset")
	fmt.Fprintln(w, "gload at=1")
	g.genesisAt(1, long, math.MaxUint64, "1700000000.123456789", 330, a64)
	g.genesisAt(2, "other-path", 7, "1700000001.5", -60, a32)
	g.genesisAt(1, "c", 1, "1700000000.0", 0, "-")
	fmt.Fprintln(w, "gload at=1")
	fmt.Fprintln(w, "gload at=2")
	g.genesisAt(1, "mid-chain", 1000, "1700000000.5", 60, a20)
	g.genesisAt(1, "c", 1, "1700000000.0", 0, a1)
	g.genesisAt(1, long, 1, "1700000000.0", 0, a32)
	fmt.Fprintln(w, "gload at=1")
	fmt.Fprintln(w, "gload at=3")
	// one byte shorter each time, then one byte longer each time
	fmt.Fprintln(w, "reset")
	for n := 9; n >= 1; n-- {
		g.genesisAt(1, strings.Repeat("x", n), 1, "1700000000.0", 0, a20)
	}
	for n := 2; n <= 4; n++ {
		g.genesisAt(1, strings.Repeat("x", n), 1, "1700000000.0", 0, a20)
	}
	for _, ih := range []uint64{1000000, 99999, 100, 9, 10} {
		g.genesisAt(1, "xxxx", ih, "1700000000.0", 0, a20)
	}
	for _, ns := range []string{"123456789", "120000000", "0", "5"} {
		g.genesisAt(1, "xxxx", 10, "1700000000."+ns, 0, a20)
	}
	fmt.Fprintln(w, "gload at=1")
	// invalid over valid, valid over invalid: each refused / accepted for its own reason
	fmt.Fprintln(w, "reset")
	g.genesisAt(1, long, 5, "1700000000.5", 0, a32)
	g.genesisAt(1, "", 5, "1700000000.5", 0, a32)
	fmt.Fprintln(w, "gload at=1")
	g.genesisAt(1, "c", 5, "1700000000.5", 0, "nil")
	g.genesisAt(1, "c", 0, "1700000000.5", 0, a1)
	g.genesisAt(1, "c", 1, "zero", 0, a1)
	g.genesisAt(1, "c", 1, "1700000000.5", 0, a1)
	fmt.Fprintln(w, "gload at=1")
	g.genesisAt(1, long, 0, "1700000000.5", 0, a32)
	g.genesisAt(1, "ok", 2, "1700000000.5", 0, "-")
	fmt.Fprintln(w, "gload at=1")
}

func (g *gen) randGenesis(at int) {
	r := g.r
	cid := stringPool[r.Intn(len(stringPool))]
	if cid == "" && !r.Chance(20) {
		cid = "chain-" + strconv.Itoa(r.Intn(1000))
	}
	ih := []uint64{1, 1, 2, 10, 1 << 32, math.MaxUint64, uint64(r.Intn(100000)) + 1}[r.Intn(7)]
	if r.Chance(8) {
		ih = 0
	}
	// instants whose local rendering stays within years 0..9999
	lo, hi := int64(zeroUnix), int64(253402300799-15*3600)
	sec := lo + int64(r.U64()%uint64(hi-lo))
	if r.Chance(30) {
		sec = 1700000000 + int64(r.Intn(100000000))
	}
	nsec := []int64{0, 1, 999999999, int64(r.Intn(1000000000)), 500000000}[r.Intn(5)]
	t := fmt.Sprintf("%d.%d", sec, nsec)
	if r.Chance(8) {
		t = "zero"
	}
	off := []int{0, 0, 60, -60, 330, -720, 840, 345, -210}[r.Intn(9)]
	pa := "nil"
	switch r.Intn(10) {
	case 0:
	case 1:
		pa = "-"
	case 2:
		pa = hx.Hex(r.Bytes(20))
	default:
		pa = hx.Hex(r.Bytes(32))
	}
	if at > 0 {
		g.genesisAt(at, cid, ih, t, off, pa)
		return
	}
	g.genesisOp(cid, ih, t, off, pa)
}

// pickFrom: a value of the list outside `not` (when there is one)
func pickFrom(r *hx.Rng, p []string, not ...string) string {
	for try := 0; try < 40; try++ {
		v := p[r.Intn(len(p))]
		ok := true
		for _, n := range not {
			ok = ok && v != n
		}
		if ok {
			return v
		}
	}
	return p[r.Intn(len(p))]
}

// sameCommand: histories of loads through ONE command object (`cmd=1`: parsed once, every load and
// save->load of the scenario goes through it) while the file changes in between - by hand, by
// removal, by SaveAsYaml - with and without flags on the command line. What a Load returns may
// depend on the command line, the file as it is now and the defaults only.
func (g *gen) sameCommand(tier string) {
	r, w, opts := g.r, g.w, g.options()
	for _, f := range opts {
		// (a) nothing on the command line: file v1 -> file v2 -> no file -> SaveAsYaml v3 -> file v1;
		// then the same through a new command object
		v1 := pick(r, f, f.Def)
		v2 := pick(r, f, f.Def, v1)
		v3 := pickFrom(r, savePool(f), f.Def, v1, v2)
		fmt.Fprintln(w, "reset")
		fmt.Fprintf(w, "load cmd=1 f=%s fl=- fi=%s\n", f.Go, showPairs([]pair{{f.YAML, v1}}))
		fmt.Fprintf(w, "load cmd=1 f=%s fl=- fi=%s\n", f.Go, showPairs([]pair{{f.YAML, v2}}))
		fmt.Fprintf(w, "load cmd=1 f=%s fl=- fi=-\n", f.Go)
		fmt.Fprintf(w, "save cmd=1 set=%s\n", showPairs([]pair{{f.Go, v3}}))
		fmt.Fprintf(w, "load cmd=1 f=%s fl=- fi=%s\n", f.Go, showPairs([]pair{{f.YAML, v1}}))
		fmt.Fprintf(w, "load cmd=1 newcmd=1 f=%s fl=- fi=%s\n", f.Go, showPairs([]pair{{f.YAML, v2}}))
		fmt.Fprintf(w, "load cmd=1 f=%s fl=- fi=%s\n", f.Go, showPairs([]pair{{f.YAML, v1}}))
		// (b) the flag naming the option is on the command line, the file changes for the option and
		// for a neighbour: the option keeps the flag's value, the neighbour follows the file
		nf, has := g.flagNaming(f)
		if !has {
			continue
		}
		nb := opts[r.Intn(len(opts))]
		if nb.Go == f.Go {
			continue
		}
		fv := pick(r, f, f.Def, v1, v2)
		flS := showPairs([]pair{{nf.Name, fv}})
		n1 := pick(r, nb, nb.Def)
		n2 := pick(r, nb, nb.Def, n1)
		n3 := pickFrom(r, savePool(nb), nb.Def, n1, n2)
		fmt.Fprintln(w, "reset")
		fmt.Fprintf(w, "load cmd=1 f=%s fl=%s fi=%s\n", f.Go, flS, showPairs([]pair{{f.YAML, v1}, {nb.YAML, n1}}))
		fmt.Fprintf(w, "load cmd=1 f=%s fl=%s fi=%s\n", nb.Go, flS, showPairs([]pair{{nb.YAML, n2}, {f.YAML, v2}}))
		fmt.Fprintf(w, "save cmd=1 fl=%s set=%s\n", flS, showPairs([]pair{{f.Go, v3}, {nb.Go, n3}}))
		fmt.Fprintf(w, "load cmd=1 f=%s fl=%s fi=-\n", nb.Go, flS)
		// the command line changes: that is another command object (same home)
		fmt.Fprintf(w, "load cmd=1 f=%s fl=- fi=%s\n", f.Go, showPairs([]pair{{f.YAML, v2}, {nb.YAML, n1}}))
	}
	// (c) whole configurations written by SaveAsYaml one after the other, loaded through one command
	var allZero, allOther []pair
	for _, f := range opts {
		if z, ok := zeroOf(f); ok {
			allZero = append(allZero, pair{f.Go, z})
			mv := mustValues(f, true)
			allOther = append(allOther, pair{f.Go, mv[len(mv)-1]})
		}
	}
	fmt.Fprintln(w, "reset")
	fmt.Fprintf(w, "save cmd=1 set=%s\n", showPairs(allOther))
	fmt.Fprintf(w, "save cmd=1 set=%s\n", showPairs(allZero))
	fmt.Fprintln(w, "save cmd=1 set=-")
	fmt.Fprintf(w, "save cmd=1 set=%s\n", showPairs(allOther))
	fmt.Fprintf(w, "load cmd=1 f=%s fl=- fi=-\n", opts[0].Go)
	// (d) random histories: a random command line fixed for the scenario, random files and saves
	n := 4
	if tier == "thorough" {
		n = 30
	}
	for i := 0; i < n; i++ {
		fmt.Fprintln(w, "reset")
		var fl []pair
		for _, f := range opts {
			if nf, has := g.flagNaming(f); has && r.Chance(12) {
				fl = append(fl, pair{nf.Name, pick(r, f, f.Def)})
			}
		}
		flS := showPairs(fl)
		for step := 0; step < 8; step++ {
			focus := opts[r.Intn(len(opts))]
			if r.Chance(35) {
				var set []pair
				for _, f := range opts {
					if r.Chance(30) {
						set = append(set, pair{f.Go, pickFrom(r, savePool(f))})
					}
				}
				fmt.Fprintf(w, "save cmd=1 fl=%s set=%s\n", flS, showPairs(set))
				continue
			}
			var fi []pair
			if !r.Chance(10) {
				fi = append(fi, pair{focus.YAML, pick(r, focus, focus.Def)})
				for _, f := range opts {
					if f.Go != focus.Go && r.Chance(20) {
						fi = append(fi, pair{f.YAML, pick(r, f, f.Def)})
					}
				}
				g.r2shuffle(fi)
			}
			fmt.Fprintf(w, "load cmd=1 f=%s fl=%s fi=%s\n", focus.Go, flS, showPairs(fi))
		}
	}
}

// Gen writes the op lines. Every field and every flag discovered in the compiled code is covered
// in every run (both tiers); the tiers differ in how many values and combinations are drawn.
func Gen(r *hx.Rng, tier string, w io.Writer) {
	// hx.NewRng(seed) starts at seed*gamma: consecutive seeds give shifted copies of one sequence.
	// Re-seed from an output so that different seeds give unrelated streams.
	r = hx.NewRng(r.U64() ^ 0xC18C18C18)
	g := &gen{r: r, w: w, fs: Fields()}
	g.fl, _ = Flags(false)
	reps, saves, nGenesis := 1, 2, 60
	if tier == "thorough" {
		reps, saves, nGenesis = 6, 12, 600
	}
	opts := g.options()

	// 1. every registered flag reaches an option (all of them: a flag bound to a key no field decodes
	// from - as the two signer flags were until /repo b15f31a - shows here)
	fmt.Fprintln(w, "reset")
	for _, fl := range g.fl {
		if fl.Name == "home" {
			continue
		}
		fmt.Fprintf(w, "flagreach fl=%s:%s\n", fl.Name, hexS(probeValue(fl.Kind, fl.Def)))
	}

	// 2. flag > file > default, per option: all presence combinations, values of the option's type
	for _, f := range opts {
		fmt.Fprintln(w, "reset")
		_, has := g.flagNaming(f)
		for rep := 0; rep < reps; rep++ {
			for _, combo := range [][2]bool{{false, false}, {false, true}, {true, false}, {true, true}, {false, false}} {
				if combo[0] && !has {
					continue
				}
				g.load(f, combo[0], combo[1], r.Intn(3))
			}
		}
	}

	// 3. every value of the pool through the file and through the flag (quoting, number syntax)
	for _, f := range opts {
		fmt.Fprintln(w, "reset")
		nf, has := g.flagNaming(f)
		p := pool(f)
		n := len(p)
		if tier != "thorough" && n > 12 {
			n = 12
		}
		vals := mustValues(f, false)
		for _, i := range r.Perm(len(p))[:n] {
			vals = append(vals, p[i])
		}
		for _, v := range vals {
			fmt.Fprintf(w, "load f=%s fl=- fi=%s\n", f.Go, showPairs([]pair{{f.YAML, v}}))
			if has {
				fmt.Fprintf(w, "load f=%s fl=%s fi=-\n", f.Go, showPairs([]pair{{nf.Name, v}}))
			}
		}
	}

	// 4. save -> load: one option at a time with values of its type, then many at once
	for _, f := range opts {
		fmt.Fprintln(w, "reset")
		p := savePool(f)
		n := len(p)
		if tier != "thorough" && n > saves*4 {
			n = saves * 4
		}
		// zero of the kind, the default, a third value: in every run, for every option
		for _, v := range mustValues(f, true) {
			fmt.Fprintf(w, "save set=%s\n", showPairs([]pair{{f.Go, v}}))
		}
		for _, i := range r.Perm(len(p))[:n] {
			fmt.Fprintf(w, "save set=%s\n", showPairs([]pair{{f.Go, p[i]}}))
		}
		if f.Kind == "string" {
			for _, i := range r.Perm(len(exoticPool))[:saves] {
				fmt.Fprintf(w, "savex set=%s\n", showPairs([]pair{{f.Go, exoticPool[i]}}))
			}
		}
	}
	// whole configurations: the defaults, every option at the zero value of its kind, every option
	// at a non-default value, every group (Go struct) at zero while the rest keeps its default
	fmt.Fprintln(w, "reset")
	fmt.Fprintln(w, "save set=-")
	var allZero, allOther []pair
	groups := map[string][]pair{}
	var groupOrder []string
	for _, f := range opts {
		z, ok := zeroOf(f)
		if !ok {
			continue
		}
		allZero = append(allZero, pair{f.Go, z})
		mv := mustValues(f, true)
		allOther = append(allOther, pair{f.Go, mv[len(mv)-1]})
		grp := f.Go
		if i := strings.LastIndex(grp, "."); i >= 0 {
			grp = grp[:i]
		}
		if _, seen := groups[grp]; !seen {
			groupOrder = append(groupOrder, grp)
		}
		groups[grp] = append(groups[grp], pair{f.Go, z})
	}
	fmt.Fprintf(w, "save set=%s\n", showPairs(allZero))
	fmt.Fprintf(w, "save set=%s\n", showPairs(allOther))
	for _, grp := range groupOrder {
		fmt.Fprintf(w, "save set=%s\n", showPairs(groups[grp]))
	}
	// the same home written again: a long file first, then shorter ones over it, then long again
	fmt.Fprintln(w, "reset")
	var allLong []pair
	for _, f := range opts {
		if f.Kind == "string" {
			allLong = append(allLong, pair{f.Go, strings.Repeat("a long value ", 6) + f.Go})
		}
	}
	fmt.Fprintf(w, "save at=1 set=%s\n", showPairs(allLong))
	fmt.Fprintf(w, "save at=1 set=%s\n", showPairs(allZero))
	fmt.Fprintf(w, "save at=1 set=-\n")
	fmt.Fprintf(w, "save at=1 set=%s\n", showPairs(allLong[:len(allLong)/2]))
	fmt.Fprintf(w, "save at=1 set=%s\n", showPairs(allOther))
	fmt.Fprintf(w, "save at=1 set=%s\n", showPairs(allZero))
	// random configurations, all written to one home
	fmt.Fprintln(w, "reset")
	for i := 0; i < saves*10; i++ {
		var set []pair
		for _, f := range opts {
			if r.Chance(50) {
				p := savePool(f)
				set = append(set, pair{f.Go, p[r.Intn(len(p))]})
			}
		}
		fmt.Fprintf(w, "save at=1 set=%s\n", showPairs(set))
		if r.Chance(30) {
			g.load(opts[r.Intn(len(opts))], r.Bool(), r.Bool(), 4)
		}
	}

	// 5. memory shared with DefaultConfig: what one Load resolved must not be the next Load's
	// "default" (repaired in /repo 76d1c39 for the Instrumentation pointer). Every option in turn,
	// shared or not according to the structural walk: file value first, then nothing.
	for _, f := range opts {
		if f.Via == "" && tier != "thorough" && !r.Chance(25) {
			continue
		}
		fmt.Fprintln(w, "reset")
		fmt.Fprintf(w, "load f=%s fl=- fi=%s\n", f.Go, showPairs([]pair{{f.YAML, pick(r, f, f.Def)}}))
		fmt.Fprintf(w, "load f=%s fl=- fi=-\n", f.Go)
	}

	// 5b. histories through one command object
	g.sameCommand(tier)

	// 6. malformed command lines
	fmt.Fprintln(w, "reset")
	fmt.Fprintf(w, "load f=%s fl=%s fi=-\n", opts[0].Go, showPairs([]pair{{"rollkit.no.such_flag", "x"}}))
	fmt.Fprintf(w, "flagreach fl=%s\n", showPairs([]pair{{"no_such_flag", "x"}}))
	fmt.Fprintf(w, "load f=%s fl=- fi=%s\n", opts[0].Go, showPairs([]pair{{"no.such.key", "x"}, {"node.no_such", "y"}}))

	// 6b. key case: viper lower-cases the keys of the file
	for i := 0; i < 3; i++ {
		f := opts[r.Intn(len(opts))]
		fmt.Fprintf(w, "load f=%s fl=- fi=%s\n", f.Go, showPairs([]pair{{strings.ToUpper(f.YAML), pick(r, f, f.Def)}}))
	}
	// 6c. values that are not of the option's type, files of the wrong shape: no panic (outcome not predicted)
	bad := map[string][]string{"uint": {"abc", "-1", "1.5", "18446744073709551616", ""}, "int": {"abc", "1.5", "9223372036854775808"},
		"bool": {"maybe", "2", ""}, "float": {"abc", "1e999", ""}, "duration": {"abc", "5", "1x", ""}, "string": {"[1, 2]", "{a: 1}"}}
	for _, f := range opts {
		for _, v := range bad[f.Kind] {
			if !r.Chance(35) && tier != "thorough" {
				continue
			}
			fmt.Fprintf(w, "loadx style=bool fl=- fi=%s\n", showPairs([]pair{{f.YAML, v}}))
			fmt.Fprintf(w, "loadx style=string fl=- fi=%s\n", showPairs([]pair{{f.YAML, v}}))
			if nf, has := g.flagNaming(f); has {
				fmt.Fprintf(w, "loadx style=string fl=%s fi=-\n", showPairs([]pair{{nf.Name, v}}))
			}
		}
	}
	for _, raw := range []string{"node: 5\n", "node:\n  block_time:\n    x: 1\n", "- a\n- b\n", "instrumentation: null\n", "instrumentation: []\n", ": :\n\t", "node: [1,2]\nda: x\n", "\x00\x01", "signer: {signer_type: {a: b}}\n"} {
		fmt.Fprintf(w, "loadx style=string fl=- fi=- raw=%s\n", hx.Hex([]byte(raw)))
	}

	// 7. genesis: every refusal condition deliberately, then random values
	fmt.Fprintln(w, "reset")
	a32 := hx.Hex(r.Bytes(32))
	g.genesisOp("c", 1, "1700000000.5", 0, a32)
	g.genesisOp("", 1, "1700000000.5", 0, a32)
	g.genesisOp("c", 0, "1700000000.5", 0, a32)
	g.genesisOp("c", 1, "zero", 0, a32)
	g.genesisOp("c", 1, "zero", 60, a32)
	g.genesisOp("c", 1, fmt.Sprintf("%d.0", int64(zeroUnix)), -60, a32)
	g.genesisOp("c", 1, fmt.Sprintf("%d.1", int64(zeroUnix)), 0, a32)
	g.genesisOp("c", 1, "1700000000.5", 0, "nil")
	g.genesisOp("c", 1, "1700000000.5", 0, "-")
	g.genesisOp("", 0, "zero", 0, "nil")
	g.genesisOp("c", math.MaxUint64, "0.0", 840, a32)
	g.samePath()
	for i := 0; i < nGenesis; i++ {
		if i%20 == 0 {
			fmt.Fprintln(w, "reset")
		}
		// two thirds of the documents go to one of two paths the scenario re-uses (random lengths, so
		// longer-then-shorter happens all the time), the rest to a fresh path each
		at := 0
		if r.Chance(66) {
			at = 1 + r.Intn(2)
		}
		g.randGenesis(at)
		if r.Chance(15) {
			fmt.Fprintf(w, "gload at=%d\n", 1+r.Intn(3))
		}
	}
	_ = strings.TrimSpace
}
