package c18

import (
	"encoding/json"
	"fmt"
	"io"
	"math"
	"regexp"
	"strconv"
	"strings"
	"time"

	"verifharness/hx"

	"github.com/evstack/ev-node/pkg/genesis"
)

// value pools per kind (canonical renderings)
var stringPool = []string{
	"plain", "with space", " leading", "trailing ", "", "null", "~", "true", "false", "yes", "no", "on", "off",
	"123", "-7", "0x1F", "0o17", "017", "1e3", "1.0", ".5", "+1", "1_000", ".inf", "NaN", "2001-01-01", "12:30:45",
	"a: b", "a #b", "#c", "- x", "-", "[1,2]", "{a: b}", "\"q\"", "'s'", "it's", "back\\slash", "tab\there", "line\nbreak",
	"cr\rlf", "%pct", "@at", "`bt`", "!tag", "&anchor", "*alias", "|", ">", "?", ",", "a,b,c", "k=v", "--dash",
	"ünï©ödé", "日本語", "emoji😀", "/ip4/1.2.3.4/tcp/26656", "http://host:7980/path?q=1&r=2", "tcp://0.0.0.0:26657",
	"12D3KooWQ@/ip4/127.0.0.1/tcp/7676,12D3KooWR@/dns/x/tcp/1", ":26660", "Null", "TRUE", "0", "00", "1e+21", "=", "<<",
	"{\n  \"fee\": 1\n}", "  {\n    \"fee\": 1\n  }", " {\n  \"fee\": 1\n}", "a\n b", "a  \nb", "  \n fee=1", "\n a", "a\n\nb\n",
}

var expFloatRe = regexp.MustCompile(`^[-+]?(\.[0-9]+|[0-9]+(\.[0-9]*)?)[eE][-+]?[0-9]+$`)
var infNanRe = regexp.MustCompile(`^([-+]?\.(inf|Inf|INF)|\.(nan|NaN|NAN))$`)

// Exotic reports string values of the pool that the YAML writer used by SaveAsYaml (goccy/go-yaml)
// and the reader used by Load (viper, yaml.v3) do not preserve. (The Lean model predicts what comes
// back for them - Model/ConfigYaml.lean - so they go through the same `save` op as every other
// value; this predicate only keeps them out of places that need an ordinary value.)
func Exotic(s string) bool { return yamlCause(s, 0) != "" || yamlCause(s, 1) != "" }

func safeStrings() []string {
	var out []string
	for _, s := range stringPool {
		if !Exotic(s) {
			out = append(out, s)
		}
	}
	return out
}

// yamlClass draws one string value of class k (0..nYamlClasses-1) of values on which writer and
// reader disagree - or look as if they might. Every class stays inside the domain the model was
// validated on (at most 15 significant digits, decimal exponent at most 250, no tab, no blank next
// to a line break, CR and LF never in one value).
const nYamlClasses = 13

func yamlClass(r *hx.Rng, k int) string {
	digits := func(n int, set string) string {
		b := make([]byte, n)
		for i := range b {
			b[i] = set[r.Intn(len(set))]
		}
		return string(b)
	}
	sign := func() string { return []string{"", "", "+", "-"}[r.Intn(4)] }
	us := func(s string) string { // sprinkle an underscore (never first)
		if len(s) > 1 && r.Chance(25) {
			i := 1 + r.Intn(len(s)-1)
			return s[:i] + "_" + s[i:]
		}
		return s
	}
	word := func() string {
		return []string{"a", "ns", "x-1", "it's", "k=v", "ünï", "a b", "0x1F", "1.5e3", "?a", "a?", "-a", "日本", "v1.2.3", "a:b"}[r.Intn(15)]
	}
	switch k {
	case 0: // float with exponent and no dot: 12e4, -5E-2, 00e1, 1_0e1
		return us(sign() + digits(1+r.Intn(4), "0123456789") + []string{"e", "E"}[r.Intn(2)] + []string{"", "+", "-"}[r.Intn(3)] + digits(1+r.Intn(2), "0123456789"))
	case 1:
		return []string{".inf", ".Inf", ".INF", "+.inf", "+.Inf", "+.INF", "-.inf", "-.Inf", "-.INF", ".nan", ".NaN", ".NAN"}[r.Intn(12)]
	case 2: // upper-case radix prefix
		switch r.Intn(3) {
		case 0:
			return us(sign() + "0X" + digits(1+r.Intn(8), "0123456789abcdefABCDEF"))
		case 1:
			return us(sign() + "0O" + digits(1+r.Intn(8), "01234567"))
		}
		return us(sign() + "0B" + digits(1+r.Intn(12), "01"))
	case 3: // lower-case radix prefix with an inner sign
		if r.Bool() {
			return "0o" + []string{"+", "-"}[r.Intn(2)] + digits(1+r.Intn(6), "01234567")
		}
		return "0b" + []string{"+", "-"}[r.Intn(2)] + digits(1+r.Intn(10), "01")
	case 4: // leading zero, not octal
		return us(sign() + "0" + digits(r.Intn(3), "0123456789") + []string{"8", "9"}[r.Intn(2)] + digits(r.Intn(3), "0123456789"))
	case 5: // date with a one-digit month or day (valid: Load fails; month/day out of range: a string)
		y := digits(4, "0123456789")
		m := []string{"1", "9", "01", "12", "0", "13", "00"}[r.Intn(7)]
		d := []string{"1", "9", "28", "0", "32", "05"}[r.Intn(6)]
		if len(m) == 2 && len(d) == 2 {
			d = "7"
		}
		return y + "-" + m + "-" + d
	case 6: // complex-key indicator
		return []string{"?", "? " + word(), "? "}[r.Intn(2)]
	case 7: // control characters
		c := []string{"\x00", "\x01", "\x1b", "\x7f", "\u0080", "\u009f", "\x0b", "\x1f"}[r.Intn(8)]
		return []string{c, "a" + c, c + "b", "a" + c + "b", "#" + c, "'" + c}[r.Intn(6)]
	case 8: // CR as the only line break
		n := 1 + r.Intn(3)
		var parts []string
		for i := 0; i < n; i++ {
			parts = append(parts, []string{"cr", "lf", "a b", "", "x", "-", "?"}[r.Intn(7)])
		}
		return strings.Join(parts, "\r") + strings.Repeat("\r", r.Intn(4))
	case 9: // LF as the only line break
		return []string{"\n", "a\nb", "a\n", "a\n\n", "\na", "\n\n", "?\nb", "a\n\nb"}[r.Intn(8)]
	case 11: // several lines (LF): indented lines, blank first line, trailing spaces, a later line shallower than the first, pretty-printed JSON
		if r.Chance(30) {
			return []string{"{\n  \"fee\": 1\n}", "  {\n    \"fee\": 1\n  }", " {\n  \"fee\": 1\n}", "  \n fee=1", "\n a", "\n  a\n b", "a    \n", "a\n b", "a  \nb", "key: v\nk2: v2", "a\n\n\nb\n\n"}[r.Intn(11)]
		}
		n := 2 + r.Intn(3)
		var ls []string
		for i := 0; i < n; i++ {
			w := []string{"a", "fee=1", "\"k\": 2", "x y", "}", "", ""}[r.Intn(7)]
			ls = append(ls, strings.Repeat(" ", []int{0, 0, 1, 2, 4}[r.Intn(5)])+w+strings.Repeat(" ", []int{0, 0, 0, 1, 2, 4, 5}[r.Intn(7)]))
		}
		if r.Chance(25) {
			ls[0] = ""
		}
		return strings.Join(ls, "\n") + strings.Repeat("\n", []int{0, 0, 1, 2}[r.Intn(4)])
	case 10: // look like one of the above and are not: quoted by the writer, or strings for the reader too
		return []string{"0x1F", "1.5e3", "017", "2001-01-01", "-", "1e3 ", "12e4#", "0X", "0XG", "0o8", "09a", "_09", "_1e3", "1e", "e3", "+-1e3", "2001-13-1", "2001-1-0", "?a", "a ? b", ".Nan", ".infx", "0b+2", "0O8"}[r.Intn(24)]
	}
	return word()
}

func uintPool(bits int) []string {
	out := []string{"0", "1", "2", "7", "1000", "4294967296"}
	if bits >= 64 {
		out = append(out, "9223372036854775807", "9223372036854775808", "18446744073709551615")
	}
	return out
}

func intPool(bits int) []string {
	out := []string{"0", "1", "-1", "7", "-5", "1000", "2147483647", "-2147483648"}
	if bits >= 64 {
		out = append(out, "9223372036854775807", "-9223372036854775808")
	}
	return out
}

var floatPool = func() []string {
	vs := []float64{-1, 0, 0.5, 1, 1.5, -2.25, 1e21, 1e-7, 123456789.125, math.MaxFloat64, math.SmallestNonzeroFloat64, 0.1, 3, 1e6, 100000000000000000000}
	out := make([]string, len(vs))
	for i, v := range vs {
		out[i] = strconv.FormatFloat(v, 'g', -1, 64)
	}
	return out
}()

var durationPool = func() []string {
	vs := []time.Duration{0, 1, time.Microsecond, 1500 * time.Millisecond, -3 * time.Second, time.Hour, math.MaxInt64, math.MinInt64 + 1, 100 * time.Millisecond, 90 * time.Second, 7 * time.Second, 36 * time.Hour}
	out := make([]string, len(vs))
	for i, v := range vs {
		out[i] = v.String()
	}
	return out
}()

func pool(f Field) []string {
	switch f.Kind {
	case "string":
		return stringPool
	case "bool":
		return []string{"true", "false"}
	case "uint":
		return uintPool(f.Bits)
	case "int":
		return intPool(f.Bits)
	case "float":
		return floatPool
	case "duration":
		return durationPool
	}
	return nil
}

// zeroOf is the canonical rendering of the Go zero value of the option's kind ("" for kinds the
// stream does not know; ok=false then).
func zeroOf(f Field) (string, bool) {
	switch f.Kind {
	case "string":
		return "", true
	case "bool":
		return "false", true
	case "uint", "int", "float":
		return "0", true
	case "duration":
		return "0s", true
	}
	return "", false
}

// mustValues are the values every option is taken through in EVERY run, whatever the seed: the zero
// value of its kind (a writer that omits "empty" values, a reader that treats zero as "unset"), the
// default itself, and one value that is neither - in particular zero for options whose default is
// not zero.
func mustValues(f Field, save bool) []string {
	var out []string
	add := func(v string) {
		for _, x := range out {
			if x == v {
				return
			}
		}
		if save && f.Kind == "string" && Exotic(v) {
			return
		}
		out = append(out, v)
	}
	z, ok := zeroOf(f)
	if ok {
		add(z)
	}
	add(f.Def)
	p := pool(f)
	if save {
		p = savePool(f)
	}
	for _, v := range p {
		if v != z && v != f.Def {
			add(v)
			break
		}
	}
	return out
}

func savePool(f Field) []string {
	if f.Kind == "string" {
		return safeStrings()
	}
	return pool(f)
}

// pick a value of the field's type outside `not` (when the type has enough values)
func pick(r *hx.Rng, f Field, not ...string) string {
	p := pool(f)
	if len(p) == 0 {
		return ""
	}
	for try := 0; try < 40; try++ {
		v := p[r.Intn(len(p))]
		ok := true
		for _, n := range not {
			ok = ok && v != n
		}
		if ok {
			return v
		}
	}
	return p[r.Intn(len(p))]
}

type gen struct {
	r  *hx.Rng
	w  io.Writer
	fs []Field
	fl []Flag
}

func (g *gen) flagNaming(f Field) (Flag, bool) {
	for _, fl := range g.fl {
		if stripKey(fl.Name) == f.YAML {
			return fl, true
		}
	}
	return Flag{}, false
}

func (g *gen) options() []Field {
	var out []Field
	for _, f := range g.fs {
		if isOption(f) && len(pool(f)) > 0 && f.YAML != "-" {
			out = append(out, f)
		}
	}
	return out
}

// noise: other options set in the file / on the command line
func (g *gen) noise(focus Field, n int) (fl, fi []pair) {
	opts := g.options()
	seen := map[string]bool{focus.Go: true}
	for i := 0; i < n; i++ {
		o := opts[g.r.Intn(len(opts))]
		if seen[o.Go] {
			continue
		}
		seen[o.Go] = true
		nf, has := g.flagNaming(o)
		if has && g.r.Chance(40) {
			fl = append(fl, pair{nf.Name, pick(g.r, o, o.Def)})
		}
		if g.r.Chance(70) {
			fi = append(fi, pair{o.YAML, pick(g.r, o, o.Def)})
		}
	}
	return
}

func (g *gen) load(focus Field, flagOn, fileOn bool, nnoise int) {
	fl, fi := g.noise(focus, nnoise)
	var fv, filev string
	nf, has := g.flagNaming(focus)
	if flagOn && has {
		fv = pick(g.r, focus, focus.Def)
		fl = append(fl, pair{nf.Name, fv})
	}
	if fileOn {
		if focus.Kind == "bool" && flagOn && has {
			filev = map[string]string{"true": "false", "false": "true"}[fv]
		} else {
			filev = pick(g.r, focus, focus.Def, fv)
		}
		fi = append(fi, pair{focus.YAML, filev})
	}
	// order on the command line / in the file must not matter
	g.r2shuffle(fl)
	g.r2shuffle(fi)
	fmt.Fprintf(g.w, "load f=%s fl=%s fi=%s\n", focus.Go, showPairs(fl), showPairs(fi))
}

func (g *gen) r2shuffle(p []pair) {
	for i := len(p) - 1; i > 0; i-- {
		j := g.r.Intn(i + 1)
		p[i], p[j] = p[j], p[i]
	}
}

func (g *gen) genesisOp(cid string, ih uint64, t string, off int, pa string) {
	fmt.Fprintf(g.w, "genesis cid=%s ih=%d t=%s off=%d pa=%s\n", hexS(cid), ih, t, off, pa)
}

// genesisAt saves to (and loads from) the scenario's path number `at`, which keeps whatever an
// earlier op of the scenario wrote there.
func (g *gen) genesisAt(at int, cid string, ih uint64, t string, off int, pa string) {
	fmt.Fprintf(g.w, "genesis at=%d cid=%s ih=%d t=%s off=%d pa=%s\n", at, hexS(cid), ih, t, off, pa)
}

// encodingClasses: the values encoding/json does NOT write back equal - or refuses to write: years
// outside 0..9999 (in the value's own zone), zone offsets of 24 h and more, zone offsets with
// seconds (the instant shifts), chain ids that are not valid UTF-8 (U+FFFD) - and their neighbours
// on the good side, plus chain ids that need every kind of JSON escape.
func (g *gen) encodingClasses() {
	r, w := g.r, g.w
	a := hx.Hex(r.Bytes(20))
	op := func(cid string, t string, off int, offs int, pa string) {
		fmt.Fprintf(w, "genesis cid=%s ih=%d t=%s off=%d offs=%d pa=%s\n", hexS(cid), 1+r.Intn(5), t, off, offs, pa)
	}
	fmt.Fprintln(w, "reset")
	const y0, y10k = int64(-62167219200), int64(253402300800) // 0000-01-01T00:00:00Z, 10000-01-01T00:00:00Z
	for _, c := range []struct {
		sec int64
		off int
	}{{y0, 0}, {y0 - 1, 0}, {y0 - 1, 1}, {y0, -1}, {y0 + 3600, -60}, {y0 + 3599, -60}, {y10k - 1, 0}, {y10k, 0}, {y10k - 1, 1}, {y10k - 60, 1},
		{y10k + 3600, -61}, {y10k + 3600, -60}, {y0 - 400*86400, 0}, {y10k + 400*86400, 0}, {-62135596800, 0}, {0, 0}, {-1, 0}} {
		op("c", fmt.Sprintf("%d.%d", c.sec, []int{0, 1, 500000000}[r.Intn(3)]), c.off, 0, a)
	}
	// zone offsets: up to 23:59:59 fine, 24:00 refused; seconds dropped
	for _, c := range [][2]int{{1439, 0}, {1439, 59}, {1440, 0}, {-1439, -59}, {-1440, 0}, {2000, 0}, {60, 30}, {-60, -30}, {0, 30}, {0, -1}, {0, 59}, {330, 1}, {-210, -59}} {
		op("c", "1700000000.5", c[0], c[1], a)
	}
	// the zero time in a zone with seconds: Validate refuses it, the file denotes another instant
	op("c", "zero", 0, 30, a)
	op("c", "zero", 60, -1, a)
	op("c", fmt.Sprintf("%d.0", int64(zeroUnix)+30), 0, 30, a) // valid; its wall clock reads 00:01:00+00:00:30
	// chain ids: invalid UTF-8, and every kind of escape
	for _, cid := range []string{"a\xffb", "\xc3(", "\xe2\x82", "\xe2\x82\xac", "\xed\xa0\x80", "\xf0\x9f\x98\x80", "\xf4\x90\x80\x80", "\xc0\xaf", "\x80", "ok\xf0\x9f", "\xef\xbf\xbd",
		"q\"b\\s/", "<>&", "\x00\x01\x08\x0c\n\r\t\x1f\x7f", "\u2028\u2029\u0085\ufeff", "é日本😀", "\\u0041", "tab\there"} {
		op(cid, "1700000000.0", 0, 0, a)
	}
	// proposer addresses of every length modulo 3, fractions of every length
	for n := 0; n <= 7; n++ {
		pa := "-"
		if n > 0 {
			pa = hx.Hex(r.Bytes(n))
		}
		op("c", fmt.Sprintf("1700000000.%d", []int{0, 1, 10, 120000000, 999999999, 100, 123456789, 500000}[n]), 0, 0, pa)
	}
	op("c", "1700000000.0", 0, 0, "nil")
}

// rawFiles: genesis FILES as bytes (`gfile`): a document exactly as Save lays it out, followed by
// something - white space only (must still load), a stray brace, a second document with other
// values, text, a NUL, a comma - or cut short; also through a path that is re-used.
// "An invalid genesis is refused": a file with anything but white space after the document is not JSON.
func (g *gen) rawFiles(tier string) {
	r, w := g.r, g.w
	doc := func(cid string, ih uint64, sec int64, nsec int64, offMin int, pa []byte) []byte {
		t := time.Unix(sec, nsec).In(time.FixedZone("op", offMin*60))
		b, err := json.MarshalIndent(genesis.NewGenesis(cid, ih, t, pa), "", "  ")
		if err != nil {
			return []byte("{}")
		}
		return b
	}
	rnd := func() []byte {
		cid := []string{"c", "chain-1", "q\"uote", "ünï", "a b", "<x>"}[r.Intn(6)]
		pa := r.Bytes([]int{0, 1, 20, 32}[r.Intn(4)])
		if r.Chance(10) {
			pa = nil
		}
		ih := uint64(1 + r.Intn(1000))
		if r.Chance(10) {
			ih = 0 // a document Validate refuses
		}
		return doc(cid, ih, 1700000000+int64(r.Intn(1000000)), []int64{0, 5, 120000000}[r.Intn(3)], []int{0, 60, -330}[r.Intn(3)], pa)
	}
	emit := func(at int, b []byte) {
		if at > 0 {
			fmt.Fprintf(w, "gfile at=%d hex=%s\n", at, hx.Hex(b))
		} else {
			fmt.Fprintf(w, "gfile hex=%s\n", hx.Hex(b))
		}
	}
	a := doc("first-chain", 1, 1700000000, 0, 0, []byte{1, 2, 3})
	b := doc("second-chain", 99, 1800000000, 5, 60, []byte{9})
	suffixes := [][]byte{nil, []byte("\n"), []byte(" \t\r\n\n  "), []byte("}"), []byte("\n}"), b, append([]byte("\n"), b...), []byte("trailing text"), []byte("\n// comment"),
		{0}, []byte(","), []byte("null"), []byte("[]"), []byte("{"), []byte("\n \t x"), []byte("\u00a0"), []byte("\"s\""), []byte("0"), a}
	fmt.Fprintln(w, "reset")
	for _, sfx := range suffixes {
		emit(0, append(append([]byte{}, a...), sfx...))
	}
	// cut short, empty, white space only, leading white space (json accepts it; the layout parser of the model does not: not generated)
	for _, n := range []int{0, 1, len(a) / 2, len(a) - 2, len(a) - 1} {
		emit(0, a[:n])
	}
	emit(0, []byte(" \n"))
	// through one path: valid, then the same with a tail, then valid again, a Save over it, then a tail again
	fmt.Fprintln(w, "reset")
	emit(1, a)
	emit(1, append(append([]byte{}, a...), '}'))
	fmt.Fprintln(w, "gload at=1")
	emit(1, b)
	fmt.Fprintln(w, "gload at=1")
	g.genesisAt(1, "saved", 3, "1700000000.0", 0, hx.Hex(r.Bytes(4)))
	emit(1, append(append([]byte{}, b...), a...))
	fmt.Fprintln(w, "gload at=1")
	n := 12
	if tier == "thorough" {
		n = 150
	}
	for i := 0; i < n; i++ {
		if i%15 == 0 {
			fmt.Fprintln(w, "reset")
		}
		d := rnd()
		sfx := suffixes[r.Intn(len(suffixes))]
		if r.Chance(20) {
			sfx = rnd()
		}
		if r.Chance(15) {
			sfx = append([]byte(strings.Repeat([]string{" ", "\n", "\t", "\r"}[r.Intn(4)], 1+r.Intn(3))), sfx...)
		}
		emit([]int{0, 0, 1, 2}[r.Intn(4)], append(d, sfx...))
	}
}

// samePath: genesis documents of different encoded lengths saved to the SAME path - longer first,
// then shorter (by many bytes and by exactly one byte), then longer again - with a load after every
// save, a second load later, a second path that must not be disturbed, and invalid documents
// written over valid ones (and the other way round).
func (g *gen) samePath() {
	r, w := g.r, g.w
	long := strings.Repeat("a-rather-long-chain-id.", 4)
	a64, a32, a20, a1 := hx.Hex(r.Bytes(64)), hx.Hex(r.Bytes(32)), hx.Hex(r.Bytes(20)), hx.Hex(r.Bytes(1))
	fmt.Fprintln(w, "reset")
	fmt.Fprintln(w, "gload at=1")
	g.genesisAt(1, long, math.MaxUint64, "1700000000.123456789", 330, a64)
	g.genesisAt(2, "other-path", 7, "1700000001.5", -60, a32)
	g.genesisAt(1, "c", 1, "1700000000.0", 0, "-")
	fmt.Fprintln(w, "gload at=1")
	fmt.Fprintln(w, "gload at=2")
	g.genesisAt(1, "mid-chain", 1000, "1700000000.5", 60, a20)
	g.genesisAt(1, "c", 1, "1700000000.0", 0, a1)
	g.genesisAt(1, long, 1, "1700000000.0", 0, a32)
	fmt.Fprintln(w, "gload at=1")
	fmt.Fprintln(w, "gload at=3")
	// one byte shorter each time, then one byte longer each time
	fmt.Fprintln(w, "reset")
	for n := 9; n >= 1; n-- {
		g.genesisAt(1, strings.Repeat("x", n), 1, "1700000000.0", 0, a20)
	}
	for n := 2; n <= 4; n++ {
		g.genesisAt(1, strings.Repeat("x", n), 1, "1700000000.0", 0, a20)
	}
	for _, ih := range []uint64{1000000, 99999, 100, 9, 10} {
		g.genesisAt(1, "xxxx", ih, "1700000000.0", 0, a20)
	}
	for _, ns := range []string{"123456789", "120000000", "0", "5"} {
		g.genesisAt(1, "xxxx", 10, "1700000000."+ns, 0, a20)
	}
	fmt.Fprintln(w, "gload at=1")
	// invalid over valid, valid over invalid: each refused / accepted for its own reason
	fmt.Fprintln(w, "reset")
	g.genesisAt(1, long, 5, "1700000000.5", 0, a32)
	g.genesisAt(1, "", 5, "1700000000.5", 0, a32)
	fmt.Fprintln(w, "gload at=1")
	g.genesisAt(1, "c", 5, "1700000000.5", 0, "nil")
	g.genesisAt(1, "c", 0, "1700000000.5", 0, a1)
	g.genesisAt(1, "c", 1, "zero", 0, a1)
	g.genesisAt(1, "c", 1, "1700000000.5", 0, a1)
	fmt.Fprintln(w, "gload at=1")
	g.genesisAt(1, long, 0, "1700000000.5", 0, a32)
	g.genesisAt(1, "ok", 2, "1700000000.5", 0, "-")
	fmt.Fprintln(w, "gload at=1")
}

func (g *gen) randGenesis(at int) {
	r := g.r
	cid := stringPool[r.Intn(len(stringPool))]
	if cid == "" && !r.Chance(20) {
		cid = "chain-" + strconv.Itoa(r.Intn(1000))
	}
	ih := []uint64{1, 1, 2, 10, 1 << 32, math.MaxUint64, uint64(r.Intn(100000)) + 1}[r.Intn(7)]
	if r.Chance(8) {
		ih = 0
	}
	// instants whose local rendering stays within years 0..9999 (mostly)
	lo, hi := int64(zeroUnix), int64(253402300799-15*3600)
	sec := lo + int64(r.U64()%uint64(hi-lo))
	if r.Chance(4) { // outside what RFC 3339 can print: Save refuses
		sec = []int64{-62167219200 - 1 - int64(r.Intn(1000000)), 253402300800 + int64(r.Intn(1000000))}[r.Intn(2)]
	}
	if r.Chance(30) {
		sec = 1700000000 + int64(r.Intn(100000000))
	}
	nsec := []int64{0, 1, 999999999, int64(r.Intn(1000000000)), 500000000}[r.Intn(5)]
	t := fmt.Sprintf("%d.%d", sec, nsec)
	if r.Chance(8) {
		t = "zero"
	}
	off := []int{0, 0, 60, -60, 330, -720, 840, 345, -210}[r.Intn(9)]
	pa := "nil"
	switch r.Intn(10) {
	case 0:
	case 1:
		pa = "-"
	case 2:
		pa = hx.Hex(r.Bytes(20))
	default:
		pa = hx.Hex(r.Bytes(32))
	}
	extra := ""
	if r.Chance(6) {
		extra = fmt.Sprintf(" offs=%d", []int{30, -30, 1, 59, -59}[r.Intn(5)])
	}
	if r.Chance(5) {
		cid += string([]byte{[]byte{0xff, 0xc3, 0x80, 0xe2}[r.Intn(4)]})
	}
	if at > 0 {
		fmt.Fprintf(g.w, "genesis at=%d cid=%s ih=%d t=%s off=%d%s pa=%s\n", at, hexS(cid), ih, t, off, extra, pa)
		return
	}
	fmt.Fprintf(g.w, "genesis cid=%s ih=%d t=%s off=%d%s pa=%s\n", hexS(cid), ih, t, off, extra, pa)
}

// pickFrom: a value of the list outside `not` (when there is one)
func pickFrom(r *hx.Rng, p []string, not ...string) string {
	for try := 0; try < 40; try++ {
		v := p[r.Intn(len(p))]
		ok := true
		for _, n := range not {
			ok = ok && v != n
		}
		if ok {
			return v
		}
	}
	return p[r.Intn(len(p))]
}

// sameCommand: histories of loads through ONE command object (`cmd=1`: parsed once, every load and
// save->load of the scenario goes through it) while the file changes in between - by hand, by
// removal, by SaveAsYaml - with and without flags on the command line. What a Load returns may
// depend on the command line, the file as it is now and the defaults only.
func (g *gen) sameCommand(tier string) {
	r, w, opts := g.r, g.w, g.options()
	for _, f := range opts {
		// (a) nothing on the command line: file v1 -> file v2 -> no file -> SaveAsYaml v3 -> file v1;
		// then the same through a new command object
		v1 := pick(r, f, f.Def)
		v2 := pick(r, f, f.Def, v1)
		v3 := pickFrom(r, savePool(f), f.Def, v1, v2)
		fmt.Fprintln(w, "reset")
		fmt.Fprintf(w, "load cmd=1 f=%s fl=- fi=%s\n", f.Go, showPairs([]pair{{f.YAML, v1}}))
		fmt.Fprintf(w, "load cmd=1 f=%s fl=- fi=%s\n", f.Go, showPairs([]pair{{f.YAML, v2}}))
		fmt.Fprintf(w, "load cmd=1 f=%s fl=- fi=-\n", f.Go)
		fmt.Fprintf(w, "save cmd=1 set=%s\n", showPairs([]pair{{f.Go, v3}}))
		fmt.Fprintf(w, "load cmd=1 f=%s fl=- fi=%s\n", f.Go, showPairs([]pair{{f.YAML, v1}}))
		fmt.Fprintf(w, "load cmd=1 newcmd=1 f=%s fl=- fi=%s\n", f.Go, showPairs([]pair{{f.YAML, v2}}))
		fmt.Fprintf(w, "load cmd=1 f=%s fl=- fi=%s\n", f.Go, showPairs([]pair{{f.YAML, v1}}))
		// (b) the flag naming the option is on the command line, the file changes for the option and
		// for a neighbour: the option keeps the flag's value, the neighbour follows the file
		nf, has := g.flagNaming(f)
		if !has {
			continue
		}
		nb := opts[r.Intn(len(opts))]
		if nb.Go == f.Go {
			continue
		}
		fv := pick(r, f, f.Def, v1, v2)
		flS := showPairs([]pair{{nf.Name, fv}})
		n1 := pick(r, nb, nb.Def)
		n2 := pick(r, nb, nb.Def, n1)
		n3 := pickFrom(r, savePool(nb), nb.Def, n1, n2)
		fmt.Fprintln(w, "reset")
		fmt.Fprintf(w, "load cmd=1 f=%s fl=%s fi=%s\n", f.Go, flS, showPairs([]pair{{f.YAML, v1}, {nb.YAML, n1}}))
		fmt.Fprintf(w, "load cmd=1 f=%s fl=%s fi=%s\n", nb.Go, flS, showPairs([]pair{{nb.YAML, n2}, {f.YAML, v2}}))
		fmt.Fprintf(w, "save cmd=1 fl=%s set=%s\n", flS, showPairs([]pair{{f.Go, v3}, {nb.Go, n3}}))
		fmt.Fprintf(w, "load cmd=1 f=%s fl=%s fi=-\n", nb.Go, flS)
		// the command line changes: that is another command object (same home)
		fmt.Fprintf(w, "load cmd=1 f=%s fl=- fi=%s\n", f.Go, showPairs([]pair{{f.YAML, v2}, {nb.YAML, n1}}))
	}
	// (c) whole configurations written by SaveAsYaml one after the other, loaded through one command
	var allZero, allOther []pair
	for _, f := range opts {
		if z, ok := zeroOf(f); ok {
			allZero = append(allZero, pair{f.Go, z})
			mv := mustValues(f, true)
			allOther = append(allOther, pair{f.Go, mv[len(mv)-1]})
		}
	}
	fmt.Fprintln(w, "reset")
	fmt.Fprintf(w, "save cmd=1 set=%s\n", showPairs(allOther))
	fmt.Fprintf(w, "save cmd=1 set=%s\n", showPairs(allZero))
	fmt.Fprintln(w, "save cmd=1 set=-")
	fmt.Fprintf(w, "save cmd=1 set=%s\n", showPairs(allOther))
	fmt.Fprintf(w, "load cmd=1 f=%s fl=- fi=-\n", opts[0].Go)
	// (d) random histories: a random command line fixed for the scenario, random files and saves
	n := 4
	if tier == "thorough" {
		n = 30
	}
	for i := 0; i < n; i++ {
		fmt.Fprintln(w, "reset")
		var fl []pair
		for _, f := range opts {
			if nf, has := g.flagNaming(f); has && r.Chance(12) {
				fl = append(fl, pair{nf.Name, pick(r, f, f.Def)})
			}
		}
		flS := showPairs(fl)
		for step := 0; step < 8; step++ {
			focus := opts[r.Intn(len(opts))]
			if r.Chance(35) {
				var set []pair
				for _, f := range opts {
					if r.Chance(30) {
						set = append(set, pair{f.Go, pickFrom(r, savePool(f))})
					}
				}
				fmt.Fprintf(w, "save cmd=1 fl=%s set=%s\n", flS, showPairs(set))
				continue
			}
			var fi []pair
			if !r.Chance(10) {
				fi = append(fi, pair{focus.YAML, pick(r, focus, focus.Def)})
				for _, f := range opts {
					if f.Go != focus.Go && r.Chance(20) {
						fi = append(fi, pair{f.YAML, pick(r, f, f.Def)})
					}
				}
				g.r2shuffle(fi)
			}
			fmt.Fprintf(w, "load cmd=1 f=%s fl=%s fi=%s\n", focus.Go, flS, showPairs(fi))
		}
	}
}

// Gen writes the op lines. Every field and every flag discovered in the compiled code is covered
// in every run (both tiers); the tiers differ in how many values and combinations are drawn.
func Gen(r *hx.Rng, tier string, w io.Writer) {
	// hx.NewRng(seed) starts at seed*gamma: consecutive seeds give shifted copies of one sequence.
	// Re-seed from an output so that different seeds give unrelated streams.
	r = hx.NewRng(r.U64() ^ 0xC18C18C18)
	g := &gen{r: r, w: w, fs: Fields()}
	g.fl, _ = Flags(false)
	reps, saves, nGenesis := 1, 2, 60
	if tier == "thorough" {
		reps, saves, nGenesis = 6, 12, 600
	}
	opts := g.options()

	// 1. every registered flag reaches an option (all of them: a flag bound to a key no field decodes
	// from - as the two signer flags were until /repo b15f31a - shows here)
	fmt.Fprintln(w, "reset")
	for _, fl := range g.fl {
		if fl.Name == "home" {
			continue
		}
		fmt.Fprintf(w, "flagreach fl=%s:%s\n", fl.Name, hexS(probeValue(fl.Kind, fl.Def)))
	}

	// 2. flag > file > default, per option: all presence combinations, values of the option's type
	for _, f := range opts {
		fmt.Fprintln(w, "reset")
		_, has := g.flagNaming(f)
		for rep := 0; rep < reps; rep++ {
			for _, combo := range [][2]bool{{false, false}, {false, true}, {true, false}, {true, true}, {false, false}} {
				if combo[0] && !has {
					continue
				}
				g.load(f, combo[0], combo[1], r.Intn(3))
			}
		}
	}

	// 3. every value of the pool through the file and through the flag (quoting, number syntax)
	for _, f := range opts {
		fmt.Fprintln(w, "reset")
		nf, has := g.flagNaming(f)
		p := pool(f)
		n := len(p)
		if tier != "thorough" && n > 12 {
			n = 12
		}
		vals := mustValues(f, false)
		for _, i := range r.Perm(len(p))[:n] {
			vals = append(vals, p[i])
		}
		for _, v := range vals {
			fmt.Fprintf(w, "load f=%s fl=- fi=%s\n", f.Go, showPairs([]pair{{f.YAML, v}}))
			if has {
				fmt.Fprintf(w, "load f=%s fl=%s fi=-\n", f.Go, showPairs([]pair{{nf.Name, v}}))
			}
		}
	}

	// 4. save -> load: one option at a time with values of its type, then many at once
	for _, f := range opts {
		fmt.Fprintln(w, "reset")
		p := savePool(f)
		n := len(p)
		if tier != "thorough" && n > saves*4 {
			n = saves * 4
		}
		// zero of the kind, the default, a third value: in every run, for every option
		for _, v := range mustValues(f, true) {
			fmt.Fprintf(w, "save set=%s\n", showPairs([]pair{{f.Go, v}}))
		}
		for _, i := range r.Perm(len(p))[:n] {
			fmt.Fprintf(w, "save set=%s\n", showPairs([]pair{{f.Go, p[i]}}))
		}
		if f.Kind == "string" {
			// values the YAML writer/reader pair does not preserve (and look-alikes): predicted by the model
			for i := 0; i < saves; i++ {
				fmt.Fprintf(w, "save set=%s\n", showPairs([]pair{{f.Go, yamlClass(r, r.Intn(nYamlClasses))}}))
			}
		}
	}
	// every class of values the YAML pair does not preserve, in every run, on one string option each
	// (several draws per class), then two such values in one configuration
	var strOpts []Field
	for _, f := range opts {
		if f.Kind == "string" {
			strOpts = append(strOpts, f)
		}
	}
	if len(strOpts) > 0 {
		fmt.Fprintln(w, "reset")
		for _, v := range []string{"12e4", "1e3", ".inf", "cr\rlf", "\r", "end\r", "?", "? a", "09", "0X1F", "0o+17", "2001-1-1", "a\x01b", "\n",
			"\n a", "a    \n", "\n  a\n b", "  {\n    \"fee\": 1\n  }", " {\n  \"fee\": 1\n}", "{\n  \"fee\": 1\n}", "  \n fee=1", "a\n  b\nc"} {
			fmt.Fprintf(w, "save set=%s\n", showPairs([]pair{{strOpts[r.Intn(len(strOpts))].Go, v}}))
		}
		draws := 3
		if tier == "thorough" {
			draws = 25
		}
		for k := 0; k < nYamlClasses; k++ {
			for i := 0; i < draws; i++ {
				fmt.Fprintf(w, "save set=%s\n", showPairs([]pair{{strOpts[r.Intn(len(strOpts))].Go, yamlClass(r, k)}}))
			}
		}
		// a value with line breaks in one option, non-default values in all the others: damage to the
		// FILE shows as every other option reverting to its default
		var others []pair
		for _, f := range opts {
			mv := mustValues(f, true)
			others = append(others, pair{f.Go, mv[len(mv)-1]})
		}
		for _, v := range []string{"  {\n    \"fee\": 1\n  }", " {\n  \"fee\": 1\n}", "  \n fee=1", "\n  a\n b", "a\n  b\nc", yamlClass(r, 11), yamlClass(r, 11)} {
			tgt := strOpts[r.Intn(len(strOpts))]
			set := []pair{{tgt.Go, v}}
			for _, p := range others {
				if p.K != tgt.Go {
					set = append(set, p)
				}
			}
			fmt.Fprintf(w, "save set=%s\n", showPairs(set))
		}
		for i := 0; i < draws*2 && len(strOpts) > 1; i++ {
			a, b := strOpts[r.Intn(len(strOpts))], strOpts[r.Intn(len(strOpts))]
			if a.Go != b.Go {
				fmt.Fprintf(w, "save set=%s\n", showPairs([]pair{{a.Go, yamlClass(r, r.Intn(nYamlClasses))}, {b.Go, yamlClass(r, r.Intn(nYamlClasses))}}))
			}
		}
	}

	// SAMPLES of the region the model of the YAML pair does not cover (`unmodelled`): recorded, not judged
	if len(strOpts) > 0 {
		fmt.Fprintln(w, "reset")
		unmodelled := []string{"\tb", "a\t", "\t", "?\ta", "-\tx", "a:\tb", "\t?", "a\u0085b", "a\u0085", "\u2028", "x\u2029y", "\ufeffa", "a\r\nb", "a\n\rb", "\r\n",
			"a\tb\nc", "\ta\nb", "a \rb", "12345678901234567e3", "1e400", "1e-400", "9e9999", "2001-1-1 1:2:3", "2001-2-30", "2001-1-1T1:2:3Z", "0X1234567890abcdef0", "0B" + strings.Repeat("1", 70)}
		n := 10
		if tier == "thorough" {
			n = len(unmodelled) * 2
		}
		for _, i := range r.Perm(len(unmodelled)) {
			if n == 0 {
				break
			}
			n--
			fmt.Fprintf(w, "saveprobe set=%s\n", showPairs([]pair{{strOpts[r.Intn(len(strOpts))].Go, unmodelled[i]}}))
		}
	}

	// whole configurations: the defaults, every option at the zero value of its kind, every option
	// at a non-default value, every group (Go struct) at zero while the rest keeps its default
	fmt.Fprintln(w, "reset")
	fmt.Fprintln(w, "save set=-")
	var allZero, allOther []pair
	groups := map[string][]pair{}
	var groupOrder []string
	for _, f := range opts {
		z, ok := zeroOf(f)
		if !ok {
			continue
		}
		allZero = append(allZero, pair{f.Go, z})
		mv := mustValues(f, true)
		allOther = append(allOther, pair{f.Go, mv[len(mv)-1]})
		grp := f.Go
		if i := strings.LastIndex(grp, "."); i >= 0 {
			grp = grp[:i]
		}
		if _, seen := groups[grp]; !seen {
			groupOrder = append(groupOrder, grp)
		}
		groups[grp] = append(groups[grp], pair{f.Go, z})
	}
	fmt.Fprintf(w, "save set=%s\n", showPairs(allZero))
	fmt.Fprintf(w, "save set=%s\n", showPairs(allOther))
	for _, grp := range groupOrder {
		fmt.Fprintf(w, "save set=%s\n", showPairs(groups[grp]))
	}
	// the same home written again: a long file first, then shorter ones over it, then long again
	fmt.Fprintln(w, "reset")
	var allLong []pair
	for _, f := range opts {
		if f.Kind == "string" {
			allLong = append(allLong, pair{f.Go, strings.Repeat("a long value ", 6) + f.Go})
		}
	}
	fmt.Fprintf(w, "save at=1 set=%s\n", showPairs(allLong))
	fmt.Fprintf(w, "save at=1 set=%s\n", showPairs(allZero))
	fmt.Fprintf(w, "save at=1 set=-\n")
	fmt.Fprintf(w, "save at=1 set=%s\n", showPairs(allLong[:len(allLong)/2]))
	fmt.Fprintf(w, "save at=1 set=%s\n", showPairs(allOther))
	fmt.Fprintf(w, "save at=1 set=%s\n", showPairs(allZero))
	// random configurations, all written to one home
	fmt.Fprintln(w, "reset")
	for i := 0; i < saves*10; i++ {
		var set []pair
		for _, f := range opts {
			if r.Chance(50) {
				p := savePool(f)
				set = append(set, pair{f.Go, p[r.Intn(len(p))]})
			}
		}
		fmt.Fprintf(w, "save at=1 set=%s\n", showPairs(set))
		if r.Chance(30) {
			g.load(opts[r.Intn(len(opts))], r.Bool(), r.Bool(), 4)
		}
	}

	// 5. memory shared with DefaultConfig: what one Load resolved must not be the next Load's
	// "default" (repaired in /repo 76d1c39 for the Instrumentation pointer). Every option in turn,
	// shared or not according to the structural walk: file value first, then nothing.
	for _, f := range opts {
		if f.Via == "" && tier != "thorough" && !r.Chance(25) {
			continue
		}
		fmt.Fprintln(w, "reset")
		fmt.Fprintf(w, "load f=%s fl=- fi=%s\n", f.Go, showPairs([]pair{{f.YAML, pick(r, f, f.Def)}}))
		fmt.Fprintf(w, "load f=%s fl=- fi=-\n", f.Go)
	}

	// 5a. the second entry point, config.LoadFromViper: every option, all presence combinations,
	// with other options in the file and on the command line
	for _, f := range opts {
		fmt.Fprintln(w, "reset")
		_, has := g.flagNaming(f)
		for _, combo := range [][2]bool{{false, true}, {true, true}, {false, false}, {true, false}} {
			if combo[0] && !has {
				continue
			}
			var sb strings.Builder
			save := g.w
			g.w = &sb
			g.load(f, combo[0], combo[1], 1+r.Intn(3))
			g.w = save
			fmt.Fprint(w, strings.Replace(sb.String(), "load ", "loadfromviper ", 1))
		}
	}

	// 5b. histories through one command object
	g.sameCommand(tier)

	// 6. malformed command lines
	fmt.Fprintln(w, "reset")
	fmt.Fprintf(w, "load f=%s fl=%s fi=-\n", opts[0].Go, showPairs([]pair{{"rollkit.no.such_flag", "x"}}))
	fmt.Fprintf(w, "flagreach fl=%s\n", showPairs([]pair{{"no_such_flag", "x"}}))
	fmt.Fprintf(w, "load f=%s fl=- fi=%s\n", opts[0].Go, showPairs([]pair{{"no.such.key", "x"}, {"node.no_such", "y"}}))

	// 6b. key case: viper lower-cases the keys of the file
	for i := 0; i < 3; i++ {
		f := opts[r.Intn(len(opts))]
		fmt.Fprintf(w, "load f=%s fl=- fi=%s\n", f.Go, showPairs([]pair{{strings.ToUpper(f.YAML), pick(r, f, f.Def)}}))
	}
	// 6c. values that are not of the option's type, files of the wrong shape: no panic (outcome not predicted)
	bad := map[string][]string{"uint": {"abc", "-1", "1.5", "18446744073709551616", ""}, "int": {"abc", "1.5", "9223372036854775808"},
		"bool": {"maybe", "2", ""}, "float": {"abc", "1e999", ""}, "duration": {"abc", "5", "1x", ""}, "string": {"[1, 2]", "{a: 1}"}}
	for _, f := range opts {
		for _, v := range bad[f.Kind] {
			if !r.Chance(35) && tier != "thorough" {
				continue
			}
			fmt.Fprintf(w, "loadx style=bool fl=- fi=%s\n", showPairs([]pair{{f.YAML, v}}))
			fmt.Fprintf(w, "loadx style=string fl=- fi=%s\n", showPairs([]pair{{f.YAML, v}}))
			if nf, has := g.flagNaming(f); has {
				fmt.Fprintf(w, "loadx style=string fl=%s fi=-\n", showPairs([]pair{{nf.Name, v}}))
			}
		}
	}
	for _, raw := range []string{"node: 5\n", "node:\n  block_time:\n    x: 1\n", "- a\n- b\n", "instrumentation: null\n", "instrumentation: []\n", ": :\n\t", "node: [1,2]\nda: x\n", "\x00\x01", "signer: {signer_type: {a: b}}\n"} {
		fmt.Fprintf(w, "loadx style=string fl=- fi=- raw=%s\n", hx.Hex([]byte(raw)))
	}

	// 7. genesis: every refusal condition deliberately, then random values
	fmt.Fprintln(w, "reset")
	a32 := hx.Hex(r.Bytes(32))
	g.genesisOp("c", 1, "1700000000.5", 0, a32)
	g.genesisOp("", 1, "1700000000.5", 0, a32)
	g.genesisOp("c", 0, "1700000000.5", 0, a32)
	g.genesisOp("c", 1, "zero", 0, a32)
	g.genesisOp("c", 1, "zero", 60, a32)
	g.genesisOp("c", 1, fmt.Sprintf("%d.0", int64(zeroUnix)), -60, a32)
	g.genesisOp("c", 1, fmt.Sprintf("%d.1", int64(zeroUnix)), 0, a32)
	g.genesisOp("c", 1, "1700000000.5", 0, "nil")
	g.genesisOp("c", 1, "1700000000.5", 0, "-")
	g.genesisOp("", 0, "zero", 0, "nil")
	g.genesisOp("c", math.MaxUint64, "0.0", 840, a32)
	g.encodingClasses()
	g.rawFiles(tier)
	g.samePath()
	for i := 0; i < nGenesis; i++ {
		if i%20 == 0 {
			fmt.Fprintln(w, "reset")
		}
		// two thirds of the documents go to one of two paths the scenario re-uses (random lengths, so
		// longer-then-shorter happens all the time), the rest to a fresh path each
		at := 0
		if r.Chance(66) {
			at = 1 + r.Intn(2)
		}
		g.randGenesis(at)
		if r.Chance(15) {
			fmt.Fprintf(w, "gload at=%d\n", 1+r.Intn(3))
		}
	}
	_ = strings.TrimSpace
}
