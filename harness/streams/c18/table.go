// Package c18 drives the real configuration loader (pkg/config) and genesis I/O (pkg/genesis):
// facts (field table by reflection, flag table by asking cobra/pflag and the real Load),
// the correspondence stream and the monitors of property C18.
package c18

import (
	"encoding"
	"fmt"
	"math"
	"os"
	"path/filepath"
	"reflect"
	"sort"
	"strconv"
	"strings"
	"time"

	"github.com/spf13/cobra"
	"github.com/spf13/pflag"
	"github.com/spf13/viper"

	"github.com/evstack/ev-node/pkg/config"
)

// Field is one leaf option of config.Config discovered by reflection.
type Field struct {
	Go     string // Go selector path, e.g. "Node.BlockTime"
	MS     string // effective mapstructure key path (lower case, as viper presents keys); "-" = never decoded
	YAML   string // key path written by SaveAsYaml (lower case, as viper reads it back); "-" = never written
	Kind   string // string | bool | int | uint | float | duration | other:<type>
	Bits   int    // width for int/uint/float
	Def    string // canonical rendering of the default (DefaultConfig)
	Via    string // Go path of the non-nil pointer field of DefaultConfig through which the leaf is reached ("" = none): Load decodes such leaves into memory shared with DefaultConfig
}

// Flag is one registered command-line flag.
type Flag struct {
	Name    string // as registered
	Key     string // path of the option the flag NAMES, by the naming rule of the property (stripKey: name minus "rollkit."; flagAliases) - declared here, not read from the code
	Bound   string // viper key the real bindFlags binds the flag to (behavioural; only with probe=true): set only this flag, run bindFlags, ask viper which key is set
	Kind    string // pflag value type
	Def     string // pflag DefValue
	Reaches []string
}

var (
	durWrapT = reflect.TypeOf(config.DurationWrapper{})
	durT     = reflect.TypeOf(time.Duration(0))
	textMT   = reflect.TypeOf((*encoding.TextMarshaler)(nil)).Elem()
)

func tagName(tag, fallback string) (name string, flat bool) {
	parts := strings.Split(tag, ",")
	name = parts[0]
	for _, o := range parts[1:] {
		if o == "squash" || o == "inline" {
			flat = true
		}
	}
	if name == "" {
		name = fallback
	}
	return
}

func joinPath(prefix, name string) string {
	if prefix == "-" || name == "-" {
		return "-"
	}
	if prefix == "" {
		return name
	}
	return prefix + "." + name
}

func kindOf(t reflect.Type) (string, int) {
	switch {
	case t == durWrapT || t == durT:
		return "duration", 64
	}
	switch t.Kind() {
	case reflect.String:
		return "string", 0
	case reflect.Bool:
		return "bool", 0
	case reflect.Int, reflect.Int8, reflect.Int16, reflect.Int32, reflect.Int64:
		return "int", t.Bits()
	case reflect.Uint, reflect.Uint8, reflect.Uint16, reflect.Uint32, reflect.Uint64:
		return "uint", t.Bits()
	case reflect.Float32, reflect.Float64:
		return "float", t.Bits()
	}
	return "other:" + t.String(), 0
}

// Fields walks config.Config (types) and config.DefaultConfig (values, pointer sharing).
func Fields() []Field {
	var out []Field
	var walk func(t reflect.Type, v reflect.Value, goP, ms, ya string, shared string)
	walk = func(t reflect.Type, v reflect.Value, goP, ms, ya string, shared string) {
		for i := 0; i < t.NumField(); i++ {
			sf := t.Field(i)
			if !sf.IsExported() {
				continue
			}
			msN, msFlat := tagName(sf.Tag.Get("mapstructure"), sf.Name)
			yaN, yaFlat := tagName(sf.Tag.Get("yaml"), strings.ToLower(sf.Name))
			g := sf.Name
			if goP != "" {
				g = goP + "." + sf.Name
			}
			m, y := joinPath(ms, strings.ToLower(msN)), joinPath(ya, strings.ToLower(yaN))
			ft, fv, sh := sf.Type, v.Field(i), shared
			if ft.Kind() == reflect.Ptr && ft.Elem().Kind() == reflect.Struct {
				if fv.IsNil() {
					fv = reflect.New(ft.Elem()).Elem()
				} else {
					fv, sh = fv.Elem(), g
				}
				ft = ft.Elem()
			}
			if ft.Kind() == reflect.Struct && ft != durWrapT && !ft.Implements(textMT) {
				if msFlat {
					m = ms
				}
				if yaFlat {
					y = ya
				}
				walk(ft, fv, g, m, y, sh)
				continue
			}
			k, bits := kindOf(ft)
			out = append(out, Field{Go: g, MS: m, YAML: y, Kind: k, Bits: bits, Def: Render(fv), Via: sh})
		}
	}
	walk(reflect.TypeOf(config.Config{}), reflect.ValueOf(config.DefaultConfig), "", "", "", "")
	return out
}

// Render is the canonical rendering of a leaf value.
func Render(v reflect.Value) string {
	switch {
	case v.Type() == durWrapT:
		return v.Interface().(config.DurationWrapper).Duration.String()
	case v.Type() == durT:
		return v.Interface().(time.Duration).String()
	}
	switch v.Kind() {
	case reflect.String:
		return v.String()
	case reflect.Bool:
		return strconv.FormatBool(v.Bool())
	case reflect.Int, reflect.Int8, reflect.Int16, reflect.Int32, reflect.Int64:
		return strconv.FormatInt(v.Int(), 10)
	case reflect.Uint, reflect.Uint8, reflect.Uint16, reflect.Uint32, reflect.Uint64:
		return strconv.FormatUint(v.Uint(), 10)
	case reflect.Float32, reflect.Float64:
		return strconv.FormatFloat(v.Float(), 'g', -1, 64)
	}
	return fmt.Sprintf("%v", v.Interface())
}

// SetLeaf parses a canonical rendering into a leaf.
func SetLeaf(v reflect.Value, s string) error {
	switch {
	case v.Type() == durWrapT:
		d, err := time.ParseDuration(s)
		if err != nil {
			return err
		}
		v.Set(reflect.ValueOf(config.DurationWrapper{Duration: d}))
		return nil
	case v.Type() == durT:
		d, err := time.ParseDuration(s)
		if err != nil {
			return err
		}
		v.SetInt(int64(d))
		return nil
	}
	switch v.Kind() {
	case reflect.String:
		v.SetString(s)
	case reflect.Bool:
		b, err := strconv.ParseBool(s)
		if err != nil {
			return err
		}
		v.SetBool(b)
	case reflect.Int, reflect.Int8, reflect.Int16, reflect.Int32, reflect.Int64:
		n, err := strconv.ParseInt(s, 10, v.Type().Bits())
		if err != nil {
			return err
		}
		v.SetInt(n)
	case reflect.Uint, reflect.Uint8, reflect.Uint16, reflect.Uint32, reflect.Uint64:
		n, err := strconv.ParseUint(s, 10, v.Type().Bits())
		if err != nil {
			return err
		}
		v.SetUint(n)
	case reflect.Float32, reflect.Float64:
		f, err := strconv.ParseFloat(s, v.Type().Bits())
		if err != nil || math.IsNaN(f) || math.IsInf(f, 0) {
			return fmt.Errorf("bad float %q", s)
		}
		v.SetFloat(f)
	default:
		return fmt.Errorf("unsupported kind %s", v.Type())
	}
	return nil
}

// Leaf returns the addressable leaf of cfg named by a Go selector path (allocating nil pointers).
func Leaf(cfg *config.Config, goPath string) (reflect.Value, bool) {
	v := reflect.ValueOf(cfg).Elem()
	for _, n := range strings.Split(goPath, ".") {
		if v.Kind() == reflect.Ptr {
			if v.IsNil() {
				v.Set(reflect.New(v.Type().Elem()))
			}
			v = v.Elem()
		}
		if v.Kind() != reflect.Struct {
			return reflect.Value{}, false
		}
		v = v.FieldByName(n)
		if !v.IsValid() {
			return reflect.Value{}, false
		}
	}
	return v, true
}

// Snapshot renders every leaf of cfg (table order).
func Snapshot(cfg *config.Config, fs []Field) []string {
	out := make([]string, len(fs))
	for i, f := range fs {
		if v, ok := Leaf(cfg, f.Go); ok {
			out[i] = Render(v)
		}
	}
	return out
}

// DeepCopy copies a Config including everything behind pointers to structs.
func DeepCopy(c config.Config) config.Config {
	var cp func(v reflect.Value)
	cp = func(v reflect.Value) {
		for i := 0; i < v.NumField(); i++ {
			f := v.Field(i)
			if !f.CanSet() {
				continue
			}
			if f.Kind() == reflect.Ptr && !f.IsNil() && f.Type().Elem().Kind() == reflect.Struct {
				n := reflect.New(f.Type().Elem())
				n.Elem().Set(f.Elem())
				f.Set(n)
				cp(n.Elem())
			} else if f.Kind() == reflect.Struct {
				cp(f)
			}
		}
	}
	cp(reflect.ValueOf(&c).Elem())
	return c
}

// pristine is the default configuration as compiled in, captured before any Load ran.
var pristine = DeepCopy(config.DefaultConfig)

// RestoreDefaults undoes what Load did to memory shared with config.DefaultConfig.
func RestoreDefaults() {
	p := DeepCopy(pristine)
	dv, pv := reflect.ValueOf(&config.DefaultConfig).Elem(), reflect.ValueOf(&p).Elem()
	for i := 0; i < dv.NumField(); i++ {
		f := dv.Field(i)
		if f.Kind() == reflect.Ptr && !f.IsNil() && !pv.Field(i).IsNil() && f.Type().Elem().Kind() == reflect.Struct {
			f.Elem().Set(pv.Field(i).Elem()) // keep the pointer identity, restore the content
		} else {
			f.Set(pv.Field(i))
		}
	}
}

// NewCommand builds a real cobra command carrying every flag the node registers.
func NewCommand() *cobra.Command {
	cmd := &cobra.Command{Use: "verif", Run: func(*cobra.Command, []string) {}}
	config.AddFlags(cmd)
	config.AddGlobalFlags(cmd, "verif")
	return cmd
}

// flagAliases lists the flags whose name abbreviates the path of the option they name instead of
// spelling it out ("rollkit." + path in the file): the option `signer.signer_type` is named by
// `--rollkit.signer.type`. This is the property's vocabulary ("the option a flag names"), declared
// here and NOT read from the code: that the compiled Load agrees is checked on every run by the
// behavioural column `reaches` (Spec.C18.C18_reaches_agrees) and by the flagreach/load monitors.
var flagAliases = map[string]string{
	"rollkit.signer.type": "signer.signer_type",
	"rollkit.signer.path": "signer.signer_path",
}

// stripKey: the path (in the configuration file) of the option a flag names.
func stripKey(name string) string {
	if k, ok := flagAliases[name]; ok {
		return k
	}
	return strings.TrimPrefix(name, "rollkit.")
}

// Flags asks cobra/pflag for every registered flag. `Key` applies the naming rule (stripKey); `Reaches`
// is obtained from the real Load (which fields change when only this flag is given), so that the
// rule itself is checked against the compiled code (Spec.C18.reaches_agrees).
func Flags(probe bool) ([]Flag, error) {
	cmd := NewCommand()
	if err := cmd.ParseFlags(nil); err != nil {
		return nil, err
	}
	var out []Flag
	cmd.Flags().VisitAll(func(f *pflag.Flag) {
		out = append(out, Flag{Name: f.Name, Key: stripKey(f.Name), Kind: f.Value.Type(), Def: f.DefValue})
	})
	if !probe {
		return out, nil
	}
	fs := Fields()
	dir, err := os.MkdirTemp(os.Getenv("VERIF_WORK"), "c18facts")
	if err != nil {
		return nil, err
	}
	defer os.RemoveAll(dir)
	ScrubEnv(fs, out)
	base, err := RealLoad(dir, nil)
	RestoreDefaults()
	if err != nil {
		return nil, fmt.Errorf("baseline Load: %w", err)
	}
	b := Snapshot(&base, fs)
	for i := range out {
		out[i].Reaches = []string{}
		if out[i].Name == config.FlagRootDir {
			// the harness needs it to point Load at the scratch directory; its binding can be asked all the same
			if out[i].Bound, err = BoundKey(out[i].Name, dir); err != nil {
				return nil, err
			}
			continue
		}
		val := probeValue(out[i].Kind, out[i].Def)
		if out[i].Bound, err = BoundKey(out[i].Name, val); err != nil {
			return nil, err
		}
		c, err := RealLoad(dir, []string{"--" + out[i].Name + "=" + val})
		RestoreDefaults()
		if err != nil {
			return nil, fmt.Errorf("Load with --%s=%s: %w", out[i].Name, val, err)
		}
		s := Snapshot(&c, fs)
		for j := range fs {
			if s[j] != b[j] {
				out[i].Reaches = append(out[i].Reaches, fs[j].Go)
			}
		}
	}
	return out, nil
}

// BoundKey asks the compiled code which viper key a flag is bound to: a fresh command on which only
// this flag is given goes through the real bindFlags (config.VerifBoundKeys, build tag verif); the
// keys viper then reports as set are the keys the flag supplies.
func BoundKey(flag, val string) (string, error) {
	cmd := NewCommand()
	if err := cmd.ParseFlags([]string{"--" + flag + "=" + val}); err != nil {
		return "", fmt.Errorf("flag-parse: %w", err)
	}
	v, err := config.VerifBoundKeys(cmd)
	if err != nil {
		return "", err
	}
	var keys []string
	for _, k := range v.AllKeys() {
		if v.IsSet(k) {
			keys = append(keys, k)
		}
	}
	sort.Strings(keys)
	return strings.Join(keys, "|"), nil // exactly one key for a healthy binding
}

// SharedLeaves asks the compiled code which leaves of DefaultConfig a Load overwrites: one real
// Load with a file that sets every option to a non-default value, then DefaultConfig is compared
// with its pristine copy. (The structural candidate - a non-nil pointer in DefaultConfig - is only
// used to name the pointer.)
func SharedLeaves(fs []Field) (map[string]bool, error) {
	dir, err := os.MkdirTemp(os.Getenv("VERIF_WORK"), "c18shared")
	if err != nil {
		return nil, err
	}
	defer os.RemoveAll(dir)
	var entries []pair
	kinds := map[string]string{}
	for _, f := range fs {
		if f.YAML == "-" {
			continue
		}
		pk := map[string]string{"string": "string", "bool": "bool", "int": "int", "uint": "uint64", "float": "float64", "duration": "duration"}[f.Kind]
		if pk == "" {
			continue
		}
		entries = append(entries, pair{f.YAML, probeValue(pk, f.Def)})
		kinds[f.YAML] = f.Kind
	}
	_ = os.MkdirAll(filepath.Join(dir, config.AppConfigDir), 0o755)
	if err := os.WriteFile(filepath.Join(dir, config.AppConfigDir, config.ConfigName), []byte(WriteYAML(entries, func(p string) string { return kinds[p] })), 0o644); err != nil {
		return nil, err
	}
	RestoreDefaults()
	defer RestoreDefaults()
	if _, err := RealLoad(dir, nil); err != nil {
		return nil, fmt.Errorf("probe Load: %w", err)
	}
	p := DeepCopy(pristine)
	before, after := Snapshot(&p, fs), Snapshot(&config.DefaultConfig, fs)
	out := map[string]bool{}
	for i, f := range fs {
		if before[i] != after[i] {
			out[f.Go] = true
		}
	}
	return out, nil
}

func probeValue(kind, def string) string {
	switch kind {
	case "bool":
		if def == "true" {
			return "false"
		}
		return "true"
	case "int", "int8", "int16", "int32", "int64", "uint", "uint8", "uint16", "uint32", "uint64":
		n, _ := strconv.ParseInt(def, 10, 64)
		return strconv.FormatInt((n+7)%100, 10)
	case "float64", "float32":
		f, _ := strconv.ParseFloat(def, 64)
		return strconv.FormatFloat(f+1.5, 'g', -1, 64)
	case "duration":
		d, _ := time.ParseDuration(def)
		return (d + 7*time.Second).String()
	}
	return "verif-probe-" + def
}

// ParsedCommand builds a real cobra command carrying every flag and parses the command line
// `--home=<home> args…` into it (once: this is what a process does with its command).
func ParsedCommand(home string, args []string) (*cobra.Command, error) {
	cmd := NewCommand()
	if err := cmd.ParseFlags(append([]string{"--" + config.FlagRootDir + "=" + home}, args...)); err != nil {
		return nil, fmt.Errorf("flag-parse: %w", err)
	}
	return cmd, nil
}

// LoadThrough runs the real config.Load through the given (already parsed) command.
func LoadThrough(cmd *cobra.Command) (cfg config.Config, err error) {
	defer func() {
		if r := recover(); r != nil {
			err = fmt.Errorf("panic: %v", r)
		}
	}()
	c, err := config.Load(cmd)
	// the Config returned by Load shares memory with config.DefaultConfig (pointer fields): detach it
	return DeepCopy(c), err
}

// RealLoad runs the real config.Load through a fresh real cobra command with the given arguments.
func RealLoad(home string, args []string) (cfg config.Config, err error) {
	cmd, err := ParsedCommand(home, args)
	if err != nil {
		return config.Config{}, err
	}
	return LoadThrough(cmd)
}

// RealLoadFromViper runs the second entry point, config.LoadFromViper, the way an application that
// owns its viper instance does: a fresh command is parsed, its flags are bound to a fresh viper
// (BindPFlags), and that viper is handed over.
func RealLoadFromViper(home string, args []string) (cfg config.Config, err error) {
	defer func() {
		if r := recover(); r != nil {
			err = fmt.Errorf("panic: %v", r)
		}
	}()
	cmd, err := ParsedCommand(home, args)
	if err != nil {
		return config.Config{}, err
	}
	v := viper.New()
	if err := v.BindPFlags(cmd.Flags()); err != nil {
		return config.Config{}, err
	}
	c, err := config.LoadFromViper(v)
	return DeepCopy(c), err
}

// TouchedFlags lists the flags of cmd that the command line did not give (`given`: by name) and
// that nevertheless are marked Changed or no longer hold their registered default.
func TouchedFlags(cmd *cobra.Command, given map[string]bool) []string {
	var out []string
	cmd.Flags().VisitAll(func(f *pflag.Flag) {
		if given[f.Name] || f.Name == config.FlagRootDir {
			return
		}
		if f.Changed || f.Value.String() != f.DefValue {
			out = append(out, fmt.Sprintf("%s(changed=%v value=%q default=%q)", f.Name, f.Changed, f.Value.String(), f.DefValue))
		}
	})
	return out
}

// ScrubEnv removes environment variables that viper's AutomaticEnv/BindEnv would read as a layer
// of their own (the property is about flag, file and default).
func ScrubEnv(fs []Field, fl []Flag) {
	exe, _ := os.Executable()
	base := filepath.Base(exe)
	for _, f := range fs {
		os.Unsetenv(strings.ToUpper(f.MS))
	}
	for _, f := range fl {
		os.Unsetenv(strings.ToUpper(f.Key))
		os.Unsetenv(strings.ToUpper(f.Name))
		os.Unsetenv(base + "_" + strings.ToUpper(strings.ReplaceAll(f.Key, "-", "_")))
	}
}
