package c18

import (
	"encoding/json"
	"fmt"
	"go/ast"
	"go/parser"
	"go/token"
	"os"
	"sort"
	"strconv"
	"strings"

	"verifharness/hx"
)

// leanStr renders a Go string as a Lean string literal (only escapes Lean understands).
func leanStr(s string) string {
	var b strings.Builder
	b.WriteByte('"')
	for _, r := range s {
		switch {
		case r == '"' || r == '\\':
			b.WriteByte('\\')
			b.WriteRune(r)
		case r >= 0x20 && r < 0x7f:
			b.WriteRune(r)
		case r <= 0xffff:
			fmt.Fprintf(&b, "\\u%04x", r)
		default:
			b.WriteRune(r)
		}
	}
	b.WriteByte('"')
	return b.String()
}

func leanStrList(xs []string) string {
	p := make([]string, len(xs))
	for i, x := range xs {
		p[i] = leanStr(x)
	}
	return "[" + strings.Join(p, ", ") + "]"
}

// configSource is the file that declares the flag names; through VERIF_OVERLAY when one is set.
const configSource = "/repo/pkg/config/config.go"

func overlaid(path string) string {
	if ov := os.Getenv("VERIF_OVERLAY"); ov != "" {
		if raw, err := os.ReadFile(ov); err == nil {
			var m struct{ Replace map[string]string }
			if json.Unmarshal(raw, &m) == nil && m.Replace[path] != "" {
				return m.Replace[path]
			}
		}
	}
	return path
}

// FlagConstants reads the SOURCE (go/parser, not the compiled code): every constant of
// pkg/config/config.go whose name starts with `Flag` and whose value is a string literal. They are
// the flags the package says it has; the tables built by asking cobra must contain them (so that an
// empty or truncated table cannot pass the `for every flag` obligations vacuously).
func FlagConstants() ([][2]string, error) {
	fset := token.NewFileSet()
	f, err := parser.ParseFile(fset, overlaid(configSource), nil, 0)
	if err != nil {
		return nil, err
	}
	var out [][2]string
	for _, d := range f.Decls {
		gd, ok := d.(*ast.GenDecl)
		if !ok || gd.Tok != token.CONST {
			continue
		}
		for _, sp := range gd.Specs {
			vs := sp.(*ast.ValueSpec)
			for i, n := range vs.Names {
				if !strings.HasPrefix(n.Name, "Flag") || i >= len(vs.Values) {
					continue
				}
				if bl, ok := vs.Values[i].(*ast.BasicLit); ok && bl.Kind == token.STRING {
					if v, err := strconv.Unquote(bl.Value); err == nil {
						out = append(out, [2]string{n.Name, v})
					}
				}
			}
		}
	}
	sort.Slice(out, func(i, j int) bool { return out[i][0] < out[j][0] })
	return out, nil
}

// Facts renders the tables as lists of tuples of small definitions (Gen modules may import only
// Model.Bytes; Model/Config.lean turns the tuples into its structures).
func Facts() (string, error) {
	fs := Fields()
	fl, err := Flags(true)
	if err != nil {
		return "", err
	}
	shared, err := SharedLeaves(fs)
	if err != nil {
		return "", err
	}
	for i := range fs {
		switch {
		case !shared[fs[i].Go]:
			fs[i].Via = "" // behind a pointer, but the compiled Load does not write through it
		case fs[i].Via == "":
			fs[i].Via = fs[i].Go
		}
	}
	var b strings.Builder
	b.WriteString("/-- (Go path, effective mapstructure key path, yaml key path, kind, canonical default, if the real Load overwrites this leaf of DefaultConfig: Go path of the pointer field behind which it lives, else \"\") -/\n")
	b.WriteString("abbrev FieldRow := String × String × String × String × String × String\n")
	b.WriteString("/-- (flag name, viper key the real bindFlags binds it to [behavioural: only this flag given, bindFlags run on a fresh viper, the key viper reports as set], pflag type, default, Go paths of the fields the real Load changes when only this flag is given [behavioural]) -/\n")
	b.WriteString("abbrev FlagRow := String × String × String × String × List String\n")
	for i, f := range fs {
		fmt.Fprintf(&b, "def field%d : FieldRow := (%s, %s, %s, %s, %s, %s)\n", i, leanStr(f.Go), leanStr(f.MS), leanStr(f.YAML), leanStr(f.Kind), leanStr(f.Def), leanStr(f.Via))
	}
	for i, f := range fl {
		fmt.Fprintf(&b, "def flag%d : FlagRow := (%s, %s, %s, %s, %s)\n", i, leanStr(f.Name), leanStr(f.Bound), leanStr(f.Kind), leanStr(f.Def), leanStrList(f.Reaches))
	}
	names := func(p string, n int) string {
		xs := make([]string, n)
		for i := range xs {
			xs[i] = fmt.Sprintf("%s%d", p, i)
		}
		return "[" + strings.Join(xs, ", ") + "]"
	}
	fmt.Fprintf(&b, "def fields : List FieldRow := %s\n", names("field", len(fs)))
	fmt.Fprintf(&b, "def flags : List FlagRow := %s\n", names("flag", len(fl)))
	// the naming rule of the property (NOT read from the code): flag name -> path of the option it names
	b.WriteString("/-- (flag name, path in the configuration file of the option the flag NAMES: the name without the prefix `rollkit.`, except for the declared aliases `rollkit.signer.type|path` -> `signer.signer_type|signer_path`) - the property's vocabulary, declared by the fact generator, not read from the code -/\n")
	var nm []string
	for _, f := range fl {
		nm = append(nm, fmt.Sprintf("(%s, %s)", leanStr(f.Name), leanStr(f.Key)))
	}
	fmt.Fprintf(&b, "def flagNames : List (String × String) := [%s]\n", strings.Join(nm, ", "))
	// read from the SOURCE: the `Flag*` string constants of pkg/config/config.go
	fc, err := FlagConstants()
	if err != nil {
		return "", fmt.Errorf("flag constants: %w", err)
	}
	var fcs []string
	for _, c := range fc {
		fcs = append(fcs, fmt.Sprintf("(%s, %s)", leanStr(c[0]), leanStr(c[1])))
	}
	b.WriteString("/-- (constant name, value) of every `Flag*` string constant declared in pkg/config/config.go, read from the source with go/parser -/\n")
	fmt.Fprintf(&b, "def flagConstants : List (String × String) := [%s]\n", strings.Join(fcs, ", "))
	return b.String(), nil
}

func init() { hx.RegisterFacts("C18", Facts) }
