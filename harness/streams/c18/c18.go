package c18

import (
	"bytes"
	"encoding/hex"
	"encoding/json"
	"fmt"
	"io"
	"os"
	"path/filepath"
	"reflect"
	"regexp"
	"strconv"
	"strings"
	"time"
	"unicode/utf8"

	"github.com/spf13/cobra"
	"github.com/spf13/viper"

	"verifharness/hx"

	"github.com/evstack/ev-node/pkg/config"
	"github.com/evstack/ev-node/pkg/genesis"
)

// Flags that deliberately name no option (by bound key) and fields that are no options.
var nonConfigFlagKeys = map[string]bool{"home": true, "signer.passphrase": true}

func isOption(f Field) bool { return !(f.MS == "-" && f.YAML == "-") }

type pair struct{ K, V string }

func hexS(s string) string { return hx.Hex([]byte(s)) }

func parsePairs(s string) ([]pair, bool) {
	if s == "-" || s == "" {
		return nil, true
	}
	var out []pair
	for _, p := range strings.Split(s, ",") {
		kv := strings.Split(p, ":")
		if len(kv) != 2 {
			continue // the model skips malformed pairs as well
		}
		b, err := hx.UnHex(kv[1])
		if err != nil {
			return nil, false
		}
		out = append(out, pair{kv[0], string(b)})
	}
	return out, true
}

func showPairs(ps []pair) string {
	if len(ps) == 0 {
		return "-"
	}
	xs := make([]string, len(ps))
	for i, p := range ps {
		xs[i] = p.K + ":" + hexS(p.V)
	}
	return strings.Join(xs, ",")
}

// ---- writing the configuration file the way a user would ----

type ynode struct {
	leaf     *string
	kids     map[string]*ynode
	order    []string
	kindHint string
}

func yamlQuote(s string) string {
	var b strings.Builder
	b.WriteByte('"')
	for _, r := range s {
		switch {
		case r == '"':
			b.WriteString(`\"`)
		case r == '\\':
			b.WriteString(`\\`)
		case r == '\n':
			b.WriteString(`\n`)
		case r == '\t':
			b.WriteString(`\t`)
		case r == '\r':
			b.WriteString(`\r`)
		case r < 0x20 || r == 0x7f:
			fmt.Fprintf(&b, `\x%02x`, r)
		case r == 0x85 || r == 0xa0 || r == 0x2028 || r == 0x2029 || r == 0xfeff:
			fmt.Fprintf(&b, `\u%04x`, r)
		default:
			b.WriteRune(r)
		}
	}
	b.WriteByte('"')
	return b.String()
}

// WriteYAML renders key-path/value pairs as a nested block mapping. Scalars of numeric/bool
// kinds are plain, everything else is double quoted. The first entry for a path wins.
func WriteYAML(entries []pair, kindOf func(path string) string) string {
	root := &ynode{kids: map[string]*ynode{}}
	for _, e := range entries {
		n, ok := root, true
		parts := strings.Split(e.K, ".")
		for i, p := range parts {
			if n.leaf != nil || p == "" {
				ok = false
				break
			}
			k, exists := n.kids[p]
			if !exists {
				k = &ynode{kids: map[string]*ynode{}}
				n.kids[p] = k
				n.order = append(n.order, p)
			}
			if i == len(parts)-1 {
				if exists {
					ok = false
					break
				}
				v := e.V
				k.leaf, k.kindHint = &v, kindOf(e.K)
			}
			n = k
		}
		_ = ok
	}
	var b strings.Builder
	var emit func(n *ynode, ind string)
	emit = func(n *ynode, ind string) {
		for _, k := range n.order {
			c := n.kids[k]
			if c.leaf != nil {
				v := *c.leaf
				switch c.kindHint {
				case "bool", "int", "uint", "float":
				default:
					v = yamlQuote(v)
				}
				fmt.Fprintf(&b, "%s%s: %s\n", ind, k, v)
			} else if len(c.order) > 0 {
				fmt.Fprintf(&b, "%s%s:\n", ind, k)
				emit(c, ind+"  ")
			}
		}
	}
	emit(root, "")
	return b.String()
}

// ---- the run side ----

type runner struct {
	c        *hx.Ctx
	fs       []Field
	fl       []Flag
	work     string
	n        int
	prist    []string // pristine defaults (table order)
	own      bool
	byYAML   map[string]int
	slots    map[string]*gslot   // genesis paths of the running scenario
	cfgHomes map[string]string   // homes re-used by `save at=<n>` in the running scenario
	cmds     map[string]*cmdSlot // command objects re-used by `load|save cmd=<n>` in the running scenario
}

func newRunner(c *hx.Ctx) *runner {
	r := &runner{c: c, fs: Fields(), byYAML: map[string]int{}, slots: map[string]*gslot{}, cfgHomes: map[string]string{}, cmds: map[string]*cmdSlot{}}
	r.fl, _ = Flags(false)
	ScrubEnv(r.fs, r.fl)
	p := DeepCopy(pristine)
	r.prist = Snapshot(&p, r.fs)
	for i, f := range r.fs {
		if f.YAML != "-" {
			r.byYAML[f.YAML] = i
		}
	}
	base := os.Getenv("VERIF_WORK")
	d, err := os.MkdirTemp(base, "c18run")
	if err != nil {
		d, _ = os.MkdirTemp("", "c18run")
	}
	r.work, r.own = d, true
	return r
}

func (r *runner) home() string {
	r.n++
	h := filepath.Join(r.work, fmt.Sprintf("h%d", r.n))
	_ = os.MkdirAll(h, 0o755)
	return h
}

func (r *runner) kindOfPath(p string) string {
	if i, ok := r.byYAML[strings.ToLower(p)]; ok {
		return r.fs[i].Kind
	}
	return "string"
}

func (r *runner) cfgList(s []string) string {
	var xs []string
	for i, f := range r.fs {
		if isOption(f) {
			xs = append(xs, hexS(s[i]))
		}
	}
	return strings.Join(xs, ",")
}

// flagNaming returns the registered flag whose name without the prefix is the option's path in the file.
func (r *runner) flagNaming(f Field) (Flag, bool) {
	for _, fl := range r.fl {
		if stripKey(fl.Name) == f.YAML {
			return fl, true
		}
	}
	return Flag{}, false
}

func lookup(ps []pair, k string, lower bool) (string, bool) {
	for _, p := range ps {
		pk := p.K
		if lower {
			pk = strings.ToLower(pk)
		}
		if pk == k {
			return p.V, true
		}
	}
	return "", false
}

// checkDefaultsUntouched: Load must not change DefaultConfig.
func (r *runner) checkDefaultsUntouched(before []string) {
	after := Snapshot(&config.DefaultConfig, r.fs)
	for i, f := range r.fs {
		if after[i] != before[i] {
			root := f.Via
			if root == "" {
				root = f.Go
			}
			r.c.Report("C18/default-mutated/"+root, fmt.Sprintf("config.Load changed config.DefaultConfig.%s from %q to %q (the Config it returns shares memory with DefaultConfig; the next Load in this process starts from the changed value)", f.Go, before[i], after[i]))
		}
	}
}

// doLoadX: values that are NOT of the option's type (or a file of the wrong shape). The property
// says nothing about the outcome; the loader must not panic. Not part of the load history.
func (r *runner) doLoadX(o hx.Op) {
	fl, ok1 := parsePairs(o.Str("fl"))
	fi, ok2 := parsePairs(o.Str("fi"))
	if !ok1 || !ok2 {
		r.c.Emit("bad-op")
		return
	}
	saved := DeepCopy(config.DefaultConfig)
	defer restoreFrom(saved)
	home := r.home()
	defer os.RemoveAll(home)
	_ = os.MkdirAll(filepath.Join(home, config.AppConfigDir), 0o755)
	body := WriteYAML(fi, func(string) string { return o.Str("style") })
	if raw := o.Bytes("raw"); len(raw) > 0 {
		body = string(raw)
	}
	_ = os.WriteFile(filepath.Join(home, config.AppConfigDir, config.ConfigName), []byte(body), 0o644)
	var args []string
	for _, p := range fl {
		args = append(args, "--"+p.K+"="+p.V)
	}
	_, err := RealLoad(home, args)
	switch {
	case err == nil:
		r.c.Hit("loadx:accepted")
	case strings.HasPrefix(err.Error(), "panic:"):
		r.c.Report("C18/panic/load", err.Error())
		r.c.Hit("loadx:panic")
	default:
		r.c.Hit("loadx:refused")
	}
	r.c.Emit("checked")
}

// doLoad: `load` = config.Load through a cobra command; `loadfromviper` = config.LoadFromViper with
// a viper the command's flags are bound to (same inputs, same oracle, same model).
func (r *runner) doLoad(o hx.Op, viaViper bool) {
	fl, ok1 := parsePairs(o.Str("fl"))
	fi, ok2 := parsePairs(o.Str("fi"))
	if !ok1 || !ok2 {
		r.c.Emit("bad-op")
		return
	}
	cn, okC := keyedSlot(o, "cmd")
	if !okC {
		r.c.Emit("bad-op")
		return
	}
	var args []string
	for _, p := range fl {
		args = append(args, "--"+p.K+"="+p.V)
	}
	// `cmd=<n>`: the load goes through the scenario's command object number n (parsed once, with
	// this command line) in its own home, whose file this op replaces; otherwise a fresh command
	// in a fresh home.
	var slot *cmdSlot
	var home string
	if cn == "" || viaViper {
		home = r.home()
		defer os.RemoveAll(home)
	} else {
		slot = r.cmdSlot(cn)
		home = slot.home
	}
	cfgFile := filepath.Join(home, config.AppConfigDir, config.ConfigName)
	if len(fi) > 0 {
		_ = os.MkdirAll(filepath.Join(home, config.AppConfigDir), 0o755)
		if err := os.WriteFile(cfgFile, []byte(WriteYAML(fi, r.kindOfPath)), 0o644); err != nil {
			r.c.Emit("err:harness")
			return
		}
	} else if slot != nil {
		_ = os.Remove(cfgFile)
	}
	before := Snapshot(&config.DefaultConfig, r.fs)
	var cfg config.Config
	var err error
	if viaViper {
		cfg, err = RealLoadFromViper(home, args)
	} else if slot == nil {
		cfg, err = RealLoad(home, args)
	} else if err = slot.ensure(home, args, o.Bool("newcmd")); err == nil {
		cfg, err = LoadThrough(slot.cmd)
	}
	if err != nil {
		if strings.HasPrefix(err.Error(), "flag-parse:") {
			registered := true
			for _, p := range fl {
				found := false
				for _, f := range r.fl {
					found = found || f.Name == p.K
				}
				registered = registered && found
			}
			if registered {
				r.c.Report("C18/flag-value-refused/"+o.Str("f"), "a value of the option's type is refused on the command line: "+err.Error())
			}
			r.c.Hit("load:flag-parse")
			r.c.Emit("err:flag-parse")
			return
		}
		if strings.HasPrefix(err.Error(), "panic:") {
			r.c.Report("C18/panic/load", err.Error())
		} else {
			r.c.Report("C18/load-error/"+loadErrCause(err, o.Str("f")), "config.Load fails on values of the options' types: "+err.Error())
		}
		r.c.Emit("err:load")
		return
	}
	got := Snapshot(&cfg, r.fs)
	if cfg.RootDir != home {
		r.c.Report("C18/home-ignored", fmt.Sprintf("RootDir=%q, --home=%q", cfg.RootDir, home))
	}
	// what a Load returns depends only on (command line, file now, defaults): never on an earlier
	// Load through the same command object
	var histDiff map[int]bool
	if slot != nil {
		histDiff = r.checkHistory(slot, home, args, fl, got)
	}
	focus := "v=- src=none"
	for i, f := range r.fs {
		if !isOption(f) {
			continue
		}
		nf, hasFlag := r.flagNaming(f)
		fv, flagGiven := "", false
		if hasFlag {
			fv, flagGiven = lookup(fl, nf.Name, false)
		}
		filev, fileGiven := lookup(fi, f.YAML, true)
		g := got[i]
		// which layer won (priority = the property's order), for the observation
		src := "other"
		switch {
		case flagGiven && g == fv:
			src = "flag"
		case fileGiven && g == filev:
			src = "file"
		case g == r.prist[i]:
			src = "default"
		case hasFlag && g == nf.Def:
			src = "flagdefault"
		case g == before[i]:
			src = "stale"
		}
		if f.Go == o.Str("f") {
			focus = fmt.Sprintf("v=%s src=%s", hexS(g), src)
			if viaViper {
				r.c.Hit("loadfromviper:" + src)
			} else {
				r.c.Hit("load:" + f.Kind + ":" + src)
			}
		}
		// the oracle: flag > file > default
		switch {
		case histDiff[i]:
			// already reported as history dependence (a fresh command returns something else)
		case flagGiven:
			if g != fv {
				if (fileGiven && g == filev) || g == r.prist[i] || g == before[i] {
					r.c.Report("C18/flag-ignored/"+nf.Name, fmt.Sprintf("--%s=%q given, option %s resolved to %q (%s)", nf.Name, fv, f.Go, g, src))
				} else {
					r.c.Report("C18/flag-mangled/"+nf.Name, fmt.Sprintf("--%s=%q given, option %s resolved to %q", nf.Name, fv, f.Go, g))
				}
			}
		case fileGiven:
			if g != filev {
				if g == r.prist[i] || g == before[i] || (hasFlag && g == nf.Def) {
					r.c.Report("C18/file-ignored/"+f.YAML, fmt.Sprintf("the file sets %s to %q, option %s resolved to %q (%s)", f.YAML, filev, f.Go, g, src))
				} else {
					r.c.Report("C18/file-mangled/"+f.YAML, fmt.Sprintf("the file sets %s to %q, option %s resolved to %q", f.YAML, filev, f.Go, g))
				}
			}
		default:
			if g != r.prist[i] {
				if g == before[i] && f.Via != "" {
					r.c.Report("C18/default-mutated/"+f.Via, fmt.Sprintf("neither flag nor file sets %s; Load resolved it to %q, which an earlier Load left in DefaultConfig (default is %q)", f.Go, g, r.prist[i]))
				} else {
					r.c.Report("C18/default-wrong/"+f.Go, fmt.Sprintf("neither flag nor file sets %s; Load resolved it to %q, the default is %q", f.Go, g, r.prist[i]))
				}
			}
		}
	}
	r.checkDefaultsUntouched(before)
	r.c.Emit("ok %s cfg=%s", focus, r.cfgList(got))
}

// cmdSlot is one command object that lives for a whole scenario (`cmd=<n>`): parsed once, every
// load of the scenario that names it goes through it.
type cmdSlot struct {
	home  string
	cmd   *cobra.Command
	argS  string // the command line it was parsed with
	loads int    // Loads that already went through cmd
}

// ensure (re)creates the command object when there is none yet, when the op asks for a new one
// (`newcmd=1`) or when the op's command line is not the one the object was parsed with.
func (s *cmdSlot) ensure(home string, args []string, fresh bool) error {
	argS := strings.Join(args, "\x00")
	if s.cmd != nil && !fresh && argS == s.argS {
		return nil
	}
	cmd, err := ParsedCommand(home, args)
	if err != nil {
		return err
	}
	s.cmd, s.argS, s.loads = cmd, argS, 0
	return nil
}

func (r *runner) cmdSlot(name string) *cmdSlot {
	if s, ok := r.cmds[name]; ok {
		return s
	}
	s := &cmdSlot{home: r.home()}
	r.cmds[name] = s
	return s
}

// keyedSlot: "" = key absent; ok=false = malformed
func keyedSlot(o hx.Op, key string) (string, bool) {
	if !o.Has(key) {
		return "", true
	}
	n, ok := o.U64(key)
	return strconv.FormatUint(n, 10), ok
}

// checkHistory compares what the Load through the scenario's command object returned (`got`)
// with what a Load through a FRESH command object returns for the same command line and the same
// home (so: the same file, the same defaults), and looks at the flags the command line did not
// give. Returns the options on which the two differ.
func (r *runner) checkHistory(slot *cmdSlot, home string, args []string, fl []pair, got []string) map[int]bool {
	slot.loads++
	given := map[string]bool{}
	for _, p := range fl {
		given[p.K] = true
	}
	if t := TouchedFlags(slot.cmd, given); len(t) > 0 {
		r.c.Report("C18/history/load-sets-flag-not-given", fmt.Sprintf("after config.Load, %d flag(s) the command line did not give are marked Changed / hold another value than their default, so the command object now carries values nobody typed: %s", len(t), strings.Join(t, ", ")))
	}
	saved := DeepCopy(config.DefaultConfig) // the control load is not part of the history
	ctl, err := RealLoad(home, args)
	restoreFrom(saved)
	diff := map[int]bool{}
	if err != nil {
		return diff // the Load under test succeeded on the same input: judged by the oracle below
	}
	cs := Snapshot(&ctl, r.fs)
	for i, f := range r.fs {
		if isOption(f) && cs[i] != got[i] {
			diff[i] = true
			r.c.Report("C18/history/load-depends-on-earlier-load", fmt.Sprintf("Load number %d through one command object resolves %s to %q; a Load through a fresh command object with the same command line, the same file and the same defaults resolves it to %q", slot.loads, f.Go, got[i], cs[i]))
		}
	}
	if slot.loads > 1 {
		r.c.Hit("load:same-command")
	}
	return diff
}

var quotedKeyRe = regexp.MustCompile(`'([A-Za-z0-9_.\[\]-]+)'`)

// loadErrCause names the key the decoder complains about (else the option under test).
func loadErrCause(err error, focus string) string {
	if m := quotedKeyRe.FindStringSubmatch(err.Error()); m != nil && m[1] != "" {
		return strings.ToLower(m[1])
	}
	return focus
}

func (r *runner) doFlagReach(o hx.Op) {
	fl, ok := parsePairs(o.Str("fl"))
	if !ok || len(fl) != 1 {
		r.c.Emit("bad-op")
		return
	}
	// this op is not part of the load history: put the shared defaults back afterwards
	saved := DeepCopy(config.DefaultConfig)
	defer restoreFrom(saved)
	RestoreDefaults()
	home := r.home()
	defer os.RemoveAll(home)
	base, err := RealLoad(home, nil)
	if err != nil {
		r.c.Report("C18/load-error/baseline", err.Error())
		r.c.Emit("err:load")
		return
	}
	RestoreDefaults()
	cfg, err := RealLoad(home, []string{"--" + fl[0].K + "=" + fl[0].V})
	if err != nil {
		if strings.HasPrefix(err.Error(), "flag-parse:") {
			r.c.Emit("err:flag-parse")
			return
		}
		r.c.Report("C18/load-error/"+fl[0].K, err.Error())
		r.c.Emit("err:load")
		return
	}
	b, s := Snapshot(&base, r.fs), Snapshot(&cfg, r.fs)
	var reached []string
	for i, f := range r.fs {
		if isOption(f) && b[i] != s[i] {
			reached = append(reached, f.Go)
		}
	}
	key := stripKey(fl[0].K)
	r.c.Hit(fmt.Sprintf("flagreach:%d", len(reached)))
	if !nonConfigFlagKeys[key] {
		var named []string
		for _, f := range r.fs {
			if isOption(f) && f.YAML == key {
				named = append(named, f.Go)
			}
		}
		switch {
		case len(reached) == 0:
			r.c.Report("C18/flag-ignored/"+fl[0].K, fmt.Sprintf("--%s=%q changes no option of the loaded configuration (it names the option %q: the flag is bound to a key no field decodes from)", fl[0].K, fl[0].V, key))
		case len(named) != 1 || len(reached) != 1 || reached[0] != named[0]:
			r.c.Report("C18/flag-wrong-target/"+fl[0].K, fmt.Sprintf("--%s names %v and reaches %v", fl[0].K, named, reached))
		}
	}
	if len(reached) == 0 {
		r.c.Emit("ok reached=-")
	} else {
		r.c.Emit("ok reached=%s", strings.Join(reached, ","))
	}
}

// yamlCause names the class of string values the YAML writer (goccy) / reader (yaml.v3) pair is
// known not to preserve that `w` belongs to ("" = none): the cause part of a finding's signature.
// (The outcome itself is predicted by the Lean model, Model/ConfigYaml.lean, and compared on every op.)
func yamlCause(w string, depth int) string {
	p := w
	if !strings.HasPrefix(w, "_") {
		p = strings.ReplaceAll(w, "_", "")
	}
	switch {
	case strings.Contains(w, "\r"):
		return "carriage-return-rewritten"
	case w == "\n":
		return "lone-newline-lost"
	case strings.Contains(w, "\n") && !strings.Contains(w, "\t") && !goccyQuotesStructurally(w):
		switch v, ok := lfBlock(depth, w); {
		case !ok:
			return "multiline-block-file-unparsable-silently-ignored"
		case v != w:
			return "multiline-block-reread-differently"
		}
		return ""
	case w == "?" || strings.HasPrefix(w, "? "):
		return "file-unparsable-silently-ignored"
	case hardControlRe.MatchString(w):
		return "control-character-file-unparsable-silently-ignored"
	case infNanRe.MatchString(w) || expFloatRe.MatchString(p):
		return "numeric-looking-string-retyped"
	case radixRe.MatchString(p) || leadZeroRe.MatchString(p):
		return "radix-or-leading-zero-string-retyped"
	case dateLikeRe.MatchString(w):
		return "date-like-string-refused"
	}
	return ""
}

// goccyQuotesStructurally: the part of token.IsNeedQuoted that looks at the shape of the value
// (special first/last character, '#', '\\', ": ", "- "); such values are written double-quoted.
func goccyQuotesStructurally(v string) bool {
	if v == "" || v == "-" {
		return true
	}
	if strings.ContainsRune("*&[{}],!|>%'\"@ `", rune(v[0])) || v[len(v)-1] == ':' || v[len(v)-1] == ' ' {
		return true
	}
	for i := 0; i < len(v); i++ {
		switch v[i] {
		case '#', '\\':
			return true
		case ':', '-':
			if i+1 < len(v) && v[i+1] == ' ' {
				return true
			}
		}
	}
	return false
}

// lfBlock: what comes back for an unquoted value with LF line breaks under a key of nesting depth
// `depth`, from the two mechanisms the finding describes: goccy writes a literal block WITHOUT
// indentation indicator (every line behind P = 2*(depth+1) spaces, then two TrimSuffix calls that
// also eat P trailing spaces of the last line); yaml.v3 DETECTS the indentation (widest of the leading
// blank lines and the first non-blank line) and ends the block at a shallower line. ok=false: the
// block ends early, the file is no YAML.
func lfBlock(depth int, s string) (string, bool) {
	P, parent := 2*(depth+1), 2*depth
	pre := strings.Repeat(" ", P)
	lines := strings.Split(s, "\n")
	for i := range lines {
		lines[i] = pre + lines[i]
	}
	block := strings.TrimSuffix(strings.TrimSuffix(strings.Join(lines, "\n"), "\n"+pre), pre)
	lines = strings.Split(block, "\n")
	blank := func(l string) bool { return strings.Trim(l, " ") == "" }
	lead := 0
	widest := 0
	for lead < len(lines) && blank(lines[lead]) {
		if len(lines[lead]) > widest {
			widest = len(lines[lead])
		}
		lead++
	}
	first := parent
	if lead < len(lines) {
		first = len(lines[lead]) - len(strings.TrimLeft(lines[lead], " "))
	}
	indent := widest
	if first > indent {
		indent = first
	}
	if indent < parent+1 {
		indent = parent + 1
	}
	var acc strings.Builder
	had, pending := false, lead
	for _, l := range lines[lead:] {
		switch {
		case blank(l) && len(l) <= indent:
			pending++
		case len(l)-len(strings.TrimLeft(l, " ")) >= indent:
			if had {
				acc.WriteByte('\n')
			}
			acc.WriteString(strings.Repeat("\n", pending))
			acc.WriteString(l[indent:])
			had, pending = true, 0
		default:
			return "", false
		}
	}
	switch {
	case strings.HasSuffix(s, "\n\n"):
		if had {
			acc.WriteByte('\n')
		}
		acc.WriteString(strings.Repeat("\n", pending))
	case strings.HasSuffix(s, "\n"):
		if had {
			acc.WriteByte('\n')
		}
	}
	return acc.String(), true
}

// yamlPredicted: what the recorded finding of w's class says comes back for w - computed here from
// the finding's description (strconv), independently of the Lean model: kind "retyped" (+ the
// value), "fileBroken" (the reader refuses the file, every option gets its default), "loadError"
// (config.Load fails), or "" (w is in no recorded class).
func yamlPredicted(w string, depth int) (cause, kind, value string) {
	cause = yamlCause(w, depth)
	p := w
	if !strings.HasPrefix(w, "_") {
		p = strings.ReplaceAll(w, "_", "")
	}
	ff := func(f float64) string { return strconv.FormatFloat(f, 'f', -1, 64) }
	switch cause {
	case "carriage-return-rewritten":
		v := strings.ReplaceAll(w, "\r", "\n")
		k := len(w) - len(strings.TrimRight(w, "\r"))
		if k >= 2 || k == len(w) {
			v = v[:len(v)-1]
		}
		return cause, "retyped", v
	case "lone-newline-lost":
		return cause, "retyped", ""
	case "file-unparsable-silently-ignored", "control-character-file-unparsable-silently-ignored", "multiline-block-file-unparsable-silently-ignored":
		return cause, "fileBroken", ""
	case "multiline-block-reread-differently":
		v, _ := lfBlock(depth, w)
		return cause, "retyped", v
	case "date-like-string-refused":
		return cause, "loadError", ""
	case "numeric-looking-string-retyped":
		if infNanRe.MatchString(w) {
			switch {
			case strings.HasPrefix(w, "-"):
				return cause, "retyped", "-Inf"
			case strings.Contains(strings.ToLower(w), "nan"):
				return cause, "retyped", "NaN"
			}
			return cause, "retyped", "+Inf"
		}
		if f, err := strconv.ParseFloat(p, 64); err == nil {
			return cause, "retyped", ff(f)
		}
	case "radix-or-leading-zero-string-retyped":
		switch {
		case strings.HasPrefix(p, "0o") || strings.HasPrefix(p, "0b"):
			base := 8
			if p[1] == 'b' {
				base = 2
			}
			if n, err := strconv.ParseInt(p[2:], base, 64); err == nil {
				return cause, "retyped", strconv.FormatInt(n, 10)
			}
		case leadZeroRe.MatchString(p):
			if f, err := strconv.ParseFloat(p, 64); err == nil {
				return cause, "retyped", ff(f)
			}
		default:
			if n, err := strconv.ParseInt(p, 0, 64); err == nil {
				return cause, "retyped", strconv.FormatInt(n, 10)
			}
		}
	}
	return cause, "", ""
}

var decodeErrKeyRe = regexp.MustCompile(`'([A-Za-z0-9_.]+)' expected type`)

var (
	hardControlRe = regexp.MustCompile("[\\x00-\\x08\\x0b\\x0c\\x0e-\\x1f\\x7f\u0080-\u0084\u0086-\u009f\ufffe\uffff]")
	radixRe       = regexp.MustCompile(`^([-+]?0X[0-9a-fA-F]+|[-+]?0O[0-7]+|[-+]?0B[01]+|0o[-+][0-7]+|0b[-+][01]+)$`)
	leadZeroRe    = regexp.MustCompile(`^[-+]?0[0-9]*[89][0-9]*$`)
	dateLikeRe    = regexp.MustCompile(`^[0-9]{4}-[0-9]{1,2}-[0-9]{1,2}$`)
)

func (r *runner) doSave(o hx.Op) {
	set, ok := parsePairs(o.Str("set"))
	if !ok {
		r.c.Emit("bad-op")
		return
	}
	cfg := DeepCopy(pristine)
	for _, p := range set {
		v, ok := Leaf(&cfg, p.K)
		if !ok || v.Kind() == reflect.Struct && v.Type() != durWrapT {
			continue
		}
		if err := SetLeaf(v, p.V); err != nil {
			r.c.Emit("bad-op")
			return
		}
	}
	// `at=<n>`: the scenario's home number n, which keeps the file an earlier save of the scenario
	// wrote (longer or shorter than this one); otherwise a fresh home for this op only
	// `cmd=<n> [fl=…]`: written to the home of the scenario's command object number n and loaded
	// back THROUGH that object (which earlier loads of the scenario already went through)
	fl, okFl := parsePairs(o.Str("fl"))
	cn, okC := keyedSlot(o, "cmd")
	at, okAt := slotName(o)
	if !okFl || !okC || !okAt {
		r.c.Emit("bad-op")
		return
	}
	var args []string
	for _, p := range fl {
		args = append(args, "--"+p.K+"="+p.V)
	}
	var slot *cmdSlot
	var home string
	if cn != "" {
		slot = r.cmdSlot(cn)
		home = slot.home
	} else if at == "" {
		home = r.home()
		defer os.RemoveAll(home)
	} else if h, seen := r.cfgHomes[at]; seen {
		home = h
		r.c.Hit("save:overwrite")
	} else {
		home = r.home()
		r.cfgHomes[at] = home
	}
	cfg.RootDir = home
	want := Snapshot(&cfg, r.fs)
	// an option named by a flag of the command line loads back as the flag says
	for i, f := range r.fs {
		if nf, has := r.flagNaming(f); has && isOption(f) {
			if fv, given := lookup(fl, nf.Name, false); given {
				want[i] = fv
			}
		}
	}
	if slot != nil {
		if err := slot.ensure(home, args, o.Bool("newcmd")); err != nil {
			r.c.Hit("save:flag-parse")
			r.c.Emit("err:flag-parse")
			return
		}
	}
	if err := func() (err error) {
		defer func() {
			if p := recover(); p != nil {
				err = fmt.Errorf("panic: %v", p)
			}
		}()
		return cfg.SaveAsYaml()
	}(); err != nil {
		r.c.Report("C18/save-error", err.Error())
		r.c.Emit("err:save")
		return
	}
	before := Snapshot(&config.DefaultConfig, r.fs)
	var back config.Config
	var err error
	if slot != nil {
		back, err = LoadThrough(slot.cmd)
	} else if back, err = RealLoad(home, args); err != nil && strings.HasPrefix(err.Error(), "flag-parse:") {
		r.c.Hit("save:flag-parse")
		r.c.Emit("err:flag-parse")
		return
	}
	if err != nil {
		// known only if the decoder complains about time.Time under exactly the keys of options whose
		// saved value the date-like finding predicts to be refused
		sig := "C18/saveload/load-error"
		predicted := map[string]bool{}
		for i, f := range r.fs {
			if _, kind, _ := yamlPredicted(want[i], strings.Count(f.YAML, ".")); isOption(f) && f.Kind == "string" && kind == "loadError" {
				predicted[f.YAML] = true
			}
		}
		keys := decodeErrKeyRe.FindAllStringSubmatch(err.Error(), -1)
		if len(keys) > 0 && strings.Count(err.Error(), "time.Time") == len(keys) {
			sig = "C18/saveload/date-like-string-refused"
			for _, k := range keys {
				if !predicted[strings.ToLower(k[1])] {
					sig = "C18/saveload/load-error"
				}
			}
		}
		r.c.Report(sig, "a configuration written by SaveAsYaml does not load: "+err.Error())
		r.c.Hit("save:load-error")
		r.c.Emit("err:load")
		return
	}
	got := Snapshot(&back, r.fs)
	var histDiff map[int]bool
	if slot != nil {
		histDiff = r.checkHistory(slot, home, args, fl, got)
	}
	// did viper manage to read the file at all? (Load ignores the error of ReadInConfig)
	pv := viper.New()
	pv.SetConfigFile(cfg.ConfigPath())
	parseErr := pv.ReadInConfig()
	// Classification by the observed OUTCOME against the outcome the recorded finding predicts for
	// the saved value (yamlPredicted): a known signature only when they are equal; a value of a
	// damaged class that comes back as something else is `saveload/other/<option>`.
	breaker := "" // some string option's class predicts that the reader refuses the whole file
	for i, f := range r.fs {
		if c, kind, _ := yamlPredicted(want[i], strings.Count(f.YAML, ".")); isOption(f) && f.Kind == "string" && kind == "fileBroken" && breaker == "" {
			breaker = c
		}
	}
	for i, f := range r.fs {
		if isOption(f) && got[i] != want[i] && !histDiff[i] {
			w, g := want[i], got[i]
			cause, kind, pv := "", "", ""
			if f.Kind == "string" {
				cause, kind, pv = yamlPredicted(w, strings.Count(f.YAML, "."))
			}
			switch {
			case parseErr != nil && breaker == "" && !(f.Kind == "string" && strings.ContainsAny(w, "\n\r")):
				// not a value that could have damaged the file itself: collateral of another option's value
				r.c.Report("C18/saveload/file-unparsable/other-options-reverted", fmt.Sprintf("SaveAsYaml left a file viper cannot parse (%v); Load ignores the error, so EVERY option of the file silently reverts to its default: saved %s=%q, loaded %q", parseErr, f.Go, w, g))
			case parseErr != nil && breaker == "":
				r.c.Report("C18/saveload/file-unparsable", fmt.Sprintf("SaveAsYaml left a file viper cannot parse (%v) although no option holds a value known to be written wrongly; saved %s=%q, loaded %q", parseErr, f.Go, w, g))
			case parseErr != nil && (g == r.prist[i] || g == before[i]):
				// predicted: the file is refused, Load discards the error, every option gets its default
				r.c.Report("C18/saveload/"+breaker, fmt.Sprintf("SaveAsYaml wrote a file viper cannot parse (%v); Load ignores the error and silently returns the defaults (saved %s=%q, loaded %q)", parseErr, f.Go, w, g))
			case parseErr != nil:
				r.c.Report("C18/saveload/other/"+f.Go, fmt.Sprintf("the file is unparsable (%v) and the option is neither what was saved nor its default: saved %s=%q, loaded %q, default %q", parseErr, f.Go, w, g, r.prist[i]))
			case kind == "retyped" && g == pv:
				r.c.Report("C18/saveload/"+cause, fmt.Sprintf("SaveAsYaml writes the string bare, Load reads something else: saved %s=%q, loaded %q (as the finding predicts)", f.Go, w, g))
			case cause != "":
				r.c.Report("C18/saveload/other/"+f.Go, fmt.Sprintf("saved %s=%q (class %s, predicted outcome %s %q), loaded %q", f.Go, w, cause, kind, pv, g))
			case g == r.prist[i] || g == before[i]:
				r.c.Report("C18/saveload/lost/"+f.Go, fmt.Sprintf("saved %s=%q, loaded %q", f.Go, w, g))
			default:
				r.c.Report("C18/saveload/value/"+f.Go, fmt.Sprintf("saved %s=%q, loaded %q", f.Go, w, g))
			}
		}
	}
	r.checkDefaultsUntouched(before)
	r.c.Hit("save")
	r.c.Emit("ok cfg=%s", r.cfgList(got))
}

// doSaveProbe: SaveAsYaml -> Load for string values OUTSIDE the domain the model of the YAML pair
// was validated on (Yaml.roundTrip answers `unmodelled`: TAB at the ends, NEL/LS/PS/BOM, CR and LF
// together, ...). No theorem and no finding covers them; the monitor only RECORDS what happens
// (histogram) and reports a crash. Not part of the load history.
func (r *runner) doSaveProbe(o hx.Op) {
	set, ok := parsePairs(o.Str("set"))
	if !ok {
		r.c.Emit("bad-op")
		return
	}
	saved := DeepCopy(config.DefaultConfig)
	defer restoreFrom(saved)
	RestoreDefaults()
	cfg := DeepCopy(pristine)
	for _, p := range set {
		v, ok := Leaf(&cfg, p.K)
		if !ok || v.Kind() != reflect.String {
			continue
		}
		v.SetString(p.V)
	}
	home := r.home()
	defer os.RemoveAll(home)
	cfg.RootDir = home
	want := Snapshot(&cfg, r.fs)
	outcome := func() (out string) {
		defer func() {
			if p := recover(); p != nil {
				r.c.Report("C18/panic/saveprobe", fmt.Sprintf("SaveAsYaml/Load panics on a string option value: %v", p))
				out = "panic"
			}
		}()
		if err := cfg.SaveAsYaml(); err != nil {
			return "save-error"
		}
		pv := viper.New()
		pv.SetConfigFile(cfg.ConfigPath())
		parseErr := pv.ReadInConfig()
		back, err := RealLoad(home, nil)
		switch {
		case err != nil && strings.HasPrefix(err.Error(), "panic:"):
			r.c.Report("C18/panic/saveprobe", err.Error())
			return "panic"
		case err != nil:
			return "load-error"
		case parseErr != nil:
			return "file-unparsable"
		}
		got := Snapshot(&back, r.fs)
		same, others := true, false
		for i, f := range r.fs {
			if isOption(f) && got[i] != want[i] {
				same = false
				if _, probed := lookup(set, f.Go, false); !probed {
					others = true
				}
			}
		}
		switch {
		case same:
			return "same"
		case others:
			return "other-options-damaged"
		}
		return "differs"
	}()
	r.c.Hit("saveprobe:" + outcome)
	r.c.Emit("probed")
}

func restoreFrom(src config.Config) {
	p := DeepCopy(src)
	dv, pv := reflect.ValueOf(&config.DefaultConfig).Elem(), reflect.ValueOf(&p).Elem()
	for i := 0; i < dv.NumField(); i++ {
		f := dv.Field(i)
		if f.Kind() == reflect.Ptr && !f.IsNil() && !pv.Field(i).IsNil() && f.Type().Elem().Kind() == reflect.Struct {
			f.Elem().Set(pv.Field(i).Elem())
		} else {
			f.Set(pv.Field(i))
		}
	}
}

// ---- genesis ----

const zeroUnix = -62135596800

func genesisErrClass(err error) string {
	m := err.Error()
	switch {
	case strings.Contains(m, "genesis file not found"):
		return "nofile"
	case strings.Contains(m, "invalid genesis file"), strings.Contains(m, "failed to read genesis file"):
		return "unparsable"
	case strings.Contains(m, "chain_id"):
		return "chain_id"
	case strings.Contains(m, "initial_height"):
		return "initial_height"
	case strings.Contains(m, "genesis_da_start_height"):
		return "da_start_time"
	case strings.Contains(m, "proposer_address"):
		return "proposer_address"
	}
	return "other"
}

// gslot is one genesis path that lives for a whole scenario (`at=<n>`): what the last Save wrote
// there, and how long the longest file ever written there was.
type gslot struct {
	home   string
	path   string
	saved  bool
	g      genesis.Genesis
	cond   string // "" = the last genesis saved here is valid, else the first condition Validate must name
	off    int    // zone offset (SECONDS) of the saved time
	maxLen int64  // size of the longest file Save ever left at this path
	writes int
	raw    []byte // non-nil: the path holds these bytes, written by a `gfile` op (not by Save)
}

func (r *runner) dropSlots() {
	for _, s := range r.slots {
		_ = os.RemoveAll(s.home)
	}
	r.slots = map[string]*gslot{}
	for _, h := range r.cfgHomes {
		_ = os.RemoveAll(h)
	}
	r.cfgHomes = map[string]string{}
	for _, c := range r.cmds {
		_ = os.RemoveAll(c.home)
	}
	r.cmds = map[string]*cmdSlot{}
}

func (r *runner) slot(name string) *gslot {
	if s, ok := r.slots[name]; ok {
		return s
	}
	home := r.home()
	path := genesis.GenesisPath(home)
	_ = os.MkdirAll(filepath.Dir(path), 0o755)
	s := &gslot{home: home, path: path}
	r.slots[name] = s
	return s
}

// invalidCond is the oracle of "an invalid genesis", written directly from the property's list.
func invalidCond(cid string, ih uint64, t time.Time, pa []byte) string {
	switch {
	case len(cid) == 0:
		return "chain_id"
	case ih < 1:
		return "initial_height"
	case t.Unix() == zeroUnix && t.Nanosecond() == 0:
		return "da_start_time"
	case pa == nil:
		return "proposer_address"
	}
	return ""
}

// loadBack loads the genesis file at s.path with the real LoadGenesis and compares with what the
// last Save wrote there. Returns the observation.
func (r *runner) loadBack(s *gslot, again bool) string {
	g, cond := s.g, s.cond
	how := "written by Save"
	if again {
		how = "written by an earlier Save of this scenario (loaded again later)"
	}
	back, err := genesis.LoadGenesis(s.path)
	if err != nil {
		cl := genesisErrClass(err)
		switch {
		case cl == "unparsable" || cl == "nofile" || cl == "other":
			// refused for a reason that has nothing to do with the genesis itself: the file is damaged
			sz := int64(-1)
			if st, e := os.Stat(s.path); e == nil {
				sz = st.Size()
			}
			want, _ := json.MarshalIndent(g, "", "  ")
			sig := "C18/genesis/roundtrip/" + cl
			if cl == "unparsable" && s.writes > 1 && sz > int64(len(want)) {
				sig = "C18/genesis/roundtrip/unparsable-after-overwrite"
			}
			if cond == "" {
				r.c.Report(sig, fmt.Sprintf("a valid genesis %s is not loaded back by LoadGenesis: %v (path written %d times; file has %d bytes, the document saved last has %d; longest file ever at this path %d)", how, err, s.writes, sz, len(want), s.maxLen))
			} else if cl != "nofile" {
				r.c.Report(sig, fmt.Sprintf("the genesis file %s cannot be parsed: %v (path written %d times; file has %d bytes, the document saved last has %d)", how, err, s.writes, sz, len(want)))
			}
		case cond == "":
			r.c.Report("C18/genesis/roundtrip/refused", "a valid genesis "+how+" is refused by LoadGenesis: "+err.Error())
		}
		return "err:" + cl
	}
	// Classification by the observed DAMAGE, field by field. A known signature is given only when
	// the field differs in exactly the way the recorded finding explains; every field is judged on
	// its own, so one explained difference cannot hide another.
	_, boff := back.GenesisDAStartTime.Zone()
	cut := (s.off / 60) * 60 // the zone offset RFC 3339 can print (Go: truncation towards zero)
	dropped := s.off - cut   // seconds the format drops: the wall clock is kept, so the instant moves by them
	shifted := g.GenesisDAStartTime.Add(time.Duration(dropped) * time.Second)
	timeSame := back.GenesisDAStartTime.Equal(g.GenesisDAStartTime) && boff == s.off
	timeShiftExplained := dropped != 0 && back.GenesisDAStartTime.Equal(shifted) && boff == cut
	if cond != "" {
		// the only explained way for an invalid genesis to load: its zero time moved off zero by the dropped seconds
		if cond == "da_start_time" && timeShiftExplained && !back.GenesisDAStartTime.IsZero() {
			r.c.Report("C18/genesis/invalid-loaded/da_start_time-after-zone-offset-seconds-dropped", fmt.Sprintf("the zero time in a zone whose offset has seconds (%ds) is written with the offset cut to minutes: the file denotes the instant %v and LoadGenesis accepts it", s.off, back.GenesisDAStartTime.UTC()))
		} else {
			r.c.Report("C18/genesis/invalid-loaded/"+cond, fmt.Sprintf("LoadGenesis accepts a genesis file with invalid %s", cond))
		}
	}
	if back.ChainID != g.ChainID {
		if !utf8.ValidString(g.ChainID) && back.ChainID == replaceInvalidUTF8(g.ChainID) {
			r.c.Report("C18/genesis/roundtrip/chain-id-invalid-utf8-replaced", fmt.Sprintf("a chain id that is not valid UTF-8 comes back with U+FFFD in place of every offending byte: %q -> %q", g.ChainID, back.ChainID))
		} else {
			r.c.Report("C18/genesis/roundtrip/other-field-differs/chain_id", fmt.Sprintf("%q -> %q (not the U+FFFD replacement %q)", g.ChainID, back.ChainID, replaceInvalidUTF8(g.ChainID)))
		}
	}
	if back.InitialHeight != g.InitialHeight {
		r.c.Report("C18/genesis/roundtrip/other-field-differs/initial_height", fmt.Sprintf("%d -> %d", g.InitialHeight, back.InitialHeight))
	}
	if !timeSame {
		if timeShiftExplained {
			r.c.Report("C18/genesis/roundtrip/zone-offset-seconds-dropped", fmt.Sprintf("a time in a zone whose offset has seconds (%ds) is written with the offset cut to minutes and the wall clock kept: the instant shifts by exactly the %d dropped seconds: %v -> %v", s.off, dropped, g.GenesisDAStartTime, back.GenesisDAStartTime))
		} else {
			r.c.Report("C18/genesis/roundtrip/other-field-differs/da_start_time", fmt.Sprintf("%v (offset %ds) -> %v (offset %ds); the dropped zone seconds (%d) would explain %v (offset %ds)", g.GenesisDAStartTime, s.off, back.GenesisDAStartTime, boff, dropped, shifted, cut))
		}
	}
	if !bytes.Equal(back.ProposerAddress, g.ProposerAddress) || (back.ProposerAddress == nil) != (g.ProposerAddress == nil) {
		r.c.Report("C18/genesis/roundtrip/other-field-differs/proposer_address", fmt.Sprintf("%x (nil=%v) -> %x (nil=%v)", g.ProposerAddress, g.ProposerAddress == nil, back.ProposerAddress, back.ProposerAddress == nil))
	}
	bt := back.GenesisDAStartTime
	pas := "nil"
	if back.ProposerAddress != nil {
		pas = hx.Hex(back.ProposerAddress)
	}
	return fmt.Sprintf("ok cid=%s ih=%d t=%d.%d offs=%d pa=%s", hexS(back.ChainID), back.InitialHeight, bt.Unix(), bt.Nanosecond(), boff, pas)
}

// slotName: "" = a fresh path for this op only; ok=false = malformed
func slotName(o hx.Op) (string, bool) {
	if !o.Has("at") {
		return "", true
	}
	n, ok := o.U64("at")
	return strconv.FormatUint(n, 10), ok
}

// doGenesis: Validate, Save to a path (a fresh one, or the scenario's path `at=<n>`, which may
// already hold an earlier - longer or shorter - genesis file), LoadGenesis.
func (r *runner) doGenesis(o hx.Op) {
	cid, err1 := hx.UnHex(o.Str("cid"))
	ih, okIH := o.U64("ih")
	off, err2 := strconv.ParseInt(o.Str("off"), 10, 64)
	var t time.Time
	okT := true
	if ts := o.Str("t"); ts == "zero" {
		t = time.Time{}
	} else {
		p := strings.Split(ts, ".")
		if len(p) != 2 {
			okT = false
		} else {
			s, e1 := strconv.ParseInt(p[0], 10, 64)
			n, e2 := strconv.ParseUint(p[1], 10, 64)
			okT = e1 == nil && e2 == nil
			t = time.Unix(s, int64(n))
		}
	}
	var pa []byte
	okPA := true
	if ps := o.Str("pa"); ps == "nil" {
		pa = nil
	} else if ps == "-" {
		pa = []byte{}
	} else {
		b, e := hex.DecodeString(ps)
		okPA, pa = e == nil && o.Has("pa"), b
	}
	at, okAt := slotName(o)
	offs, okOffs := int64(0), true // extra SECONDS of zone offset
	if o.Has("offs") {
		v, e := strconv.ParseInt(o.Str("offs"), 10, 64)
		offs, okOffs = v, e == nil
	}
	if err1 != nil || !o.Has("cid") || !okIH || err2 != nil || !okT || !okPA || !okAt || !okOffs {
		r.c.Emit("bad-op")
		return
	}
	offSec := int(off)*60 + int(offs)
	t = t.In(time.FixedZone("op", offSec))
	g := genesis.NewGenesis(string(cid), ih, t, pa)
	cond := invalidCond(string(cid), ih, t, pa)
	val := "ok"
	if err := g.Validate(); err != nil {
		val = "err:" + genesisErrClass(err)
		if cond == "" {
			r.c.Report("C18/genesis/validate-refuses-valid", err.Error())
		}
	} else if cond != "" {
		r.c.Report("C18/genesis/validate-accepts-invalid/"+cond, fmt.Sprintf("Validate accepts %+v", g))
	}
	var s *gslot
	if at == "" {
		home := r.home()
		defer os.RemoveAll(home)
		path := genesis.GenesisPath(home)
		_ = os.MkdirAll(filepath.Dir(path), 0o755)
		s = &gslot{path: path}
	} else {
		s = r.slot(at)
	}
	ld, file := "", "-"
	if err := g.Save(s.path); err != nil {
		// encoding/json refuses what RFC 3339 cannot print: an honest refusal, nothing is written
		switch {
		case strings.Contains(err.Error(), "year outside of range"):
			file = "err:year"
			r.c.Hit("genesis:save-refused:year")
		case strings.Contains(err.Error(), "timezone hour outside of range"):
			file = "err:zonehour"
			r.c.Hit("genesis:save-refused:zonehour")
		default:
			file = "err:other"
			r.c.Report("C18/genesis/save-error", err.Error())
		}
		ld = "err:save"
	} else {
		if raw, e := os.ReadFile(s.path); e == nil {
			file = hx.Hex(raw)
		}
		s.saved, s.g, s.cond, s.off, s.raw = true, g, cond, offSec, nil
		s.writes++
		if st, e := os.Stat(s.path); e == nil && st.Size() > s.maxLen {
			s.maxLen = st.Size()
		}
		if s.writes > 1 {
			r.c.Hit("genesis:overwrite")
		}
		ld = r.loadBack(s, false)
	}
	r.c.Hit("genesis:" + val)
	r.c.Emit("val=%s file=%s load=%s", val, file, ld)
}

// loadRaw: LoadGenesis on a path that holds the bytes `raw` (written by the harness, not by Save).
// Oracle (independent of the model): the file is a genesis document exactly when it is ONE JSON value
// (json.Valid: white space around it is fine, anything else after it is not) that decodes into a
// genesis Validate accepts; only then may it load, and then as what it says.
func (r *runner) loadRaw(path string, raw []byte) string {
	var want genesis.Genesis
	wantOK := json.Valid(raw) && json.Unmarshal(raw, &want) == nil && want.Validate() == nil
	back, err := genesis.LoadGenesis(path)
	if err != nil {
		cl := genesisErrClass(err)
		if wantOK {
			r.c.Report("C18/genesis/valid-file-refused", fmt.Sprintf("a file holding exactly one valid genesis document (%d bytes) is refused: %v", len(raw), err))
		}
		r.c.Hit("gfile:refused:" + cl)
		return "err:" + cl
	}
	if !wantOK {
		// which kind of invalid file was accepted?
		var first genesis.Genesis
		dec := json.NewDecoder(bytes.NewReader(raw))
		switch {
		case !json.Valid(raw) && dec.Decode(&first) == nil:
			rest := raw[dec.InputOffset():]
			r.c.Report("C18/genesis/invalid-loaded/trailing-content", fmt.Sprintf("LoadGenesis accepts a file that holds a genesis object followed by %d more bytes (%q): not a JSON document, the content after the first object is silently ignored (loaded chain_id %q, initial_height %d)", len(rest), truncate(string(rest), 60), back.ChainID, back.InitialHeight))
		case !json.Valid(raw):
			r.c.Report("C18/genesis/invalid-loaded/not-json", fmt.Sprintf("LoadGenesis accepts a file that is not JSON (%d bytes)", len(raw)))
		default:
			r.c.Report("C18/genesis/invalid-loaded/file", "LoadGenesis accepts a file whose document is not a valid genesis")
		}
	} else {
		_, boff := back.GenesisDAStartTime.Zone()
		_, woff := want.GenesisDAStartTime.Zone()
		if back.ChainID != want.ChainID || back.InitialHeight != want.InitialHeight || !back.GenesisDAStartTime.Equal(want.GenesisDAStartTime) || boff != woff || !bytes.Equal(back.ProposerAddress, want.ProposerAddress) {
			r.c.Report("C18/genesis/file-load-differs", fmt.Sprintf("the file says %+v, LoadGenesis returns %+v", want, back))
		}
	}
	r.c.Hit("gfile:loaded")
	bt := back.GenesisDAStartTime
	_, boff := bt.Zone()
	pas := "nil"
	if back.ProposerAddress != nil {
		pas = hx.Hex(back.ProposerAddress)
	}
	return fmt.Sprintf("ok cid=%s ih=%d t=%d.%d offs=%d pa=%s", hexS(back.ChainID), back.InitialHeight, bt.Unix(), bt.Nanosecond(), boff, pas)
}

// replaceInvalidUTF8: every byte that is not part of a valid UTF-8 sequence becomes U+FFFD (one per
// byte - what encoding/json writes; strings.ToValidUTF8 would merge runs)
func replaceInvalidUTF8(s string) string {
	var b strings.Builder
	for i := 0; i < len(s); {
		c, size := utf8.DecodeRuneInString(s[i:])
		if c == utf8.RuneError && size == 1 {
			b.WriteString("\uFFFD")
			i++
			continue
		}
		b.WriteString(s[i : i+size])
		i += size
	}
	return b.String()
}

func truncate(s string, n int) string {
	if len(s) > n {
		return s[:n] + "…"
	}
	return s
}

// doGFile: arbitrary bytes at a genesis path (a fresh one, or the scenario's path `at=<n>`), then LoadGenesis.
func (r *runner) doGFile(o hx.Op) {
	raw, err := hx.UnHex(o.Str("hex"))
	at, okAt := slotName(o)
	if err != nil || !o.Has("hex") || !okAt {
		r.c.Emit("bad-op")
		return
	}
	if raw == nil {
		raw = []byte{}
	}
	var s *gslot
	if at == "" {
		home := r.home()
		defer os.RemoveAll(home)
		path := genesis.GenesisPath(home)
		_ = os.MkdirAll(filepath.Dir(path), 0o755)
		s = &gslot{path: path}
	} else {
		s = r.slot(at)
	}
	if err := os.WriteFile(s.path, raw, 0o600); err != nil {
		r.c.Emit("err:harness")
		return
	}
	s.saved, s.raw = true, raw
	s.writes++
	r.c.Emit("load=%s", r.loadRaw(s.path, raw))
}

// doGLoad: load what the scenario's path `at=<n>` holds now (nothing was ever saved there: refused).
func (r *runner) doGLoad(o hx.Op) {
	at, ok := slotName(o)
	if !ok || at == "" {
		r.c.Emit("bad-op")
		return
	}
	s := r.slot(at)
	if !s.saved {
		if _, err := genesis.LoadGenesis(s.path); err == nil {
			r.c.Report("C18/genesis/missing-file-loaded", "LoadGenesis returns a genesis for a path where no file exists")
			r.c.Emit("load=ok")
		} else {
			r.c.Emit("load=err:%s", genesisErrClass(err))
		}
		r.c.Hit("gload:nofile")
		return
	}
	r.c.Hit("gload")
	if s.raw != nil {
		r.c.Emit("load=%s", r.loadRaw(s.path, s.raw))
		return
	}
	r.c.Emit("load=%s", r.loadBack(s, true))
}

func Run(c *hx.Ctx) {
	r := newRunner(c)
	defer os.RemoveAll(r.work)
	for {
		o, ok := c.Next()
		if !ok {
			return
		}
		func() {
			defer func() {
				if p := recover(); p != nil {
					c.Report("C18/panic/"+o.Verb, fmt.Sprint(p))
					c.Emit("err:panic")
				}
			}()
			switch o.Verb {
			case "reset":
				RestoreDefaults()
				r.dropSlots()
				c.Emit("ok")
			case "load":
				r.doLoad(o, false)
			case "loadfromviper":
				r.doLoad(o, true)
			case "loadx":
				r.doLoadX(o)
			case "flagreach":
				r.doFlagReach(o)
			case "saveprobe":
				r.doSaveProbe(o)
			case "save", "savex": // savex: old name for saves of values the YAML pair does not preserve
				r.doSave(o)
			case "genesis":
				r.doGenesis(o)
			case "gload":
				r.doGLoad(o)
			case "gfile":
				r.doGFile(o)
			default:
				c.Emit("bad-op")
			}
		}()
	}
}

func init() {
	hx.Register("C18", hx.Stream{Gen: func(r *hx.Rng, tier string, w io.Writer) { Gen(r, tier, w) }, Run: Run})
}
