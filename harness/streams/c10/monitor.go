package c10

import (
	"bytes"
	"fmt"
	"strings"

	"verifharness/hx"
)

// The monitor is the property's oracle written directly against what a client of the real code can
// observe (answers of SubmitBatchTxs / GetNextBatch, and what a freshly restarted sequencer on a
// copy of the durable image hands out).  It knows nothing about the Lean model and nothing about
// the datastore layout; Batch.Hash() is used only to *classify the cause* of an order violation.
//
// "Handed out" means RETURNED TO THE CALLER.  A GetNextBatch that dies after its durable Delete and before it
// returns (crash-next at=1) has handed out nothing: the batch stays "accepted, not yet handed out" for the oracle,
// and the restart that follows must still deliver it.
//
// Cause classification: a known-finding signature is given only when the observed loss / reordering is EXACTLY what
// that defect predicts (explain()); every other loss / reordering gets the generic signature of its clause
// (…/accepted-batch-lost, …/order-changed-by-restart, …/out-of-order), so a known finding cannot hide another one.
//
// Oracle (properties.jsonl C10):
//   FIFO/exactly once : every batch handed out is the oldest accepted batch not yet handed out
//   durable           : at every crash point a restarted sequencer hands out exactly the accepted,
//                       not yet handed out batches, in acceptance order
//   reject            : a submission answered with an error (foreign id, full) or an empty submission
//                       performs no durable write and is never handed out
//   bound             : an ADMISSION bound: no submission is accepted while max batches are pending (max > 0, the bound
//                       the running process was started with).  A node restarted with a smaller bound than the number
//                       of pending batches must still hand all of them out ("survive a restart" wins over the bound).
//
// Datastore errors (fail put= del=) are outside the property's quantifier ("crash between any two durable writes").
// A failing Put is harmless and fully monitored (refused, nothing written, never handed out).  After a failing Delete
// the record of a handed-out batch stays: the crash-point probes are suspended for the rest of the scenario and the
// monitor stops at the next restart (the in-lifetime FIFO / exactly-once checks go on).

const (
	// known findings (known-findings.json)
	sigDupLost     = "C10/durable/duplicate-content-lost-on-restart"
	sigKeyOrder    = "C10/fifo/restart-delivers-in-key-order"
	sigCrashWindow = "C10/durable/batch-lost-in-crash-after-delete-before-return"
)

// not a known finding: the cause-specific signature of a loss among re-split batches (see resplitSibling)
const sigSharedKey = "C10/exactly-once/lost-after-restart/distinct-batches-share-a-key"

// resplitOf: two DIFFERENT batches with the same number of transactions and the same concatenation of transaction bytes
func resplitOf(a, b [][]byte) bool {
	return a != nil && b != nil && len(a) == len(b) && content(a) != content(b) && bytes.Equal(bytes.Join(a, nil), bytes.Join(b, nil))
}

// resplitSibling: a pending batch with contents c was pending, in this process lifetime, together with a re-split of it
// (flag per pending entry, set at acceptance, cleared by a reload - like dup)
func resplitSibling(c string, pending []pend) bool {
	for _, p := range pending {
		if p.c == c && p.resplit {
			return true
		}
	}
	return false
}

type pend struct {
	txs     [][]byte
	c       string // canonical content
	dup     bool   // since it was accepted (or last reloaded) another batch with the same contents was pending at the same time
	resplit bool   // … a DIFFERENT batch with the same count and the same concatenated bytes was pending at the same time
}

type monitor struct {
	c *hx.Ctx
	w *world

	pending   []pend          // accepted, not yet handed out, acceptance order
	delivered map[string]int  // content -> times handed out
	rejected  map[string]bool // contents of submissions that were refused / skipped / died before their write
	// rec[c]: the most recent queue event for contents c was an acceptance (true) or a removal (false).  Used ONLY
	// by explain(): batches with equal contents share one write-ahead record, which the last such event wrote / deleted.
	rec map[string]bool
	// the contents a GetNextBatch removed from the queue when the process died before it returned (crash-next at=1);
	// consumed by the restart that follows
	crashRemoved    string
	crashRemovedSet bool
	restarts        int
	forgotten       map[string]int // contents reported lost at a restart (and forgotten): must never turn up again
	stale           bool           // a Delete failed: the datastore holds the record of a handed-out batch (outside the quantifier)
	off             bool           // monitoring suspended (an empty batch was put into a bare queue: not distinguishable from "no batch")

	lastWrites int // number of atomic writes already probed
	prevPend   []string
}

func newMonitor(c *hx.Ctx, w *world) *monitor {
	return &monitor{c: c, w: w, delivered: map[string]int{}, rejected: map[string]bool{}, rec: map[string]bool{}, forgotten: map[string]int{}}
}

func content(txs [][]byte) string { return hx.HexList(txs) }

func (m *monitor) pendingContents() []string {
	out := make([]string, len(m.pending))
	for i, p := range m.pending {
		out[i] = p.c
	}
	return out
}

func (m *monitor) isPending(c string) bool {
	for _, p := range m.pending {
		if p.c == c {
			return true
		}
	}
	return false
}

func (m *monitor) onSubmit(id []byte, txs [][]byte, out string, before map[string][]byte, nBefore int) {
	if m.off {
		return
	}
	w := m.w
	c := content(txs)
	wrote := w.ds.NumWrites() != nBefore || !sameImage(before, w.ds.Image())
	foreign := w.mode == "seq" && !bytes.Equal(id, w.id)
	switch out {
	case "ok":
		if len(txs) == 0 {
			if w.mode == "queue" {
				m.off = true
				m.c.Hit("monitor-off:empty-batch-in-bare-queue")
				return
			}
			m.c.Report("C10/reject/empty-batch-stored", "an empty submission was written to the datastore")
			return
		}
		if foreign {
			m.c.Report("C10/admission/foreign-id-accepted", "a submission for a foreign chain id was accepted")
		}
		if w.max > 0 && len(m.pending) >= w.max {
			m.c.Report("C10/bound/exceeded", fmt.Sprintf("accepted a batch while %d batches were pending (max %d)", len(m.pending), w.max))
		}
		dup := false
		for i := range m.pending {
			if m.pending[i].c == c {
				m.pending[i].dup, dup = true, true
			}
		}
		if dup {
			m.c.Hit("dup-content-pending")
		}
		rs := false
		for i := range m.pending {
			if resplitOf(m.pending[i].txs, txs) {
				m.pending[i].resplit, rs = true, true
			}
		}
		if rs {
			m.c.Hit("resplit-pending")
		}
		m.pending = append(m.pending, pend{txs: txs, c: c, dup: dup, resplit: rs})
		m.rec[c] = true
		delete(m.rejected, c)
	case "skip-empty", "err:id", "err:full", "err:store", "err:ctx", "err:other":
		cls := strings.TrimPrefix(out, "err:")
		if wrote {
			m.c.Report("C10/reject/"+cls+"-wrote-to-datastore", "a submission answered "+out+" changed the datastore")
		}
		if out == "err:other" {
			m.c.Report("C10/admission/unexpected-error", "a submission failed with an unclassified error")
		}
		if len(txs) > 0 && !m.isPending(c) && m.delivered[c] == 0 {
			m.rejected[c] = true
		}
	}
}

// onLostSubmit: the process died before the submission's write became durable.
func (m *monitor) onLostSubmit(txs [][]byte) {
	c := content(txs)
	if len(txs) > 0 && !m.isPending(c) && m.delivered[c] == 0 {
		m.rejected[c] = true
	}
}

func (m *monitor) onNext(id []byte, txs [][]byte, out string, before map[string][]byte, nBefore int) {
	if m.off {
		return
	}
	w := m.w
	if w.mode == "seq" && !bytes.Equal(id, w.id) {
		if out != "err:id" {
			m.c.Report("C10/admission/foreign-id-served", "GetNextBatch for a foreign chain id answered "+out)
		}
		if txs == nil {
			if w.ds.NumWrites() != nBefore {
				m.c.Report("C10/reject/id-wrote-to-datastore", "a refused GetNextBatch changed the datastore")
			}
			return
		}
	}
	if txs == nil && strings.HasPrefix(out, "err:") && out != "err:id" && w.ds.NumWrites() != nBefore && !m.stale {
		// the call answered with an error AFTER it had changed the durable queue: whatever it took out is with nobody
		if got, ok := m.probe(w.ds.Image(), m.w.max); ok {
			lost, _ := m.judge(got, m.pending, false, "", m.w.max)
			for _, c := range hx.SortedKeys(lost) {
				for n := lost[c]; n > 0; n-- {
					m.c.Report("C10/durable/batch-lost-in-call-that-returned-an-error", "GetNextBatch answered "+out+" after it had popped a batch and deleted its write-ahead record: the batch is neither handed out nor in the queue, and a restart does not bring it back")
					for i, p := range m.pending {
						if p.c == c {
							m.pending = append(m.pending[:i:i], m.pending[i+1:]...)
							break
						}
					}
					m.forgotten[c]++
				}
			}
		}
		return
	}
	if txs == nil {
		if out == "empty" && len(m.pending) > 0 {
			// inside one process lifetime neither known finding explains this
			for range m.pending {
				m.c.Report("C10/durable/accepted-batch-lost", "nothing is handed out although an accepted batch was never handed out")
			}
			m.pending = nil
		}
		return
	}
	c := content(txs)
	idx := -1
	for i, p := range m.pending {
		if p.c == c {
			idx = i
			break
		}
	}
	switch {
	case idx == 0:
	case idx > 0:
		// the order a restart produced was judged (and adopted) at the restart; a deviation here is never explained by it
		m.c.Report("C10/fifo/out-of-order", fmt.Sprintf("handed out the batch %d places behind the oldest pending one (restarts so far: %d)", idx, m.restarts))
	default:
		switch {
		case m.delivered[c] > 0 && m.restarts > 0:
			m.c.Report("C10/exactly-once/handed-out-again-after-restart", "a batch that had been handed out was handed out again after a restart")
		case m.delivered[c] > 0:
			m.c.Report("C10/exactly-once/handed-out-twice", "a batch was handed out twice")
		case m.rejected[c]:
			m.c.Report("C10/reject/refused-batch-handed-out", "a batch whose submission was refused was handed out")
		case m.forgotten[c] > 0:
			m.c.Report("C10/durable/lost-batch-resurfaces-late", "a batch that an earlier restart did not bring back is handed out after a later restart, behind batches accepted after it")
		default:
			m.c.Report("C10/fifo/phantom-batch", "a batch that was never accepted was handed out")
		}
	}
	if idx >= 0 {
		m.pending = append(m.pending[:idx:idx], m.pending[idx+1:]...)
	}
	m.delivered[c]++
	m.rec[c] = false
}

// onCrashedNext: the process died during GetNextBatch after the call's writes became durable and before the call
// returned.  Nothing was handed out.  What the dying call had taken out of the queue is remembered for the cause
// classification at the restart that follows.
func (m *monitor) onCrashedNext(id []byte, txs [][]byte, out string, nBefore int, deleted bool) {
	if m.off {
		return
	}
	w := m.w
	if w.mode == "seq" && !bytes.Equal(id, w.id) {
		if out != "err:id" {
			m.c.Report("C10/admission/foreign-id-served", "GetNextBatch for a foreign chain id answered "+out)
		}
		if txs == nil {
			if w.ds.NumWrites() != nBefore {
				m.c.Report("C10/reject/id-wrote-to-datastore", "a refused GetNextBatch changed the datastore")
			}
			return
		}
	}
	if txs == nil || !deleted {
		return // nothing was taken out of the durable queue
	}
	m.crashRemoved, m.crashRemovedSet = content(txs), true
}

// onFailedDelete: an injected Delete fault was consumed by the last GetNextBatch.
func (m *monitor) onFailedDelete() {
	if !m.stale {
		m.c.Hit("monitor:probes-suspended-after-failed-delete")
	}
	m.stale = true
}

// explain answers whether the loss of want-have batches with contents c at a restart is exactly what the known
// defects predict, and how many of the lost copies go to which defect:
//   - crash window: the dying GetNextBatch had popped the OLDEST pending batch, its contents are c, and its Delete
//     was durable: that copy is gone (1 copy);
//   - shared key: some pending batch with contents c was pending together with an equal one (dup): all of them share
//     one write-ahead record, present iff the most recent event for c was an acceptance: 1 or 0 copies come back.
func (m *monitor) explain(c string, pending []pend, want, have int, crashHead string) (crash, dup int, ok bool) {
	w, rec := want, m.rec[c]
	if crashHead != "" && crashHead == c && w > 0 {
		w, crash, rec = w-1, 1, false
	}
	tainted := false
	for _, p := range pending {
		if p.c == c && p.dup {
			tainted = true
		}
	}
	pred := w
	if tainted && w > 0 {
		pred = 0
		if rec {
			pred = 1
		}
	}
	if have != pred {
		return 0, 0, false
	}
	return crash, w - pred, true
}

// probe restarts a sequencer on a copy of `img` and returns everything it hands out.
func (m *monitor) probe(img map[string][]byte, max int) ([][][]byte, bool) {
	cp := make(map[string][]byte, len(img))
	for k, v := range img {
		cp[k] = append([]byte(nil), v...)
	}
	p, err := m.w.clone(cp, max)
	if err != nil {
		m.c.Report("C10/start/"+classify(err), "a sequencer does not start on the durable image: "+err.Error())
		return nil, false
	}
	var got [][][]byte
	for i := 0; i < 1<<20; i++ {
		txs, _ := p.next(m.w.id)
		if txs == nil {
			break
		}
		got = append(got, txs)
	}
	return got, true
}

// judge compares what a restart on a durable image hands out with the pending batches.
// It returns the contents that did not survive.  With report=false it only answers whether the image is consistent.
// crashHead: contents of the oldest pending batch if the process died in a GetNextBatch that had removed it ("" otherwise).
// max: the bound the restarted sequencer was given.
func (m *monitor) judge(got [][][]byte, pending []pend, report bool, crashHead string, max int) (lost map[string]int, okAll bool) {
	okAll = true
	want := map[string]int{}
	for _, p := range pending {
		want[p.c]++
	}
	have := map[string]int{}
	for _, g := range got {
		have[content(g)]++
	}
	lost = map[string]int{}
	for _, c := range hx.SortedKeys(want) {
		if have[c] < want[c] {
			okAll = false
			lost[c] = want[c] - have[c]
			if report {
				crash, dup, ok := m.explain(c, pending, want[c], have[c], crashHead)
				switch {
				case !ok && resplitSibling(c, pending):
					// not a duplicate: a DIFFERENT batch with the same number of transactions and the same concatenated
					// bytes (other boundaries) is pending at the same time - the two are told apart by nothing but the
					// per-transaction length fields of the key's hash input
					m.c.Report(sigSharedKey, "two DIFFERENT accepted batches with the same number of transactions and the same concatenated bytes but different transaction boundaries were pending at the same time, and one of them does not survive a restart: they share one write-ahead record")
				case !ok:
					m.c.Report("C10/durable/accepted-batch-lost", "an accepted batch that was not yet handed out does not survive a restart")
				default:
					if crash > 0 {
						m.c.Report(sigCrashWindow, "GetNextBatch deletes the write-ahead record before it returns: the process died after the Delete was durable and before the caller had the batch; the restarted sequencer does not hand it out - it is neither on disk nor with the caller")
						m.c.Hit("crash-window-loss")
					}
					if dup > 0 {
						m.c.Report(sigDupLost, "two accepted batches with identical contents share one datastore key; an accepted batch that was not yet handed out does not survive a restart")
					}
				}
			}
		}
	}
	for _, c := range hx.SortedKeys(have) {
		if have[c] > want[c] {
			okAll = false
			if !report {
				continue
			}
			switch {
			case m.delivered[c] > 0:
				m.c.Report("C10/exactly-once/handed-out-again-after-restart", "a batch that had been handed out is handed out again by a restarted sequencer")
			case m.rejected[c]:
				m.c.Report("C10/reject/refused-batch-handed-out", "a batch whose submission was refused is handed out by a restarted sequencer")
			case m.forgotten[c] > 0:
				m.c.Report("C10/durable/lost-batch-resurfaces-late", "a batch that an earlier restart did not bring back is handed out by a later restart, behind batches accepted after it")
			default:
				m.c.Report("C10/fifo/phantom-batch", "a restarted sequencer hands out a batch that was never accepted")
			}
		}
	}
	// order of the batches present on both sides
	var a, b []string
	var bt [][][]byte
	left := map[string]int{}
	for c, n := range want {
		left[c] = min(n, have[c])
	}
	l2 := map[string]int{}
	for c, n := range left {
		l2[c] = n
	}
	for _, p := range pending {
		if left[p.c] > 0 {
			left[p.c]--
			a = append(a, p.c)
		}
	}
	for _, g := range got {
		c := content(g)
		if l2[c] > 0 {
			l2[c]--
			b = append(b, c)
			bt = append(bt, g)
		}
	}
	if strings.Join(a, ";") != strings.Join(b, ";") {
		okAll = false
		if report {
			// explained by the key order iff what the restarted sequencer hands out is exactly ascending in Batch.Hash
			asc := true
			for i := 0; i+1 < len(bt); i++ {
				if hashHex(bt[i]) >= hashHex(bt[i+1]) {
					asc = false
				}
			}
			if asc {
				m.c.Report(sigKeyOrder, "a restarted sequencer hands the pending batches out in the order of their content hashes, not in the order they were accepted")
			} else {
				m.c.Report("C10/fifo/order-changed-by-restart", "a restarted sequencer hands the pending batches out in another order than they were accepted")
			}
		}
	}
	// admission bound: what was pending must come back even above a smaller new bound; anything beyond that is too much
	if max > 0 && len(got) > max && len(got) > len(pending) {
		okAll = false
		if report {
			m.c.Report("C10/bound/exceeded-after-restart", fmt.Sprintf("a restarted sequencer holds %d batches (max %d, %d were pending)", len(got), max, len(pending)))
		}
	}
	return
}

// beforeRestart: the process is about to be restarted on `img`.  What does not survive is reported
// and forgotten (it can never be handed out any more); the survivors are from now on expected in the order the
// restarted sequencer holds them (any change of order was judged here).
func (m *monitor) beforeRestart(img map[string][]byte) {
	crashHead := ""
	if m.crashRemovedSet && len(m.pending) > 0 && m.pending[0].c == m.crashRemoved {
		crashHead = m.crashRemoved
	}
	m.crashRemoved, m.crashRemovedSet = "", false
	if m.off {
		return
	}
	if m.stale {
		// a Delete failed earlier: what a restart does with the stale record is outside the property's quantifier
		m.off = true
		m.c.Hit("monitor-off:restart-after-failed-delete")
		return
	}
	m.restarts++
	got, ok := m.probe(img, m.w.max)
	if !ok {
		return
	}
	lost, _ := m.judge(got, m.pending, true, crashHead, m.w.max)
	for c, n := range lost {
		m.forgotten[c] += n
	}
	left := map[string]int{}
	for _, p := range m.pending {
		left[p.c]++
	}
	var keep []pend
	m.rec = map[string]bool{}
	for _, g := range got {
		c := content(g)
		if left[c] > 0 {
			left[c]--
			keep = append(keep, pend{txs: g, c: c})
			m.rec[c] = true
		}
	}
	m.pending = keep
	m.sync()
}

func (m *monitor) sync() {
	m.lastWrites = m.w.ds.NumWrites()
	m.prevPend = m.pendingContents()
}

// afterOp: every durable image that came into being during the last operation is a crash point:
// the last one must restart into exactly the pending batches; an intermediate one (an operation
// that performs several atomic writes) into the pending batches before or after the operation.
func (m *monitor) afterOp() {
	if m.off || m.stale {
		return
	}
	ds := m.w.ds
	n := ds.NumWrites()
	if n < m.lastWrites { // restarted on a fresh datastore
		m.lastWrites = 0
	}
	for k := m.lastWrites + 1; k < n; k++ {
		got, ok := m.probe(ds.ImageAt(k), m.w.max)
		if !ok {
			continue
		}
		var before []pend
		for _, c := range m.prevPend {
			before = append(before, pend{c: c})
		}
		_, okBefore := m.judge(got, before, false, "", m.w.max)
		_, okAfter := m.judge(got, m.pending, false, "", m.w.max)
		if !okBefore && !okAfter {
			m.judge(got, m.pending, true, "", m.w.max)
			m.c.Report("C10/crash/intermediate-image-inconsistent", "the durable image between two writes of one operation restarts into neither the state before nor after the operation")
		}
		m.c.Hit("probe:intermediate")
	}
	if got, ok := m.probe(ds.Image(), m.w.max); ok {
		m.judge(got, m.pending, true, "", m.w.max)
		m.c.Hit("probe:boundary")
	}
	// the same crash point, the node restarted with a SMALLER bound than the number of pending batches:
	// everything pending must still come back (the bound is an admission bound)
	if n := len(m.pending); n >= 2 {
		small := n - 1
		if got, ok := m.probe(ds.Image(), small); ok {
			m.judge(got, m.pending, true, "", small)
			m.c.Hit("probe:boundary-smaller-bound")
		}
	}
	m.sync()
}
