package c10

import (
	"context"
	"fmt"
	"os"
	"sort"
	"strings"
	"sync"
	"sync/atomic"
	"time"

	"github.com/anishathalye/porcupine"
	ds "github.com/ipfs/go-datastore"
	badger4 "github.com/ipfs/go-ds-badger4"

	"verifharness/hx"

	coresequencer "github.com/evstack/ev-node/core/sequencer"
	"github.com/evstack/ev-node/sequencers/single"
)

// Concurrency (both tiers) and supporting exploration (thorough tier). Both ops are self-contained: they build their own
// sequencer, never touch the scenario's queue, and print "ok" (the model prints "ok", too).
//
//   conc seed= writers= per= readers= max= dup=   concurrent submitters/consumers on the real Sequencer (dup=1: the
//        writers submit batches with EQUAL contents, among themselves and with each other); the
//        recorded history (invoke/return of SubmitBatchTxs / GetNextBatch) is checked for
//        linearisability against the abstract bounded FIFO with porcupine.  This supports the
//        assumption under the theorems (the mutex makes the operations atomic).
//   badger seed= n=   one sequential history on the real badger datastore (closed and reopened at
//        every restart) and on hx.LogDS: the answers must be identical.  This supports the datastore
//        double (atomic writes, key-ordered iteration).

type concIn struct {
	submit bool
	c      string // content (submit)
}
type concOut struct {
	res string // "ok" | "full" | "empty" | content (next)
}

func fifoModel(max int) porcupine.Model {
	return porcupine.Model{
		Init: func() interface{} { return "" },
		Step: func(state, input, output interface{}) (bool, interface{}) {
			st := state.(string)
			var q []string
			if st != "" {
				q = strings.Split(st, ";")
			}
			in, out := input.(concIn), output.(concOut)
			if in.submit {
				if max > 0 && len(q) >= max {
					return out.res == "full", st
				}
				if out.res != "ok" {
					return false, st
				}
				return true, strings.Join(append(q, in.c), ";")
			}
			if len(q) == 0 {
				return out.res == "empty", st
			}
			return out.res == q[0], strings.Join(q[1:], ";")
		},
		DescribeOperation: func(input, output interface{}) string {
			in, out := input.(concIn), output.(concOut)
			if in.submit {
				return "submit(" + in.c + ")=" + out.res
			}
			return "next()=" + out.res
		},
	}
}

func (r *runner) conc(o hx.Op) {
	writers, per, readers, max := o.Int("writers"), o.Int("per"), o.Int("readers"), o.Int("max")
	dup := o.Int("dup") == 1
	if writers <= 0 || writers > 8 {
		writers = 3
	}
	if per <= 0 || per > 50 {
		per = 6
	}
	if readers <= 0 || readers > 4 {
		readers = 2
	}
	ctx := context.Background()
	id := []byte("conc")
	store := hx.NewLogDS(nil)
	s, err := single.NewSequencerWithQueueSize(ctx, logger, store, nil, id, time.Second, nil, true, max)
	if err != nil {
		r.c.Report("C10/start/"+classify(err), err.Error())
		return
	}
	var clock int64
	var mu sync.Mutex
	var hist []porcupine.Operation
	record := func(client int, in concIn, f func() string) {
		call := atomic.AddInt64(&clock, 1)
		res := f()
		ret := atomic.AddInt64(&clock, 1)
		mu.Lock()
		hist = append(hist, porcupine.Operation{ClientId: client, Input: in, Call: call, Output: concOut{res}, Return: ret})
		mu.Unlock()
	}
	var accepted, delivered []string
	var amu sync.Mutex
	var wg, rg sync.WaitGroup
	var done atomic.Bool
	for w := 0; w < writers; w++ {
		wg.Add(1)
		go func(w int) {
			defer wg.Done()
			for k := 0; k < per; k++ {
				txs := [][]byte{{byte(w), byte(k)}, []byte("conc")}
				if dup {
					txs = [][]byte{{byte(k % 2)}, []byte("conc")} // the same two contents again and again, from every writer
				}
				c := content(txs)
				record(w, concIn{submit: true, c: c}, func() string {
					_, err := s.SubmitBatchTxs(ctx, coresequencer.SubmitBatchTxsRequest{Id: id, Batch: &coresequencer.Batch{Transactions: txs}})
					switch classify(err) {
					case "ok":
						amu.Lock()
						accepted = append(accepted, c)
						amu.Unlock()
						return "ok"
					case "err:full":
						return "full"
					}
					return "error"
				})
			}
		}(w)
	}
	next := func() string {
		resp, err := s.GetNextBatch(ctx, coresequencer.GetNextBatchRequest{Id: id})
		if err != nil {
			return "error"
		}
		if resp.Batch == nil || len(resp.Batch.Transactions) == 0 {
			return "empty"
		}
		c := content(resp.Batch.Transactions)
		amu.Lock()
		delivered = append(delivered, c)
		amu.Unlock()
		return c
	}
	for rd := 0; rd < readers; rd++ {
		rg.Add(1)
		go func(rd int) {
			defer rg.Done()
			for i := 0; i < writers*per*4 && !done.Load(); i++ {
				record(writers+rd, concIn{}, next)
			}
		}(rd)
	}
	wg.Wait()
	done.Store(true)
	rg.Wait()
	for i := 0; i < writers*per+2; i++ { // drain what is left, sequentially
		var res string
		record(writers+readers, concIn{}, func() string { res = next(); return res })
		if res == "empty" || res == "error" {
			break
		}
	}
	switch porcupine.CheckOperationsTimeout(fifoModel(max), hist, 20*time.Second) {
	case porcupine.Illegal:
		r.c.Report("C10/concurrent/not-linearizable", fmt.Sprintf("a concurrent history of %d calls on the real sequencer is not linearisable w.r.t. the bounded FIFO", len(hist)))
	case porcupine.Unknown:
		r.c.Hit("conc:porcupine-timeout")
	default:
		r.c.Hit("conc:linearizable")
	}
	sort.Strings(accepted)
	sort.Strings(delivered)
	if strings.Join(accepted, ";") != strings.Join(delivered, ";") {
		r.c.Report("C10/concurrent/not-exactly-once", "after a concurrent phase and a drain the batches handed out are not exactly the accepted ones")
	}
	if img := store.Image(); len(img) != 0 {
		r.c.Report("C10/concurrent/datastore-not-empty-after-drain", fmt.Sprintf("%d entries left", len(img)))
	}
	r.c.Hit(fmt.Sprintf("conc:calls=%d", len(hist)/20*20))
	if dup {
		r.c.Hit("conc:equal-contents")
	}
}

// badger: differential run LogDS vs real badger with close/reopen.
func (r *runner) badger(o hx.Op) {
	seed, _ := o.U64("seed")
	n := o.Int("n")
	if n <= 0 || n > 400 {
		n = 60
	}
	base := os.Getenv("VERIF_WORK")
	dir, err := os.MkdirTemp(base, "c10-badger-")
	if err != nil {
		r.c.Hit("badger:no-tempdir")
		return
	}
	defer os.RemoveAll(dir)
	ctx := context.Background()
	id := []byte("bdg")
	max := int(seed % 4)
	opts := badger4.DefaultOptions
	open := func() (ds.Batching, *single.Sequencer, error) {
		d, err := badger4.NewDatastore(dir, &opts)
		if err != nil {
			return nil, nil, err
		}
		s, err := single.NewSequencerWithQueueSize(ctx, logger, d, nil, id, time.Second, nil, true, max)
		return d, s, err
	}
	bd, bs, err := open()
	if err != nil {
		r.c.Hit("badger:open-failed")
		return
	}
	defer func() {
		if bd != nil {
			_ = bd.(*badger4.Datastore).Close()
		}
	}()
	lw := &world{mode: "seq", max: max, id: id}
	if err := lw.start(nil); err != nil {
		return
	}
	bw := &world{mode: "seq", max: max, id: id, seq: bs}
	rng := hx.NewRng(seed)
	var la, ba []string
	cnt := 0
	for i := 0; i < n; i++ {
		p := rng.Intn(100)
		switch {
		case p < 50:
			cnt++
			txs := [][]byte{{byte(cnt >> 8), byte(cnt)}, rng.Bytes(rng.Intn(3))}
			if rng.Chance(15) && cnt > 1 {
				txs = [][]byte{{0, 1}, {}} // repeat some contents
			}
			bw.ds = hx.NewLogDS(nil) // submit() reads NumWrites of a LogDS only; irrelevant on badger
			la = append(la, lw.submit(id, txs))
			ba = append(ba, bw.submit(id, txs))
		case p < 85:
			_, x := lw.next(id)
			_, y := bw.next(id)
			la, ba = append(la, x), append(ba, y)
		default:
			if err := lw.start(lw.ds.Image()); err != nil {
				return
			}
			_ = bd.(*badger4.Datastore).Close()
			bd, bs, err = open()
			if err != nil {
				r.c.Report("C10/start/badger-reopen", "the sequencer does not restart on the reopened badger datastore: "+err.Error())
				return
			}
			bw.seq = bs
			la, ba = append(la, "restart"), append(ba, "restart")
		}
	}
	for i := 0; i < n+2; i++ {
		_, x := lw.next(id)
		_, y := bw.next(id)
		la, ba = append(la, x), append(ba, y)
		if x == "empty" && y == "empty" {
			break
		}
	}
	if strings.Join(la, "\n") != strings.Join(ba, "\n") {
		k := 0
		for k < len(la) && la[k] == ba[k] {
			k++
		}
		r.c.Report("C10/double/badger-differs", fmt.Sprintf("the same history answers differently on real badger (with reopen) and on the logging datastore, first at call %d: %s vs %s", k, ba[k], la[k]))
	}
	r.c.Hit("badger:histories")
}
