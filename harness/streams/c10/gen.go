package c10

import (
	"fmt"
	"io"

	"verifharness/hx"
)

// Generator discipline: structured, mostly valid histories (distinct contents, one chain id, bounded
// queue) plus a malformed stream.  The three known findings are produced deliberately by dedicated
// scenario kinds (and by the fixed scenarios); the kinds "plain" and "sorted" avoid the first two,
// so that on those any report other than the crash-window loss (crash-next at=1) is new.

type gen struct {
	r    *hx.Rng
	w    io.Writer
	scen int
	cnt  int
}

var chainID = []byte("c10-chain")
var foreignID = []byte("other-chain")

func (g *gen) line(f string, a ...any) { fmt.Fprintf(g.w, f+"\n", a...) }

func (g *gen) reset(mode string, max int) {
	g.scen++
	g.cnt = 0
	if mode == "queue" {
		g.line("reset mode=queue max=%d", max)
	} else {
		g.line("reset mode=seq max=%d id=%s", max, hx.Hex(chainID))
	}
}

// fresh returns a batch whose contents differ from every other batch of the scenario.
func (g *gen) fresh() [][]byte {
	g.cnt++
	n := 1 + g.r.Intn(3)
	txs := make([][]byte, n)
	for i := range txs {
		switch {
		case i == 0:
			txs[i] = append([]byte{byte(g.cnt >> 8), byte(g.cnt)}, g.r.Bytes(g.r.Intn(4))...)
		case g.r.Chance(15):
			txs[i] = []byte{}
		default:
			txs[i] = g.r.Bytes(1 + g.r.Intn(5))
		}
	}
	return txs
}

// ctx: now and then a call is made with a dead context (already cancelled / deadline in the past)
func (g *gen) ctx() string {
	switch p := g.r.Intn(100); {
	case p < 8:
		return " ctx=cancelled"
	case p < 14:
		return " ctx=expired"
	case p < 16:
		return " ctx=live"
	}
	return ""
}
func (g *gen) submit(txs [][]byte) {
	g.line("submit id=%s txs=%s%s", hx.Hex(chainID), hx.HexList(txs), g.ctx())
}
func (g *gen) next()  { g.line("next id=%s%s", hx.Hex(chainID), g.ctx()) }
func (g *gen) drain() { g.line("drain id=%s", hx.Hex(chainID)) }

var maxima = []int{0, 1, 2, 3, 4, 6}

// plain: no restart, distinct contents; every admission branch.
func (g *gen) plain(nops int) {
	max := maxima[g.r.Intn(len(maxima))]
	g.reset("seq", max)
	for i := 0; i < nops; i++ {
		p := g.r.Intn(100)
		switch {
		case p < 50:
			g.submit(g.fresh())
		case p < 85:
			g.next()
		case p < 90:
			g.line("submit id=%s txs=%s", hx.Hex(foreignID), hx.HexList(g.fresh()))
		case p < 94:
			g.line("submit id=%s txs=-", hx.Hex(chainID))
		case p < 97:
			g.line("next id=%s", hx.Hex(foreignID))
		default:
			g.line("submit id=- txs=%s", hx.HexList(g.fresh()))
		}
	}
	g.drain()
}

// burst: a large backlog (up to the default bound of 1000), then a long drain one batch at a time, optionally with a
// restart in the middle: whatever the queue does to its memory while it shrinks, nothing is dropped or reordered.
func (g *gen) burst(n int, restart bool) {
	g.reset("seq", 0)
	var pool [][][]byte
	for i := 0; i < n; i++ {
		pool = append(pool, g.fresh())
	}
	if restart {
		sortByHash(pool) // reload order = arrival order
	}
	for _, b := range pool {
		g.submit(b)
	}
	for i := 0; i < n; i++ {
		if restart && i == n*3/4 {
			g.line("restart")
		}
		g.next()
	}
	g.next()
	g.drain()
}

// restarts: restarts and crashes at every position.  sorted=true submits a pool of batches in the
// order of their datastore keys, so that reload order = arrival order and FIFO must hold exactly.
func (g *gen) restarts(nops int, sorted bool) {
	max := maxima[g.r.Intn(len(maxima))]
	g.reset("seq", max)
	var pool [][][]byte
	if sorted {
		for i := 0; i < nops; i++ {
			pool = append(pool, g.fresh())
		}
		sortByHash(pool)
	}
	take := func() [][]byte {
		if sorted {
			b := pool[0]
			pool = pool[1:]
			return b
		}
		return g.fresh()
	}
	for i := 0; i < nops; i++ {
		p := g.r.Intn(100)
		switch {
		case p < 40:
			g.submit(take())
		case p < 62:
			g.next()
		case p < 74:
			g.line("restart")
		case p < 80:
			g.line("crash-submit at=%d id=%s txs=%s", g.r.Intn(2), hx.Hex(chainID), hx.HexList(take()))
		case p < 88:
			g.line("crash-next at=%d id=%s", g.r.Intn(2), hx.Hex(chainID))
		case p < 92:
			g.line("submit id=%s txs=%s", hx.Hex(foreignID), hx.HexList(g.fresh()))
		case p < 95:
			g.line("submit id=%s txs=-", hx.Hex(chainID))
		case p < 97:
			g.line("crash-submit at=%d id=%s txs=%s", g.r.Intn(2), hx.Hex(foreignID), hx.HexList(g.fresh()))
		default:
			g.line("crash-next at=%d id=%s", g.r.Intn(2), hx.Hex(foreignID))
		}
	}
	g.drain()
}

// single: at most one batch pending at any restart (order cannot matter), distinct contents.
func (g *gen) single(rounds int) {
	g.reset("seq", 1+g.r.Intn(2))
	for i := 0; i < rounds; i++ {
		b := g.fresh()
		if g.r.Chance(30) {
			g.line("crash-submit at=1 id=%s txs=%s", hx.Hex(chainID), hx.HexList(b))
		} else {
			g.submit(b)
		}
		if g.r.Chance(60) {
			g.line("restart")
		}
		if g.r.Chance(30) {
			g.line("crash-next at=0 id=%s", hx.Hex(chainID))
		}
		if g.r.Chance(80) {
			if g.r.Chance(25) {
				g.line("crash-next at=1 id=%s", hx.Hex(chainID))
			} else {
				g.next()
			}
		} else {
			g.drain()
		}
		if g.r.Chance(30) {
			g.line("restart")
			g.next()
		}
	}
	g.drain()
}

// dups: batches with identical contents (known finding a).
func (g *gen) dups(nops int) {
	g.reset("seq", []int{0, 3, 5}[g.r.Intn(3)])
	var seen [][][]byte
	for i := 0; i < nops; i++ {
		p := g.r.Intn(100)
		switch {
		case p < 30 || len(seen) == 0:
			b := g.fresh()
			seen = append(seen, b)
			g.submit(b)
		case p < 55:
			g.submit(seen[g.r.Intn(len(seen))])
		case p < 80:
			g.next()
		default:
			g.line("restart")
		}
	}
	g.drain()
}

// bound: run into the bound again and again, with restarts in between.
func (g *gen) bound(withRestart, sorted bool) {
	max := 1 + g.r.Intn(4)
	g.reset("seq", max)
	var pool [][][]byte
	for i := 0; i < 6*max+12; i++ {
		pool = append(pool, g.fresh())
	}
	if sorted {
		sortByHash(pool)
	}
	take := func() [][]byte { b := pool[0]; pool = pool[1:]; return b }
	for round := 0; round < 3; round++ {
		for i := 0; i < max+2; i++ {
			g.submit(take())
		}
		if withRestart && g.r.Bool() {
			g.line("restart")
			g.submit(take())
		}
		k := 1 + g.r.Intn(max)
		for i := 0; i < k; i++ {
			g.next()
		}
		if withRestart && g.r.Bool() {
			g.line("crash-submit at=1 id=%s txs=%s", hx.Hex(chainID), hx.HexList(take()))
		}
	}
	g.drain()
}

// queue: the bare BatchQueue (AddBatch / Next / Load).
func (g *gen) queue(nops int) {
	g.reset("queue", maxima[g.r.Intn(len(maxima))])
	for i := 0; i < nops; i++ {
		p := g.r.Intn(100)
		switch {
		case p < 45:
			g.line("add txs=%s", hx.HexList(g.fresh()))
		case p < 75:
			g.line("qnext")
		case p < 85:
			g.line("load")
		case p < 92:
			g.line("restart")
		case p < 94:
			g.line("restart max=%d", 1+g.r.Intn(3))
		case p < 95:
			g.line("fail put=%d", 1+g.r.Intn(2))
		case p < 97:
			g.line("add txs=-")
		default:
			g.line("qdrain")
		}
	}
	g.line("qdrain")
}

func (g *gen) malformed() {
	g.reset("seq", 2)
	junk := []string{
		"submit", "submit id=zz txs=01", "submit id=" + hx.Hex(chainID), "submit id=" + hx.Hex(chainID) + " txs=0", "submit txs=01",
		"next", "next id=0g", "frobnicate x=1", "crash-submit at=2 id=- txs=01", "crash-submit id=- txs=01", "crash-next at=x id=-",
		"crash-next id=-", "add txs=01", "qnext", "load", "qdrain", "drain", "drain id=q", "submit id=" + hx.Hex(chainID) + " txs=01,,02",
		"submit id=" + hx.Hex(chainID) + " txs=01,0", "next id=" + hx.Hex(chainID) + " extra=1", "restart now=1",
		"next id=- ctx=dead", "submit id=- txs=01 ctx=", "next id=- ctx=Cancelled", "restart max=-1", "restart max=", "restart max=1000000", "fail put=x", "fail del=1x", "fail", "fail put=1 del=", "crash-next at=1 id=- max=zz",
		"crash-submit at=0 id=- txs=01 max=", "submit id=" + hx.Hex(chainID) + " txs=.,.", "submit id=" + hx.Hex(chainID) + " txs=.", "submit id=" + hx.Hex(chainID) + " txs=AB,cd",
	}
	for _, i := range g.r.Perm(len(junk)) {
		g.line("%s", junk[i])
		if g.r.Chance(30) {
			g.submit(g.fresh())
		}
		if g.r.Chance(20) {
			g.next()
		}
	}
	g.drain()
	g.line("reset mode=stack max=1")
	g.line("submit id=- txs=01")
	g.line("reset mode=seq max=-1")
	g.line("reset mode=seq max=1000000")
	g.line("reset mode=seq max=12x id=00")
	g.line("reset mode=queue max=2 id=0")
	g.line("reset")
	g.line("submit id=- txs=01")
	g.line("next id=-")
	g.line("reset mode=queue")
	g.line("submit id=- txs=01")
	g.line("add txs=01")
	g.line("next id=-")
	g.line("qdrain")
}

// fixed: the minimal inputs of the two known findings, and their non-failing neighbours.
func (g *gen) fixed() {
	id := hx.Hex(chainID)
	// (a) identical contents share a key: one copy is lost by a restart
	g.reset("seq", 0)
	g.line("submit id=%s txs=aa01", id)
	g.line("submit id=%s txs=aa01", id)
	g.line("restart")
	g.drain()
	// (a') … and after handing one copy out the other is gone from the datastore
	g.reset("seq", 0)
	g.line("submit id=%s txs=aa01", id)
	g.line("submit id=%s txs=aa01", id)
	g.next()
	g.line("restart")
	g.drain()
	// identical contents without restart: fine
	g.reset("seq", 0)
	g.line("submit id=%s txs=aa01", id)
	g.line("submit id=%s txs=aa01", id)
	g.drain()
	// (b) reload order = key order: sha256-key(01) = 4bf5…, key(02) = dbc1…, key(03) = 084f…
	g.reset("seq", 0)
	a, b := [][]byte{{1}}, [][]byte{{2}}
	if hashHex(a) < hashHex(b) {
		a, b = b, a
	}
	g.submit(a)
	g.submit(b)
	g.line("restart")
	g.drain()
	// the same two in key order: fine
	g.reset("seq", 0)
	g.submit(b)
	g.submit(a)
	g.line("restart")
	g.drain()
	// (c) the process dies in GetNextBatch after the Delete is durable, before the call returns: the batch is lost
	g.reset("seq", 0)
	g.line("submit id=%s txs=aa03", id)
	g.line("crash-next at=1 id=%s", id)
	g.drain()
	// (c') … with a second batch behind it: only the oldest one is lost
	g.reset("seq", 0)
	g.submit(b)
	g.submit(a)
	g.line("crash-next at=1 id=%s", id)
	g.drain()
	// the neighbouring crash point (before the Delete is durable): fine
	g.reset("seq", 0)
	g.line("submit id=%s txs=aa03", id)
	g.line("crash-next at=0 id=%s", id)
	g.drain()
	// equal contents that are never pending at the same time: accept, hand out, accept again, restart: fine
	g.reset("seq", 0)
	g.line("submit id=%s txs=aa04", id)
	g.next()
	g.line("submit id=%s txs=aa04", id)
	g.line("restart")
	g.drain()
	g.line("submit id=%s txs=aa04", id)
	g.line("crash-next at=0 id=%s", id)
	g.line("crash-submit at=1 id=%s txs=aa05", id)
	g.drain()
	// a restart with a smaller queue bound than the number of pending batches: all of them come back, in order
	g.reset("seq", 4)
	c3 := [][]byte{{3}}
	three := [][][]byte{a, b, c3}
	sortByHash(three)
	for _, x := range three {
		g.submit(x)
	}
	g.line("restart max=1")
	g.line("submit id=%s txs=aa06", id) // refused: 3 pending, bound 1
	g.drain()
	g.line("submit id=%s txs=aa06", id)
	g.drain()
	// a transient Delete error while three batches are pending: handed out in order all the same
	g.reset("seq", 0)
	for _, x := range three {
		g.submit(x)
	}
	g.line("fail put=0 del=1")
	g.next()
	g.next()
	g.next()
	g.next()
	// calls with a dead context: the answer does not depend on it, nothing is lost
	g.reset("seq", 0)
	for _, x := range three {
		g.line("submit id=%s txs=%s ctx=cancelled", id, hx.HexList(x))
	}
	g.line("next id=%s ctx=cancelled", id)
	g.line("next id=%s ctx=expired", id)
	g.line("restart")
	g.drain()
	// a transient Put error: refused, nothing stored, the retry is accepted; a restart in between
	g.reset("seq", 2)
	g.line("fail put=1 del=0")
	g.line("submit id=%s txs=aa07", id)
	g.line("restart")
	g.line("submit id=%s txs=aa07", id)
	g.line("fail put=2")
	g.line("crash-submit at=1 id=%s txs=aa08", id)
	g.drain()
}

// rebound: the node is restarted with ANOTHER queue bound (restart max=, crash-… max=), smaller than the number of
// pending batches included: everything pending must come back, in order (batches submitted in key order: free of the
// first two findings), and admission follows the new bound.
func (g *gen) rebound(rounds int) {
	max := []int{3, 4, 6, 0}[g.r.Intn(4)]
	g.reset("seq", max)
	var pool [][][]byte
	for i := 0; i < rounds*8+8; i++ {
		pool = append(pool, g.fresh())
	}
	sortByHash(pool)
	take := func() [][]byte { b := pool[0]; pool = pool[1:]; return b }
	for i := 0; i < rounds; i++ {
		k := 2 + g.r.Intn(4)
		for j := 0; j < k; j++ {
			g.submit(take())
		}
		nm := []int{1, 2, 1, 3, 0, 5}[g.r.Intn(6)]
		switch g.r.Intn(5) {
		case 0:
			g.line("crash-submit at=%d id=%s txs=%s max=%d", g.r.Intn(2), hx.Hex(chainID), hx.HexList(take()), nm)
		case 1:
			g.line("crash-next at=0 id=%s max=%d", hx.Hex(chainID), nm)
		default:
			g.line("restart max=%d", nm)
		}
		g.submit(take()) // refused while more than the new bound are pending
		for j := g.r.Intn(k + 1); j > 0; j-- {
			g.next()
		}
		if g.r.Chance(30) {
			g.line("restart")
		}
	}
	g.drain()
}

// faults: transient datastore errors (fail put= del=).  kind 0: failing Puts only, with restarts and crashes (fully
// monitored); kind 1: failing Puts and Deletes within one process lifetime (FIFO / exactly once must hold for every
// pattern); kind 2: a failing Delete followed by a restart (outside the property's quantifier: correspondence only).
func (g *gen) faults(nops, kind int) {
	g.reset("seq", []int{0, 3, 5}[g.r.Intn(3)])
	var pool [][][]byte
	for i := 0; i < nops+4; i++ {
		pool = append(pool, g.fresh())
	}
	sortByHash(pool)
	take := func() [][]byte { b := pool[0]; pool = pool[1:]; return b }
	for i := 0; i < nops; i++ {
		p := g.r.Intn(100)
		switch {
		case p < 18:
			put, del := 1+g.r.Intn(2), 0
			if kind > 0 {
				put, del = g.r.Intn(2), 1+g.r.Intn(2)
			}
			g.line("fail put=%d del=%d", put, del)
		case p < 55:
			g.submit(take())
		case p < 85:
			g.next()
		case p < 92 && kind == 0:
			g.line("restart")
		case p < 96 && kind == 0:
			g.line("crash-submit at=%d id=%s txs=%s", g.r.Intn(2), hx.Hex(chainID), hx.HexList(take()))
		case kind == 0:
			g.line("crash-next at=0 id=%s", hx.Hex(chainID))
		default:
			g.next()
		}
	}
	if kind == 2 {
		g.line("fail put=0 del=1")
		g.submit(take())
		g.next()
		g.line("restart")
		g.next()
	}
	g.drain()
}

// reuse: contents come back again and again but are never pending twice at the same time (the sharp hypothesis of
// C10_restart_partial), batches submitted so that the pending ones are in key order at every restart: free of the
// first two findings, with restarts and both crash kinds of submit, crash-next at=0 only.
func (g *gen) reuse(rounds int) {
	g.reset("seq", []int{0, 2, 3}[g.r.Intn(3)])
	pool := [][][]byte{g.fresh(), g.fresh(), g.fresh()}
	for i := 0; i < rounds; i++ {
		b := pool[g.r.Intn(len(pool))]
		if g.r.Chance(25) {
			g.line("crash-submit at=1 id=%s txs=%s", hx.Hex(chainID), hx.HexList(b))
		} else {
			g.submit(b)
		}
		if g.r.Chance(50) {
			g.line("restart")
		}
		if g.r.Chance(25) {
			g.line("crash-next at=0 id=%s", hx.Hex(chainID))
		}
		g.next() // at most one batch is ever pending
		if g.r.Chance(30) {
			g.line("restart")
		}
	}
	g.drain()
}

// family returns k DIFFERENT batches with the same number n of transactions and the same concatenated bytes, cut at
// different places (a "re-split" family): e.g. ["ab","c"] / ["a","bc"], or, with a boundary moved across an empty
// transaction, ["","ab"] / ["a","b"] / ["ab",""].  They differ from every other batch of the scenario (the bytes
// start with the scenario counter).  Batch.Hash keeps them apart only through the per-transaction length fields.
func (g *gen) family(k, n int) [][][]byte {
	g.cnt++
	s := append([]byte{byte(g.cnt >> 8), byte(g.cnt)}, g.r.Bytes(1+g.r.Intn(5))...)
	var out [][][]byte
	seen := map[string]bool{}
	for tries := 0; len(out) < k && tries < 200; tries++ {
		// n-1 cut positions in 0..len(s), ascending; equal neighbours / 0 / len(s) give empty transactions
		cuts := make([]int, n-1)
		for i := range cuts {
			if g.r.Chance(70) {
				cuts[i] = 1 + g.r.Intn(len(s)-1)
			} else {
				cuts[i] = g.r.Intn(len(s) + 1)
			}
		}
		for i := range cuts { // insertion sort
			for j := i; j > 0 && cuts[j-1] > cuts[j]; j-- {
				cuts[j-1], cuts[j] = cuts[j], cuts[j-1]
			}
		}
		b := make([][]byte, 0, n)
		prev := 0
		for _, c := range append(cuts, len(s)) {
			b = append(b, append([]byte{}, s[prev:c]...))
			prev = c
		}
		if c := content(b); !seen[c] {
			seen[c] = true
			out = append(out, b)
		}
	}
	return out
}

// resplit: a family of re-split batches (pairs and triples) is pending AT THE SAME TIME, with a restart / crash before
// and after the first of them is handed out.  Everything is submitted in key order and `crash-next` is at=0 only, so the
// scenario is free of the three recorded findings (the family members are different batches, not duplicates): on the
// unchanged tree nothing may be reported here.  A Batch.Hash that does not separate the members (length fields dropped)
// makes them share one write-ahead record: the first is lost at the second's acceptance, the others when one is handed out.
func (g *gen) resplit(variant int) {
	g.reset("seq", []int{0, 0, 4, 6}[g.r.Intn(4)])
	k := 2 + g.r.Intn(2)
	fam := g.family(k, 2+g.r.Intn(2))
	pool := append([][][]byte{}, fam...)
	for i := g.r.Intn(3); i > 0; i-- {
		pool = append(pool, g.fresh())
	}
	sortByHash(pool)
	isFam := func(b [][]byte) bool {
		for _, f := range fam {
			if content(f) == content(b) {
				return true
			}
		}
		return false
	}
	stop := func() {
		switch g.r.Intn(4) {
		case 0:
			g.line("crash-next at=0 id=%s", hx.Hex(chainID))
		case 1:
			g.line("crash-submit at=0 id=%s txs=%s", hx.Hex(chainID), hx.HexList(g.fresh()))
		default:
			g.line("restart")
		}
	}
	// everything in key order; all members pending together
	for i, b := range pool {
		if variant == 2 && i == len(pool)-1 {
			g.line("crash-submit at=1 id=%s txs=%s", hx.Hex(chainID), hx.HexList(b)) // the process dies right after the last acceptance
		} else {
			g.submit(b)
		}
	}
	if variant == 0 {
		stop() // before the first of them is handed out
	}
	// hand out up to and including the first member of the family
	for _, b := range pool {
		g.next()
		if isFam(b) {
			break
		}
	}
	if variant != 3 {
		stop() // after the first of them was handed out, the others still pending
	}
	if g.r.Chance(50) {
		g.next()
		if g.r.Chance(50) {
			stop()
		}
	}
	g.drain()
}

// fixedResplit: the smallest re-split families, in key order (free of the recorded findings): both pending at a restart;
// the first handed out, then a restart; a boundary moved across an empty transaction; the bare queue with Load.
func (g *gen) fixedResplit() {
	id := hx.Hex(chainID)
	pair := [][][]byte{{[]byte("ab"), []byte("c")}, {[]byte("a"), []byte("bc")}}
	sortByHash(pair)
	triple := [][][]byte{{{}, []byte("ab")}, {[]byte("a"), []byte("b")}, {[]byte("ab"), {}}}
	sortByHash(triple)
	for _, fam := range [][][][]byte{pair, triple} {
		g.reset("seq", 0)
		for _, b := range fam {
			g.line("submit id=%s txs=%s", id, hx.HexList(b))
		}
		g.line("restart")
		g.drain()
		g.reset("seq", 0)
		for _, b := range fam {
			g.line("submit id=%s txs=%s", id, hx.HexList(b))
		}
		g.line("next id=%s", id)
		g.line("restart")
		g.drain()
		g.reset("seq", 0)
		for _, b := range fam {
			g.line("submit id=%s txs=%s", id, hx.HexList(b))
		}
		g.line("crash-next at=0 id=%s", id)
		g.line("next id=%s", id)
		g.line("restart")
		g.drain()
	}
	g.reset("queue", 0)
	for _, b := range pair {
		g.line("add txs=%s", hx.HexList(b))
	}
	g.line("load")
	g.line("qnext")
	g.line("restart")
	g.line("qdrain")
}

func genC10(r *hx.Rng, tier string, w io.Writer) {
	g := &gen{r: r, w: w}
	mul, ops := 1, 24
	if tier == "thorough" {
		mul, ops = 6, 60
	}
	g.fixed()
	g.fixedResplit()
	for _, n := range []int{33, 40, 100} {
		g.burst(n, n == 40)
	}
	if tier == "thorough" {
		g.burst(600, false)
		g.burst(1000, true)
		g.burst(300+r.Intn(400), r.Chance(50))
	}
	for i := 0; i < 40*mul; i++ {
		g.plain(ops/2 + r.Intn(ops))
	}
	for i := 0; i < 30*mul; i++ {
		g.restarts(ops/2+r.Intn(ops), true)
	}
	for i := 0; i < 20*mul; i++ {
		g.restarts(ops/2+r.Intn(ops), false)
	}
	for i := 0; i < 15*mul; i++ {
		g.single(4 + r.Intn(8))
	}
	for i := 0; i < 10*mul; i++ {
		g.dups(ops/2 + r.Intn(ops))
	}
	for i := 0; i < 8*mul; i++ {
		g.reuse(4 + r.Intn(8))
	}
	for i := 0; i < 10*mul; i++ {
		g.rebound(2 + r.Intn(3))
	}
	for i := 0; i < 12*mul; i++ {
		g.faults(ops/2+r.Intn(ops), i%3)
	}
	for i := 0; i < 12*mul; i++ {
		g.bound(i%3 != 0, i%2 == 0)
	}
	for i := 0; i < 15*mul; i++ {
		g.queue(ops/2 + r.Intn(ops))
	}
	// concurrent callers on the real Sequencer, checked with porcupine against the bounded FIFO (both tiers):
	// 2 writers + 1 reader, distinct and equal contents; the thorough tier adds larger families
	g.reset("seq", 0)
	for i := 0; i < 8; i++ {
		g.line("conc seed=%d writers=2 per=%d readers=1 max=%d dup=%d", r.Intn(1000), 3+r.Intn(4), []int{0, 0, 2, 3}[r.Intn(4)], i%2)
	}
	if tier == "thorough" {
		// supporting exploration: larger concurrent histories and real badger with reopen
		for i := 0; i < 12; i++ {
			g.line("conc seed=%d writers=%d per=%d readers=%d max=%d dup=%d", r.Intn(1000), 2+r.Intn(3), 4+r.Intn(6), 1+r.Intn(2), []int{0, 0, 2, 5}[r.Intn(4)], i%3/2)
		}
		for i := 0; i < 6; i++ {
			g.line("badger seed=%d n=%d", r.Intn(100000), 40+r.Intn(60))
		}
	}
	g.malformed()
	// re-split families pending at the same time (last, so that the random choices of everything above are unchanged)
	for i := 0; i < 12*mul; i++ {
		g.resplit(i % 4)
	}
}
