package c10

import (
	"context"
	"encoding/json"
	"fmt"
	"go/ast"
	"go/parser"
	"go/token"
	"os"
	"path/filepath"
	"reflect"
	"runtime"
	"sort"
	"strings"
	"time"

	"verifharness/hx"

	coresequencer "github.com/evstack/ev-node/core/sequencer"
	"github.com/evstack/ev-node/sequencers/single"
)

// Facts for Spec/C10.lean, obtained by asking the compiled code: where and how the real sequencer
// stores one fixed batch (datastore key and value as seen by the datastore underneath), and the
// datastore keys of the two one-byte batches the order counter-witness uses.
func init() {
	hx.RegisterFacts("C10", func() (string, error) {
		var b strings.Builder
		ctx := context.Background()
		id := []byte("golden-chain")
		golden := [][]byte{[]byte("tx-one"), {}, []byte("tx-three")}
		store := func(txs [][]byte) (string, []byte, error) {
			ds := hx.NewLogDS(nil)
			s, err := single.NewSequencerWithQueueSize(ctx, logger, ds, nil, id, time.Second, nil, true, 4)
			if err != nil {
				return "", nil, err
			}
			if _, err := s.SubmitBatchTxs(ctx, coresequencer.SubmitBatchTxsRequest{Id: id, Batch: &coresequencer.Batch{Transactions: txs}}); err != nil {
				return "", nil, err
			}
			img := ds.Image()
			if len(img) != 1 {
				return "", nil, fmt.Errorf("one submission left %d datastore entries", len(img))
			}
			for k, v := range img {
				return k, v, nil
			}
			return "", nil, nil
		}
		k, v, err := store(golden)
		if err != nil {
			return "", err
		}
		gb := coresequencer.Batch{Transactions: golden}
		h, _ := gb.Hash()
		var e *coresequencer.Batch
		he, _ := e.Hash()
		fmt.Fprintf(&b, "def goldenKey : String := %s\n", hx.LeanString(k))
		fmt.Fprintf(&b, "def goldenValue : Bytes := %s\n", hx.LeanBytes(v))
		fmt.Fprintf(&b, "def goldenHash : Bytes := %s\n", hx.LeanBytes(h))
		fmt.Fprintf(&b, "def emptyHash : Bytes := %s\n", hx.LeanBytes(he))
		k1, _, err := store([][]byte{{1}})
		if err != nil {
			return "", err
		}
		k2, _, err := store([][]byte{{2}})
		if err != nil {
			return "", err
		}
		fmt.Fprintf(&b, "def key01 : String := %s\n", hx.LeanString(k1))
		fmt.Fprintf(&b, "def key02 : String := %s\n", hx.LeanString(k2))
		// a re-split pair: same count, same concatenated bytes, other boundaries - kept apart only by the length fields
		kq, _, err := store([][]byte{[]byte("ab"), []byte("c")})
		if err != nil {
			return "", err
		}
		kp, _, err := store([][]byte{[]byte("a"), []byte("bc")})
		if err != nil {
			return "", err
		}
		fmt.Fprintf(&b, "/-- datastore keys of the batches `[\"ab\",\"c\"]` and `[\"a\",\"bc\"]` -/\n")
		fmt.Fprintf(&b, "def keyAbC : String := %s\n", hx.LeanString(kq))
		fmt.Fprintf(&b, "def keyABc : String := %s\n", hx.LeanString(kp))
		lf, err := lockFacts()
		if err != nil {
			return "", err
		}
		b.WriteString(lf)
		return b.String(), nil
	})
}

// ---- facts read from the CURRENT source with go/parser: every call of the queue is one atomic step ----
//
// The concurrency theorems (Spec.C10 §6) treat every AddBatch / Next / Load call as one atomic step of the model.
// That is what the code does iff every method of BatchQueue takes bq.mu first and holds it until it returns, nobody
// else touches the queue's fields, and a Sequencer call contains at most one queue call and mutates nothing else.
// No type information is used (heuristics by name: receiver type BatchQueue / Sequencer, the Sequencer's field
// `queue`); a Go build overlay (VERIF_OVERLAY or GOFLAGS -overlay=…) is honoured like harness/streams/c13/facts.go.

func singleDir() string {
	if d := os.Getenv("VERIF_REPO"); d != "" {
		return filepath.Join(d, "sequencers", "single")
	}
	if f := runtime.FuncForPC(reflect.ValueOf(single.NewBatchQueue).Pointer()); f != nil {
		file, _ := f.FileLine(f.Entry())
		if file != "" {
			if _, err := os.Stat(filepath.Join(filepath.Dir(file), "sequencer.go")); err == nil {
				return filepath.Dir(file)
			}
		}
	}
	return "/repo/sequencers/single"
}

func overlayMap() map[string]string {
	out := map[string]string{}
	path := os.Getenv("VERIF_OVERLAY")
	if path == "" {
		for _, f := range strings.Fields(os.Getenv("GOFLAGS")) {
			if strings.HasPrefix(f, "-overlay=") {
				path = strings.TrimPrefix(f, "-overlay=")
			}
		}
	}
	if path == "" {
		return out
	}
	b, err := os.ReadFile(path)
	if err != nil {
		return out
	}
	var ov struct{ Replace map[string]string }
	if json.Unmarshal(b, &ov) == nil {
		for k, v := range ov.Replace {
			out[k] = v
		}
	}
	return out
}

func parseSingle() ([]*ast.File, error) {
	dir := singleDir()
	ov := overlayMap()
	ents, err := os.ReadDir(dir)
	if err != nil {
		return nil, err
	}
	names := map[string]bool{}
	for _, e := range ents {
		names[filepath.Join(dir, e.Name())] = true
	}
	for k := range ov { // files that exist only in the overlay
		if filepath.Dir(k) == dir {
			names[k] = true
		}
	}
	var sorted []string
	for n := range names {
		sorted = append(sorted, n)
	}
	sort.Strings(sorted)
	fset := token.NewFileSet()
	var files []*ast.File
	for _, n := range sorted {
		base := filepath.Base(n)
		if !strings.HasSuffix(base, ".go") || strings.HasSuffix(base, "_test.go") || strings.HasPrefix(base, "verif_hooks") {
			continue
		}
		src := n
		if r, ok := ov[n]; ok {
			if r == "" {
				continue
			}
			src = r
		}
		b, err := os.ReadFile(src)
		if err != nil {
			return nil, err
		}
		f, err := parser.ParseFile(fset, n, b, parser.SkipObjectResolution)
		if err != nil {
			return nil, err
		}
		files = append(files, f)
	}
	return files, nil
}

// recvOf returns the receiver's name and type name ("" for a plain function) and whether it is a pointer receiver.
func recvOf(fd *ast.FuncDecl) (name, typ string, ptr bool) {
	if fd.Recv == nil || len(fd.Recv.List) != 1 {
		return "", "", false
	}
	f := fd.Recv.List[0]
	if len(f.Names) == 1 {
		name = f.Names[0].Name
	}
	t := f.Type
	if s, ok := t.(*ast.StarExpr); ok {
		ptr, t = true, s.X
	}
	if id, ok := t.(*ast.Ident); ok {
		typ = id.Name
	}
	return
}

// isMuCall reports whether e is the call <recv>.mu.<method>().
func isMuCall(e ast.Expr, recv, method string) bool {
	c, ok := e.(*ast.CallExpr)
	if !ok || len(c.Args) != 0 {
		return false
	}
	s, ok := c.Fun.(*ast.SelectorExpr)
	if !ok || s.Sel.Name != method {
		return false
	}
	m, ok := s.X.(*ast.SelectorExpr)
	if !ok || m.Sel.Name != "mu" {
		return false
	}
	id, ok := m.X.(*ast.Ident)
	return ok && id.Name == recv && recv != "" && recv != "_"
}

// holdsMutexThroughout: pointer receiver, first statement `<recv>.mu.Lock()`, second `defer <recv>.mu.Unlock()`,
// no other use of <recv>.mu, no goroutine and no function literal (which could outlive the critical section).
func holdsMutexThroughout(fd *ast.FuncDecl) bool {
	recv, _, ptr := recvOf(fd)
	if !ptr || fd.Body == nil || len(fd.Body.List) < 2 {
		return false
	}
	first, ok := fd.Body.List[0].(*ast.ExprStmt)
	if !ok || !isMuCall(first.X, recv, "Lock") {
		return false
	}
	second, ok := fd.Body.List[1].(*ast.DeferStmt)
	if !ok || !isMuCall(second.Call, recv, "Unlock") {
		return false
	}
	muUses, bad := 0, false
	ast.Inspect(fd.Body, func(n ast.Node) bool {
		switch x := n.(type) {
		case *ast.GoStmt, *ast.FuncLit:
			bad = true
		case *ast.SelectorExpr:
			if id, ok := x.X.(*ast.Ident); ok && id.Name == recv && x.Sel.Name == "mu" {
				muUses++
			}
		}
		return true
	})
	return !bad && muUses == 2
}

var queueFields = map[string]bool{"queue": true, "mu": true, "db": true, "maxQueueSize": true}

func lockFacts() (string, error) {
	files, err := parseSingle()
	if err != nil {
		return "", err
	}
	type qm struct {
		name string
		ok   bool
	}
	type sc struct {
		name  string
		calls int
		pure  bool
	}
	var qms []qm
	var scs []sc
	escapes := 0
	for _, f := range files {
		for _, d := range f.Decls {
			fd, ok := d.(*ast.FuncDecl)
			if !ok || fd.Body == nil {
				continue
			}
			recv, typ, _ := recvOf(fd)
			if typ == "BatchQueue" {
				qms = append(qms, qm{fd.Name.Name, holdsMutexThroughout(fd)})
				continue
			}
			if typ == "" && fd.Name.Name == "NewBatchQueue" {
				continue // the constructor: the queue is not shared yet
			}
			// anybody else reaching into the queue's fields: <x>.queue.<field of BatchQueue>
			calls, pure := 0, true
			ast.Inspect(fd.Body, func(n ast.Node) bool {
				switch x := n.(type) {
				case *ast.SelectorExpr:
					if in, ok := x.X.(*ast.SelectorExpr); ok && in.Sel.Name == "queue" && queueFields[x.Sel.Name] {
						escapes++
					}
				case *ast.CallExpr:
					if s, ok := x.Fun.(*ast.SelectorExpr); ok {
						if in, ok := s.X.(*ast.SelectorExpr); ok && in.Sel.Name == "queue" {
							if id, ok := in.X.(*ast.Ident); ok && id.Name == recv && recv != "" {
								calls++
							}
						}
					}
				case *ast.ForStmt, *ast.RangeStmt, *ast.GoStmt, *ast.FuncLit:
					pure = false // a queue call could run more than once / outside the call
				case *ast.AssignStmt:
					for _, l := range x.Lhs {
						if rootedAt(l, recv) {
							pure = false
						}
					}
				case *ast.IncDecStmt:
					if rootedAt(x.X, recv) {
						pure = false
					}
				}
				return true
			})
			if typ == "Sequencer" && calls > 0 {
				scs = append(scs, sc{fd.Name.Name, calls, pure})
			}
		}
	}
	sort.Slice(qms, func(i, j int) bool { return qms[i].name < qms[j].name })
	sort.Slice(scs, func(i, j int) bool { return scs[i].name < scs[j].name })
	var b strings.Builder
	b.WriteString("/-- every method of `BatchQueue` in the current source; `true` = pointer receiver, first statement `bq.mu.Lock()`, second `defer bq.mu.Unlock()`, no other use of the mutex, no goroutine / function literal -/\n")
	var parts []string
	for _, m := range qms {
		parts = append(parts, fmt.Sprintf("(%s, %v)", hx.LeanString(m.name), m.ok))
	}
	fmt.Fprintf(&b, "def queueMethods : List (String × Bool) := [%s]\n", strings.Join(parts, ", "))
	b.WriteString("/-- places outside `BatchQueue`'s methods and constructor that select a field of a `BatchQueue` (`x.queue.{queue,mu,db,maxQueueSize}`) -/\n")
	fmt.Fprintf(&b, "def queueFieldEscapes : Nat := %d\n", escapes)
	b.WriteString("/-- the `Sequencer` methods that call the queue: number of call sites `c.queue.M(…)`; `true` = no loop / goroutine / function literal and no assignment to a field of the receiver -/\n")
	parts = nil
	for _, m := range scs {
		parts = append(parts, fmt.Sprintf("(%s, %d, %v)", hx.LeanString(m.name), m.calls, m.pure))
	}
	fmt.Fprintf(&b, "def sequencerQueueCalls : List (String × Nat × Bool) := [%s]\n", strings.Join(parts, ", "))
	return b.String(), nil
}

// rootedAt: e is <recv>.f, <recv>.f.g, <recv>.f[i] …
func rootedAt(e ast.Expr, recv string) bool {
	if recv == "" {
		return false
	}
	for {
		switch x := e.(type) {
		case *ast.SelectorExpr:
			if id, ok := x.X.(*ast.Ident); ok {
				return id.Name == recv
			}
			e = x.X
		case *ast.IndexExpr:
			e = x.X
		case *ast.StarExpr:
			e = x.X
		case *ast.ParenExpr:
			e = x.X
		default:
			return false
		}
	}
}
