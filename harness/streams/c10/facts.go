package c10

import (
	"context"
	"fmt"
	"strings"
	"time"

	"verifharness/hx"

	coresequencer "github.com/evstack/ev-node/core/sequencer"
	"github.com/evstack/ev-node/sequencers/single"
)

// Facts for Spec/C10.lean, obtained by asking the compiled code: where and how the real sequencer
// stores one fixed batch (datastore key and value as seen by the datastore underneath), and the
// datastore keys of the two one-byte batches the order counter-witness uses.
func init() {
	hx.RegisterFacts("C10", func() (string, error) {
		var b strings.Builder
		ctx := context.Background()
		id := []byte("golden-chain")
		golden := [][]byte{[]byte("tx-one"), {}, []byte("tx-three")}
		store := func(txs [][]byte) (string, []byte, error) {
			ds := hx.NewLogDS(nil)
			s, err := single.NewSequencerWithQueueSize(ctx, logger, ds, nil, id, time.Second, nil, true, 4)
			if err != nil {
				return "", nil, err
			}
			if _, err := s.SubmitBatchTxs(ctx, coresequencer.SubmitBatchTxsRequest{Id: id, Batch: &coresequencer.Batch{Transactions: txs}}); err != nil {
				return "", nil, err
			}
			img := ds.Image()
			if len(img) != 1 {
				return "", nil, fmt.Errorf("one submission left %d datastore entries", len(img))
			}
			for k, v := range img {
				return k, v, nil
			}
			return "", nil, nil
		}
		k, v, err := store(golden)
		if err != nil {
			return "", err
		}
		gb := coresequencer.Batch{Transactions: golden}
		h, _ := gb.Hash()
		var e *coresequencer.Batch
		he, _ := e.Hash()
		fmt.Fprintf(&b, "def goldenKey : String := %s\n", hx.LeanString(k))
		fmt.Fprintf(&b, "def goldenValue : Bytes := %s\n", hx.LeanBytes(v))
		fmt.Fprintf(&b, "def goldenHash : Bytes := %s\n", hx.LeanBytes(h))
		fmt.Fprintf(&b, "def emptyHash : Bytes := %s\n", hx.LeanBytes(he))
		k1, _, err := store([][]byte{{1}})
		if err != nil {
			return "", err
		}
		k2, _, err := store([][]byte{{2}})
		if err != nil {
			return "", err
		}
		fmt.Fprintf(&b, "def key01 : String := %s\n", hx.LeanString(k1))
		fmt.Fprintf(&b, "def key02 : String := %s\n", hx.LeanString(k2))
		return b.String(), nil
	})
}
