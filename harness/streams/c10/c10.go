// Package c10 is the correspondence stream and the monitors of property C10:
// "The sequencer's batch queue is a durable FIFO with exactly-once delivery".
//
// The interpreter drives the REAL single.Sequencer / single.BatchQueue on hx.LogDS (an in-memory
// datastore whose writes are atomic, ordered like badger and logged, so that the durable image
// after any prefix of writes can be rebuilt).  One canonical observation line per op; the Lean
// driver (lean/Drv/C10.lean) prints the same lines from the model.
package c10

import (
	"context"
	"errors"
	"fmt"
	"os"
	"sort"
	"strconv"
	"strings"
	"time"

	logging "github.com/ipfs/go-log/v2"

	"verifharness/hx"

	coresequencer "github.com/evstack/ev-node/core/sequencer"
	"github.com/evstack/ev-node/sequencers/single"
)

const queuePrefix = "batches" // the prefix NewSequencerWithQueueSize passes to NewBatchQueue

var logger = logging.Logger("c10")

// world is the system under test: one sequencer (mode seq) or one bare queue (mode queue) on a datastore.
type world struct {
	mode string // "seq" | "queue"
	max  int
	id   []byte
	ds   *hx.LogDS
	seq  *single.Sequencer
	q    *single.BatchQueue
}

// start (re)creates the process on a datastore holding `image` (what a restart does).
func (w *world) start(image map[string][]byte) error {
	w.ds = hx.NewLogDS(image)
	ctx := context.Background()
	if w.mode == "queue" {
		w.seq = nil
		w.q = single.NewBatchQueue(w.ds, queuePrefix, w.max)
		return w.q.Load(ctx)
	}
	w.q = nil
	s, err := single.NewSequencerWithQueueSize(ctx, logger, w.ds, nil, w.id, time.Second, nil, true, w.max)
	w.seq = s
	return err
}

// clone starts an independent process on a copy of an image (used by the monitor's restart probe).
func (w *world) clone(image map[string][]byte, max int) (*world, error) {
	c := &world{mode: w.mode, max: max, id: w.id}
	err := c.start(image)
	return c, err
}

func classify(err error) string {
	switch {
	case err == nil:
		return "ok"
	case errors.Is(err, single.ErrInvalidId):
		return "err:id"
	case errors.Is(err, single.ErrQueueFull):
		return "err:full"
	case errors.Is(err, context.Canceled), errors.Is(err, context.DeadlineExceeded):
		return "err:ctx" // the call answered with its context's error
	case errors.Is(err, hx.ErrInjected):
		return "err:store" // an injected datastore fault came back through the call
	default:
		return "err:other"
	}
}

// callCtx builds the context a call is made with: "" / "live", "cancelled" (already cancelled), "expired" (deadline in the past).
func callCtx(kind string) (context.Context, context.CancelFunc) {
	switch kind {
	case "cancelled":
		ctx, cancel := context.WithCancel(context.Background())
		cancel()
		return ctx, cancel
	case "expired":
		return context.WithDeadline(context.Background(), time.Unix(1, 0))
	}
	return context.Background(), func() {}
}

func argCtx(o hx.Op) (string, bool) {
	if !o.Has("ctx") {
		return "", true
	}
	switch v := o.Str("ctx"); v {
	case "live", "cancelled", "expired":
		return v, true
	}
	return "", false
}

// submit calls SubmitBatchTxs (seq) or AddBatch (queue).
func (w *world) submit(id []byte, txs [][]byte) string { return w.submitCtx("", id, txs) }

func (w *world) submitCtx(kind string, id []byte, txs [][]byte) string {
	ctx, cancel := callCtx(kind)
	defer cancel()
	if w.mode == "queue" {
		return classify(w.q.AddBatch(ctx, coresequencer.Batch{Transactions: txs}))
	}
	before := w.ds.NumWrites()
	_, err := w.seq.SubmitBatchTxs(ctx, coresequencer.SubmitBatchTxsRequest{Id: id, Batch: &coresequencer.Batch{Transactions: txs}})
	out := classify(err)
	if out == "ok" && len(txs) == 0 && w.ds.NumWrites() == before {
		out = "skip-empty" // acknowledged, nothing stored (the response itself carries no information)
	}
	return out
}

// next calls GetNextBatch (seq) or Next (queue).
func (w *world) next(id []byte) ([][]byte, string) { return w.nextCtx("", id) }

func (w *world) nextCtx(kind string, id []byte) ([][]byte, string) {
	ctx, cancel := callCtx(kind)
	defer cancel()
	var b *coresequencer.Batch
	var err error
	if w.mode == "queue" {
		b, err = w.q.Next(ctx)
	} else {
		var r *coresequencer.GetNextBatchResponse
		r, err = w.seq.GetNextBatch(ctx, coresequencer.GetNextBatchRequest{Id: id, MaxBytes: 1 << 30})
		if r != nil {
			b = r.Batch
		}
	}
	if err != nil {
		return nil, classify(err)
	}
	if b == nil || len(b.Transactions) == 0 {
		return nil, "empty"
	}
	return b.Transactions, "batch=" + hx.HexList(b.Transactions)
}

func showDisk(img map[string][]byte) string {
	if len(img) == 0 {
		return "disk=-"
	}
	ks := hx.SortedKeys(img)
	parts := make([]string, len(ks))
	for i, k := range ks {
		parts[i] = k + ":" + hx.Hex(img[k])
	}
	return "disk=" + strings.Join(parts, ",")
}

func sameImage(a, b map[string][]byte) bool {
	if len(a) != len(b) {
		return false
	}
	for k, v := range a {
		w, ok := b[k]
		if !ok || string(v) != string(w) {
			return false
		}
	}
	return true
}

// ---- strict argument parsing (must agree with lean/Drv/C10.lean) ----

func argBytes(o hx.Op, k string) ([]byte, bool) {
	if !o.Has(k) {
		return nil, false
	}
	b, err := hx.UnHex(o.Str(k))
	return b, err == nil
}
func argList(o hx.Op, k string) ([][]byte, bool) {
	if !o.Has(k) {
		return nil, false
	}
	b, err := hx.UnHexList(o.Str(k))
	return b, err == nil
}
// argOptNat: an optional small decimal argument (present=false if absent; ok=false if malformed) – as Drv.C10.optNat?
func argOptNat(o hx.Op, k string) (n int, present, ok bool) {
	if !o.Has(k) {
		return 0, false, true
	}
	v := o.Str(k)
	if v == "" {
		return 0, true, false
	}
	for _, ch := range v {
		if ch < '0' || ch > '9' {
			return 0, true, false
		}
	}
	u, err := strconv.ParseUint(v, 10, 64)
	if err != nil || u >= maxBound {
		return 0, true, false
	}
	return int(u), true, true
}

func argAt(o hx.Op) (int, bool) {
	switch o.Str("at") {
	case "0":
		return 0, true
	case "1":
		return 1, true
	}
	return 0, false
}

const maxBound = 1000000

func parseReset(o hx.Op) (mode string, max int, id []byte, ok bool) {
	mode, ok = "seq", true
	if o.Has("mode") {
		mode = o.Str("mode")
		if mode != "seq" && mode != "queue" {
			ok = false
		}
	}
	if o.Has("max") {
		v := o.Str("max")
		n, err := strconv.ParseUint(v, 10, 64)
		for _, ch := range v {
			if ch < '0' || ch > '9' {
				err = errors.New("digit")
			}
		}
		if err != nil || v == "" || n >= maxBound {
			ok = false
		}
		max = int(n)
	}
	if o.Has("id") {
		var good bool
		id, good = argBytes(o, "id")
		ok = ok && good
	}
	if !ok {
		return "seq", 0, nil, false
	}
	return
}

// ---- interpreter ----

type runner struct {
	c *hx.Ctx
	w *world
	m *monitor
}

func (r *runner) reset(mode string, max int, id []byte) {
	r.w = &world{mode: mode, max: max, id: id}
	if err := r.w.start(nil); err != nil {
		r.c.Report("C10/start/"+classify(err), "the sequencer does not start on an empty datastore: "+err.Error())
	}
	r.m = newMonitor(r.c, r.w)
}

// restartAt restarts the process on the image after the first n atomic writes; newMax >= 0: with that queue bound
// (the operator changed maxQueueSize between two lives of the node).
func (r *runner) restartAt(n int, newMax int) {
	img := r.w.ds.ImageAt(n)
	if newMax >= 0 {
		r.w.max = newMax
		r.c.Hit("restart:new-bound")
	}
	r.m.beforeRestart(img)
	if err := r.w.start(img); err != nil {
		r.c.Report("C10/start/"+classify(err), "the sequencer does not restart: "+err.Error())
	}
}

func (r *runner) drain(id []byte) string {
	var got []string
	last := "empty"
	for i := 0; i < 1<<20; i++ {
		before := r.w.ds.Image()
		nb := r.w.ds.NumWrites()
		fd := r.w.ds.FailDelete
		txs, out := r.w.next(id)
		r.noteFaults(fd)
		r.m.onNext(id, txs, out, before, nb)
		r.m.afterOp() // every single call is an operation of its own for the crash-point probes
		if txs == nil {
			last = out
			break
		}
		got = append(got, hx.HexList(txs))
	}
	s := "-"
	if len(got) > 0 {
		s = strings.Join(got, ";")
	}
	return "drained=" + s + " last=" + last + " " + showDisk(r.w.ds.Image())
}

// noteFaults tells the monitor that an injected Delete fault was consumed by the last call (fd = counter before it).
func (r *runner) noteFaults(fd int) {
	if r.w.ds.FailDelete < fd {
		r.m.onFailedDelete()
		r.c.Hit("fault:delete-failed")
	}
}

func (r *runner) exec(o hx.Op) (line string) {
	defer func() {
		if p := recover(); p != nil {
			r.c.Report("C10/panic/"+o.Verb, fmt.Sprintf("the real code panicked on %q: %v", o.Raw, p))
			line = "panic"
		}
	}()
	w := r.w
	seq := w.mode == "seq"
	r.c.Hit("op:" + o.Verb)
	switch o.Verb {
	case "submit", "add":
		var id []byte
		ok := true
		if o.Verb == "submit" {
			id, ok = argBytes(o, "id")
			ok = ok && seq
		} else {
			ok = !seq
		}
		txs, ok2 := argList(o, "txs")
		kind, ok3 := "", true
		if o.Verb == "submit" {
			kind, ok3 = argCtx(o)
		}
		if !ok || !ok2 || !ok3 {
			return "bad-op"
		}
		before, nb := w.ds.Image(), w.ds.NumWrites()
		out := w.submitCtx(kind, id, txs)
		if kind != "" {
			r.c.Hit("ctx:submit:" + kind)
		}
		r.c.Hit("submit:" + out)
		r.m.onSubmit(id, txs, out, before, nb)
		return out + " " + showDisk(w.ds.Image())
	case "next", "qnext":
		var id []byte
		ok := !seq
		if o.Verb == "next" {
			id, ok = argBytes(o, "id")
			ok = ok && seq
		}
		kind, ok3 := "", true
		if o.Verb == "next" {
			kind, ok3 = argCtx(o)
		}
		if !ok || !ok3 {
			return "bad-op"
		}
		before, nb := w.ds.Image(), w.ds.NumWrites()
		fd := w.ds.FailDelete
		txs, out := w.nextCtx(kind, id)
		if kind != "" {
			r.c.Hit("ctx:next:" + kind)
		}
		r.noteFaults(fd)
		r.c.Hit("next:" + strings.SplitN(out, "=", 2)[0])
		r.m.onNext(id, txs, out, before, nb)
		return out + " " + showDisk(w.ds.Image())
	case "restart":
		n, present, ok := argOptNat(o, "max")
		if !ok {
			return "bad-op"
		}
		if !present {
			n = -1
		}
		r.restartAt(w.ds.NumWrites(), n)
		return "ok " + showDisk(r.w.ds.Image())
	case "fail":
		// arm the datastore double: the next put= single Puts / del= single Deletes of this process fail
		p, _, ok1 := argOptNat(o, "put")
		d, _, ok2 := argOptNat(o, "del")
		if !ok1 || !ok2 {
			return "bad-op"
		}
		w.ds.FailPut, w.ds.FailDelete = p, d
		r.c.Hit(fmt.Sprintf("fail:put=%v,del=%v", p > 0, d > 0))
		return "ok " + showDisk(w.ds.Image())
	case "load":
		if seq {
			return "bad-op"
		}
		w.ds.FailPut, w.ds.FailDelete = 0, 0 // a (re)load starts with a healthy datastore (as a restart does)
		r.m.beforeRestart(w.ds.Image())
		if err := w.q.Load(context.Background()); err != nil {
			r.c.Report("C10/start/load-"+classify(err), "Load failed: "+err.Error())
		}
		return "ok " + showDisk(w.ds.Image())
	case "crash-submit":
		at, ok0 := argAt(o)
		id, ok1 := argBytes(o, "id")
		txs, ok2 := argList(o, "txs")
		newMax, present, ok3 := argOptNat(o, "max")
		if !seq || !ok0 || !ok1 || !ok2 || !ok3 {
			return "bad-op"
		}
		if !present {
			newMax = -1
		}
		before, nb := w.ds.Image(), w.ds.NumWrites()
		out := w.submit(id, txs)
		nw := w.ds.NumWrites() - nb
		if at == 1 {
			// the process dies after the operation's write(s) became durable, before the answer is seen
			r.m.onSubmit(id, txs, out, before, nb)
			r.m.afterOp()
			r.restartAt(nb+nw, newMax)
		} else {
			// the process dies before the operation's first write became durable
			r.m.onLostSubmit(txs)
			r.restartAt(nb, newMax)
		}
		r.c.Hit(fmt.Sprintf("crash-submit:at%d:%s", at, out))
		return "crashed ret=" + out + " " + showDisk(r.w.ds.Image())
	case "crash-next":
		at, ok0 := argAt(o)
		id, ok1 := argBytes(o, "id")
		newMax, present, ok3 := argOptNat(o, "max")
		if !seq || !ok0 || !ok1 || !ok3 {
			return "bad-op"
		}
		if !present {
			newMax = -1
		}
		nb := w.ds.NumWrites()
		txs, out := w.next(id)
		nw := w.ds.NumWrites() - nb
		if at == 1 {
			// the process dies after the call's write (the Delete) became durable and BEFORE the call returns:
			// the caller never receives the batch - nothing was handed out
			r.m.onCrashedNext(id, txs, out, nb, nw > 0)
			r.restartAt(nb+nw, newMax)
		} else {
			r.restartAt(nb, newMax) // nothing was handed out, nothing was deleted
		}
		r.c.Hit(fmt.Sprintf("crash-next:at%d:%s", at, strings.SplitN(out, "=", 2)[0]))
		return "crashed ret=" + out + " " + showDisk(r.w.ds.Image())
	case "drain":
		id, ok := argBytes(o, "id")
		if !seq || !ok {
			return "bad-op"
		}
		return r.drain(id)
	case "qdrain":
		if seq {
			return "bad-op"
		}
		return r.drain(nil)
	case "conc":
		r.conc(o)
		return "ok"
	case "badger":
		r.badger(o)
		return "ok"
	}
	return "bad-op"
}

func runC10(c *hx.Ctx) {
	// the real queue reports some errors with fmt.Printf; keep them out of the observation stream
	if devnull, err := os.OpenFile(os.DevNull, os.O_WRONLY, 0); err == nil {
		os.Stdout = devnull
	}
	r := &runner{c: c}
	r.reset("seq", 0, nil)
	for {
		o, ok := c.Next()
		if !ok {
			break
		}
		if o.Verb == "reset" {
			mode, max, id, good := parseReset(o)
			r.reset(mode, max, id)
			c.Hit("mode:" + mode)
			if good {
				c.Emit("ok")
			} else {
				c.Emit("bad-op")
			}
			continue
		}
		line := r.exec(o)
		if line == "bad-op" {
			c.Hit("bad-op")
		} else {
			r.m.afterOp()
		}
		c.Emit("%s", line)
	}
}

func init() { hx.Register("C10", hx.Stream{Gen: genC10, Run: runC10}) }

// sortedByHash returns the batches ordered by hex(Batch.Hash()) – the order of their datastore keys.
func hashHex(txs [][]byte) string {
	b := coresequencer.Batch{Transactions: txs}
	h, _ := b.Hash()
	return hx.Hex(h)
}

func sortByHash(bs [][][]byte) {
	sort.SliceStable(bs, func(i, j int) bool { return hashHex(bs[i]) < hashHex(bs[j]) })
}
