// Package fnode: correspondence stream and monitors for a full node whose ONLY source is the DA layer, across
// crashes and clean restarts (C02 convergence, C05 crash recovery).  One REAL block.Manager without signer runs
// the REAL RetrieveLoop and the REAL SyncLoop side by side over the scripted DA double, on the logging datastore;
// the proposer's chain is built by a REAL aggregator manager.  Observations are taken at quiescence only: the
// relative order in which the sync loop serves its two event channels is free.
package fnode

import (
	"bytes"
	"context"
	"encoding/binary"
	"fmt"
	"os"
	"sort"
	"strings"
	"sync"
	"time"

	goheader "github.com/celestiaorg/go-header"
	"github.com/libp2p/go-libp2p/core/crypto"

	"verifharness/bm"
	"verifharness/hx"

	"github.com/evstack/ev-node/block"
	"github.com/evstack/ev-node/types"
)

const idle = 24 * time.Hour // the tickers of the loops never fire: every scan is started by the harness

// pstore: the part of a go-header store the P2P store loops of the block manager read (Height, GetByHeight).  Heights
// initialHeight, initialHeight+1, ... hold the items in the order they arrived.  `vis` is the height the store reports:
// it is raised by the ops that poll, so that a stray wake-up of a loop never sees more than the last intended poll;
// `hold` (during the start-up barrier) makes it report the node's own height.
type pstore[H goheader.Header[H]] struct {
	goheader.Store[H]
	mu      sync.Mutex
	base    uint64
	items   []H
	tags    []string // "H3", "D3", "JD3", "FH3", ... per item
	vis     uint64
	hold    *uint64
	fetched map[uint64]bool // heights fetched since the node's last start
	polls   int             // Height() calls: a store loop asks once, at the beginning of every poll
}

func (p *pstore[H]) nPolls() int {
	p.mu.Lock()
	defer p.mu.Unlock()
	return p.polls
}

func (p *pstore[H]) Height() uint64 {
	p.mu.Lock()
	defer p.mu.Unlock()
	p.polls++
	if p.hold != nil {
		return *p.hold
	}
	return p.vis
}

func (p *pstore[H]) GetByHeight(_ context.Context, k uint64) (H, error) {
	p.mu.Lock()
	defer p.mu.Unlock()
	var zero H
	if k <= p.base || k > p.base+uint64(len(p.items)) {
		return zero, fmt.Errorf("height %d not in store", k)
	}
	p.fetched[k] = true
	return p.items[k-p.base-1], nil
}

func (p *pstore[H]) add(it H, tag string) {
	p.mu.Lock()
	defer p.mu.Unlock()
	p.items = append(p.items, it)
	p.tags = append(p.tags, tag)
}

func (p *pstore[H]) top() uint64 {
	p.mu.Lock()
	defer p.mu.Unlock()
	return p.base + uint64(len(p.items))
}

func (p *pstore[H]) setVis(v uint64, hold *uint64) {
	p.mu.Lock()
	defer p.mu.Unlock()
	p.vis, p.hold = v, hold
}

type loops struct {
	cancelR  context.CancelFunc
	cancelS  context.CancelFunc
	retrDone chan struct{}
	syncDone chan struct{}
	hsDone   chan struct{}
	dsDone   chan struct{}
	errCh    chan error
}

// part: one genuine part of the proposer's chain placed on the DA layer
type part struct {
	da     uint64
	data   bool
	k      uint64
	behind bool // placed below the cursor of the running process, or at a height the DA layer answered "not found" for
}

type World struct {
	c           *hx.Ctx
	prod        *bm.Env
	full        *bm.Env
	da          *hx.DA
	lp          *loops
	ih          uint64
	gt          time.Time
	dastart     uint64
	from        int    // write index where the last run / start began
	fromH       uint64 // chain height at that point
	dead        bool
	startCursor uint64
	startKind   string // fresh | restart | crash
	cause       string // after a crash: between which two durable writes it fell
	parts       []part
	logN        int
	lastH       uint64
	advPriv     crypto.PrivKey
	advPub      crypto.PubKey
	hs          *pstore[*types.SignedHeader] // the node's P2P header store (survives restarts of the node)
	ds          *pstore[*types.Data]         // the node's P2P data store
	p2pStart    uint64                       // chain height when the store loops of the running process started
	prop        string                       // FNODE_PROP: report only the findings of this property ("" = all)
	lastInc     uint64                       // DA-included height after the previous op
	fromInc     uint64                       // ... when the last run / start began
	startInc    uint64                       // ... at the last (re)start
	obsH        map[uint64]bool              // ghost: the header of block k was in a DA height this node fetched successfully
	obsD        map[uint64]bool
	obsAt       map[string]map[uint64]bool // "h:<k>" / "d:<k>" -> DA heights at which it was observed
	gaveD       map[uint64]bool            // ghost, per process: the genuine data of block k was handed to the running node
	gaveJ       map[uint64]bool            // ghost, per process: a junk data item naming height k was handed to it
}

// report files a finding unless the check that runs the stream is about another property (FNODE is run by C02, C05
// and C07; known findings are listed per property)
func (w *World) report(sig, what string) {
	if w.prop != "" {
		c07 := strings.HasPrefix(sig, "C07/")
		if (w.prop == "C07") != c07 && !strings.Contains(sig, "/harness/") && !strings.HasPrefix(sig, "C13/") {
			return
		}
	}
	w.c.Report(sig, what)
}

// rep reports a violation; after a crash every finding is attributed to the crash point.
func (w *World) rep(sig, what string) {
	if w.cause != "" {
		i := strings.Index(sig, "/")
		sig = "C05/after-crash/" + w.cause + sig[i:]
	}
	w.report(sig, what)
}

func kindOf(d string) string {
	if i := strings.IndexByte(d, ':'); i > 0 {
		return d[:i]
	}
	return d
}

func short(b []byte) string {
	s := hx.Hex(b)
	if len(b) == 0 {
		return "-"
	}
	if len(s) > 8 {
		s = s[:8]
	}
	return s
}

func shortList(list []string) string {
	out := make([]string, 0, len(list))
	for _, s := range list {
		s = strings.ToLower(s)
		if len(s) > 8 {
			s = s[:8]
		}
		out = append(out, s)
	}
	sort.Strings(out)
	if len(out) == 0 {
		return "-"
	}
	return strings.Join(out, ",")
}

func nums(l []uint64) string {
	if len(l) == 0 {
		return "-"
	}
	p := make([]string, len(l))
	for i, x := range l {
		p[i] = fmt.Sprint(x)
	}
	return strings.Join(p, ",")
}

func (w *World) startLoops() {
	ctx, cancel := context.WithCancel(context.Background())
	lp := &loops{cancelR: cancel, retrDone: make(chan struct{}), errCh: make(chan error, 16)}
	m := w.full.M
	go func() { defer close(lp.retrDone); m.RetrieveLoop(ctx) }()
	w.lp = lp
	// the REAL P2P store loops; barrier: their cursors are initialised (with the chain height) before anything else
	// happens - while it lasts the stores report exactly that height, so the barrier polls hand nothing over
	h := w.full.Height()
	w.p2pStart = h
	w.hs.setVis(w.hs.vis, &h)
	w.ds.setVis(w.ds.vis, &h)
	w.hs.fetched, w.ds.fetched = map[uint64]bool{}, map[uint64]bool{}
	w.gaveD, w.gaveJ = map[uint64]bool{}, map[uint64]bool{}
	lp.hsDone, lp.dsDone = make(chan struct{}), make(chan struct{})
	go func() { defer close(lp.hsDone); m.HeaderStoreRetrieveLoop(ctx) }()
	go func() { defer close(lp.dsDone); m.DataStoreRetrieveLoop(ctx) }()
	w.pollStore(m.VerifHeaderStoreSignal, w.hs.nPolls, lp.hsDone)
	w.pollStore(m.VerifDataStoreSignal, w.ds.nPolls, lp.dsDone)
	w.hs.setVis(w.hs.vis, nil)
	w.ds.setVis(w.ds.vis, nil)
	w.startSync()
}

// pollStore: one poll of a store loop, and the certainty that it is over: the loop asks the store for its height
// exactly once, at the beginning of a poll; a second wake-up is queued once the first poll has begun, and when the
// store is asked again the first poll is over (the second one finds nothing new and leaves no wake-up behind)
func (w *World) pollStore(signal func() bool, polls func() int, done chan struct{}) bool {
	deadline := time.Now().Add(20 * time.Second)
	for i := 0; i < 2; i++ {
		n := polls()
		for !signal() {
			if time.Now().After(deadline) {
				w.report("C02/harness/store-loop-timeout", "a P2P store loop did not take a wake-up within 20 s")
				return false
			}
			time.Sleep(20 * time.Microsecond)
		}
		for polls() <= n {
			select {
			case <-done:
				w.report("C02/harness/store-loop-returned", "a P2P store loop returned")
				return false
			default:
			}
			if time.Now().After(deadline) {
				w.report("C02/harness/store-loop-timeout", "a P2P store loop did not poll within 20 s")
				return false
			}
			time.Sleep(20 * time.Microsecond)
		}
	}
	return true
}

func (w *World) startSync() {
	ctx, cancel := context.WithCancel(context.Background())
	lp, m := w.lp, w.full.M
	lp.cancelS, lp.syncDone = cancel, make(chan struct{})
	go func(d chan struct{}) { defer close(d); m.SyncLoop(ctx, lp.errCh) }(lp.syncDone)
}

func (w *World) wait(d chan struct{}) {
	select {
	case <-d:
	case <-time.After(5 * time.Second):
		w.c.Report("C13/stop/loop-did-not-return", "RetrieveLoop / SyncLoop still running 5 s after cancel")
	}
}

func (w *World) stopSync() {
	w.lp.cancelS()
	w.wait(w.lp.syncDone)
}

func (w *World) stopLoops() {
	if w.lp == nil {
		return
	}
	w.lp.cancelR()
	w.lp.cancelS()
	w.wait(w.lp.retrDone)
	w.wait(w.lp.syncDone)
	w.wait(w.lp.hsDone)
	w.wait(w.lp.dsDone)
	w.lp = nil
}

// waitScan: the retriever has finished its pass when the DA double has answered "from the future" (the loop then
// waits for the next signal) or ten attempts at one height have failed.  Everything the pass hands to the sync loop
// is handed over BEFORE the next height is asked for, hence before that last answer is logged.
func (w *World) waitScan() []string {
	deadline := time.Now().Add(30 * time.Second)
	for time.Now().Before(deadline) {
		log := w.da.Log()
		if n := len(log); n > w.logN {
			fails, cur, done := 0, "", false
			for i := w.logN; i < n; i++ {
				p := strings.SplitN(log[i], ":", 3)
				if p[0] != "ids" {
					continue
				}
				if p[1] != cur {
					cur, fails = p[1], 0
				}
				done = false
				switch {
				case p[2] == "future":
					done = true
				case p[2] == "errids":
					fails++
					done = fails >= 10
				case strings.HasPrefix(p[2], "errget"):
					var h uint64
					fmt.Sscan(p[1], &h)
					if len(w.da.Blobs[h]) > 0 {
						fails++
						// the attempt is over once the failing Get has been made
						done = fails >= 10 && i+1 < n && strings.HasPrefix(log[i+1], "get:")
					} else {
						fails = 0
					}
				default:
					fails = 0
				}
			}
			if done {
				out := log[w.logN:]
				w.logN = n
				return out
			}
		}
		time.Sleep(50 * time.Microsecond)
	}
	w.c.Report("C02/harness/scan-timeout", "RetrieveLoop did not come to rest within 30 s")
	log := w.da.Log()
	out := log[w.logN:]
	w.logN = len(log)
	return out
}

// settle: the sync loop has handled everything it was handed.  A no-effect sentinel header (height 0) is queued;
// once both channels are empty a second one is queued: when that has been taken, the event before it is finished.
func (w *World) settle() bool {
	m := w.full.M
	push := func() bool {
		select {
		case m.VerifHeaderInCh() <- block.NewHeaderEvent{Header: &types.SignedHeader{}, DAHeight: 0}:
			return true
		case <-w.lp.syncDone:
			return false
		}
	}
	if !push() {
		return false
	}
	deadline := time.Now().Add(20 * time.Second)
	for {
		select {
		case <-w.lp.syncDone:
			return false
		default:
		}
		if len(m.VerifHeaderInCh()) == 0 && len(m.VerifDataInCh()) == 0 {
			if !push() {
				return false
			}
			for len(m.VerifHeaderInCh()) != 0 {
				select {
				case <-w.lp.syncDone:
					return false
				default:
				}
				if time.Now().After(deadline) {
					w.c.Report("C02/harness/settle-timeout", "sync loop did not take the sentinel within 20 s")
					return true
				}
				time.Sleep(20 * time.Microsecond)
			}
			// the second sentinel is a no-op, but it must be finished too before the store is read
			if !push() {
				return false
			}
			for len(m.VerifHeaderInCh()) != 0 {
				select {
				case <-w.lp.syncDone:
					return false
				default:
				}
				if time.Now().After(deadline) {
					return true
				}
				time.Sleep(20 * time.Microsecond)
			}
			return true
		}
		if time.Now().After(deadline) {
			w.c.Report("C02/harness/settle-timeout", "sync loop did not drain its channels within 20 s")
			return true
		}
		time.Sleep(20 * time.Microsecond)
	}
}

func (w *World) blocks() string {
	e := w.full
	h := e.Height()
	var out []string
	for k := w.ih; k <= h+1; k++ {
		sh, _, err := e.Store.GetBlockData(context.Background(), k)
		if err != nil {
			continue
		}
		out = append(out, fmt.Sprintf("%d:%s", k, short(sh.Hash())))
	}
	if len(out) == 0 {
		return "-"
	}
	return strings.Join(out, ",")
}

// showHead: the block at the chain height without the metadata of its data (for an empty block the sync loop builds
// the data locally; its LastDataHash depends on whether the previous block had been applied when the header arrived)
func (w *World) showHead(h uint64) string {
	e := w.full
	ctx := context.Background()
	sh, d, err := e.Store.GetBlockData(ctx, h)
	if err != nil {
		return "none"
	}
	sig, _ := e.Store.GetSignature(ctx, h)
	var ssig []byte
	if sig != nil {
		ssig = *sig
	}
	txs := make([][]byte, len(d.Txs))
	for i := range d.Txs {
		txs[i] = d.Txs[i]
	}
	return bm.ShowSH(e.Pub, sh) + " txs=" + hx.HexList(txs) + " ssig=" + bm.SigClass(e.Pub, &sh.Header, ssig)
}

// dup: the proposer's chain holds two non-empty blocks with the same transaction list.  Then (since /repo c3c43a6: data is
// marked seen when its block is APPLIED) whether the later block's data is cached depends on whether the sync loop takes
// it from its data channel before or after the twin has been applied - the two event channels are served in arbitrary
// relative order, so height, state and writes at quiescence are schedule dependent (C02's order-independence needs
// DistinctCommitments).  In such scenarios both sides print schedule-INDEPENDENT facts only; the monitors keep judging.
func (w *World) dup() bool {
	if w.prod == nil {
		return false
	}
	seen := map[string]bool{}
	for k := w.ih; k <= w.prod.Height(); k++ {
		_, d, err := w.prod.Store.GetBlockData(context.Background(), k)
		if err != nil || len(d.Txs) == 0 {
			continue
		}
		txs := make([][]byte, len(d.Txs))
		for i := range d.Txs {
			txs[i] = d.Txs[i]
		}
		key := hx.HexList(txs)
		if seen[key] {
			return true
		}
		seen[key] = true
	}
	return false
}

// observeDup: alive, DA cursor, "every stored block up to the chain height is the proposer's", "DA-included <= chain height"
func (w *World) observeDup() string {
	e := w.full
	alive := 1
	if w.dead {
		alive = 0
	}
	ok := "ok"
	ctx := context.Background()
	for k := w.ih; k <= e.Height(); k++ {
		sh, _, err := e.Store.GetBlockData(ctx, k)
		psh, _, perr := w.prod.Store.GetBlockData(ctx, k)
		if err != nil || perr != nil || k > w.prod.Height() || !bytes.Equal(sh.Hash(), psh.Hash()) {
			ok = "bad"
		}
	}
	incok := 0
	if e.M.GetDAIncludedHeight() <= e.Height() {
		incok = 1
	}
	return fmt.Sprintf("dup alive=%d cursor=%d blocks=%s incok=%d", alive, e.M.VerifDAHeight(), ok, incok)
}

func (w *World) observe() string {
	if w.dup() {
		return w.observeDup()
	}
	e := w.full
	h := e.Height()
	alive := 1
	if w.dead {
		alive = 0
	}
	st, err := e.Store.GetState(context.Background())
	disk := "none"
	if err == nil {
		disk = bm.ShowState(st)
	}
	return fmt.Sprintf("height=%d cursor=%d disk=%s mem=%s alive=%d w=%s blocks=%s head=[%s] %s",
		h, e.M.VerifDAHeight(), disk, bm.ShowState(e.M.GetLastState()), alive, bm.DescribeWrites(e.DS, w.from), w.blocks(), w.showHead(h), w.showInc())
}

func (w *World) meta(k string) uint64 {
	b, err := w.full.Store.GetMetadata(context.Background(), k)
	if err != nil || len(b) != 8 {
		return 0
	}
	return binary.LittleEndian.Uint64(b)
}

// showInc: DA-included height (memory / persisted), SetFinal calls since the last start, recorded DA heights
func (w *World) showInc() string {
	e := w.full
	inc := e.M.GetDAIncludedHeight()
	var fs, rhb []string
	for _, f := range e.Exec.Finals {
		fs = append(fs, fmt.Sprint(f))
	}
	for k := w.ih; k <= inc; k++ {
		rhb = append(rhb, fmt.Sprintf("%d:%d:%d", k, w.meta(fmt.Sprintf("rhb/%d/h", k)), w.meta(fmt.Sprintf("rhb/%d/d", k))))
	}
	j := func(l []string) string {
		if len(l) == 0 {
			return "-"
		}
		return strings.Join(l, ",")
	}
	return fmt.Sprintf("dainc=%d/%d fin=%s rhb=%s", inc, w.meta("d"), j(fs), j(rhb))
}

// runIncluder lets the REAL, unmodified DAIncluderLoop goroutine run until it cannot advance: it is started only
// now (both other loops are quiescent, so its writes follow theirs), then three signals are queued one after the
// other; the channel holds one signal, so the third one fits only when the second has been taken, i.e. when a
// pass that began after quiescence has finished.
func (w *World) runIncluder() {
	m := w.full.M
	ctx, cancel := context.WithCancel(context.Background())
	errCh := make(chan error, 4)
	done := make(chan struct{})
	go func() { defer close(done); m.DAIncluderLoop(ctx, errCh) }()
	deadline := time.Now().Add(20 * time.Second)
	ok := true
	for i := 0; i < 3 && ok; i++ {
		for !m.VerifDAIncluderSignal() {
			select {
			case <-done:
				ok = false
			default:
			}
			if !ok || time.Now().After(deadline) {
				ok = false
				break
			}
			time.Sleep(20 * time.Microsecond)
		}
	}
	if !ok {
		select {
		case err := <-errCh:
			w.report("C07/includer-error", err.Error())
		default:
			w.report("C07/harness/includer-timeout", "DAIncluderLoop did not take the signals within 20 s")
		}
	}
	cancel()
	select {
	case <-done:
	case <-time.After(5 * time.Second):
		w.report("C13/stop/da-includer-loop-did-not-return", "DAIncluderLoop still running 5 s after cancel")
	}
}

func (w *World) startFull(img map[string][]byte, root string, kind string) string {
	o := bm.Options{InitialHeight: w.ih, GenesisTime: w.gt, Aggregator: false, Image: img, Root: root, DA: w.da, DAStart: w.dastart,
		DABlockTime: idle, BlockTime: idle, HeaderStore: w.hs, DataStore: w.ds}
	old := w.full
	env, err := bm.New(o)
	if old != nil && root == "" {
		old.Cleanup()
	}
	w.full = env
	w.from = 0
	w.startKind = kind
	if err != nil {
		w.dead = true
		return "start err"
	}
	w.dead = false
	w.fromH = env.Height()
	w.startCursor = env.M.VerifDAHeight()
	w.logN = len(w.da.Log())
	for i := range w.parts {
		w.parts[i].behind = false // a restarted node is expected to find again whatever the DA layer holds
	}
	w.startLoops()
	return "start " + w.observe()
}

// afterStart: the DA-included height across a (re)start
func (w *World) afterStart(verb string, floor uint64) {
	inc := w.full.M.GetDAIncludedHeight()
	if inc < floor {
		w.report("C07/da-included/decreased-across-restart", fmt.Sprintf("%d -> %d after %s", floor, inc, verb))
	}
	if inc > w.full.Height() {
		w.report("C07/da-included/above-chain-height", fmt.Sprintf("%d > %d after %s", inc, w.full.Height(), verb))
	}
	w.lastInc, w.fromInc, w.startInc = inc, inc, inc
}

func (w *World) cleanup() {
	w.stopLoops()
	if w.full != nil {
		w.full.Options.Root = ""
		w.full.Cleanup()
		w.full = nil
	}
	if w.prod != nil {
		w.prod.Cleanup()
		w.prod = nil
	}
}

func sign(k crypto.PrivKey, pl []byte) []byte {
	s, err := k.Sign(pl)
	if err != nil {
		panic(err)
	}
	return s
}

// item builds the blob named by a token of a `place` op; ident is what the observation line shows for it
func (w *World) item(tok string) (blob []byte, ident string, genuine *part, ok bool) {
	blk := func(s string) (*types.SignedHeader, *types.Data, uint64, bool) {
		var k uint64
		if _, err := fmt.Sscan(s, &k); err != nil || fmt.Sprint(k) != s {
			return nil, nil, 0, false
		}
		if k > w.prod.Height() {
			return nil, nil, 0, false
		}
		sh, d, err := w.prod.Store.GetBlockData(context.Background(), k)
		if err != nil {
			return nil, nil, 0, false
		}
		return sh, d, k, true
	}
	gaddr := types.KeyAddress(w.prod.Pub)
	signedData := func(d *types.Data, priv crypto.PrivKey, pub crypto.PubKey) *types.SignedData {
		pl, _ := d.MarshalBinary()
		return &types.SignedData{Data: *d, Signature: sign(priv, pl), Signer: types.Signer{PubKey: pub, Address: gaddr}}
	}
	switch {
	case tok == "E":
		return []byte{}, "-", nil, true
	case strings.HasPrefix(tok, "J"):
		b, err := hx.UnHex(tok[1:])
		if err != nil || len(b) == 0 {
			return nil, "", nil, false
		}
		return b, short(b), nil, true
	case strings.HasPrefix(tok, "FH"):
		sh, _, _, ok := blk(tok[2:])
		if !ok {
			return nil, "", nil, false
		}
		f := *sh
		f.Header.AppHash = []byte("forged")
		f.Signer = types.Signer{PubKey: w.advPub, Address: gaddr}
		pl, _ := f.Header.MarshalBinary()
		f.Signature = sign(w.advPriv, pl)
		b, _ := f.MarshalBinary()
		return b, short(f.Hash()), nil, true
	case strings.HasPrefix(tok, "FD"):
		_, d, _, ok := blk(tok[2:])
		if !ok {
			return nil, "", nil, false
		}
		fd := types.Data{Metadata: d.Metadata, Txs: types.Txs{types.Tx("forged")}}
		b, _ := signedData(&fd, w.advPriv, w.advPub).MarshalBinary()
		return b, short(fd.DACommitment()), nil, true
	case strings.HasPrefix(tok, "XH"):
		sh, _, _, ok := blk(tok[2:])
		if !ok {
			return nil, "", nil, false
		}
		x := *sh
		x.Signature = append([]byte(nil), sh.Signature...)
		x.Signature[0] ^= 0xff
		b, _ := x.MarshalBinary()
		return b, short(x.Hash()), nil, true
	case strings.HasPrefix(tok, "XD"):
		_, d, _, ok := blk(tok[2:])
		if !ok {
			return nil, "", nil, false
		}
		sd := signedData(d, w.prod.Priv, w.prod.Pub)
		sd.Signature[0] ^= 0xff
		b, _ := sd.MarshalBinary()
		return b, short(d.DACommitment()), nil, true
	case strings.HasPrefix(tok, "H"):
		sh, _, k, ok := blk(tok[1:])
		if !ok {
			return nil, "", nil, false
		}
		b, _ := sh.MarshalBinary()
		return b, short(sh.Hash()), &part{k: k}, true
	case strings.HasPrefix(tok, "D"):
		_, d, k, ok := blk(tok[1:])
		if !ok {
			return nil, "", nil, false
		}
		b, _ := signedData(d, w.prod.Priv, w.prod.Pub).MarshalBinary()
		var g *part
		if len(d.Txs) > 0 {
			g = &part{k: k, data: true}
		}
		return b, short(d.DACommitment()), g, true
	}
	return nil, "", nil, false
}

// oracles computes, with the real crypto, what the model takes as parameters of a blob (all keys here are Ed25519)
func oracles(b []byte) (keyok, hsig, dsig bool) {
	var sh types.SignedHeader
	if err := sh.UnmarshalBinary(b); err == nil && sh.Signer.PubKey != nil {
		keyok = true
		if pl, err := sh.Header.MarshalBinary(); err == nil {
			hsig, _ = sh.Signer.PubKey.Verify(pl, sh.Signature)
		}
	}
	var sd types.SignedData
	if err := sd.UnmarshalBinary(b); err == nil && sd.Signer.PubKey != nil {
		keyok = true
		if pl, err := sd.Data.MarshalBinary(); err == nil {
			dsig, _ = sd.Signer.PubKey.Verify(pl, sd.Signature)
		}
	}
	return
}

func b01(b bool) string {
	if b {
		return "1"
	}
	return "0"
}

func Run(c *hx.Ctx) {
	w := &World{c: c, prop: os.Getenv("FNODE_PROP")}
	w.advPriv, w.advPub = bm.DetKey(2)
	defer w.cleanup()
	for {
		o, ok := c.Next()
		if !ok {
			return
		}
		c.Hit(o.Verb)
		switch o.Verb {
		case "reset":
			w.cleanup()
			w.ih, _ = o.U64("ih")
			w.dastart, _ = o.U64("dastart")
			w.gt = time.Unix(0, o.I64("gt"))
			w.da = hx.NewDA()
			w.hs = &pstore[*types.SignedHeader]{base: w.ih - 1, vis: w.ih - 1, fetched: map[uint64]bool{}}
			w.ds = &pstore[*types.Data]{base: w.ih - 1, vis: w.ih - 1, fetched: map[uint64]bool{}}
			w.parts, w.cause, w.lastH = nil, "", 0
			w.obsH, w.obsD, w.obsAt = map[uint64]bool{}, map[uint64]bool{}, map[string]map[uint64]bool{}
			p, err := bm.New(bm.Options{InitialHeight: w.ih, GenesisTime: w.gt, Aggregator: true})
			if err != nil {
				c.Emit("reset err")
				continue
			}
			w.prod = p
			c.Emit("%s", w.startFull(nil, "", "fresh"))
			if !w.dead {
				w.lastH = w.full.Height()
				w.lastInc = w.full.M.GetDAIncludedHeight()
				w.fromInc, w.startInc = w.lastInc, w.lastInc
			}
		case "produce":
			if w.prod == nil {
				c.Emit("dead")
				continue
			}
			w.prod.Seq.Next = &hx.SeqResp{Txs: o.List("txs"), Ts: time.Unix(0, o.I64("ts"))}
			err := w.prod.M.VerifPublishBlock(context.Background())
			cls := "nil"
			if err != nil {
				cls = "err"
			}
			h := w.prod.Height()
			c.Emit("produced out=%s height=%d head=[%s]", cls, h, w.prod.ShowBlock(h))
		case "place":
			if w.prod == nil {
				c.Emit("dead")
				continue
			}
			da, _ := o.U64("da")
			var shown []string
			if s := o.Str("items"); s != "" && s != "-" {
				for _, tok := range strings.Split(s, ",") {
					b, ident, g, ok := w.item(tok)
					if !ok {
						shown = append(shown, tok+":none")
						continue
					}
					k, hs, ds := oracles(b)
					shown = append(shown, fmt.Sprintf("%s:%s:%s%s%s", tok, ident, b01(k), b01(hs), b01(ds)))
					w.da.Place(da, b)
					if g != nil {
						g.da = da
						if w.full != nil && w.full.M != nil && da < w.full.M.VerifDAHeight() {
							g.behind = true
						}
						w.parts = append(w.parts, *g)
					}
				}
			}
			sh := "-"
			if len(shown) > 0 {
				sh = strings.Join(shown, ",")
			}
			c.Emit("placed da=%d head=%d %s", da, w.da.Height, sh)
		case "head":
			if w.da == nil {
				c.Emit("dead")
				continue
			}
			if n, _ := o.U64("n"); n > w.da.Height {
				w.da.Height = n
			}
			c.Emit("head=%d", w.da.Height)
		case "script":
			if w.da == nil {
				c.Emit("dead")
				continue
			}
			da, _ := o.U64("da")
			s := o.Str("outcomes")
			bad := false
			var l []string
			if s != "" && s != "-" {
				l = strings.Split(s, ",")
				for _, t := range l {
					switch {
					case t == "ok", t == "future", t == "notfound", t == "errids", t == "errget":
					case strings.HasPrefix(t, "errget:"):
						var n uint64
						if _, err := fmt.Sscan(t[7:], &n); err != nil || fmt.Sprint(n) != t[7:] {
							bad = true
						}
					default:
						bad = true
					}
				}
			}
			if bad {
				c.Emit("bad-op")
				continue
			}
			if len(l) > 0 {
				w.da.Fetch[da] = l
			}
			c.Emit("ok")
		case "run":
			if w.full == nil || w.full.M == nil || w.dead {
				c.Emit("dead")
				continue
			}
			w.from = w.full.DS.NumWrites()
			w.fromH = w.full.Height()
			w.fromInc = w.full.M.GetDAIncludedHeight()
			w.full.M.VerifRetrieveSignal()
			log := w.waitScan()
			if !w.settle() {
				w.dead = true
				w.rep("C02/loop-terminated", "SyncLoop returned while syncing from the DA layer")
			}
			w.noteObserved(log)
			w.runIncluder()
			c.Emit("run %s", w.observe())
			w.monitorRun(log)
			w.monitorInclusion(true)
		case "runinc":
			// `runinc at=k`: a run in which the DA includer makes ONE pass at a write boundary INSIDE the sync loop's
			// block applications: the retriever scans while the sync loop is paused (so every mark of the scan is set:
			// the point is deterministic), the sync loop is started again, and right before its k-th durable write
			// (k = 0: before SaveBlockData of the first block; 1: after it, before the state; 2: before SetHeight; ...)
			// the body of DAIncluderLoop runs synchronously (VerifDAIncluderOnce).  Then everything runs until quiescent.
			if w.full == nil || w.full.M == nil || w.dead {
				c.Emit("dead")
				continue
			}
			c.Emit("runinc %s", w.runInc(o.Int("at")))
		case "p2p":
			// parts of the proposer's chain handed over by the P2P store loops (events carry the current DA cursor)
			if w.full == nil || w.full.M == nil || w.dead || w.prod == nil {
				c.Emit("dead")
				continue
			}
			w.from = w.full.DS.NumWrites()
			w.fromH = w.full.Height()
			w.fromInc = w.full.M.GetDAIncludedHeight()
			var shown []string
			if s := o.Str("items"); s != "" && s != "-" {
				for _, tok := range strings.Split(s, ",") {
					if !w.p2p(tok) {
						shown = append(shown, tok+":none")
					} else {
						shown = append(shown, tok)
					}
				}
			}
			if !w.dead {
				w.runIncluder()
			}
			sh := "-"
			if len(shown) > 0 {
				sh = strings.Join(shown, ",")
			}
			c.Emit("p2p %s %s", sh, w.observe())
			w.monitorP2P()
			w.monitorInclusion(false)
		case "p2pstore":
			// items arrive in the node's P2P stores; unless poll=0 the REAL HeaderStoreRetrieveLoop and
			// DataStoreRetrieveLoop poll once each (order=hd|dh), everything runs until quiescent
			if w.prod == nil || w.hs == nil {
				c.Emit("dead")
				continue
			}
			var shown []string
			if s := o.Str("items"); s != "" && s != "-" {
				for _, tok := range strings.Split(s, ",") {
					if w.p2pItem(tok) {
						shown = append(shown, tok)
					} else {
						shown = append(shown, tok+":none")
					}
				}
			}
			sh := "-"
			if len(shown) > 0 {
				sh = strings.Join(shown, ",")
			}
			if o.Str("poll") == "0" {
				c.Emit("p2padd %s hs=%d ds=%d", sh, w.hs.top(), w.ds.top())
				continue
			}
			if w.full == nil || w.full.M == nil || w.dead {
				c.Emit("dead")
				continue
			}
			w.from = w.full.DS.NumWrites()
			w.fromH = w.full.Height()
			w.fromInc = w.full.M.GetDAIncludedHeight()
			m := w.full.M
			w.hs.setVis(w.hs.top(), nil)
			w.ds.setVis(w.ds.top(), nil)
			pollH := func() bool { return w.pollStore(m.VerifHeaderStoreSignal, w.hs.nPolls, w.lp.hsDone) }
			pollD := func() bool { return w.pollStore(m.VerifDataStoreSignal, w.ds.nPolls, w.lp.dsDone) }
			first, second := pollH, pollD
			if o.Str("order") == "dh" {
				first, second = pollD, pollH
			}
			ok := first() && w.settle() && second() && w.settle()
			if !ok {
				select {
				case <-w.lp.syncDone:
					w.dead = true
					w.rep("C02/loop-terminated", "SyncLoop returned while syncing from the P2P stores")
				default:
				}
			}
			if !w.dead {
				w.runIncluder()
			}
			w.noteFetched()
			c.Emit("p2pstore %s hs=%d ds=%d %s", sh, w.hs.top(), w.ds.top(), w.observe())
			w.monitorP2P()
			w.monitorStores()
			w.monitorInclusion(false)
		case "restart", "crash", "stopheld":
			if w.full == nil || w.full.M == nil || w.dead {
				c.Emit("dead")
				continue
			}
			if o.Verb == "stopheld" && !w.held(o.Str("order") != "dh", o.Int("hold")) {
				w.dead = true
				w.rep("C02/loop-terminated", "SyncLoop returned while syncing from the DA layer")
				c.Emit("start err")
				continue
			}
			w.stopLoops()
			before := w.full.Height()
			incFloor := w.fromInc // a crash image holds every write made before the run that was cut
			if o.Verb != "crash" {
				incFloor = w.full.M.GetDAIncludedHeight()
			}
			n := w.full.DS.NumWrites()
			keep := n
			root := ""
			kind := "restart"
			if o.Verb != "crash" {
				root = w.full.Root
				if err := w.full.M.SaveCache(); err != nil {
					w.report("C02/save-cache-fails", err.Error())
				}
			} else {
				kind = "crash"
				k := o.Int("keep")
				if w.from+k < n {
					keep = w.from + k
					last := "start"
					if keep > w.from {
						last = kindOf(bm.DescribeWS(w.full.DS.Log[keep-1]))
					}
					w.cause = "crash-between-" + last + "-and-" + kindOf(bm.DescribeWS(w.full.DS.Log[keep]))
				}
			}
			c.Hit(fmt.Sprintf("%s-keep-%d-of-%d", o.Verb, keep-w.from, n-w.from))
			img := w.full.DS.ImageAt(keep)
			floor := w.fromH // the image contains every write made before the run that was cut
			if o.Verb != "crash" {
				floor = before
			}
			c.Emit("%s", w.startFull(img, root, kind))
			if root != "" && w.full != nil {
				w.full.Options.Root = ""
			}
			if w.dead {
				w.rep("C05/restart-fails", "NewManager failed after "+o.Verb)
				continue
			}
			if h := w.full.Height(); h < floor {
				w.rep("C02/height/decreased-across-restart", fmt.Sprintf("%d -> %d after %s", floor, h, o.Verb))
			}
			w.lastH = w.full.Height()
			w.monitorStore(o.Verb)
			w.afterStart(o.Verb, incFloor)
		case "show":
			if w.full == nil || w.full.M == nil || w.dead {
				c.Emit("dead")
				continue
			}
			m := w.full.M
			if w.dup() {
				c.Emit("show dup cursor=%d", m.VerifDAHeight())
				continue
			}
			c.Emit("show height=%d cursor=%d hc=%s dc=%s seenH=%s seenD=%s hm=%s dm=%s", w.full.Height(), m.VerifDAHeight(),
				nums(m.HeaderCache().VerifItemHeights()), nums(m.DataCache().VerifItemHeights()),
				shortList(m.HeaderCache().VerifSeen()), shortList(m.DataCache().VerifSeen()),
				marks(m.HeaderCache().VerifDAIncluded()), marks(m.DataCache().VerifDAIncluded()))
		default:
			c.Emit("bad-op")
		}
	}
}

// held: one scan whose events the sync loop serves in a chosen (legal) schedule of its two channels: the sync loop
// is paused while the retriever scans, the events are taken out of the channels and handed to the running sync loop
// again - one channel completely, then the other one except its last `hold` events, which are "still queued" when
// the node is stopped.
func (w *World) held(hdrFirst bool, hold int) bool {
	m := w.full.M
	w.stopSync()
	w.from = w.full.DS.NumWrites()
	w.fromH = w.full.Height()
	w.fromInc = m.GetDAIncludedHeight()
	m.VerifRetrieveSignal()
	log := w.waitScan()
	w.noteNotFound(log)
	var hs []block.NewHeaderEvent
	var ds []block.NewDataEvent
	for len(m.VerifHeaderInCh()) > 0 {
		hs = append(hs, <-m.VerifHeaderInCh())
	}
	for len(m.VerifDataInCh()) > 0 {
		ds = append(ds, <-m.VerifDataInCh())
	}
	w.startSync()
	if hdrFirst {
		if n := len(ds) - hold; n < 0 {
			ds = nil
		} else {
			ds = ds[:n]
		}
	} else {
		if n := len(hs) - hold; n < 0 {
			hs = nil
		} else {
			hs = hs[:n]
		}
	}
	pushH := func() bool {
		for _, e := range hs {
			m.VerifHeaderInCh() <- e
		}
		return w.settle()
	}
	pushD := func() bool {
		for _, e := range ds {
			m.VerifDataInCh() <- e
		}
		return w.settle()
	}
	ok := false
	if hdrFirst {
		ok = pushH() && pushD()
	} else {
		ok = pushD() && pushH()
	}
	if ok {
		w.noteObserved(log)
		w.runIncluder()
		w.monitorInclusion(false)
	}
	return ok
}

// runInc: see op `runinc`.  Monitor (independent of the model): right after the includer pass at the boundary the
// DA-included height (memory and persisted) is at most the STORE height of that instant, and SetFinal was called
// for applied heights only.
func (w *World) runInc(at int) string {
	m, e := w.full.M, w.full
	ctx := context.Background()
	w.stopSync()
	w.from = e.DS.NumWrites()
	w.fromH = e.Height()
	w.fromInc = m.GetDAIncludedHeight()
	m.VerifRetrieveSignal()
	log := w.waitScan()
	type sample struct {
		fired        bool
		h, inc, disk uint64
		fin          []uint64
		nInc         int
		err          error
	}
	var sm sample
	var mu sync.Mutex
	target := w.from + at
	if at < 0 {
		target = -1
	}
	e.DS.OnWrite = func(n int) {
		mu.Lock()
		if sm.fired || n != target {
			mu.Unlock()
			return
		}
		sm.fired = true
		mu.Unlock()
		nf := len(e.Exec.Finals)
		sm.err = m.VerifDAIncluderOnce(ctx)
		sm.h, _ = e.Store.Height(ctx)
		sm.inc = m.GetDAIncludedHeight()
		sm.disk = w.meta("d")
		sm.fin = append([]uint64(nil), e.Exec.Finals[nf:]...)
		sm.nInc = e.DS.NumWrites() - n
	}
	w.startSync()
	ok := w.settle()
	e.DS.OnWrite = nil
	if !ok {
		w.dead = true
		w.rep("C02/loop-terminated", "SyncLoop returned while syncing from the DA layer")
	}
	w.noteObserved(log)
	mid := "mid=-"
	if sm.fired {
		where := "?"
		if i := target + sm.nInc; i < e.DS.NumWrites() {
			where = kindOf(bm.DescribeWS(e.DS.Log[i]))
		}
		last := "start"
		if at > 0 {
			last = kindOf(bm.DescribeWS(e.DS.Log[target-1]))
		}
		where = "includer-pass-between-" + last + "-and-" + where
		if sm.err != nil {
			w.report("C07/includer-error", sm.err.Error())
		}
		if sm.inc > sm.h || sm.disk > sm.h {
			w.report("C07/da-included/exceeds-chain-height/"+where, fmt.Sprintf("DA-included height %d (persisted %d) while the store height is %d", sm.inc, sm.disk, sm.h))
		}
		for _, f := range sm.fin {
			if f > sm.h {
				w.report("C07/finalize/unapplied-height/"+where, fmt.Sprintf("SetFinal(%d) while the store height is %d", f, sm.h))
				break
			}
		}
		mid = fmt.Sprintf("mid=%d/%d/%d/%s", sm.h, sm.inc, sm.disk, nums(sm.fin))
	}
	if !w.dead {
		w.runIncluder()
	}
	out := w.observe()
	if !w.dup() {
		out = mid + " " + out
	}
	w.monitorRun(log)
	w.monitorInclusion(true)
	return out
}

// a height the DA layer answered "not found" for was passed without its blobs
func (w *World) noteNotFound(log []string) {
	for _, l := range log {
		p := strings.SplitN(l, ":", 3)
		if p[0] == "ids" && p[2] == "notfound" {
			var a uint64
			fmt.Sscan(p[1], &a)
			for i := range w.parts {
				if w.parts[i].da == a {
					w.parts[i].behind = true
				}
			}
		}
	}
}

// p2pItem appends the item a token names to the node's P2P header / data store
func (w *World) p2pItem(tok string) bool {
	kind := ""
	for _, p := range []string{"FH", "XH", "JD", "H", "D"} {
		if strings.HasPrefix(tok, p) {
			kind = p
			break
		}
	}
	if kind == "" {
		return false
	}
	var k uint64
	rest := tok[len(kind):]
	if _, err := fmt.Sscan(rest, &k); err != nil || fmt.Sprint(k) != rest || k > w.prod.Height() {
		return false
	}
	sh, d, err := w.prod.Store.GetBlockData(context.Background(), k)
	if err != nil {
		return false
	}
	gaddr := types.KeyAddress(w.prod.Pub)
	switch kind {
	case "H":
		w.hs.add(sh, tok)
	case "FH":
		f := *sh
		f.Header.AppHash = []byte("forged")
		f.Signer = types.Signer{PubKey: w.advPub, Address: gaddr}
		pl, _ := f.Header.MarshalBinary()
		f.Signature = sign(w.advPriv, pl)
		w.hs.add(&f, tok)
	case "XH":
		x := *sh
		x.Signature = append([]byte(nil), sh.Signature...)
		x.Signature[0] ^= 0xff
		w.hs.add(&x, tok)
	case "D":
		w.ds.add(d, tok)
	case "JD":
		md := *d.Metadata
		w.ds.add(&types.Data{Metadata: &md, Txs: types.Txs{types.Tx("junk" + rest)}}, tok)
	}
	return true
}

// monitorStores (C02, P2P stores only): after a poll of both store loops at quiescence, every item at a store height
// above the chain height the running process started with has been handed to the sync loop; so with the header and
// (non-empty) data of every block up to h among them, the node holds block h.
func (w *World) monitorStores() {
	if w.dead {
		return
	}
	e := w.full
	h := e.Height()
	has := func(p interface {
		top() uint64
	}, tags []string, base uint64, want string) bool {
		for i, t := range tags {
			if pos := base + uint64(i) + 1; t == want && pos > w.p2pStart {
				return true
			}
		}
		return false
	}
	hstar := h
	for k := h + 1; k <= w.prod.Height(); k++ {
		if !has(w.hs, w.hs.tags, w.hs.base, fmt.Sprintf("H%d", k)) {
			break
		}
		if !w.isEmptyBlock(k) && !has(w.ds, w.ds.tags, w.ds.base, fmt.Sprintf("D%d", k)) {
			break
		}
		hstar = k
	}
	if h >= hstar {
		return
	}
	ctx := context.Background()
	cause := "other"
	never := func(fetched map[uint64]bool, top uint64) bool {
		for p := w.p2pStart + 1; p <= top; p++ {
			if !fetched[p] {
				return true
			}
		}
		return false
	}
	_ = ctx
	if never(w.hs.fetched, w.hs.top()) || never(w.ds.fetched, w.ds.top()) {
		cause = "heights-never-handed-over"
	} else if known := w.knownStall(h, w.da.Height); known != "" {
		// a recorded finding - named only when the node's own caches show that cause
		w.rep(known, fmt.Sprintf("height %d: the genuine data is marked seen and is not what the data cache holds there", h+1))
		return
	}
	w.rep("C02/converge/p2p-stores-only/"+cause,
		fmt.Sprintf("the node's P2P stores hold (above the height %d it started with) header and data of every block up to %d, both store loops have polled (header store height %d, data store height %d) and everything is quiescent, but the node is at %d",
			w.p2pStart, hstar, w.hs.top(), w.ds.top(), h))
}

func marks(m map[string]uint64) string {
	var out []string
	for k, v := range m {
		k = strings.ToLower(k)
		if len(k) > 8 {
			k = k[:8]
		}
		out = append(out, fmt.Sprintf("%s:%d", k, v))
	}
	sort.Strings(out)
	if len(out) == 0 {
		return "-"
	}
	return strings.Join(out, ",")
}

// p2p hands one genuine part to the sync loop the way the P2P store loops do and waits until it has been handled
func (w *World) p2p(tok string) bool {
	if len(tok) < 2 || (tok[0] != 'H' && tok[0] != 'D') {
		return false
	}
	var k uint64
	if _, err := fmt.Sscan(tok[1:], &k); err != nil || fmt.Sprint(k) != tok[1:] || k > w.prod.Height() {
		return false
	}
	sh, d, err := w.prod.Store.GetBlockData(context.Background(), k)
	if err != nil {
		return false
	}
	if w.dead {
		return true
	}
	m := w.full.M
	cur := m.VerifDAHeight()
	if tok[0] == 'H' {
		m.VerifHeaderInCh() <- block.NewHeaderEvent{Header: sh, DAHeight: cur}
	} else {
		m.VerifDataInCh() <- block.NewDataEvent{Data: d, DAHeight: cur}
		if len(d.Txs) > 0 {
			w.gaveD[k] = true
		}
	}
	if !w.settle() {
		w.dead = true
		w.rep("C02/loop-terminated", "SyncLoop returned while handling "+tok+" from P2P")
	}
	return true
}

// noteObserved: which genuine parts were in a DA height this node fetched successfully in the pass just finished
func (w *World) noteObserved(log []string) {
	for _, l := range log {
		p := strings.SplitN(l, ":", 3)
		if p[0] != "ids" {
			continue
		}
		var a uint64
		fmt.Sscan(p[1], &a)
		okFetch := p[2] == "ok" || (strings.HasPrefix(p[2], "errget") && len(w.da.Blobs[a]) == 0)
		if !okFetch {
			continue
		}
		for _, pt := range w.parts {
			if pt.da != a {
				continue
			}
			key := fmt.Sprintf("h:%d", pt.k)
			if pt.data {
				key = fmt.Sprintf("d:%d", pt.k)
				w.obsD[pt.k] = true
				w.gaveD[pt.k] = true
			} else {
				w.obsH[pt.k] = true
			}
			if w.obsAt[key] == nil {
				w.obsAt[key] = map[uint64]bool{}
			}
			w.obsAt[key][a] = true
		}
	}
}

// ---------------------------------------------------------------- monitors (independent of the model)

// monitorP2P: what the node applied from P2P is the proposer's chain
func (w *World) monitorP2P() {
	h := w.full.Height()
	if h < w.lastH {
		w.rep("C02/height/decreased", fmt.Sprintf("%d -> %d", w.lastH, h))
	}
	w.lastH = h
	w.monitorStore("p2p")
}

// monitorInclusion: the full-node clauses of C07.  The DA-included height never decreases, stays at or below the chain
// height, is persisted, advances one height at a time with SetFinal called for exactly those heights in order; a
// height is reported only after its header and (non-empty) data were OBSERVED on the DA layer by this node, the
// recorded DA heights are heights where they were observed; and (eventually) once the node has scanned both parts
// of every block up to h and has applied those blocks, it reports h.
func (w *World) monitorInclusion(scanned bool) {
	e := w.full
	ctx := context.Background()
	inc := e.M.GetDAIncludedHeight()
	if inc < w.lastInc {
		w.report("C07/da-included/decreased", fmt.Sprintf("%d -> %d", w.lastInc, inc))
	}
	if inc > e.Height() {
		w.report("C07/da-included/above-chain-height", fmt.Sprintf("%d > %d", inc, e.Height()))
	}
	if inc != w.meta("d") && inc+1 != w.ih {
		w.report("C07/da-included/not-persisted", fmt.Sprintf("mem %d disk %d", inc, w.meta("d")))
	}
	// finalize calls since the last start: consecutive, ending at the reported height
	fin := e.Exec.Finals
	exp := w.startInc
	for _, f := range fin {
		if f != exp+1 {
			w.report("C07/finalize/out-of-order-or-gap", fmt.Sprintf("SetFinal(%d) after %d", f, exp))
		}
		exp = f
	}
	if exp != inc {
		w.report("C07/finalize/does-not-match-reported-height", fmt.Sprintf("finalized up to %d, reported %d", exp, inc))
	}
	// the data marks are keyed by the commitment, which two blocks with the same transaction list share: the suffix is
	// given only when that explains the violation - ANOTHER block with the same commitment had its signed data in a DA
	// height this node fetched (at = 0), resp. in exactly the recorded DA height (at != 0)
	shared := func(k uint64, d *types.Data, exact bool, at uint64) string {
		for j := w.ih; j <= w.prod.Height(); j++ {
			if _, dj, err := w.prod.Store.GetBlockData(ctx, j); err == nil && j != k && len(dj.Txs) > 0 && bytes.Equal(dj.DACommitment(), d.DACommitment()) {
				obs := w.obsAt[fmt.Sprintf("d:%d", j)]
				if (!exact && len(obs) > 0) || (exact && obs[at]) {
					return "/commitment-shared-by-two-blocks"
				}
			}
		}
		return ""
	}
	for k := w.lastInc + 1; k <= inc; k++ {
		if k < w.ih {
			continue
		}
		_, d, err := e.Store.GetBlockData(ctx, k)
		if err != nil {
			w.report("C07/sound/block-missing", fmt.Sprintf("height %d", k))
			continue
		}
		if !w.obsH[k] {
			w.report("C07/sound/header-not-on-da", fmt.Sprintf("height %d reported DA-included, its header was never in a DA height this node fetched", k))
		} else if !w.obsAt[fmt.Sprintf("h:%d", k)][w.meta(fmt.Sprintf("rhb/%d/h", k))] {
			w.report("C07/recorded-da-height/header", fmt.Sprintf("height %d recorded %d", k, w.meta(fmt.Sprintf("rhb/%d/h", k))))
		}
		if len(d.Txs) > 0 {
			rd := w.meta(fmt.Sprintf("rhb/%d/d", k))
			if !w.obsD[k] {
				w.report("C07/sound/data-not-on-da"+shared(k, d, false, 0), fmt.Sprintf("height %d reported DA-included, its data was never in a DA height this node fetched", k))
			} else if !w.obsAt[fmt.Sprintf("d:%d", k)][rd] {
				w.report("C07/recorded-da-height/data"+shared(k, d, true, rd), fmt.Sprintf("height %d recorded %d", k, rd))
			}
		} else if w.meta(fmt.Sprintf("rhb/%d/d", k)) != w.meta(fmt.Sprintf("rhb/%d/h", k)) {
			w.report("C07/recorded-da-height/empty-block-data-differs-from-header", fmt.Sprintf("height %d", k))
		}
	}
	w.lastInc = inc
	if !scanned || w.dead {
		return
	}
	// eventually
	head := w.da.Height
	for _, s := range w.da.Fetch {
		if len(s) > 0 {
			return
		}
	}
	if e.M.VerifDAHeight() != head {
		return
	}
	all := inc
	first := inc + 1
	if first < w.ih {
		first = w.ih
	}
	for k := first; k <= e.Height(); k++ {
		if len(w.visible(k, false, head)) == 0 || (!w.isEmptyBlock(k) && len(w.visible(k, true, head)) == 0) {
			break
		}
		all = k
	}
	if inc >= all {
		return
	}
	// classify
	cause := "marks-present-includer-did-not-advance"
	sh, d, err := e.Store.GetBlockData(ctx, inc+1)
	hm, dm := e.M.HeaderCache().VerifDAIncluded(), e.M.DataCache().VerifDAIncluded()
	reach := func(data bool) bool {
		for _, a := range w.visible(inc+1, data, head) {
			if a >= w.startCursor {
				return true
			}
		}
		return false
	}
	switch {
	case err != nil:
		cause = "block-missing"
	case !reach(false) || (len(d.Txs) > 0 && !reach(true)):
		cause = "resumed-scan-above-needed-blob"
	default:
		if _, ok := hm[sh.Hash().String()]; !ok {
			cause = "header-blob-scanned-but-not-marked"
		} else if _, ok := dm[d.DACommitment().String()]; !ok && len(d.Txs) > 0 {
			cause = "data-blob-scanned-but-not-marked"
		}
	}
	w.report("C07/eventually/full-node-observed-but-not-reported/"+cause,
		fmt.Sprintf("the node is at height %d and has scanned the DA layer up to its head %d, which holds (from the DA start height %d on) both parts of every block up to %d, but it reports %d as DA-included (%s since the last start)",
			e.Height(), head, w.dastart, all, inc, w.startKind))
}

func (w *World) isEmptyBlock(k uint64) bool {
	_, d, err := w.prod.Store.GetBlockData(context.Background(), k)
	return err == nil && len(d.Txs) == 0
}

// visible: a placement of the part the running process must have examined by now (from the CONFIGURED DA start
// height on: that a restarted node finds again what the DA layer holds is what the property demands)
func (w *World) visible(k uint64, data bool, head uint64) []uint64 {
	var at []uint64
	for _, p := range w.parts {
		if p.k == k && p.data == data && !p.behind && p.da >= w.dastart && p.da < head {
			at = append(at, p.da)
		}
	}
	return at
}

func (w *World) monitorRun(log []string) {
	e := w.full
	h := e.Height()
	if h < w.lastH {
		w.rep("C02/height/decreased", fmt.Sprintf("%d -> %d", w.lastH, h))
	}
	w.lastH = h
	w.monitorStore("run")
	if w.dead {
		return
	}
	w.noteNotFound(log)
	head := w.da.Height
	for _, s := range w.da.Fetch {
		if len(s) > 0 {
			return // fetch faults still pending
		}
	}
	if e.M.VerifDAHeight() != head {
		return // the scan did not reach the head of the DA layer
	}
	// hstar: every part of every block up to it is on the DA layer where the node must have read it
	hstar := w.ih - 1
	if h > hstar {
		hstar = h
	}
	for k := hstar + 1; k <= w.prod.Height(); k++ {
		if len(w.visible(k, false, head)) == 0 || (!w.isEmptyBlock(k) && len(w.visible(k, true, head)) == 0) {
			break
		}
		hstar = k
	}
	if h >= hstar {
		return
	}
	cause := w.classifyStall(h, hstar, head)
	what := fmt.Sprintf("every part of the blocks up to %d is on the DA layer between the DA start height %d and the head %d, the scan reached the head without fetch faults, but the node is at %d (this process started its scan at DA height %d after %s)",
		hstar, w.dastart, head, h, w.startCursor, w.startKind)
	if strings.HasPrefix(cause, "C02/stall/") {
		w.rep(cause, what) // after a crash every finding is attributed to the crash point
		return
	}
	switch w.startKind {
	case "crash":
		w.report("C05/after-crash/da-only-not-converged/"+cause, what)
	case "restart":
		w.report("C02/converge/da-only-after-restart/"+cause, what)
	default:
		w.report("C02/converge/da-only/"+cause, what)
	}
}

// knownStall names a recorded finding for a node that stays at h although it was handed everything for h+1 - only
// when the node's own caches show that cause (as harness/streams/syncs classifyStall does): the commitment of the
// genuine data of h+1 is in the data seen-set AND the data cache does not hold that data at h+1, i.e. the genuine data
// was (and will always be) dropped as "already seen".  Why it is seen without being cached:
//   - junk-p2p-data-replaced-cached-data: a junk item naming h+1 was handed to the running node and the slot at h+1
//     holds something else than the genuine data (the junk) or nothing (dropped when the header arrived)
//   - tx-list-repeats-an-earlier-block: another block with the same tx list is applied, or its data was handed to the
//     running node
//
// Anything else is "" (= a new violation, reported as .../other).
func (w *World) knownStall(h, head uint64) string {
	ctx := context.Background()
	_, d, err := w.prod.Store.GetBlockData(ctx, h+1)
	if err != nil || len(d.Txs) == 0 || h+1 > w.prod.Height() {
		return ""
	}
	dc := d.DACommitment()
	seen := false
	for _, x := range w.full.M.DataCache().VerifSeen() {
		if strings.EqualFold(x, dc.String()) {
			seen = true
		}
	}
	item := w.full.M.DataCache().GetItem(h + 1)
	if item != nil && bytes.Equal(item.DACommitment(), dc) {
		return ""
	}
	if !seen {
		// since /repo c3c43a6 data is marked as seen only when its block is applied: the junk-replaced stall no longer
		// shows in the seen-set.  Its cause is then visible as: the genuine data of h+1 AND a junk item naming h+1 were
		// handed to the running node, and the slot at h+1 holds something else (the junk) or nothing (dropped when the
		// header arrived).  The P2P data store hands every height over once, so nothing delivers the genuine data again.
		if w.gaveJ[h+1] && w.gaveD[h+1] {
			return "C02/stall/junk-p2p-data-replaced-cached-data"
		}
		return ""
	}
	if w.gaveJ[h+1] {
		return "C02/stall/junk-p2p-data-replaced-cached-data"
	}
	for k := w.ih; k <= w.prod.Height(); k++ {
		if k == h+1 {
			continue
		}
		if _, dk, err := w.prod.Store.GetBlockData(ctx, k); err == nil && len(dk.Txs) > 0 && bytes.Equal(dk.DACommitment(), dc) && (k <= h || w.gaveD[k]) {
			return "C02/stall/tx-list-repeats-an-earlier-block"
		}
	}
	return ""
}

// noteFetched: which items the data store loop has fetched (= handed to the sync loop) since the node's last start
func (w *World) noteFetched() {
	w.ds.mu.Lock()
	defer w.ds.mu.Unlock()
	for pos := range w.ds.fetched {
		i := int(pos - w.ds.base - 1)
		if i < 0 || i >= len(w.ds.tags) {
			continue
		}
		var k uint64
		switch t := w.ds.tags[i]; {
		case strings.HasPrefix(t, "JD"):
			fmt.Sscan(t[2:], &k)
			w.gaveJ[k] = true
		case strings.HasPrefix(t, "D"):
			fmt.Sscan(t[1:], &k)
			if !w.isEmptyBlock(k) {
				w.gaveD[k] = true
			}
		}
	}
}

func (w *World) classifyStall(h, hstar, head uint64) string {
	if known := w.knownStall(h, head); known != "" {
		return known
	}
	// a needed part lies only below the DA height this process started its scan from
	for k := h + 1; k <= hstar; k++ {
		for _, data := range []bool{false, true} {
			if data && w.isEmptyBlock(k) {
				continue
			}
			reachable := false
			for _, a := range w.visible(k, data, head) {
				if a >= w.startCursor {
					reachable = true
				}
			}
			if !reachable {
				return "resumed-scan-above-needed-blob"
			}
		}
	}
	return "other"
}

// monitorStore: everything the node has applied is exactly the proposer's chain.
func (w *World) monitorStore(when string) {
	e := w.full
	ctx := context.Background()
	h := e.Height()
	for k := w.ih; k <= h; k++ {
		psh, pd, perr := w.prod.Store.GetBlockData(ctx, k)
		sh, d, err := e.Store.GetBlockData(ctx, k)
		if err != nil {
			w.rep("C05/block-missing-below-chain-height", fmt.Sprintf("height %d of %d after %s: %v", k, h, when, err))
			return
		}
		if perr != nil || k > w.prod.Height() {
			w.rep("C02/applied-block-not-of-proposer", fmt.Sprintf("height %d", k))
			continue
		}
		if !bytes.Equal(sh.Hash(), psh.Hash()) {
			w.rep("C02/store/header-hash-differs", fmt.Sprintf("height %d", k))
		}
		if len(d.Txs) != len(pd.Txs) {
			w.rep("C02/store/txs-differ", fmt.Sprintf("height %d", k))
		} else {
			for i := range d.Txs {
				if !bytes.Equal(d.Txs[i], pd.Txs[i]) {
					w.rep("C02/store/txs-differ", fmt.Sprintf("height %d tx %d", k, i))
					break
				}
			}
		}
		if sig, err := e.Store.GetSignature(ctx, k); err != nil || bm.SigClass(e.Pub, &sh.Header, *sig) != "valid" {
			w.rep("C02/store/signature", fmt.Sprintf("height %d", k))
		}
	}
	st, err := e.Store.GetState(ctx)
	if h >= w.ih {
		var want []byte
		if psh, _, err := w.prod.Store.GetBlockData(ctx, h+1); err == nil && w.prod.Height() >= h+1 {
			want = psh.AppHash
		} else {
			want = w.prod.M.GetLastState().AppHash
		}
		if err != nil || st.LastBlockHeight != h {
			w.rep("C05/state-height-differs-from-chain-height", fmt.Sprintf("state %d chain %d after %s", st.LastBlockHeight, h, when))
		} else if !bytes.Equal(st.AppHash, want) {
			w.rep("C02/state-root-differs", fmt.Sprintf("height %d", h))
		}
	}
	calls := e.Exec.Calls
	for i, cl := range calls {
		if i > 0 && cl.Height != calls[i-1].Height+1 {
			w.rep("C02/exec/not-consecutive", fmt.Sprintf("%d after %d", cl.Height, calls[i-1].Height))
		}
		if _, pd, err := w.prod.Store.GetBlockData(ctx, cl.Height); err == nil && len(pd.Txs) != len(cl.Txs) {
			w.rep("C02/exec/txs-differ", fmt.Sprintf("height %d", cl.Height))
		}
	}
}

func init() {
	hx.Register("FNODE", hx.Stream{Gen: Gen, Run: Run})
}
