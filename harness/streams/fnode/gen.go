package fnode

import (
	"fmt"
	"io"
	"strings"

	"github.com/libp2p/go-libp2p/core/crypto"

	"verifharness/bm"
	"verifharness/hx"

	"github.com/evstack/ev-node/types"
)

const sec = int64(1_000_000_000)
const baseTime = int64(1_700_000_000) * sec

func keyHex(seed byte) (pk, addr string) {
	_, pub := bm.DetKey(seed)
	b, err := crypto.MarshalPublicKey(pub)
	if err != nil {
		panic(err)
	}
	return hx.Hex(b), hx.Hex(types.KeyAddress(pub))
}

type gen struct {
	w       io.Writer
	r       *hx.Rng
	ts      int64
	seq     int
	ih      uint64
	n       uint64 // blocks produced: heights ih .. ih+n-1
	empty   map[uint64]bool
	head    uint64 // head of the DA layer as the ops leave it
	start   uint64
	noCrash bool
}

func (g *gen) reset(ih, dastart uint64) {
	pk, pa := keyHex(1)
	pk2, _ := keyHex(2)
	g.ih, g.n, g.ts, g.empty, g.head, g.start = ih, 0, baseTime, map[uint64]bool{}, 1, dastart
	g.noCrash = false
	fmt.Fprintf(g.w, "reset ih=%d gt=%d dastart=%d pa=%s pk=%s pk2=%s\n", ih, baseTime, dastart, pa, pk, pk2)
	g.produce(0) // the first production step commits the genesis block (always empty)
}

// kind: 0 empty, 1 fresh tx list, 2 the repeated tx list (recorded finding of C02)
func (g *gen) produce(kind int) {
	g.ts += sec
	var txs [][]byte
	switch kind {
	case 1:
		g.seq++
		for i := 0; i <= g.r.Intn(3); i++ {
			txs = append(txs, []byte(fmt.Sprintf("k%d.%d=v", g.seq, i)))
		}
	case 2:
		txs = [][]byte{[]byte("same-tx")}
	}
	fmt.Fprintf(g.w, "produce txs=%s ts=%d\n", hx.HexList(txs), g.ts)
	h := g.ih + g.n
	g.empty[h] = g.n == 0 || len(txs) == 0
	g.n++
}

func (g *gen) top() uint64 { return g.ih + g.n - 1 }

func (g *gen) place(da uint64, items ...string) {
	if len(items) == 0 {
		return
	}
	fmt.Fprintf(g.w, "place da=%d items=%s\n", da, strings.Join(items, ","))
	if da >= g.head {
		g.head = da + 1
	}
}

func (g *gen) op(format string, a ...any) { fmt.Fprintf(g.w, format+"\n", a...) }

// parts of the chain: H<k> for every block, D<k> for every non-empty block
func (g *gen) parts() []string {
	var out []string
	for k := g.ih; k <= g.top(); k++ {
		out = append(out, fmt.Sprintf("H%d", k))
		if !g.empty[k] {
			out = append(out, fmt.Sprintf("D%d", k))
		}
	}
	return out
}

// noise: material that must change nothing (forged, unsigned, junk, empty, data of empty blocks)
func (g *gen) noise() string {
	k := g.ih + uint64(g.r.Intn(int(g.n)))
	switch g.r.Intn(8) {
	case 0:
		return fmt.Sprintf("FH%d", k)
	case 1:
		return fmt.Sprintf("FD%d", k)
	case 2:
		return fmt.Sprintf("XH%d", k)
	case 3:
		return fmt.Sprintf("XD%d", k)
	case 4:
		return "E"
	case 5:
		return "J" + hx.Hex(g.r.Bytes(1+g.r.Intn(5)))
	case 6:
		return fmt.Sprintf("D%d", g.ih) // data blob of the (empty) first block: no transactions, ignored
	default:
		return fmt.Sprintf("H%d", g.top()+1+uint64(g.r.Intn(2))) // a block that does not exist: nothing is placed
	}
}

// spread places the items over the DA heights [lo, lo+span) in a random assignment (any order of block heights,
// several per DA height, noise interleaved); place ops are emitted in random order of DA height
func (g *gen) spread(items []string, lo uint64, span int, noisy bool) {
	by := map[uint64][]string{}
	var order []uint64
	add := func(a uint64, it string) {
		if _, ok := by[a]; !ok {
			order = append(order, a)
		}
		by[a] = append(by[a], it)
	}
	for _, i := range g.r.Perm(len(items)) {
		add(lo+uint64(g.r.Intn(span)), items[i])
		if noisy && g.r.Chance(25) {
			add(lo+uint64(g.r.Intn(span)), g.noise())
		}
		if g.r.Chance(10) { // a duplicate of the same part somewhere else
			add(lo+uint64(g.r.Intn(span)), items[i])
		}
	}
	for _, i := range g.r.Perm(len(order)) {
		g.place(order[i], by[order[i]]...)
	}
}

func (g *gen) chain(nb int, repeats bool) {
	for j := 1; j < nb; j++ {
		k := 1
		if g.r.Chance(30) {
			k = 0
		}
		if repeats && g.r.Chance(50) {
			k = 2
		}
		g.produce(k)
	}
}

// interruption: a restart, a crash, ... between two steps.  In scenarios that contain a recorded finding on purpose
// (repeated tx list, junk after genuine data) no crash is generated: after a crash every finding is attributed to the
// crash point (C05/after-crash/...), and the recorded findings are listed without such a prefix.
func (g *gen) interruption() {
	if g.noCrash {
		switch g.r.Intn(4) {
		case 0:
			g.op("restart")
		case 1:
			g.op("stopheld order=%s hold=%d", []string{"hd", "dh"}[g.r.Intn(2)], g.r.Intn(3))
		}
		return
	}
	switch g.r.Intn(6) {
	case 0:
		g.op("restart")
	case 1, 2:
		g.op("crash keep=%d", g.r.Intn(int(3*g.n)+2))
	case 3:
		g.op("crash keep=%d", g.r.Intn(4))
		g.op("crash keep=%d", g.r.Intn(5)) // during the restart's own writes
	case 4:
		g.op("stopheld order=%s hold=%d", []string{"hd", "dh"}[g.r.Intn(2)], g.r.Intn(3))
	default:
	}
}

// storeItems: header and data of the blocks lo..hi for the P2P stores, in block order
func (g *gen) storeItems(lo, hi uint64, junkBefore bool) []string {
	var out []string
	for k := lo; k <= hi; k++ {
		if g.r.Chance(8) {
			out = append(out, []string{fmt.Sprintf("FH%d", k), fmt.Sprintf("XH%d", k)}[g.r.Intn(2)])
		}
		out = append(out, fmt.Sprintf("H%d", k))
		if !g.empty[k] {
			if junkBefore && g.r.Chance(30) {
				out = append(out, fmt.Sprintf("JD%d", k)) // junk BEFORE the genuine data of that height: replaced by it
			}
			out = append(out, fmt.Sprintf("D%d", k))
		} else if junkBefore && g.r.Chance(10) {
			out = append(out, fmt.Sprintf("JD%d", k)) // junk for an empty block: dropped, the local data is rebuilt
		}
	}
	return out
}

func (g *gen) longChain(n int) {
	for j := 1; j < n; j++ {
		if j%17 == 3 {
			g.produce(1)
		} else {
			g.produce(0)
		}
	}
}

func (g *gen) p2pStores(thorough bool) {
	r := g.r
	// small chains: items arrive in chunks, polls in both orders, junk / forged items, restarts and crashes in between
	ns := 10
	if thorough {
		ns = 60
	}
	for i := 0; i < ns; i++ {
		ih := uint64(1 + r.Intn(4))
		g.reset(ih, uint64(r.Intn(3)))
		g.chain(2+r.Intn(6), false)
		lo := ih
		for lo <= g.top() {
			hi := lo + uint64(r.Intn(4))
			if hi > g.top() {
				hi = g.top()
			}
			items := g.storeItems(lo, hi, true)
			switch r.Intn(5) {
			case 0: // arrives while nobody polls, the poll comes later
				g.op("p2pstore poll=0 items=%s", strings.Join(items, ","))
				if r.Bool() {
					g.interruption()
				}
				g.op("p2pstore items=- order=%s", []string{"hd", "dh"}[r.Intn(2)])
			default:
				g.op("p2pstore items=%s order=%s", strings.Join(items, ","), []string{"hd", "dh"}[r.Intn(2)])
			}
			if r.Chance(30) {
				g.interruption()
			}
			if r.Chance(20) { // the same blocks also appear on the DA layer
				g.spread(g.parts(), g.head, 1+r.Intn(3), false)
				g.op("run")
			}
			lo = hi + 1
		}
		g.op("p2pstore items=-")
		g.op("show")
	}
	// the recorded finding, generated on purpose: the genuine data of block 2 is cached (its header has not arrived), a junk
	// item naming height 2 replaces it in the cache, the header arrives (the junk is dropped), and the genuine data - marked
	// seen - is dropped for ever; also with a clean restart in between (the caches are in the cache files)
	for v := 0; v < 2; v++ {
		g.reset(1, 0)
		g.noCrash = true
		g.produce(1)
		g.produce(1)
		g.op("p2pstore items=H1,D2")
		if v == 1 {
			g.op("restart")
		}
		g.op("p2pstore items=JD2")
		g.op("show")
		g.op("p2pstore items=H2,H3,D3")
		g.op("show")
		g.op("p2pstore items=D2") // the genuine data once more: already seen
	}
	// long chains: a store that is more than 100 heights ahead of the loop's cursor at one poll
	// (a) a late joiner: everything is in the stores when the node polls for the first time
	g.reset(1, 0)
	g.longChain(131 + r.Intn(20))
	g.op("p2pstore items=%s", strings.Join(g.storeItems(g.ih, g.top(), false), ","))
	g.op("show")
	if !thorough {
		return
	}
	// (b) a node that was offline for long: it synced a few blocks, was stopped (cleanly / killed), the stores kept
	// growing, it comes back and polls
	for v := 0; v < 3; v++ {
		g.reset(uint64(1+v), 0)
		g.longChain(150 + r.Intn(100))
		cut := g.ih + uint64(5+r.Intn(20))
		g.op("p2pstore items=%s", strings.Join(g.storeItems(g.ih, cut, false), ","))
		g.op("p2pstore poll=0 items=%s", strings.Join(g.storeItems(cut+1, g.top(), false), ","))
		if v == 1 {
			g.op("crash keep=%d", r.Intn(9))
		} else {
			g.op("restart")
		}
		g.op("p2pstore items=- order=%s", []string{"hd", "dh"}[v%2])
		g.op("show")
	}
	// (c) growth in several jumps, some above and some below 100
	g.reset(1, 0)
	g.longChain(260)
	lo := g.ih
	for _, step := range []uint64{40, 120, 30, 70} {
		hi := lo + step - 1
		if hi > g.top() {
			hi = g.top()
		}
		g.op("p2pstore items=%s", strings.Join(g.storeItems(lo, hi, false), ","))
		lo = hi + 1
	}
	g.op("show")
}

func Gen(r *hx.Rng, tier string, w io.Writer) {
	g := &gen{w: w, r: r}
	thorough := tier == "thorough"

	// --- the recorded finding of C02 (repeated tx list), in DA order: must stall, classified as such
	g.reset(1, 0)
	g.produce(2)
	g.produce(1)
	g.produce(2)
	for i, p := range g.parts() {
		g.place(uint64(1+i), p)
	}
	g.op("run")
	g.op("show")

	// --- fixed layouts: a block completed by a part that lies ABOVE parts of later blocks, then the process dies
	// (caches lost) or stops cleanly, the missing part arrives later
	for _, ih := range []uint64{1, 3} {
		for _, dastart := range []uint64{0, 2} {
			for variant := 0; variant < 8; variant++ {
				g.reset(ih, dastart)
				g.produce(1) // ih+1
				g.produce(1) // ih+2
				a := dastart + 1
				h1, h2, h3 := fmt.Sprintf("H%d", ih), fmt.Sprintf("H%d", ih+1), fmt.Sprintf("H%d", ih+2)
				d2, d3 := fmt.Sprintf("D%d", ih+1), fmt.Sprintf("D%d", ih+2)
				if variant%2 == 0 {
					// headers first, data of the middle block last; data of the top block comes later
					g.place(a, h1, h2)
					g.place(a+1, h3)
					g.place(a+2, d2)
				} else {
					// data first, header of the middle block last; header of the top block comes later
					g.place(a, h1, d3)
					g.place(a+1, d2)
					g.place(a+2, h2)
				}
				switch variant / 2 {
				case 0:
					g.op("run")
					g.op("crash keep=99")
				case 1:
					g.op("run")
					g.op("crash keep=%d", 3+r.Intn(3))
				case 2:
					g.op("run")
					g.op("restart")
				default:
					// clean stop while the other channel's last event is still queued
					if variant%2 == 0 {
						g.op("stopheld order=hd hold=1")
					} else {
						g.op("stopheld order=dh hold=1")
					}
				}
				if variant%2 == 0 {
					g.place(g.head, d3)
				} else {
					g.place(g.head, h3)
				}
				g.op("run")
				g.op("show")
			}
		}
	}

	// --- a clean stop while an event from a LOWER DA height than the one that completed a block is still queued in
	// the other channel (the sync loop served the header channel first)
	for _, ih := range []uint64{1, 2} {
		for _, dastart := range []uint64{0, 3} {
			g.reset(ih, dastart)
			g.produce(1) // ih+1
			g.produce(1) // ih+2
			a := dastart + 1
			g.place(a, fmt.Sprintf("D%d", ih+1))
			g.place(a+1, fmt.Sprintf("H%d", ih))
			g.place(a+2, fmt.Sprintf("H%d", ih+1))
			g.op("stopheld order=hd hold=1")
			g.op("show")
			g.place(g.head, fmt.Sprintf("H%d", ih+2), fmt.Sprintf("D%d", ih+2))
			g.op("run")
			// and the mirror image: data channel first, a header from a lower DA height still queued
			g.reset(ih, dastart)
			g.produce(1)
			g.produce(1)
			g.place(a, fmt.Sprintf("H%d", ih), fmt.Sprintf("H%d", ih+2))
			g.place(a+1, fmt.Sprintf("H%d", ih+1))
			g.place(a+2, fmt.Sprintf("D%d", ih+1))
			g.op("stopheld order=dh hold=0")
			g.place(g.head, fmt.Sprintf("D%d", ih+2))
			g.op("run")
		}
	}

	// --- applied first (P2P), observed on the DA layer later: the blobs of blocks the node already holds must still be
	// recorded as DA-included when the scan finds them; with restarts / crashes in between
	for variant := 0; variant < 8; variant++ {
		ih := uint64(1 + variant%3)
		dastart := uint64(variant % 2 * 2)
		g.reset(ih, dastart)
		g.produce(1) // ih+1
		g.produce(variant % 2)
		g.produce(1)
		var items []string
		for k := g.ih; k <= g.top(); k++ {
			items = append(items, fmt.Sprintf("H%d", k))
			items = append(items, fmt.Sprintf("D%d", k)) // data of an empty block: ignored
		}
		if variant%4 < 2 {
			g.op("p2p items=%s", strings.Join(items, ","))
		} else { // data first, then headers; one block is left to the DA layer
			var hs, ds []string
			for _, it := range items[:len(items)-2] {
				if it[0] == 'H' {
					hs = append(hs, it)
				} else {
					ds = append(ds, it)
				}
			}
			g.op("p2p items=%s", strings.Join(append(ds, hs...), ","))
		}
		switch variant / 2 % 4 {
		case 1:
			g.op("restart")
		case 2:
			g.op("crash keep=%d", r.Intn(4))
		case 3:
			g.op("crash keep=99")
		}
		g.spread(g.parts(), dastart+1, 1+r.Intn(4), variant%2 == 1)
		g.op("run")
		g.op("show")
		if variant%2 == 0 {
			g.op("crash keep=%d", r.Intn(7))
		} else {
			g.op("restart")
		}
		g.op("run")
	}

	// --- the REAL P2P store loops (HeaderStoreRetrieveLoop / DataStoreRetrieveLoop over go-header store doubles)
	g.p2pStores(thorough)

	// --- a crash at every write boundary of the block applications of one run, followed by a run
	shapes := [][]int{{1, 1}, {0, 1}}
	if thorough {
		shapes = append(shapes, []int{1, 0, 1}, []int{1, 1, 1})
	}
	for si, shape := range shapes {
		ih := uint64(1 + si%4)
		for keep := 0; keep <= 3*(len(shape)+1)+1; keep++ {
			if !thorough && (keep+si+int(r.U64()%2))%2 == 0 && keep > 3 {
				continue
			}
			g.reset(ih, uint64(si%3))
			for _, k := range shape {
				g.produce(k)
			}
			g.spread(g.parts(), g.start, 3, false)
			g.op("run")
			g.op("crash keep=%d", keep)
			if r.Chance(30) {
				g.op("crash keep=%d", r.Intn(4))
			}
			g.op("run")
		}
	}

	// --- the DA includer INSIDE a block application (seed C07-I): `runinc at=k` = one includer pass right before the
	// k-th durable write of the sync loop (SaveBlockData(h) | state | SetHeight(h) | SaveBlockData(h+1) ...), all marks
	// of the scan set.  (b) at every boundary of a run; (a) crash at every boundary of a run, restart, rescan, includer
	// pass BEFORE / while the pending block is applied again
	ishapes := [][]int{{1, 1}, {0, 1}}
	if thorough {
		ishapes = append(ishapes, []int{1, 0}, []int{1, 1, 1})
	}
	for si, shape := range ishapes {
		ih := uint64(1 + si%3)
		nw := 3 * (len(shape) + 1)
		for at := 0; at <= nw; at++ {
			g.reset(ih, uint64(si%2))
			for _, k := range shape {
				g.produce(k)
			}
			g.spread(g.parts(), g.start, 3, false)
			g.op("runinc at=%d", at)
			if r.Chance(40) {
				g.op("crash keep=%d", r.Intn(nw+8))
				g.op("run")
			}
		}
		for keep := 0; keep <= nw; keep++ {
			g.reset(ih, uint64((si+1)%2))
			for _, k := range shape {
				g.produce(k)
			}
			g.spread(g.parts(), g.start, 3, false)
			g.op("run")
			g.op("crash keep=%d", keep)
			g.op("runinc at=%d", r.Intn(3))
			if r.Chance(30) {
				g.op("restart")
				g.op("run")
			}
		}
	}

	// --- clean restart with parked items: everything but one part of the first non-genesis block is on DA
	for i := 0; i < 4; i++ {
		ih := uint64(1 + i)
		g.reset(ih, uint64(i%2))
		g.produce(1)
		g.produce(1)
		g.produce(i % 2)
		all := g.parts()
		missing := fmt.Sprintf("D%d", ih+1)
		if i%2 == 1 {
			missing = fmt.Sprintf("H%d", ih+1)
		}
		var now []string
		for _, p := range all {
			if p != missing {
				now = append(now, p)
			}
		}
		g.spread(now, g.start, 4, true)
		g.op("run")
		g.op("show")
		g.op("restart")
		g.op("show")
		g.place(g.head, missing)
		g.op("run")
		g.op("show")
	}

	// --- random: initial heights 1..4, DA start heights with blobs below them, parts arriving in phases with
	// crashes / restarts in between, fetch faults
	n := 70
	maxBlocks := 5
	if thorough {
		n, maxBlocks = 450, 8
	}
	for i := 0; i < n; i++ {
		ih := uint64(1 + r.Intn(4))
		dastart := []uint64{0, 0, 1, 2, 3, 5}[r.Intn(6)]
		g.reset(ih, dastart)
		repeats := r.Chance(8)
		g.noCrash = repeats
		g.chain(1+r.Intn(maxBlocks), repeats)
		parts := g.parts()
		// blobs below the DA start height: never read by anybody
		if dastart > 1 && r.Chance(50) {
			g.spread(parts, 0, int(dastart), true)
		}
		// phases
		perm := r.Perm(len(parts))
		nph := 1 + r.Intn(3)
		for ph := 0; ph < nph; ph++ {
			var now []string
			for j, pi := range perm {
				if j%nph == ph {
					now = append(now, parts[pi])
				}
			}
			lo := g.head
			if ph == 0 {
				lo = dastart
				if lo == 0 && r.Bool() {
					lo = 1
				}
			}
			if r.Chance(20) { // some parts arrive over P2P first
				var its []string
				for _, pi := range r.Perm(len(parts))[:1+r.Intn(len(parts))] {
					its = append(its, parts[pi])
				}
				g.op("p2p items=%s", strings.Join(its, ","))
			}
			g.spread(now, lo, 1+r.Intn(5), r.Chance(60))
			if r.Chance(25) {
				g.op("head n=%d", g.head+uint64(r.Intn(3)))
			}
			if r.Chance(20) { // transient fetch faults at a height the scan will reach
				h := lo + uint64(r.Intn(3))
				outs := []string{"errids", "errget", "errids,errids,errget", "notfound", "future", "errids,future", "errget:0,ok"}[r.Intn(7)]
				g.op("script da=%d outcomes=%s", h, outs)
				g.op("run")
			}
			g.op("run")
			if r.Chance(15) {
				g.op("show")
			}
			g.interruption()
		}
		// everything once more above the head: afterwards the node must be at the proposer's height
		g.spread(parts, g.head, 1+r.Intn(4), false)
		g.op("run")
		if r.Chance(30) {
			g.interruption()
			g.op("run")
		}
	}

	// --- a persistently failing height (ten failed attempts end the pass; costs a second of real retry sleeps)
	np := 1
	if thorough {
		np = 6
	}
	for i := 0; i < np; i++ {
		g.reset(uint64(1+i%3), uint64(i%2))
		g.produce(1)
		g.produce(1)
		g.spread(g.parts(), g.start+1, 3, false)
		fails := make([]string, 10+r.Intn(3))
		for j := range fails {
			fails[j] = []string{"errids", "errget"}[r.Intn(2)]
		}
		g.op("script da=%d outcomes=%s", g.start+1+uint64(r.Intn(2)), strings.Join(fails, ","))
		g.op("run")
		g.op("crash keep=%d", r.Intn(5))
		g.op("run")
		g.op("run")
	}

	// --- malformed ops
	g.reset(1, 0)
	g.op("place da=x items=H1")
	g.op("place da=2 items=Q7,H,Dx,J-,Jzz")
	g.op("script da=1 outcomes=bogus")
	g.op("crash")
	g.op("frobnicate")
	g.op("run")
}
