package c19

import (
	"bytes"
	"encoding/base64"
	"encoding/hex"
	"encoding/json"
	"fmt"
	"os"
	"path/filepath"
	"runtime"

	"github.com/libp2p/go-libp2p/core/crypto"

	"verifharness/hx"

	"github.com/evstack/ev-node/pkg/signer"
	filesigner "github.com/evstack/ev-node/pkg/signer/file"
	"github.com/evstack/ev-node/pkg/signer/noop"
	"github.com/evstack/ev-node/types"
)

// protect runs f and returns the recovered panic value, if any.
func protect(f func()) (pv any) {
	defer func() {
		if r := recover(); r != nil {
			pv = r
		}
	}()
	f()
	return nil
}

type state struct {
	root string
	n    int
	dir  string

	have       bool   // the harness put/created a file in dir
	cur        []byte // its bytes
	rightKnown bool
	right      []byte // the passphrase its key was sealed under
	sk         []byte // raw private key inside (nil: unknown, the real code generated it)
	origPub    []byte // the public key belonging to that private key
	pristine   bool   // bytes are exactly what a writer produced
	known      bool   // the model knows the key bytes as well (observation carries pub/addr)
	exported   []byte
}

func (s *state) path() string { return filepath.Join(s.dir, "signer.json") }

func (s *state) reset() {
	if s.dir != "" {
		_ = os.RemoveAll(s.dir)
	}
	s.n++
	r := s.root
	*s = state{root: r, n: s.n}
	s.dir = filepath.Join(s.root, fmt.Sprintf("s%d", s.n))
	_ = os.MkdirAll(s.dir, 0o700)
}

var probes = [][]byte{[]byte("verif-c19-probe"), {}, bytes.Repeat([]byte{0xa5}, 300)}

// inspect evaluates the oracle on a signer the real code handed out: do its signatures verify
// under the public key it reports, and is its address the one verifiers derive from that key?
func (s *state) inspect(c *hx.Ctx, sg signer.Signer) (matching bool, pub, addr []byte) {
	matching = true
	pv := protect(func() {
		pk, err := sg.GetPublic()
		if err != nil || pk == nil {
			matching = false
			return
		}
		pub, _ = pk.Raw()
		for _, m := range probes {
			sig, err := sg.Sign(m)
			if err != nil {
				matching = false
				return
			}
			ok, err := pk.Verify(m, sig)
			if err != nil || !ok {
				matching = false
			}
		}
		addr, _ = sg.GetAddress()
		want := types.KeyAddress(pk)
		if !bytes.Equal(addr, want) {
			c.Report("C19/address/file-signer-differs-from-KeyAddress", fmt.Sprintf("signer address %x, types.KeyAddress(pub) %x", addr, want))
		}
		if ts, err := types.NewSigner(pk); err != nil || !bytes.Equal(ts.Address, want) {
			c.Report("C19/address/NewSigner-differs-from-KeyAddress", fmt.Sprintf("types.NewSigner(pub).Address %x, types.KeyAddress(pub) %x", ts.Address, want))
		}
	})
	if pv != nil {
		_, sig := panicClass(pv)
		c.Report("C19/panic/using-signer-"+sig, fmt.Sprintf("panic while using a loaded signer: %v", pv))
		matching = false
	}
	return
}

// mismatchCause classifies why a loaded signer's signatures do not verify under its reported key.
func (s *state) mismatchCause() string {
	var k kd
	if json.Unmarshal(s.cur, &k) == nil && s.origPub != nil && !bytes.Equal(k.PubKeyBytes, s.origPub) {
		return "stored-pubkey-trusted"
	}
	return "other"
}

func (s *state) wrongPassCause(pass []byte) string {
	var k kd
	if json.Unmarshal(s.cur, &k) == nil && len(k.Salt) == 0 {
		a, ok1 := legacyKeyOf(pass)
		b, ok2 := legacyKeyOf(s.right)
		if ok1 && ok2 && bytes.Equal(a, b) {
			return "legacy-kdf-collision"
		}
	}
	return "accepted"
}

func okObs(matching bool, known bool, pub, addr []byte) string {
	cls := "ok-matching"
	if !matching {
		cls = "ok-mismatching"
	}
	if known {
		return fmt.Sprintf("%s pub=%s addr=%s", cls, hx.Hex(pub), hx.Hex(addr))
	}
	return cls
}

func (s *state) load(c *hx.Ctx, pass []byte) string {
	var sg signer.Signer
	var err error
	pv := protect(func() { sg, err = filesigner.LoadFileSystemSigner(s.dir, cp(pass)) })
	if pv != nil {
		obs, sig := panicClass(pv)
		c.Hit("load:" + obs)
		c.Report("C19/panic/"+sig, fmt.Sprintf("LoadFileSystemSigner panicked: %v", pv))
		return obs
	}
	isRight := s.rightKnown && bytes.Equal(pass, s.right)
	if err != nil {
		cl := errClass(err)
		c.Hit("load:" + cl)
		if s.have && s.pristine && isRight {
			c.Report("C19/right-passphrase/rejected", "an untouched key file does not load with the passphrase it was saved under: "+err.Error())
		}
		return cl
	}
	matching, pub, addr := s.inspect(c, sg)
	if !matching {
		c.Hit("load:ok-mismatching")
		c.Report("C19/mismatch/"+s.mismatchCause(), fmt.Sprintf("Load returned a signer whose signatures do not verify under the public key it reports (%x)", pub))
	} else {
		c.Hit("load:ok-matching")
		if s.have && s.origPub != nil && !bytes.Equal(pub, s.origPub) {
			c.Report("C19/mismatch/other-key", fmt.Sprintf("loaded key %x is not the key that was saved %x", pub, s.origPub))
		}
	}
	if s.have && s.rightKnown && !isRight {
		c.Report("C19/wrong-passphrase/"+s.wrongPassCause(pass), "Load returned a usable signer for a passphrase other than the one the key was saved under")
	}
	return okObs(matching, s.known, pub, addr)
}

func (s *state) create(c *hx.Ctx, pass []byte) string {
	var sg signer.Signer
	var err error
	pv := protect(func() { sg, err = filesigner.CreateFileSystemSigner(s.dir, cp(pass)) })
	if pv != nil {
		obs, sig := panicClass(pv)
		c.Report("C19/panic/create-"+sig, fmt.Sprintf("CreateFileSystemSigner panicked: %v", pv))
		return obs
	}
	if err != nil {
		cl := errClass(err)
		c.Hit("create:" + cl)
		if !s.fileExists() {
			c.Report("C19/create/failed", "CreateFileSystemSigner failed in an empty directory: "+err.Error())
		}
		return cl
	}
	matching, pub, _ := s.inspect(c, sg)
	if !matching {
		c.Report("C19/mismatch/created-signer", "freshly created signer's signatures do not verify under its reported key")
	}
	s.cur, _ = os.ReadFile(s.path())
	s.have, s.rightKnown, s.right, s.sk, s.origPub, s.pristine, s.known = true, true, cp(pass), nil, pub, true, false
	s.fresh(c, func(d string) error { _, e := filesigner.CreateFileSystemSigner(d, cp(pass)); return e })
	if fi, err := os.Stat(s.path()); err == nil && fi.Mode().Perm()&0o077 != 0 {
		c.Report("C19/permissions/key-file-mode", fmt.Sprintf("key file mode %o is accessible to group/others", fi.Mode().Perm()))
	}
	c.Hit("create:ok")
	return okObs(matching, false, nil, nil)
}

// fresh: salt and nonce of a file the real code has just written must be fresh random values
// (a repeated nonce under one key breaks AES-GCM; a fixed salt defeats the KDF's purpose).
// `again` makes the real code write a second file the same way into the given directory.
func (s *state) fresh(c *hx.Ctx, again func(dir string) error) {
	var k kd
	if json.Unmarshal(s.cur, &k) != nil {
		c.Report("C19/format/written-file-unreadable", "the file written by the real code is not a JSON object of the documented shape")
		return
	}
	if len(k.Nonce) != 12 || len(k.Salt) == 0 || len(k.PubKeyBytes) != 32 || len(k.PrivKeyEncrypted) == 0 {
		c.Report("C19/format/written-file-incomplete", fmt.Sprintf("written file has nonce %d bytes, salt %d, pub_key %d, priv_key_encrypted %d", len(k.Nonce), len(k.Salt), len(k.PubKeyBytes), len(k.PrivKeyEncrypted)))
	}
	d := filepath.Join(s.root, fmt.Sprintf("fresh%d", s.n))
	defer os.RemoveAll(d)
	var err error
	if pv := protect(func() { err = again(d) }); pv != nil || err != nil {
		return
	}
	fb, err := os.ReadFile(filepath.Join(d, "signer.json"))
	var k2 kd
	if err != nil || json.Unmarshal(fb, &k2) != nil {
		return
	}
	if bytes.Equal(k.Nonce, k2.Nonce) {
		c.Report("C19/randomness/nonce-reused", "two key files written by the real code carry the same nonce")
	}
	if bytes.Equal(k.Salt, k2.Salt) {
		c.Report("C19/randomness/salt-reused", "two key files written by the real code carry the same salt")
	}
}

func (s *state) fileExists() bool { _, err := os.Stat(s.path()); return err == nil }

// leak: the private seed must not be readable from the file without the passphrase
func (s *state) leakCheck(c *hx.Ctx, sk []byte) {
	if len(sk) < 32 || len(s.cur) == 0 {
		return
	}
	seed := sk[:32]
	forms := [][]byte{seed, []byte(hex.EncodeToString(seed)), []byte(base64.StdEncoding.EncodeToString(seed)), []byte(base64.StdEncoding.EncodeToString(sk))}
	var k kd
	hay := [][]byte{s.cur}
	if json.Unmarshal(s.cur, &k) == nil {
		hay = append(hay, k.PrivKeyEncrypted, k.Nonce, k.PubKeyBytes, k.Salt)
	}
	for _, h := range hay {
		for _, f := range forms {
			if bytes.Contains(h, f) {
				c.Report("C19/leak/private-key-in-clear", "the key file contains the private key seed in clear")
				return
			}
		}
	}
}

func (s *state) export(c *hx.Ctx, pass []byte) string {
	var out []byte
	var err error
	pv := protect(func() { out, err = filesigner.ExportPrivateKey(s.dir, cp(pass)) })
	if pv != nil {
		obs, sig := panicClass(pv)
		c.Hit("export:" + obs)
		c.Report("C19/panic/"+sig, fmt.Sprintf("ExportPrivateKey panicked: %v", pv))
		return obs
	}
	isRight := s.rightKnown && bytes.Equal(pass, s.right)
	if err != nil {
		cl := errClass(err)
		c.Hit("export:" + cl)
		if s.have && s.pristine && isRight {
			c.Report("C19/right-passphrase/export-rejected", "ExportPrivateKey fails on an untouched key file with the right passphrase: "+err.Error())
		}
		return cl
	}
	c.Hit("export:ok")
	if s.have && s.rightKnown && !isRight {
		c.Report("C19/wrong-passphrase/"+s.wrongPassCause(pass), "ExportPrivateKey returned the key for a passphrase other than the one it was saved under")
	}
	pubTok := "?"
	if pk, err := crypto.UnmarshalEd25519PrivateKey(cp(out)); err == nil {
		pb, _ := pk.GetPublic().Raw()
		pubTok = hx.Hex(pb)
		if s.have && s.origPub != nil && !bytes.Equal(pb, s.origPub) {
			c.Report("C19/export/wrong-key", fmt.Sprintf("exported key has public key %x, saved key had %x", pb, s.origPub))
		}
	} else if s.have {
		c.Report("C19/export/unparsable", "exported bytes are not an Ed25519 private key: "+err.Error())
	}
	if s.have && s.sk != nil && !bytes.Equal(out, s.sk) {
		c.Report("C19/export/wrong-key", "exported bytes differ from the private key that was saved")
	}
	s.exported = cp(out)
	if s.have && s.pristine {
		s.leakCheck(c, out)
	}
	if s.known {
		return "ok pub=" + pubTok
	}
	return "ok"
}

func (s *state) importKey(c *hx.Ctx, o hx.Op) string {
	pass := o.Bytes("pass")
	raw := s.exported
	fromOp := o.Has("raw")
	if fromOp {
		raw = o.Bytes("raw")
	} else if raw == nil {
		return "bad-op"
	}
	var err error
	pv := protect(func() { err = filesigner.ImportPrivateKey(s.dir, cp(raw), cp(pass)) })
	if pv != nil {
		obs, sig := panicClass(pv)
		c.Report("C19/panic/import-"+sig, fmt.Sprintf("ImportPrivateKey panicked: %v", pv))
		return obs
	}
	if err != nil {
		cl := errClass(err)
		c.Hit("import:" + cl)
		if len(raw) == 64 {
			c.Report("C19/export-import/import-rejected", "ImportPrivateKey rejects a 64-byte Ed25519 private key: "+err.Error())
		}
		return cl
	}
	c.Hit("import:ok")
	s.cur, _ = os.ReadFile(s.path())
	s.have, s.rightKnown, s.right, s.sk, s.pristine = true, true, cp(pass), cp(raw), true
	if len(raw) >= 64 {
		s.origPub = cp(raw[32:64])
	}
	if fromOp {
		s.known = true
	}
	s.fresh(c, func(d string) error { return filesigner.ImportPrivateKey(d, cp(raw), cp(pass)) })
	if fi, err := os.Stat(s.path()); err == nil && fi.Mode().Perm()&0o077 != 0 {
		c.Report("C19/permissions/key-file-mode", fmt.Sprintf("key file mode %o is accessible to group/others", fi.Mode().Perm()))
	}
	s.leakCheck(c, raw)
	// monitor: export -> import preserves the key
	var sg signer.Signer
	pv = protect(func() { sg, err = filesigner.LoadFileSystemSigner(s.dir, cp(pass)) })
	switch {
	case pv != nil:
		c.Report("C19/export-import/load-panics", fmt.Sprintf("loading an imported key panics: %v", pv))
	case err != nil:
		c.Report("C19/export-import/load-fails", "an imported key does not load with the import passphrase: "+err.Error())
	default:
		matching, pub, _ := s.inspect(c, sg)
		if !matching {
			c.Report("C19/export-import/mismatching-signer", "an imported key loads to a signer whose signatures do not verify under its reported key")
		}
		if !bytes.Equal(pub, s.origPub) {
			c.Report("C19/export-import/key-changed", fmt.Sprintf("imported key reports %x, exported key had %x", pub, s.origPub))
		}
		var again []byte
		pv = protect(func() { again, err = filesigner.ExportPrivateKey(s.dir, cp(pass)) })
		if pv != nil || err != nil || !bytes.Equal(again, raw) {
			c.Report("C19/export-import/reexport-differs", "exporting an imported key does not give the imported bytes back")
		}
	}
	return "ok"
}

func (s *state) put(c *hx.Ctx, o hx.Op) string {
	v, ok := o.Args["file"]
	if !ok {
		return "bad-op"
	}
	fb, err := hx.UnHex(v)
	if err != nil {
		return "bad-op"
	}
	_ = os.MkdirAll(s.dir, 0o700)
	if err := os.WriteFile(s.path(), fb, 0o600); err != nil {
		panic(err)
	}
	s.have, s.cur = true, cp(fb)
	s.rightKnown = o.Has("cp")
	s.right = cp(o.Bytes("cp"))
	s.sk, s.origPub = nil, nil
	if sk := o.Bytes("sk"); len(sk) == 64 {
		s.sk, s.origPub = sk, cp(sk[32:])
	}
	s.pristine = o.Bool("pr")
	s.known = true
	c.Hit("put")
	return "ok"
}

// addr compares every address derivation in the tree on one key.
func (s *state) addr(c *hx.Ctx, o hx.Op) string {
	raw := o.Bytes("sk")
	priv, err := crypto.UnmarshalEd25519PrivateKey(cp(raw))
	if err != nil {
		return "err:privkey"
	}
	pub := priv.GetPublic()
	want := types.KeyAddress(pub)
	if ns, err := noop.NewNoopSigner(priv); err != nil {
		c.Report("C19/address/noop-signer-fails", err.Error())
	} else if a, _ := ns.GetAddress(); !bytes.Equal(a, want) {
		c.Report("C19/address/noop-signer-differs-from-KeyAddress", fmt.Sprintf("noop %x KeyAddress %x", a, want))
	}
	if ts, err := types.NewSigner(pub); err != nil || !bytes.Equal(ts.Address, want) {
		c.Report("C19/address/NewSigner-differs-from-KeyAddress", fmt.Sprintf("NewSigner %x KeyAddress %x", ts.Address, want))
	}
	got := want
	d := filepath.Join(s.root, fmt.Sprintf("addr%d", s.n))
	defer os.RemoveAll(d)
	var sg signer.Signer
	pv := protect(func() {
		if err = filesigner.ImportPrivateKey(d, cp(raw), []byte("addr-pass")); err == nil {
			sg, err = filesigner.LoadFileSystemSigner(d, []byte("addr-pass"))
		}
	})
	if pv != nil || err != nil {
		c.Report("C19/address/file-signer-unavailable", fmt.Sprintf("import+load of a fresh key failed: %v %v", pv, err))
	} else if a, _ := sg.GetAddress(); !bytes.Equal(a, want) {
		c.Report("C19/address/file-signer-differs-from-KeyAddress", fmt.Sprintf("file signer %x KeyAddress %x", a, want))
		got = a
	}
	c.Hit("addr")
	return "ok addr=" + hx.Hex(got)
}

var procs0 = runtime.GOMAXPROCS(0)

func runC19(c *hx.Ctx) {
	defer runtime.GOMAXPROCS(procs0)
	root := os.Getenv("VERIF_WORK")
	if root == "" {
		root = os.TempDir()
	}
	root, err := os.MkdirTemp(root, "c19-run-")
	if err != nil {
		panic(err)
	}
	defer os.RemoveAll(root)
	s := &state{root: root}
	s.reset()
	for {
		o, ok := c.Next()
		if !ok {
			break
		}
		var obs string
		switch o.Verb {
		case "reset":
			s.reset()
			runtime.GOMAXPROCS(procs0)
			obs = "ok"
		case "create":
			obs = s.create(c, o.Bytes("pass"))
		case "load":
			obs = s.load(c, o.Bytes("pass"))
		case "export":
			obs = s.export(c, o.Bytes("pass"))
		case "import":
			obs = s.importKey(c, o)
		case "put":
			obs = s.put(c, o)
		case "addr":
			obs = s.addr(c, o)
		case "procs":
			// the host's parallelism between a save and a later load/export (0 = back to the start value): a key file
			// must not depend on the machine it was written on
			n := o.Int("n")
			if n < 0 || n > 64 {
				obs = "bad-op"
				break
			}
			if n == 0 {
				n = procs0
			}
			runtime.GOMAXPROCS(n)
			obs = "ok"
		default:
			obs = "bad-op"
		}
		c.Emit("%s", obs)
	}
}

func init() { hx.Register("C19", hx.Stream{Gen: genC19, Run: runC19}) }
