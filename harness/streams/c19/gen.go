package c19

import (
	"bytes"
	"crypto/aes"
	"crypto/cipher"
	"encoding/base64"
	"encoding/json"
	"fmt"
	"io"
	"os"
	"strings"

	"verifharness/hx"

	filesigner "github.com/evstack/ev-node/pkg/signer/file"
)

// realBase lets the real code write a key file (CreateFileSystemSigner) and learns the key inside.
func realBase(root, name string, pass []byte) (*base, error) {
	dir, err := os.MkdirTemp(root, "c19-gen-")
	if err != nil {
		return nil, err
	}
	defer os.RemoveAll(dir)
	if pv := protect(func() { _, err = filesigner.CreateFileSystemSigner(dir, cp(pass)) }); pv != nil {
		return nil, fmt.Errorf("create panicked: %v", pv)
	}
	if err != nil {
		return nil, err
	}
	fb, err := os.ReadFile(dir + "/signer.json")
	if err != nil {
		return nil, err
	}
	var k kd
	if err := json.Unmarshal(fb, &k); err != nil {
		return nil, err
	}
	var sk []byte
	// the harness's own reading of the format first, the code's export second
	if blk, e := aes.NewCipher(argonKey(pass, k.Salt)); e == nil {
		if g, e := cipher.NewGCM(blk); e == nil && len(k.Nonce) == g.NonceSize() {
			sk, _ = g.Open(nil, k.Nonce, k.PrivKeyEncrypted, nil)
		}
	}
	if len(sk) != 64 {
		if pv := protect(func() { sk, err = filesigner.ExportPrivateKey(dir, cp(pass)) }); pv != nil || err != nil || len(sk) != 64 {
			return nil, fmt.Errorf("cannot learn the key of a created file: %v %v", pv, err)
		}
	}
	return &base{name: name, pass: cp(pass), file: fb, k: k, sk: sk, legacy: false}, nil
}

// rawJSON builds a key file from optional fields: nil pointer = key omitted.
type fields struct{ ct, nonce, pub, salt *[]byte }

func fieldsOf(k kd) fields {
	f := fields{}
	c, n, p, s := cp(k.PrivKeyEncrypted), cp(k.Nonce), cp(k.PubKeyBytes), cp(k.Salt)
	f.ct, f.nonce, f.pub = &c, &n, &p
	if k.Salt != nil {
		f.salt = &s
	}
	return f
}
func (f fields) json() []byte {
	var parts []string
	add := func(name string, v *[]byte) {
		if v != nil {
			parts = append(parts, fmt.Sprintf("%q:%q", name, base64.StdEncoding.EncodeToString(*v)))
		}
	}
	add("priv_key_encrypted", f.ct)
	add("nonce", f.nonce)
	add("pub_key", f.pub)
	add("salt", f.salt)
	return []byte("{" + strings.Join(parts, ",") + "}")
}

type mutant struct {
	name string
	file []byte
}

func flip(b []byte, i int, m byte) []byte {
	o := cp(b)
	if len(o) > 0 {
		o[i%len(o)] ^= m
	}
	return o
}
func bp(b []byte) *[]byte { return &b }

// fieldMutants: the field-level corruptions of one base file.
func fieldMutants(r *hx.Rng, b *base) []mutant {
	var ms []mutant
	add := func(name string, f fields) { ms = append(ms, mutant{name, f.json()}) }
	addRaw := func(name string, fb []byte) { ms = append(ms, mutant{name, fb}) }
	_, otherSk := keyFromSeed(r.Bytes(32))
	k := b.k
	f := func() fields { return fieldsOf(k) }

	x := f()
	x.pub = bp(cp(otherSk[32:]))
	add("pub-swapped", x)
	x = f()
	x.pub = bp(flip(k.PubKeyBytes, r.Intn(32), 1<<uint(r.Intn(8))))
	add("pub-bitflip", x)
	x = f()
	x.pub = bp(k.PubKeyBytes[:31])
	add("pub-31", x)
	x = f()
	x.pub = bp(append(cp(k.PubKeyBytes), 0))
	add("pub-33", x)
	x = f()
	x.pub = bp([]byte{})
	add("pub-empty", x)
	x = f()
	x.pub = nil
	add("pub-absent", x)

	ct := k.PrivKeyEncrypted
	for _, i := range []int{0, len(ct) / 2, len(ct) - 17, len(ct) - 16, len(ct) - 1, r.Intn(len(ct))} {
		x = f()
		x.ct = bp(flip(ct, i, 1<<uint(r.Intn(8))))
		add(fmt.Sprintf("ct-flip-%d", i), x)
	}
	x = f()
	x.ct = bp(ct[:len(ct)-1])
	add("ct-trunc", x)
	x = f()
	x.ct = bp(ct[:15])
	add("ct-15", x)
	x = f()
	x.ct = bp(ct[:16])
	add("ct-16", x)
	x = f()
	x.ct = bp(append(cp(ct), 0))
	add("ct-extended", x)
	x = f()
	x.ct = bp([]byte{})
	add("ct-empty", x)
	x = f()
	x.ct = nil
	add("ct-absent", x)

	x = f()
	x.nonce = nil
	add("nonce-absent", x)
	x = f()
	x.nonce = bp([]byte{})
	add("nonce-empty", x)
	x = f()
	x.nonce = bp(k.Nonce[:11])
	add("nonce-11", x)
	x = f()
	x.nonce = bp(append(cp(k.Nonce), 7))
	add("nonce-13", x)
	x = f()
	x.nonce = bp(k.Nonce[:1])
	add("nonce-1", x)
	x = f()
	x.nonce = bp(flip(k.Nonce, r.Intn(12), 1<<uint(r.Intn(8))))
	add("nonce-bitflip", x)
	x = f()
	x.nonce = bp(make([]byte, 12))
	add("nonce-zero", x)

	x = f()
	x.salt = nil
	add("salt-absent", x)
	x = f()
	x.salt = bp([]byte{})
	add("salt-empty", x)
	if len(k.Salt) > 0 {
		x = f()
		x.salt = bp(flip(k.Salt, r.Intn(16), 1<<uint(r.Intn(8))))
		add("salt-bitflip", x)
		x = f()
		x.salt = bp(k.Salt[:15])
		add("salt-15", x)
		x = f()
		x.salt = bp(append(cp(k.Salt), 1))
		add("salt-17", x)
	} else {
		x = f()
		x.salt = bp(r.Bytes(16))
		add("salt-added", x)
	}

	addRaw("empty-object", []byte("{}"))
	addRaw("null", []byte("null"))
	addRaw("array", []byte("[]"))
	addRaw("string", []byte(`"signer"`))
	addRaw("number-field", []byte(`{"nonce":5}`))
	addRaw("empty-file", []byte{})
	addRaw("whitespace", []byte(" \n\t"))
	addRaw("padded", append(append([]byte(" \n"), b.file...), '\n', ' '))
	addRaw("trailing-garbage", append(cp(b.file), []byte("x")...))
	addRaw("extra-field", append(append(cp(b.file[:len(b.file)-1]), []byte(`,"comment":"hello"`)...), '}'))
	addRaw("dup-pub", append(append(cp(b.file[:len(b.file)-1]), []byte(fmt.Sprintf(`,"pub_key":%q`, base64.StdEncoding.EncodeToString(otherSk[32:])))...), '}'))
	addRaw("upper-keys", bytes.Replace(cp(b.file), []byte(`"nonce"`), []byte(`"NONCE"`), 1))
	addRaw("renamed-nonce", bytes.Replace(cp(b.file), []byte(`"nonce"`), []byte(`"nonse"`), 1))
	addRaw("null-nonce", f().withNull("nonce"))
	addRaw("null-salt", f().withNull("salt"))
	return ms
}

func (f fields) withNull(name string) []byte {
	switch name {
	case "nonce":
		f.nonce = nil
	case "salt":
		f.salt = nil
	}
	j := f.json()
	return append(append(cp(j[:len(j)-1]), []byte(fmt.Sprintf(`,%q:null`, name))...), '}')
}

func wrongOf(r *hx.Rng, p []byte) [][]byte {
	ws := [][]byte{append(cp(p), 'x')}
	if len(p) > 0 {
		ws = append(ws, flip(p, r.Intn(len(p)), 1<<uint(r.Intn(8))), cp(p[:len(p)-1]), []byte{})
	} else {
		ws = append(ws, []byte{0})
	}
	return ws
}

func genC19(r *hx.Rng, tier string, w io.Writer) {
	thorough := tier == "thorough"
	root := os.Getenv("VERIF_WORK")
	if root == "" {
		root = os.TempDir()
	}
	p := func(format string, a ...any) { fmt.Fprintf(w, format+"\n", a...) }
	load := func(pass []byte) { p("load pass=%s", hx.Hex(pass)) }
	longLen := 5000
	if thorough {
		longLen = 100000
	}

	// ---- 1. life cycle on files the real code writes: create / load / export / import
	passes := [][]byte{[]byte("correct horse battery staple"), {}, r.Bytes(1 + r.Intn(3)), r.Bytes(32), r.Bytes(33 + r.Intn(40))}
	passes = append(passes, r.Bytes(longLen))
	if thorough {
		passes = append(passes, []byte("pässwörd-世界"), r.Bytes(31), bytes.Repeat([]byte{0}, 8))
	}
	for _, pw := range passes {
		p("reset")
		load(pw) // nothing there yet
		p("create pass=%s", hx.Hex(pw))
		load(pw)
		for _, wp := range wrongOf(r, pw)[:2] {
			load(wp)
		}
		p("create pass=%s", hx.Hex(pw)) // refuses to overwrite
		// the same file on a host with fewer / more cores
		for _, n := range []int{1, 2, 3, 8} {
			p("procs n=%d", n)
			load(pw)
			p("export pass=%s", hx.Hex(pw))
		}
		p("procs n=2")
		p("create pass=%s", hx.Hex(pw))
		p("procs n=0")
		load(pw)
		p("export pass=%s", hx.Hex(pw))
		p("export pass=%s", hx.Hex(wrongOf(r, pw)[0]))
		p2 := r.Bytes(r.Intn(20))
		if r.Chance(30) {
			p2 = cp(pw)
		}
		p("import pass=%s", hx.Hex(p2))
		load(p2)
		if !bytes.Equal(pw, p2) {
			load(pw)
		}
		p("export pass=%s", hx.Hex(p2))
	}

	// ---- 2. base files
	var bases []*base
	mk := func(name string, pass []byte, legacy bool) *base {
		_, sk := keyFromSeed(r.Bytes(32))
		b, err := buildFile(name, pass, sk, r.Bytes(16), r.Bytes(12), legacy)
		if err != nil {
			panic(err)
		}
		return b
	}
	rpass := append([]byte("pw-"), r.Bytes(5+r.Intn(10))...)
	rb, err := realBase(root, "real", rpass)
	if err != nil {
		p("# real base unavailable (%v); using a harness-built file", strings.ReplaceAll(err.Error(), "\n", " "))
		rb = mk("real-substitute", rpass, false)
	}
	hb := mk("built", r.Bytes(8+r.Intn(8)), false)
	l1 := mk("legacy-short", r.Bytes(1+r.Intn(30)), true)
	l2 := mk("legacy-long", r.Bytes(33+r.Intn(30)), true)
	l3 := mk("legacy-32", r.Bytes(32), true)
	e0 := mk("built-empty-pass", []byte{}, false)
	bases = []*base{rb, hb, l1, l2, l3, e0}
	if thorough {
		if rb2, err := realBase(root, "real-empty-pass", []byte{}); err == nil {
			bases = append(bases, rb2)
		}
		bases = append(bases, mk("legacy-1", r.Bytes(1), true), mk("legacy-31", r.Bytes(31), true))
	}

	for _, b := range bases {
		p("reset")
		p("%s", putLine(b.file, b, true))
		load(b.pass)
		for _, wp := range wrongOf(r, b.pass) {
			load(wp) // includes the empty passphrase (legacy file: rejected before the legacy derivation)
		}
		load(r.Bytes(longLen / 10))
		p("export pass=%s", hx.Hex(b.pass))
		p("export pass=%s", hx.Hex(wrongOf(r, b.pass)[0]))
		p("import pass=%s", hx.Hex(b.pass))
		load(b.pass)
		// the same key file re-indented by hand (longer, same content): an import over it must replace it completely,
		// not leave the tail of the old file behind the new one
		var ind bytes.Buffer
		if json.Indent(&ind, b.file, "", "      ") == nil {
			ind.WriteString("\n\n")
			p("reset")
			p("%s", putLine(ind.Bytes(), b, false))
			load(b.pass)
			p("export pass=%s", hx.Hex(b.pass))
			p("import pass=%s", hx.Hex(b.pass))
			load(b.pass)
			p("export pass=%s", hx.Hex(b.pass))
			np := r.Bytes(1 + r.Intn(12))
			p("import pass=%s", hx.Hex(np)) // passphrase rotation over the (now compact) file
			load(np)
		}
	}

	// ---- 3. the repaired defects (a)-(c) (regression inputs: each must now be an error) and the
	// known finding (d), each triggered deliberately in a scenario of its own
	{
		_, otherSk := keyFromSeed(r.Bytes(32))
		x := fieldsOf(rb.k)
		x.pub = bp(cp(otherSk[32:]))
		p("reset")
		p("%s", putLine(x.json(), rb, false))
		load(rb.pass) // (a) stored public key is not the private key's: rejected
		p("export pass=%s", hx.Hex(rb.pass))
		x = fieldsOf(rb.k)
		x.nonce = nil
		p("reset")
		p("%s", putLine(x.json(), rb, false))
		load(rb.pass) // (b) nonce missing: rejected before gcm.Open
		p("export pass=%s", hx.Hex(rb.pass))
		p("reset")
		p("%s", putLine(l1.file, l1, true))
		load([]byte{}) // (c) legacy file, empty passphrase: rejected before the legacy derivation
		p("export pass=-")
		load(l1.pass)
		p("reset")
		p("%s", putLine(l2.file, l2, true))
		load(append(cp(l2.pass[:32]), []byte("something else")...)) // (d) legacy derivation ignores everything after 32 bytes
		// a 1-byte passphrase and the first 31 bytes of its legacy key derive the same key
		l4 := mk("legacy-1byte", r.Bytes(1), true)
		kk, _ := legacyKeyOf(l4.pass)
		p("reset")
		p("%s", putLine(l4.file, l4, true))
		load(l4.pass)
		load(kk[:31])
	}

	// ---- 4. field-level corruptions
	fm := []*base{rb, l1}
	if thorough {
		fm = bases
	}
	for _, b := range fm {
		ms := fieldMutants(r, b)
		for i, m := range ms {
			if i%12 == 0 {
				p("reset")
			}
			p("%s", putLine(m.file, b, bytes.Equal(m.file, b.file)))
			load(b.pass)
			switch m.name {
			case "empty-object", "salt-absent", "null-salt", "nonce-absent":
				load([]byte{})
				p("export pass=%s", hx.Hex(b.pass))
			case "pub-swapped":
				p("export pass=%s", hx.Hex(b.pass))
				p("import pass=%s", hx.Hex(b.pass))
				load(b.pass)
			}
		}
	}

	// ---- 5. truncations (every length) — almost all die in the JSON parser, so they are cheap
	tb := []*base{rb}
	if thorough {
		tb = []*base{rb, l1}
	}
	for _, b := range tb {
		for n := 0; n < len(b.file); n++ {
			if n%40 == 0 {
				p("reset")
			}
			p("%s", putLine(b.file[:n], b, false))
			load(b.pass)
		}
	}

	// ---- 6. single-byte corruptions of the real file
	masks := []byte{0x01, 0x02, 0x04, 0x08, 0x10, 0x20, 0x40, 0x80, 0xff}
	emit := func(b *base, pos int, m byte, i int) {
		if i%25 == 0 {
			p("reset")
		}
		fb := cp(b.file)
		fb[pos] ^= m
		p("%s", putLine(fb, b, false))
		load(b.pass)
	}
	if !thorough {
		for i := 0; i < 130; i++ {
			emit(rb, r.Intn(len(rb.file)), masks[r.Intn(len(masks))], i)
		}
		for i := 0; i < 30; i++ {
			emit(l1, r.Intn(len(l1.file)), masks[r.Intn(len(masks))], i)
		}
	} else {
		i := 0
		// every single-bit corruption of the real file; two random corruptions per byte of the legacy file
		for pos := 0; pos < len(rb.file); pos++ {
			for _, m := range masks[:8] {
				emit(rb, pos, m, i)
				i++
			}
			emit(rb, pos, byte(1+r.Intn(255)), i)
			i++
		}
		for pos := 0; pos < len(l1.file); pos++ {
			emit(l1, pos, masks[r.Intn(len(masks))], i)
			i++
			emit(l1, pos, byte(1+r.Intn(255)), i)
			i++
		}
	}

	// ---- 7. address derivations
	p("reset")
	nAddr := 3
	if thorough {
		nAddr = 8
	}
	for i := 0; i < nAddr; i++ {
		_, sk := keyFromSeed(r.Bytes(32))
		p("addr sk=%s", hx.Hex(sk))
	}
	p("addr sk=%s", hx.Hex(r.Bytes(31)))

	// ---- 8. import of malformed keys, malformed ops
	p("reset")
	p("import pass=%s", hx.Hex([]byte("pw"))) // nothing exported yet
	for _, n := range []int{0, 1, 32, 63, 65, 95, 128} {
		p("import pass=%s raw=%s", hx.Hex([]byte("pw")), hx.Hex(r.Bytes(n)))
	}
	p("load pass=%s", hx.Hex([]byte("pw")))
	_, sk := keyFromSeed(r.Bytes(32))
	p("import pass=%s raw=%s", hx.Hex([]byte("pw")), hx.Hex(sk))
	load([]byte("pw"))
	load([]byte("pW"))
	p("export pass=%s", hx.Hex([]byte("pw")))
	p("frobnicate x=1")
	p("put")
	p("put file=zz")
	p("load")
}
