// Package c19 is the correspondence stream and the monitors of property C19
// ("the proposer key file protects the key and yields a working, matching signer").
//
// Real code driven: pkg/signer/file (CreateFileSystemSigner, LoadFileSystemSigner,
// ExportPrivateKey, ImportPrivateKey), pkg/signer/noop, types.KeyAddress/NewSigner.
// The harness has its own, independent description of the on-disk format (mirror struct kd,
// Argon2id parameters, AES-256-GCM, legacy derivation) which it uses to (a) build files in
// the current and in the legacy format and (b) parse every mutated file into the field-level
// description that the Lean model consumes.
package c19

import (
	"bytes"
	"crypto/aes"
	"crypto/cipher"
	"encoding/json"
	"fmt"
	"strings"

	"github.com/libp2p/go-libp2p/core/crypto"
	"golang.org/x/crypto/argon2"

	"verifharness/hx"
)

// kd mirrors keyData of pkg/signer/file/local.go (the documented on-disk format).
type kd struct {
	PrivKeyEncrypted []byte `json:"priv_key_encrypted"`
	Nonce            []byte `json:"nonce"`
	PubKeyBytes      []byte `json:"pub_key"`
	Salt             []byte `json:"salt,omitempty"`
}

// optional field token: "~" absent (nil), "-" present but empty, hex otherwise
func optTok(b []byte) string {
	if b == nil {
		return "~"
	}
	return hx.Hex(b)
}
func optBytes(o hx.Op, k string) []byte {
	v, ok := o.Args[k]
	if !ok || v == "~" {
		return nil
	}
	b, err := hx.UnHex(v)
	if err != nil {
		return nil
	}
	if b == nil {
		return []byte{}
	}
	return b
}

func cp(b []byte) []byte { return append([]byte(nil), b...) }

// legacyKeyOf is the harness's own statement of the legacy derivation (32-byte key); ok=false
// where it is undefined (empty passphrase).
func legacyKeyOf(pass []byte) ([]byte, bool) {
	if len(pass) >= 32 {
		return cp(pass[:32]), true
	}
	if len(pass) == 0 {
		return nil, false
	}
	key := make([]byte, 32)
	copy(key, pass)
	for i := len(pass); i < 32; i++ {
		key[i] = pass[i%len(pass)] ^ byte(i)
	}
	return key, true
}

func argonKey(pass, salt []byte) []byte { return argon2.IDKey(pass, salt, 3, 32*1024, 4, 32) }

func gcmSeal(key, nonce, pt []byte) ([]byte, error) {
	blk, err := aes.NewCipher(key)
	if err != nil {
		return nil, err
	}
	g, err := cipher.NewGCM(blk)
	if err != nil {
		return nil, err
	}
	if len(nonce) != g.NonceSize() {
		return nil, fmt.Errorf("nonce size")
	}
	return g.Seal(nil, nonce, pt, nil), nil
}

// base is one untouched key file together with everything the harness knows about how it was made.
type base struct {
	name   string
	pass   []byte // passphrase it was sealed under
	file   []byte // exact bytes on disk
	k      kd     // its fields
	sk     []byte // raw Ed25519 private key (64 bytes) inside
	legacy bool   // sealed under the legacy (salt-less) derivation
}

// buildFile writes a key file with the harness's own implementation of the format.
func buildFile(name string, pass, sk, salt, nonce []byte, legacy bool) (*base, error) {
	var key []byte
	if legacy {
		k, ok := legacyKeyOf(pass)
		if !ok {
			return nil, fmt.Errorf("legacy derivation undefined for the empty passphrase")
		}
		key, salt = k, nil
	} else {
		key = argonKey(pass, salt)
	}
	ct, err := gcmSeal(key, nonce, sk)
	if err != nil {
		return nil, err
	}
	k := kd{PrivKeyEncrypted: ct, Nonce: nonce, PubKeyBytes: cp(sk[32:]), Salt: salt}
	fb, err := json.Marshal(k)
	if err != nil {
		return nil, err
	}
	return &base{name: name, pass: cp(pass), file: fb, k: k, sk: cp(sk), legacy: legacy}, nil
}

// describe parses (possibly mutated) file bytes into the model's field-level description,
// relative to the base the bytes were derived from.
func describe(fb []byte, b *base, pristine bool) string {
	var k kd
	if err := json.Unmarshal(fb, &k); err != nil {
		return "j=bad " + provenance(b, pristine)
	}
	ct := "G"
	switch {
	case k.PrivKeyEncrypted == nil:
		ct = "~"
	case bytes.Equal(k.PrivKeyEncrypted, b.k.PrivKeyEncrypted):
		ct = "S"
	}
	return fmt.Sprintf("j=ok ct=%s nonce=%s salt=%s pub=%s %s", ct, optTok(k.Nonce), optTok(k.Salt), optTok(k.PubKeyBytes), provenance(b, pristine))
}

// provenance: how the base's ciphertext was produced (what `ct=S` stands for), and whether the
// bytes are exactly what the writer produced.
func provenance(b *base, pristine bool) string {
	l, p := 0, 0
	if b.legacy {
		l = 1
	}
	if pristine {
		p = 1
	}
	return fmt.Sprintf("cp=%s cs=%s cn=%s cl=%d sk=%s pr=%d", hx.Hex(b.pass), hx.Hex(b.k.Salt), hx.Hex(b.k.Nonce), l, hx.Hex(b.sk), p)
}

func putLine(fb []byte, b *base, pristine bool) string {
	return fmt.Sprintf("put file=%s %s", hx.Hex(fb), describe(fb, b, pristine))
}

func errClass(err error) string {
	s := err.Error()
	switch {
	case strings.Contains(s, "key file not found"), strings.Contains(s, "failed to read key file"):
		return "err:nofile"
	case strings.Contains(s, "already exists"):
		return "err:exists"
	case strings.Contains(s, "failed to unmarshal key data"):
		return "err:json"
	case strings.Contains(s, "key file has no salt (legacy format) and the passphrase is empty"):
		return "err:emptypass"
	case strings.Contains(s, "invalid key file: nonce has"):
		return "err:nonce"
	case strings.Contains(s, "public key does not match the private key"):
		return "err:pubmismatch"
	case strings.Contains(s, "failed to decrypt private key"):
		return "err:auth"
	case strings.Contains(s, "failed to unmarshal private key"):
		return "err:privkey"
	case strings.Contains(s, "failed to unmarshal public key"):
		return "err:pubkey"
	}
	return "err:other"
}

func panicClass(p any) (obs, sig string) {
	s := fmt.Sprint(p)
	switch {
	case strings.Contains(s, "incorrect nonce length"):
		return "panic:nonce", "gcm-nonce-length"
	case strings.Contains(s, "divide by zero"):
		return "panic:divzero", "legacy-empty-passphrase-div-zero"
	}
	return "panic:other", "other"
}

func keyFromSeed(seed []byte) (crypto.PrivKey, []byte) {
	priv, _, err := crypto.GenerateEd25519Key(bytes.NewReader(seed))
	if err != nil {
		panic(err)
	}
	raw, _ := priv.Raw()
	return priv, raw
}
