package c19

import (
	"bytes"
	"fmt"
	"os"
	"strings"

	"verifharness/hx"

	"github.com/evstack/ev-node/pkg/signer"
	filesigner "github.com/evstack/ev-node/pkg/signer/file"
	"github.com/evstack/ev-node/pkg/signer/noop"
	"github.com/evstack/ev-node/types"
)

// Facts for Gen/C19.lean: one fixed key, its address as each of the address derivations in the
// tree computes it (file signer, noop signer, types.KeyAddress, types.NewSigner), asked of the
// compiled code.  Spec.C19 proves that the model's `address` (SHA-256 of the raw public key)
// gives the same bytes and that the four agree.
func init() {
	hx.RegisterFacts("C19", func() (string, error) {
		var b strings.Builder
		def := func(name string, v []byte) { fmt.Fprintf(&b, "def %s : Bytes := %s\n", name, hx.LeanBytes(v)) }
		priv, sk := keyFromSeed(bytes.Repeat([]byte{0x19}, 32))
		pub := priv.GetPublic()
		pubRaw, err := pub.Raw()
		if err != nil {
			return "", err
		}
		def("goldenSk", sk)
		def("goldenPub", pubRaw)
		def("addrKeyAddress", types.KeyAddress(pub))
		ts, err := types.NewSigner(pub)
		if err != nil {
			return "", err
		}
		def("addrNewSigner", ts.Address)
		ns, err := noop.NewNoopSigner(priv)
		if err != nil {
			return "", err
		}
		na, _ := ns.GetAddress()
		def("addrNoop", na)
		dir, err := os.MkdirTemp(os.Getenv("VERIF_WORK"), "c19-facts-")
		if err != nil {
			return "", err
		}
		defer os.RemoveAll(dir)
		var fa, fpub []byte
		var sg signer.Signer
		pv := protect(func() {
			if err = filesigner.ImportPrivateKey(dir, cp(sk), []byte("facts")); err != nil {
				return
			}
			if sg, err = filesigner.LoadFileSystemSigner(dir, []byte("facts")); err != nil {
				return
			}
			fa, _ = sg.GetAddress()
			if pk, e := sg.GetPublic(); e == nil {
				fpub, _ = pk.Raw()
			}
		})
		if pv != nil {
			return "", fmt.Errorf("file signer panicked: %v", pv)
		}
		if err != nil {
			return "", err
		}
		def("addrFile", fa)
		def("filePub", fpub)
		return b.String(), nil
	})
}
