package c13

// Regenerated facts for C13: the table of blocking operations of every background loop, read from the CURRENT
// source of /repo/block and /repo/node/full.go with go/parser (no type information; heuristics are listed in
// notes/C13.md).  A Go build overlay (GOFLAGS -overlay=..., used for mutation tests) is honoured.

import (
	"encoding/json"
	"fmt"
	"go/ast"
	"go/parser"
	"go/printer"
	"go/token"
	"os"
	"path/filepath"
	"reflect"
	"runtime"
	"sort"
	"strconv"
	"strings"

	"verifharness/hx"

	"github.com/evstack/ev-node/block"
)

func init() { hx.RegisterFacts("C13", Facts) }

// Point is one blocking operation.
type Point struct {
	Kind  int // 0 ctxSelect, 1 sleep, 2 send, 3 recv, 4 errSend
	Chan  int
	Flag  bool // guarded (send/recv) or boundedByCfg (sleep)
	Fn    string
	Line  int
	Src   string
	CName string
}

var loopCodes = map[string]int{
	"AggregationLoop": 0, "Start": 1, "HeaderSubmissionLoop": 2, "DataSubmissionLoop": 3, "DAIncluderLoop": 4,
	"RetrieveLoop": 5, "HeaderStoreRetrieveLoop": 6, "DataStoreRetrieveLoop": 7, "SyncLoop": 8,
}
var chanCodes = map[string]int{
	"errCh": 0, "headerInCh": 1, "dataInCh": 2, "headerStoreCh": 3, "dataStoreCh": 4, "retrieveCh": 5,
	"daIncluderCh": 6, "txNotifyCh": 7, "<timer>": 8,
}

type analysis struct {
	fset     *token.FileSet
	funcs    map[string][]*ast.FuncDecl // by name
	alias    map[string]string          // func-typed field -> method assigned to it
	locals   map[string]int
	headed   bool
	terminal bool
	notes    []string
}

func repoRoot() string {
	if d := os.Getenv("VERIF_REPO"); d != "" {
		return d
	}
	if f := runtime.FuncForPC(reflect.ValueOf(block.NewManager).Pointer()); f != nil {
		file, _ := f.FileLine(f.Entry())
		if file != "" {
			d := filepath.Dir(filepath.Dir(file))
			if _, err := os.Stat(filepath.Join(d, "node", "full.go")); err == nil {
				return d
			}
		}
	}
	return "/repo"
}

func overlayMap() map[string]string {
	out := map[string]string{}
	path := os.Getenv("VERIF_OVERLAY")
	if path == "" {
		for _, f := range strings.Fields(os.Getenv("GOFLAGS")) {
			if strings.HasPrefix(f, "-overlay=") {
				path = strings.TrimPrefix(f, "-overlay=")
			}
		}
	}
	if path == "" {
		return out
	}
	b, err := os.ReadFile(path)
	if err != nil {
		return out
	}
	var ov struct{ Replace map[string]string }
	if json.Unmarshal(b, &ov) == nil {
		for k, v := range ov.Replace {
			out[k] = v
		}
	}
	return out
}

func parseDir(fset *token.FileSet, dir string, ov map[string]string) ([]*ast.File, error) {
	ents, err := os.ReadDir(dir)
	if err != nil {
		return nil, err
	}
	names := map[string]bool{}
	for _, e := range ents {
		names[filepath.Join(dir, e.Name())] = true
	}
	for k := range ov { // files that exist only in the overlay
		if filepath.Dir(k) == dir {
			names[k] = true
		}
	}
	var sorted []string
	for n := range names {
		sorted = append(sorted, n)
	}
	sort.Strings(sorted)
	var files []*ast.File
	for _, n := range sorted {
		base := filepath.Base(n)
		if !strings.HasSuffix(base, ".go") || strings.HasSuffix(base, "_test.go") || strings.HasPrefix(base, "verif_hooks") {
			continue
		}
		src := n
		if r, ok := ov[n]; ok {
			if r == "" {
				continue
			}
			src = r
		}
		b, err := os.ReadFile(src)
		if err != nil {
			return nil, err
		}
		f, err := parser.ParseFile(fset, n, b, parser.SkipObjectResolution)
		if err != nil {
			return nil, err
		}
		files = append(files, f)
	}
	return files, nil
}

func (a *analysis) text(n ast.Node) string {
	var sb strings.Builder
	_ = printer.Fprint(&sb, a.fset, n)
	s := strings.Join(strings.Fields(sb.String()), " ")
	if len(s) > 70 {
		s = s[:70] + "…"
	}
	return s
}

func isCtxDone(e ast.Expr) bool {
	u, ok := e.(*ast.UnaryExpr)
	if !ok || u.Op != token.ARROW {
		return false
	}
	c, ok := u.X.(*ast.CallExpr)
	if !ok {
		return false
	}
	s, ok := c.Fun.(*ast.SelectorExpr)
	return ok && s.Sel.Name == "Done"
}

// chanName gives a stable name to a channel expression.
func chanName(e ast.Expr) string {
	switch x := e.(type) {
	case *ast.Ident:
		return x.Name
	case *ast.SelectorExpr:
		if x.Sel.Name == "C" {
			return "<timer>"
		}
		return x.Sel.Name
	case *ast.CallExpr:
		if s, ok := x.Fun.(*ast.SelectorExpr); ok && (s.Sel.Name == "After" || s.Sel.Name == "Tick") {
			return "<timer>"
		}
		return "<call>"
	case *ast.ParenExpr:
		return chanName(x.X)
	}
	return "<expr>"
}

func (a *analysis) chanCode(name string) int {
	if c, ok := chanCodes[name]; ok {
		return c
	}
	if c, ok := a.locals[name]; ok {
		return c
	}
	c := 100 + len(a.locals)
	a.locals[name] = c
	return c
}

// recvOf returns the received-from expression of a comm statement (nil if it is a send).
func recvOf(s ast.Stmt) *ast.UnaryExpr {
	var e ast.Expr
	switch x := s.(type) {
	case *ast.ExprStmt:
		e = x.X
	case *ast.AssignStmt:
		if len(x.Rhs) == 1 {
			e = x.Rhs[0]
		}
	}
	if u, ok := e.(*ast.UnaryExpr); ok && u.Op == token.ARROW {
		return u
	}
	return nil
}

// boundedSleepArg: a sleep of a configured interval or a constant is bounded; a sleep of a local variable
// (a duration computed from data such as the genesis time) is not.
func boundedSleepArg(e ast.Expr) bool {
	if _, ok := e.(*ast.Ident); ok {
		return false
	}
	bounded := false
	ast.Inspect(e, func(n ast.Node) bool {
		switch x := n.(type) {
		case *ast.SelectorExpr:
			if x.Sel.Name == "config" || x.Sel.Name == "Config" || x.Sel.Name == "interval" {
				bounded = true
			}
		case *ast.BasicLit:
			bounded = true
		}
		return true
	})
	return bounded
}

// walk lists the blocking points of a function body in source order, inlining callees of the same package.
func (a *analysis) walk(fd *ast.FuncDecl, depth int, seen map[string]bool) []Point {
	var pts []Point
	if fd == nil || fd.Body == nil {
		return pts
	}
	fname := fd.Name.Name
	recvName, recvType := "", ""
	if fd.Recv != nil && len(fd.Recv.List) == 1 {
		if len(fd.Recv.List[0].Names) == 1 {
			recvName = fd.Recv.List[0].Names[0].Name
		}
		t := fd.Recv.List[0].Type
		if s, ok := t.(*ast.StarExpr); ok {
			t = s.X
		}
		if id, ok := t.(*ast.Ident); ok {
			recvType = id.Name
		}
	}
	skip := map[ast.Node]bool{}
	add := func(n ast.Node, kind int, cname string, flag bool) {
		p := Point{Kind: kind, Flag: flag, Fn: fname, Line: a.fset.Position(n.Pos()).Line, Src: a.text(n), CName: cname}
		if kind == 2 || kind == 3 {
			p.Chan = a.chanCode(cname)
		}
		pts = append(pts, p)
	}
	// loops: every `for` without a condition that contains a blocking point must contain a ctx check
	ast.Inspect(fd.Body, func(n ast.Node) bool {
		fs, ok := n.(*ast.ForStmt)
		if !ok || fs.Cond != nil {
			return true
		}
		blocking, ctxCheck := false, false
		noPark := map[ast.Node]bool{} // comm statements of a select that has a `default`: they never park the goroutine
		ast.Inspect(fs.Body, func(k ast.Node) bool {
			if k != nil && noPark[k] {
				return false
			}
			switch x := k.(type) {
			case *ast.SelectStmt:
				hasDefault := false
				for _, c := range x.Body.List {
					if cc := c.(*ast.CommClause); cc.Comm == nil {
						hasDefault = true
					}
				}
				if !hasDefault {
					blocking = true
				}
				for _, c := range x.Body.List {
					if cc := c.(*ast.CommClause); cc.Comm != nil {
						if hasDefault {
							// `select { case errCh <- err: default: }` and the like: a poll, not a blocking operation
							// (a plain send/receive STATEMENT is still seen below)
							noPark[cc.Comm] = true
						}
						if u := recvOf(cc.Comm); u != nil && isCtxDone(u) {
							ctxCheck = true
						}
					}
				}
			case *ast.SendStmt:
				if chanName(x.Chan) != "errCh" { // a terminal error send leaves the loop
					blocking = true
				}
			case *ast.UnaryExpr:
				if x.Op == token.ARROW {
					blocking = true
				}
			case *ast.CallExpr:
				if s, ok := x.Fun.(*ast.SelectorExpr); ok && s.Sel.Name == "Sleep" {
					blocking = true
				}
			}
			return true
		})
		if blocking && !ctxCheck {
			a.headed = false
			a.notes = append(a.notes, fmt.Sprintf("%s:%d: unbounded for-loop with blocking operations and no <-ctx.Done() case", fname, a.fset.Position(fs.Pos()).Line))
		}
		return true
	})
	// terminal error sends: `errCh <- …` must be followed by `return` (or end the function)
	var checkBlock func(list []ast.Stmt, tailReturns bool)
	checkStmt := func(s ast.Stmt, nextReturns bool) {}
	checkBlock = func(list []ast.Stmt, tailReturns bool) {
		for i, s := range list {
			next := tailReturns
			if i+1 < len(list) {
				_, next = list[i+1].(*ast.ReturnStmt)
			}
			checkStmt(s, next)
		}
	}
	checkStmt = func(s ast.Stmt, nextReturns bool) {
		switch x := s.(type) {
		case *ast.SendStmt:
			if chanName(x.Chan) == "errCh" && !nextReturns {
				a.terminal = false
				a.notes = append(a.notes, fmt.Sprintf("%s:%d: error send not followed by return", fname, a.fset.Position(x.Pos()).Line))
			}
		case *ast.BlockStmt:
			checkBlock(x.List, nextReturns)
		case *ast.IfStmt:
			checkBlock(x.Body.List, nextReturns)
			if x.Else != nil {
				checkStmt(x.Else, nextReturns)
			}
		case *ast.ForStmt:
			checkBlock(x.Body.List, false)
		case *ast.RangeStmt:
			checkBlock(x.Body.List, false)
		case *ast.SelectStmt:
			for _, c := range x.Body.List {
				checkBlock(c.(*ast.CommClause).Body, nextReturns)
			}
		case *ast.SwitchStmt:
			for _, c := range x.Body.List {
				checkBlock(c.(*ast.CaseClause).Body, nextReturns)
			}
		case *ast.LabeledStmt:
			checkStmt(x.Stmt, nextReturns)
		}
	}
	checkBlock(fd.Body.List, true)

	ast.Inspect(fd.Body, func(n ast.Node) bool {
		if n == nil || skip[n] {
			return false
		}
		switch x := n.(type) {
		case *ast.SelectStmt:
			hasCtx, hasDefault := false, false
			for _, c := range x.Body.List {
				cc := c.(*ast.CommClause)
				if cc.Comm == nil {
					hasDefault = true
				} else if u := recvOf(cc.Comm); u != nil && isCtxDone(u) {
					hasCtx = true
				}
			}
			guarded := hasCtx || hasDefault
			if hasCtx {
				add(x, 0, "", true)
			}
			for _, c := range x.Body.List {
				cc := c.(*ast.CommClause)
				if cc.Comm == nil {
					continue
				}
				skip[cc.Comm] = true
				if u := recvOf(cc.Comm); u != nil {
					if !isCtxDone(u) {
						add(cc.Comm, 3, chanName(u.X), guarded)
					}
				} else if s, ok := cc.Comm.(*ast.SendStmt); ok {
					add(cc.Comm, 2, chanName(s.Chan), guarded)
				}
			}
		case *ast.SendStmt:
			cn := chanName(x.Chan)
			if cn == "errCh" {
				add(x, 4, cn, false)
			} else {
				add(x, 2, cn, false)
			}
		case *ast.UnaryExpr:
			if x.Op == token.ARROW {
				if isCtxDone(x) {
					add(x, 0, "", true)
				} else {
					add(x, 3, chanName(x.X), false)
				}
			}
		case *ast.CallExpr:
			if s, ok := x.Fun.(*ast.SelectorExpr); ok {
				if id, ok := s.X.(*ast.Ident); ok && id.Name == "time" && s.Sel.Name == "Sleep" && len(x.Args) == 1 {
					add(x, 1, "", boundedSleepArg(x.Args[0]))
					return true
				}
			}
			callee := ""
			switch f := x.Fun.(type) {
			case *ast.Ident:
				callee = f.Name
			case *ast.IndexExpr:
				if id, ok := f.X.(*ast.Ident); ok {
					callee = id.Name
				}
			case *ast.SelectorExpr:
				if id, ok := f.X.(*ast.Ident); ok && id.Name == recvName && recvName != "" {
					callee = f.Sel.Name
				}
			}
			if al, ok := a.alias[callee]; ok {
				callee = al
			}
			if callee != "" && depth < 4 && !seen[callee] {
				if cands := a.funcs[callee]; len(cands) > 0 {
					target := cands[0]
					for _, c := range cands {
						if c.Recv != nil && len(c.Recv.List) == 1 {
							t := c.Recv.List[0].Type
							if s, ok := t.(*ast.StarExpr); ok {
								t = s.X
							}
							if id, ok := t.(*ast.Ident); ok && id.Name == recvType {
								target = c
							}
						}
					}
					seen2 := map[string]bool{callee: true}
					for k := range seen {
						seen2[k] = true
					}
					// arguments first (source order is kept approximately)
					pts = append(pts, a.walk(target, depth+1, seen2)...)
				}
			}
		}
		return true
	})
	return pts
}

type table struct {
	Workers   map[int][]Point
	Names     map[int]string
	Agg, Full []int
	CapErr    int
	CapHdr    int
	CapData   int
	Headed    bool
	Terminal  bool
	RunOK     bool
	Notes     []string
}

func constInt(files []*ast.File, name string) int {
	for _, f := range files {
		for _, d := range f.Decls {
			gd, ok := d.(*ast.GenDecl)
			if !ok {
				continue
			}
			for _, s := range gd.Specs {
				vs, ok := s.(*ast.ValueSpec)
				if !ok {
					continue
				}
				for i, n := range vs.Names {
					if n.Name == name && i < len(vs.Values) {
						if bl, ok := vs.Values[i].(*ast.BasicLit); ok {
							v, _ := strconv.Atoi(strings.ReplaceAll(bl.Value, "_", ""))
							return v
						}
					}
				}
			}
		}
	}
	return -1
}

// makeCap finds `<name>: make(chan T, N)` / `<name> := make(chan T, N)` and evaluates N (literal or package constant).
func makeCap(files []*ast.File, name string) int {
	res := -1
	eval := func(e ast.Expr) int {
		c, ok := e.(*ast.CallExpr)
		if !ok {
			return -1
		}
		if id, ok := c.Fun.(*ast.Ident); !ok || id.Name != "make" {
			return -1
		}
		if len(c.Args) < 2 {
			return 0
		}
		switch v := c.Args[1].(type) {
		case *ast.BasicLit:
			n, _ := strconv.Atoi(v.Value)
			return n
		case *ast.Ident:
			return constInt(files, v.Name)
		}
		return -1
	}
	for _, f := range files {
		ast.Inspect(f, func(n ast.Node) bool {
			switch x := n.(type) {
			case *ast.KeyValueExpr:
				if id, ok := x.Key.(*ast.Ident); ok && id.Name == name {
					if v := eval(x.Value); v >= 0 {
						res = v
					}
				}
			case *ast.AssignStmt:
				if len(x.Lhs) == 1 && len(x.Rhs) == 1 {
					if chanName(x.Lhs[0]) == name {
						if v := eval(x.Rhs[0]); v >= 0 {
							res = v
						}
					}
				}
			}
			return true
		})
	}
	return res
}

func analyse() (*table, error) {
	root := repoRoot()
	ov := overlayMap()
	fset := token.NewFileSet()
	bfiles, err := parseDir(fset, filepath.Join(root, "block"), ov)
	if err != nil {
		return nil, err
	}
	nfiles, err := parseDir(fset, filepath.Join(root, "node"), ov)
	if err != nil {
		return nil, err
	}
	a := &analysis{fset: fset, funcs: map[string][]*ast.FuncDecl{}, alias: map[string]string{}, locals: map[string]int{}, headed: true, terminal: true}
	for _, f := range bfiles {
		for _, d := range f.Decls {
			if fd, ok := d.(*ast.FuncDecl); ok {
				a.funcs[fd.Name.Name] = append(a.funcs[fd.Name.Name], fd)
			}
		}
	}
	// func-typed fields assigned a method of the package (m.publishBlock = m.publishBlockInternal)
	for _, f := range bfiles {
		ast.Inspect(f, func(n ast.Node) bool {
			as, ok := n.(*ast.AssignStmt)
			if !ok || len(as.Lhs) != 1 || len(as.Rhs) != 1 {
				return true
			}
			l, ok1 := as.Lhs[0].(*ast.SelectorExpr)
			r, ok2 := as.Rhs[0].(*ast.SelectorExpr)
			if ok1 && ok2 && len(a.funcs[l.Sel.Name]) == 0 && len(a.funcs[r.Sel.Name]) > 0 {
				a.alias[l.Sel.Name] = r.Sel.Name
			}
			return true
		})
	}
	t := &table{Workers: map[int][]Point{}, Names: map[int]string{}, RunOK: false}
	// node/full.go: Run
	var run *ast.FuncDecl
	for _, f := range nfiles {
		for _, d := range f.Decls {
			if fd, ok := d.(*ast.FuncDecl); ok && fd.Name.Name == "Run" && fd.Recv != nil {
				if s, ok := fd.Recv.List[0].Type.(*ast.StarExpr); ok {
					if id, ok := s.X.(*ast.Ident); ok && id.Name == "FullNode" {
						run = fd
					}
				}
			}
		}
	}
	if run == nil {
		return nil, fmt.Errorf("FullNode.Run not found in %s/node", root)
	}
	t.CapErr = makeCap([]*ast.File{{Decls: []ast.Decl{run}}}, "errCh")
	t.CapHdr = makeCap(bfiles, "headerInCh")
	t.CapData = makeCap(bfiles, "dataInCh")
	spawned := func(b *ast.BlockStmt) []string {
		var out []string
		ast.Inspect(b, func(n ast.Node) bool {
			c, ok := n.(*ast.CallExpr)
			if !ok {
				return true
			}
			if id, ok := c.Fun.(*ast.Ident); !ok || id.Name != "spawnWorker" || len(c.Args) != 1 {
				return true
			}
			ast.Inspect(c.Args[0], func(k ast.Node) bool {
				if cc, ok := k.(*ast.CallExpr); ok {
					if s, ok := cc.Fun.(*ast.SelectorExpr); ok {
						out = append(out, s.Sel.Name)
						return false
					}
				}
				return true
			})
			return false
		})
		return out
	}
	var aggNames, fullNames []string
	ast.Inspect(run.Body, func(n ast.Node) bool {
		is, ok := n.(*ast.IfStmt)
		if !ok {
			return true
		}
		if s, ok := is.Cond.(*ast.SelectorExpr); ok && s.Sel.Name == "Aggregator" {
			aggNames = spawned(is.Body)
			if eb, ok := is.Else.(*ast.BlockStmt); ok {
				fullNames = spawned(eb)
			}
			return false
		}
		return true
	})
	if len(aggNames) == 0 || len(fullNames) == 0 {
		return nil, fmt.Errorf("could not read the worker sets of FullNode.Run")
	}
	// Run's own protocol: one select with `<-errCh` and `<-parentCtx.Done()`, then wg.Wait(); errCh read nowhere else
	errReads, selOK, waitAfter := 0, false, false
	var selPos token.Pos
	ast.Inspect(run.Body, func(n ast.Node) bool {
		switch x := n.(type) {
		case *ast.SelectStmt:
			hasErr, hasParent := false, false
			for _, c := range x.Body.List {
				cc := c.(*ast.CommClause)
				if cc.Comm == nil {
					continue
				}
				if u := recvOf(cc.Comm); u != nil {
					if isCtxDone(u) {
						hasParent = true
					} else if chanName(u.X) == "errCh" {
						hasErr = true
					}
				}
			}
			if hasErr && hasParent {
				selOK = true
				selPos = x.Pos()
			}
		case *ast.UnaryExpr:
			if x.Op == token.ARROW && chanName(x.X) == "errCh" {
				errReads++
			}
		case *ast.CallExpr:
			if s, ok := x.Fun.(*ast.SelectorExpr); ok && s.Sel.Name == "Wait" && selOK && x.Pos() > selPos {
				waitAfter = true
			}
		}
		return true
	})
	t.RunOK = selOK && waitAfter && errReads == 1
	if !t.RunOK {
		a.notes = append(a.notes, fmt.Sprintf("Run protocol: select(errCh,parent)=%v wg.Wait after=%v reads of errCh=%d", selOK, waitAfter, errReads))
	}
	unknown := 90
	code := func(name string) int {
		if c, ok := loopCodes[name]; ok {
			return c
		}
		unknown++
		return unknown
	}
	for _, nm := range aggNames {
		c := code(nm)
		t.Agg = append(t.Agg, c)
		t.Names[c] = nm
	}
	for _, nm := range fullNames {
		c := code(nm)
		t.Full = append(t.Full, c)
		t.Names[c] = nm
	}
	var order []int
	for c := range t.Names {
		order = append(order, c)
	}
	sort.Ints(order)
	for _, c := range order {
		nm := t.Names[c]
		cands := a.funcs[nm]
		if len(cands) == 0 {
			return nil, fmt.Errorf("loop function %s not found in package block", nm)
		}
		fd := cands[0]
		if nm == "Start" {
			for _, cd := range cands {
				if cd.Recv != nil {
					if s, ok := cd.Recv.List[0].Type.(*ast.StarExpr); ok {
						if id, ok := s.X.(*ast.Ident); ok && id.Name == "Reaper" {
							fd = cd
						}
					}
				}
			}
			t.Names[c] = "Reaper.Start"
		}
		t.Workers[c] = a.walk(fd, 0, map[string]bool{nm: true})
	}
	t.Headed, t.Terminal, t.Notes = a.headed, a.terminal, a.notes
	return t, nil
}

func Facts() (string, error) {
	t, err := analyse()
	if err != nil {
		return "", err
	}
	var sb strings.Builder
	w := func(f string, a ...any) { fmt.Fprintf(&sb, f, a...) }
	nats := func(xs []int) string {
		p := make([]string, len(xs))
		for i, x := range xs {
			p[i] = strconv.Itoa(x)
		}
		return "[" + strings.Join(p, ", ") + "]"
	}
	w("/-- capacity of `errCh` in FullNode.Run, of headerInCh / dataInCh in NewManager -/\n")
	w("def capErrCh : Nat := %d\ndef capHeaderInCh : Nat := %d\ndef capDataInCh : Nat := %d\n", max(t.CapErr, 0), max(t.CapHdr, 0), max(t.CapData, 0))
	w("/-- worker sets of FullNode.Run (loop codes: 0 AggregationLoop 1 Reaper.Start 2 HeaderSubmissionLoop 3 DataSubmissionLoop\n 4 DAIncluderLoop 5 RetrieveLoop 6 HeaderStoreRetrieveLoop 7 DataStoreRetrieveLoop 8 SyncLoop, >90 unknown) -/\n")
	w("def aggregatorWorkers : List Nat := %s\ndef fullWorkers : List Nat := %s\n", nats(t.Agg), nats(t.Full))
	var codes []int
	for c := range t.Names {
		codes = append(codes, c)
	}
	sort.Ints(codes)
	w("def workerNames : List (Nat × String) := [")
	for i, c := range codes {
		if i > 0 {
			w(", ")
		}
		w("(%d, %q)", c, t.Names[c])
	}
	w("]\n")
	w("/-- Run waits in one select on errCh and the parent context, reads errCh nowhere else, and joins with wg.Wait() -/\n")
	w("def runProtocol : Bool := %s\n", hx.LeanBool(t.RunOK))
	w("/-- every plain `errCh <- …` is followed by `return` -/\ndef errSendsTerminal : Bool := %s\n", hx.LeanBool(t.Terminal))
	w("/-- every `for` without condition that contains a blocking operation has a `<-ctx.Done()` case -/\ndef loopsHeaded : Bool := %s\n", hx.LeanBool(t.Headed))
	w("/-- blocking points: (loop code, kind, channel code, flag) - kind 0 ctxSelect, 1 sleep (flag = bounded by a configured\n interval), 2 send, 3 recv (flag = inside a select with a ctx.Done case or a default), 4 plain send on errCh.\n Channel codes: 0 errCh 1 headerInCh 2 dataInCh 3 headerStoreCh 4 dataStoreCh 5 retrieveCh 6 daIncluderCh 7 txNotifyCh\n 8 timer, >=100 local. -/\n")
	w("def points : List (Nat × Nat × Nat × Bool) := [\n")
	first := true
	var doc []string
	for _, c := range codes {
		for _, p := range t.Workers[c] {
			if !first {
				w(",\n")
			}
			first = false
			w("  (%d, %d, %d, %s)", c, p.Kind, p.Chan, hx.LeanBool(p.Flag))
			kind := []string{"ctxSelect", "sleep", "send", "recv", "errSend"}[p.Kind]
			doc = append(doc, fmt.Sprintf("(%q, %q, %d, %q, %q, %s, %q)", t.Names[c], p.Fn, p.Line, kind, p.CName, hx.LeanBool(p.Flag), p.Src))
		}
	}
	w("]\n")
	w("/-- the same points with their source location (documentation; the theorems use `points`):\n (loop, function, line, kind, channel, flag, source) -/\n")
	w("def pointsDoc : List (String × String × Nat × String × String × Bool × String) := [\n  %s]\n", strings.Join(doc, ",\n  "))
	w("def notes : List String := [")
	for i, n := range t.Notes {
		if i > 0 {
			w(", ")
		}
		w("%q", n)
	}
	w("]\n")
	return sb.String(), nil
}
