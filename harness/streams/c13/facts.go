package c13

// Regenerated facts for C13: the table of blocking operations of every background loop, read from the CURRENT
// source of /repo with FULL TYPE INFORMATION (go/types): `go list -deps -export` gives the packages of the repository
// reachable from block and node (type-checked here from source) and the export data of everything else.  Calls are
// resolved by object identity and followed to unlimited depth (memoised summaries); everything that could not be
// followed is emitted as a fact (`callsNotFollowed`) which Spec.C13 requires to be empty.  Rules: notes/C13.md.
// A Go build overlay (GOFLAGS -overlay=... / VERIF_OVERLAY, used for mutation tests) is honoured.

import (
	"bytes"
	"encoding/json"
	"fmt"
	"go/ast"
	"go/importer"
	"go/parser"
	"go/printer"
	"go/token"
	"go/types"
	"io"
	"os"
	"os/exec"
	"path/filepath"
	"reflect"
	"runtime"
	"sort"
	"strconv"
	"strings"

	"verifharness/hx"

	"github.com/evstack/ev-node/block"
)

func init() { hx.RegisterFacts("C13", Facts) }

const repoMod = "github.com/evstack/ev-node"

// Point is one blocking operation.
type Point struct {
	Kind  int // 0 ctxSelect, 1 sleep, 2 send, 3 recv, 4 errSend, 5 lock, 6 join
	Chan  int
	Flag  bool // guarded (send/recv), boundedByCfg (sleep), critical sections non-blocking (lock), joined bodies inlined (join)
	Poll  bool // clause of a select that has a `default`: never parks the goroutine
	Fn    string
	Pos   string // file:line:col (identity for de-duplication)
	Line  int
	Src   string
	CName string // channel / mutex name
}

var loopCodes = map[string]int{
	"Manager.AggregationLoop": 0, "Reaper.Start": 1, "Manager.HeaderSubmissionLoop": 2, "Manager.DataSubmissionLoop": 3,
	"Manager.DAIncluderLoop": 4, "Manager.RetrieveLoop": 5, "Manager.HeaderStoreRetrieveLoop": 6,
	"Manager.DataStoreRetrieveLoop": 7, "Manager.SyncLoop": 8,
}
var chanCodes = map[string]int{
	"errCh": 0, "headerInCh": 1, "dataInCh": 2, "headerStoreCh": 3, "dataStoreCh": 4, "retrieveCh": 5,
	"daIncluderCh": 6, "txNotifyCh": 7, "<timer>": 8, "<never>": 9,
}

// ------------------------------------------------------------------------------------------------ loading

func repoRoot() string {
	if d := os.Getenv("VERIF_REPO"); d != "" {
		return d
	}
	if f := runtime.FuncForPC(reflect.ValueOf(block.NewManager).Pointer()); f != nil {
		file, _ := f.FileLine(f.Entry())
		if file != "" {
			d := filepath.Dir(filepath.Dir(file))
			if _, err := os.Stat(filepath.Join(d, "node", "full.go")); err == nil {
				return d
			}
		}
	}
	return "/repo"
}

func overlayPath() string {
	path := os.Getenv("VERIF_OVERLAY")
	if path == "" {
		for _, f := range strings.Fields(os.Getenv("GOFLAGS")) {
			if strings.HasPrefix(f, "-overlay=") {
				path = strings.TrimPrefix(f, "-overlay=")
			}
		}
	}
	return path
}

func overlayMap() map[string]string {
	out := map[string]string{}
	path := overlayPath()
	if path == "" {
		return out
	}
	b, err := os.ReadFile(path)
	if err != nil {
		return out
	}
	var ov struct{ Replace map[string]string }
	if json.Unmarshal(b, &ov) == nil {
		for k, v := range ov.Replace {
			out[k] = v
		}
	}
	return out
}

type listPkg struct {
	ImportPath string
	Dir        string
	GoFiles    []string
	Export     string
	Standard   bool
	Module     *struct{ Path string }
	Error      *struct{ Err string }
	ImportMap  map[string]string
}

type pkgInfo struct {
	path  string
	dir   string
	files []*ast.File
	info  *types.Info
	tpkg  *types.Package
}

type declRef struct {
	fd  *ast.FuncDecl
	pkg *pkgInfo
}

type world struct {
	fset    *token.FileSet
	root    string
	pkgs    map[string]*pkgInfo // packages of the repository, type-checked from source
	order   []string
	decls   map[*types.Func]declRef
	fieldAs map[*types.Var][]valRef    // func-typed struct fields: every value assigned anywhere in the repository's packages
	sites   map[*types.Func][]callSite // static call sites of every declared function of the repository
	litSumm map[*ast.FuncLit][]Point
	litProg map[*ast.FuncLit]bool

	summ   map[fkey][]Point
	inprog map[fkey]bool

	notFollowed map[[2]string]bool
	boundary    map[[3]string]bool
	external    map[string]bool
	goStmts     map[string]bool
	timerOK     bool
	timerDoc    []string
	timerEdges  map[[2]string]bool // (loop@timer, back-edge) -> the timer is re-armed on it
	loopData    map[string][2]bool // loop position -> (can park, leaves at a ctx case)
	errSends    map[string]bool    // plain errCh send position -> followed by return
	regionData  map[[2]string]int  // (mutex, region) -> operations inside that can park the holder
	notes       []string
	headed      bool
	terminal    bool
	termSeen    map[*ast.FuncDecl]bool
	loopSeen    map[ast.Node]bool

	mutexFree map[string]bool // assumption during the fixpoint
	mutexDoc  map[string][]string

	// lock nesting (round 6, after seed C13-H): held mutex -> mutex acquired inside one of its critical sections (calls followed)
	nest      map[[2]string][]string // edge -> sites (documentation)
	onCycle   map[string]bool        // the mutex can reach itself along nesting edges (a self edge included)
	lockBad   map[string]bool        // not free, on a cycle, or a critical section of it acquires such a mutex
	lockOrder []string               // a topological order of the nesting relation (mutexes on cycles last)

	tpInst map[*types.TypeParam][]types.Type // type parameter -> type arguments of every instantiation in the loaded packages
}

type valRef struct {
	e   ast.Expr
	pkg *pkgInfo
	fd  *ast.FuncDecl // enclosing declaration (nil at package level)
}

type callSite struct {
	call *ast.CallExpr
	pkg  *pkgInfo
	fd   *ast.FuncDecl
}

// target of a func value: a declared function of the repository, or a function literal that lives in another declaration
type target struct {
	fn  *types.Func
	lit *ast.FuncLit
	pkg *pkgInfo
	fd  *ast.FuncDecl
}

type repoImporter struct {
	w     *world
	gc    types.ImporterFrom
	byDir map[string]*listPkg
}

func (ri *repoImporter) Import(path string) (*types.Package, error) {
	return ri.ImportFrom(path, "", 0)
}
func (ri *repoImporter) ImportFrom(path, dir string, mode types.ImportMode) (*types.Package, error) {
	if lp := ri.byDir[dir]; lp != nil {
		if m, ok := lp.ImportMap[path]; ok {
			path = m
		}
	}
	if p, ok := ri.w.pkgs[path]; ok {
		return p.tpkg, nil
	}
	return ri.gc.ImportFrom(path, dir, mode)
}

func load() (*world, error) {
	root := repoRoot()
	ov := overlayMap()
	args := []string{"list", "-e", "-deps", "-export", "-json=ImportPath,Dir,GoFiles,Export,Standard,Module,Error,ImportMap", "./block", "./node"}
	cmd := exec.Command("go", args...)
	cmd.Dir = root
	goflags := "-mod=readonly" // never let the go command rewrite /repo/go.mod
	if p := overlayPath(); p != "" {
		goflags += " -overlay=" + p
	}
	var env []string
	for _, kv := range os.Environ() {
		if strings.HasPrefix(kv, "GOFLAGS=") || strings.HasPrefix(kv, "GOWORK=") {
			continue
		}
		env = append(env, kv)
	}
	cmd.Env = append(env, "GOFLAGS="+goflags, "GOWORK=off")
	var stderr bytes.Buffer
	cmd.Stderr = &stderr
	out, err := cmd.Output()
	if err != nil {
		return nil, fmt.Errorf("go list in %s: %v: %s", root, err, stderr.String())
	}
	var pkgs []*listPkg
	dec := json.NewDecoder(bytes.NewReader(out))
	for {
		var p listPkg
		if err := dec.Decode(&p); err == io.EOF {
			break
		} else if err != nil {
			return nil, fmt.Errorf("go list output: %v", err)
		}
		if p.Error != nil {
			return nil, fmt.Errorf("go list: %s: %s", p.ImportPath, p.Error.Err)
		}
		pkgs = append(pkgs, &p)
	}
	w := &world{fset: token.NewFileSet(), root: root, pkgs: map[string]*pkgInfo{}, decls: map[*types.Func]declRef{},
		fieldAs: map[*types.Var][]valRef{}, summ: map[fkey][]Point{}, inprog: map[fkey]bool{},
		sites: map[*types.Func][]callSite{}, litSumm: map[*ast.FuncLit][]Point{}, litProg: map[*ast.FuncLit]bool{},
		notFollowed: map[[2]string]bool{}, boundary: map[[3]string]bool{}, external: map[string]bool{}, goStmts: map[string]bool{},
		headed: true, terminal: true, timerOK: true, timerEdges: map[[2]string]bool{}, loopData: map[string][2]bool{},
		errSends: map[string]bool{}, regionData: map[[2]string]int{}, termSeen: map[*ast.FuncDecl]bool{}, loopSeen: map[ast.Node]bool{},
		mutexFree: map[string]bool{}, mutexDoc: map[string][]string{},
		nest: map[[2]string][]string{}, onCycle: map[string]bool{}, lockBad: map[string]bool{}}
	exports := map[string]string{}
	byDir := map[string]*listPkg{}
	for _, p := range pkgs {
		exports[p.ImportPath] = p.Export
		byDir[p.Dir] = p
	}
	lookup := func(path string) (io.ReadCloser, error) {
		f := exports[path]
		if f == "" {
			return nil, fmt.Errorf("no export data for %q", path)
		}
		return os.Open(f)
	}
	ri := &repoImporter{w: w, gc: importer.ForCompiler(w.fset, "gc", lookup).(types.ImporterFrom), byDir: byDir}
	for _, p := range pkgs { // dependency order
		if p.Module == nil || !(p.Module.Path == repoMod || strings.HasPrefix(p.Module.Path, repoMod+"/")) {
			continue
		}
		pi := &pkgInfo{path: p.ImportPath, dir: p.Dir}
		for _, gf := range p.GoFiles {
			full := filepath.Join(p.Dir, gf)
			if strings.HasPrefix(gf, "verif_hooks") {
				continue
			}
			src := full
			if r, ok := ov[full]; ok {
				if r == "" {
					continue
				}
				src = r
			}
			b, err := os.ReadFile(src)
			if err != nil {
				return nil, err
			}
			f, err := parser.ParseFile(w.fset, full, b, parser.SkipObjectResolution)
			if err != nil {
				return nil, err
			}
			pi.files = append(pi.files, f)
		}
		pi.info = &types.Info{Types: map[ast.Expr]types.TypeAndValue{}, Defs: map[*ast.Ident]types.Object{}, Uses: map[*ast.Ident]types.Object{},
			Selections: map[*ast.SelectorExpr]*types.Selection{}, Instances: map[*ast.Ident]types.Instance{}}
		var terrs []string
		conf := types.Config{Importer: ri, Error: func(err error) { terrs = append(terrs, err.Error()) }}
		tp, _ := conf.Check(p.ImportPath, w.fset, pi.files, pi.info)
		if len(terrs) > 0 {
			return nil, fmt.Errorf("type-checking %s: %s", p.ImportPath, strings.Join(terrs[:min(len(terrs), 3)], "; "))
		}
		pi.tpkg = tp
		w.pkgs[p.ImportPath] = pi
		w.order = append(w.order, p.ImportPath)
		for _, f := range pi.files {
			for _, d := range f.Decls {
				if fd, ok := d.(*ast.FuncDecl); ok {
					if fn, ok := pi.info.Defs[fd.Name].(*types.Func); ok {
						w.decls[fn] = declRef{fd, pi}
					}
				}
			}
		}
	}
	if w.pkgs[repoMod+"/block"] == nil || w.pkgs[repoMod+"/node"] == nil {
		return nil, fmt.Errorf("packages block / node of %s not loaded from %s", repoMod, root)
	}
	// every value assigned to a func-typed struct field, and every static call site, anywhere in the repository's packages
	for _, path := range w.order {
		pi := w.pkgs[path]
		for _, f := range pi.files {
			for _, d := range f.Decls {
				fd, _ := d.(*ast.FuncDecl)
				ast.Inspect(d, func(n ast.Node) bool {
					switch x := n.(type) {
					case *ast.AssignStmt:
						if len(x.Lhs) == len(x.Rhs) {
							for i, l := range x.Lhs {
								if s, ok := l.(*ast.SelectorExpr); ok {
									if sel := pi.info.Selections[s]; sel != nil && sel.Kind() == types.FieldVal {
										if v, ok := sel.Obj().(*types.Var); ok && isFuncType(v.Type()) {
											w.fieldAs[v.Origin()] = append(w.fieldAs[v.Origin()], valRef{x.Rhs[i], pi, fd})
										}
									}
								}
							}
						}
					case *ast.KeyValueExpr:
						if id, ok := x.Key.(*ast.Ident); ok {
							if v, ok := pi.info.Uses[id].(*types.Var); ok && v.IsField() && isFuncType(v.Type()) {
								w.fieldAs[v.Origin()] = append(w.fieldAs[v.Origin()], valRef{x.Value, pi, fd})
							}
						}
					case *ast.CallExpr:
						if fn, ok := w.staticCallee(pi.info, x.Fun).(*types.Func); ok && isRepoPkg(fn.Pkg()) {
							w.sites[fn.Origin()] = append(w.sites[fn.Origin()], callSite{x, pi, fd})
						}
					}
					return true
				})
			}
		}
	}
	return w, nil
}

// ------------------------------------------------------------------------------------------------ helpers

func isFuncType(t types.Type) bool {
	if t == nil {
		return false
	}
	_, ok := t.Underlying().(*types.Signature)
	return ok
}

func isRepoPkg(p *types.Package) bool {
	return p != nil && (p.Path() == repoMod || strings.HasPrefix(p.Path(), repoMod+"/"))
}

func unparen(e ast.Expr) ast.Expr {
	for {
		p, ok := e.(*ast.ParenExpr)
		if !ok {
			return e
		}
		e = p.X
	}
}

func (w *world) text(n ast.Node) string {
	var sb strings.Builder
	_ = printer.Fprint(&sb, w.fset, n)
	s := strings.Join(strings.Fields(sb.String()), " ")
	if len(s) > 70 {
		s = s[:70] + "…"
	}
	return s
}

func (w *world) rel(pos token.Pos) string {
	p := w.fset.Position(pos)
	f := strings.TrimPrefix(p.Filename, w.root+"/")
	return fmt.Sprintf("%s:%d", f, p.Line)
}

// chanName gives a stable name to a channel expression.
func chanName(e ast.Expr) string {
	switch x := e.(type) {
	case *ast.Ident:
		return x.Name
	case *ast.SelectorExpr:
		if x.Sel.Name == "C" {
			return "<timer>"
		}
		return x.Sel.Name
	case *ast.CallExpr:
		if s, ok := x.Fun.(*ast.SelectorExpr); ok && (s.Sel.Name == "After" || s.Sel.Name == "Tick") {
			return "<timer>"
		}
		if s, ok := x.Fun.(*ast.SelectorExpr); ok && s.Sel.Name == "Done" {
			return "<foreign-ctx>"
		}
		return "<call>"
	case *ast.ParenExpr:
		return chanName(x.X)
	}
	return "<expr>"
}

// recvOf returns the received-from expression of a comm statement (nil if it is a send).
func recvOf(s ast.Stmt) *ast.UnaryExpr {
	var e ast.Expr
	switch x := s.(type) {
	case *ast.ExprStmt:
		e = x.X
	case *ast.AssignStmt:
		if len(x.Rhs) == 1 {
			e = x.Rhs[0]
		}
	}
	if u, ok := e.(*ast.UnaryExpr); ok && u.Op == token.ARROW {
		return u
	}
	return nil
}

func qualName(fn *types.Func) string {
	if fn == nil {
		return "?"
	}
	sig, _ := fn.Type().(*types.Signature)
	pk := ""
	if fn.Pkg() != nil {
		pk = strings.TrimPrefix(fn.Pkg().Path(), repoMod+"/")
	}
	if sig != nil && sig.Recv() != nil {
		t := sig.Recv().Type()
		if p, ok := t.(*types.Pointer); ok {
			t = p.Elem()
		}
		if n, ok := t.(*types.Named); ok {
			return pk + "." + n.Obj().Name() + "." + fn.Name()
		}
	}
	return pk + "." + fn.Name()
}

func fullName(fn *types.Func) string { // e.g. (*sync.Mutex).Lock, time.Sleep
	return fn.FullName()
}

// ------------------------------------------------------------------------------------------------ walking

type fkey struct {
	fn       *types.Func
	mask     string // which context parameters carry a context derived from the node context
	paramsOK bool   // func-typed parameters were validated at the call site
}

type frame struct {
	pkg      *pkgInfo
	fd       *ast.FuncDecl
	encl     *types.Func
	fnName   string
	caller   string
	body     ast.Node // body of the enclosing declaration (for assignments to locals)
	params   map[types.Object]bool
	derived  map[types.Object]bool
	paramsOK bool
}

func isContext(t types.Type) bool {
	if n, ok := t.(*types.Named); ok {
		return n.Obj().Pkg() != nil && n.Obj().Pkg().Path() == "context" && n.Obj().Name() == "Context"
	}
	return false
}

var ctxDerivers = map[string]bool{
	"context.WithCancel": true, "context.WithTimeout": true, "context.WithDeadline": true, "context.WithValue": true,
	"context.WithCancelCause": true, "context.WithTimeoutCause": true, "context.WithDeadlineCause": true,
	"golang.org/x/sync/errgroup.WithContext": true,
}

func (w *world) staticCallee(info *types.Info, e ast.Expr) types.Object {
	switch f := unparen(e).(type) {
	case *ast.Ident:
		return info.Uses[f]
	case *ast.SelectorExpr:
		if sel := info.Selections[f]; sel != nil {
			return sel.Obj()
		}
		return info.Uses[f.Sel]
	case *ast.IndexExpr:
		return w.staticCallee(info, f.X)
	case *ast.IndexListExpr:
		return w.staticCallee(info, f.X)
	}
	return nil
}

// typeParamMethods: t is a type parameter (or a pointer to one): the methods named like `o` of every concrete type it is
// instantiated with in the loaded packages.  ok = false: t is not a type parameter, or no instantiation is known / one of
// them has no such method (the call then stays unfollowed).
func (w *world) typeParamMethods(t types.Type, o *types.Func) ([]*types.Func, bool) {
	if t == nil {
		return nil, false
	}
	if p, ok := types.Unalias(t).(*types.Pointer); ok {
		t = p.Elem()
	}
	tp, ok := types.Unalias(t).(*types.TypeParam)
	if !ok {
		return nil, false
	}
	if w.tpInst == nil {
		// index: type parameter -> type arguments at every instantiation of its generic function / type
		w.tpInst = map[*types.TypeParam][]types.Type{}
		for _, path := range w.order {
			for id, inst := range w.pkgs[path].info.Instances {
				var tps *types.TypeParamList
				switch g := w.pkgs[path].info.Uses[id].(type) {
				case *types.Func:
					if sg, ok := g.Type().(*types.Signature); ok {
						tps = sg.TypeParams()
					}
				case *types.TypeName:
					if n, ok := g.Type().(*types.Named); ok {
						tps = n.TypeParams()
					}
				}
				for i := 0; tps != nil && i < tps.Len() && i < inst.TypeArgs.Len(); i++ {
					w.tpInst[tps.At(i)] = append(w.tpInst[tps.At(i)], inst.TypeArgs.At(i))
				}
			}
		}
	}
	var concrete []types.Type
	seen := map[*types.TypeParam]bool{}
	var expand func(tp *types.TypeParam) bool
	expand = func(tp *types.TypeParam) bool {
		if seen[tp] {
			return true
		}
		seen[tp] = true
		args := w.tpInst[tp]
		if len(args) == 0 {
			return false
		}
		for _, a := range args {
			if q, ok := types.Unalias(a).(*types.TypeParam); ok {
				if !expand(q) {
					return false
				}
				continue
			}
			concrete = append(concrete, a)
		}
		return true
	}
	if !expand(tp) || len(concrete) == 0 {
		return nil, false
	}
	var out []*types.Func
	done := map[*types.Func]bool{}
	for _, c := range concrete {
		obj, _, _ := types.LookupFieldOrMethod(c, true, o.Pkg(), o.Name())
		m, ok := obj.(*types.Func)
		if !ok {
			return nil, false
		}
		if !done[m] {
			done[m] = true
			out = append(out, m)
		}
	}
	sort.Slice(out, func(i, j int) bool { return out[i].FullName() < out[j].FullName() })
	return out, true
}

// derivedExpr: is e a context derived from the node context (under the current set of derived variables)?
func (w *world) derivedExpr(fr *frame, e ast.Expr) bool {
	switch x := unparen(e).(type) {
	case *ast.Ident:
		if o := fr.pkg.info.Uses[x]; o != nil {
			return fr.derived[o]
		}
		if o := fr.pkg.info.Defs[x]; o != nil {
			return fr.derived[o]
		}
	case *ast.CallExpr:
		if fn, ok := w.staticCallee(fr.pkg.info, x.Fun).(*types.Func); ok && ctxDerivers[fn.FullName()] && len(x.Args) > 0 {
			return w.derivedExpr(fr, x.Args[0])
		}
	}
	return false
}

// computeDerived: a context variable is derived iff it is a derived parameter or a local, and EVERY value assigned to it is
// `context.WithX(derived, …)` / `errgroup.WithContext(derived)` / a derived variable.
func (w *world) computeDerived(fr *frame, body ast.Node, paramDerived map[types.Object]bool) {
	info := fr.pkg.info
	assigns := map[types.Object][]ast.Expr{}
	obj := func(e ast.Expr) types.Object {
		if id, ok := e.(*ast.Ident); ok {
			if o := info.Defs[id]; o != nil {
				return o
			}
			return info.Uses[id]
		}
		return nil
	}
	ast.Inspect(body, func(n ast.Node) bool {
		switch x := n.(type) {
		case *ast.AssignStmt:
			for i, l := range x.Lhs {
				o := obj(l)
				if o == nil || !isContext(o.Type()) {
					continue
				}
				if len(x.Rhs) == len(x.Lhs) {
					assigns[o] = append(assigns[o], x.Rhs[i])
				} else if len(x.Rhs) == 1 {
					assigns[o] = append(assigns[o], x.Rhs[0])
				}
			}
		case *ast.ValueSpec:
			for i, nm := range x.Names {
				o := info.Defs[nm]
				if o == nil || !isContext(o.Type()) {
					continue
				}
				if len(x.Values) == len(x.Names) {
					assigns[o] = append(assigns[o], x.Values[i])
				} else if len(x.Values) == 1 {
					assigns[o] = append(assigns[o], x.Values[0])
				} else {
					assigns[o] = append(assigns[o], nil)
				}
			}
		}
		return true
	})
	fr.derived = map[types.Object]bool{}
	for o, d := range paramDerived {
		if d {
			fr.derived[o] = true
		}
	}
	for changed := true; changed; {
		changed = false
		// a derived parameter that is re-assigned something foreign is no longer trusted
		for o := range paramDerived {
			if !fr.derived[o] {
				continue
			}
			for _, r := range assigns[o] {
				if r == nil || !w.derivedExpr(fr, r) {
					delete(fr.derived, o)
					changed = true
					break
				}
			}
		}
		for o, rs := range assigns {
			if _, isParam := paramDerived[o]; isParam || fr.derived[o] || len(rs) == 0 {
				continue
			}
			all := true
			for _, r := range rs {
				if r == nil || !w.derivedExpr(fr, r) {
					all = false
				}
			}
			if all {
				fr.derived[o] = true
				changed = true
			}
		}
	}
}

func (w *world) isCtxDone(fr *frame, e ast.Expr) bool {
	u, ok := e.(*ast.UnaryExpr)
	if !ok || u.Op != token.ARROW {
		return false
	}
	c, ok := u.X.(*ast.CallExpr)
	if !ok {
		return false
	}
	s, ok := c.Fun.(*ast.SelectorExpr)
	if !ok || s.Sel.Name != "Done" || len(c.Args) != 0 {
		return false
	}
	if t := fr.pkg.info.TypeOf(s.X); t == nil || !isContext(t) {
		return false
	}
	return w.derivedExpr(fr, s.X)
}

// boundedSleep: (a) a constant, (b) a duration field of the node configuration (pkg/config), (c) min(...) of those.
func (w *world) boundedSleep(fr *frame, e ast.Expr) bool {
	e = unparen(e)
	info := fr.pkg.info
	if tv, ok := info.Types[e]; ok && tv.Value != nil {
		return true
	}
	switch x := e.(type) {
	case *ast.SelectorExpr:
		for cur := ast.Expr(x); ; {
			s, ok := cur.(*ast.SelectorExpr)
			if !ok {
				return false
			}
			if sel := info.Selections[s]; sel != nil && sel.Kind() == types.FieldVal {
				if v, ok := sel.Obj().(*types.Var); ok && v.Pkg() != nil && v.Pkg().Path() == repoMod+"/pkg/config" {
					return true
				}
			}
			cur = unparen(s.X)
		}
	case *ast.CallExpr:
		if id, ok := x.Fun.(*ast.Ident); ok && id.Name == "min" {
			if _, isBuiltin := info.Uses[id].(*types.Builtin); isBuiltin && len(x.Args) > 0 {
				for _, a := range x.Args {
					if !w.boundedSleep(fr, a) {
						return false
					}
				}
				return true
			}
		}
	}
	return false
}

// mutexKey names the mutex a Lock/Unlock call is made on: "<pkg>.<Type>.<field>" for a field, else the variable.
func (w *world) mutexKey(fr *frame, recv ast.Expr) string {
	info := fr.pkg.info
	switch x := unparen(recv).(type) {
	case *ast.SelectorExpr:
		if sel := info.Selections[x]; sel != nil {
			t := sel.Recv()
			if p, ok := t.(*types.Pointer); ok {
				t = p.Elem()
			}
			tn := types.TypeString(t, func(p *types.Package) string { return strings.TrimPrefix(p.Path(), repoMod+"/") })
			if i := strings.IndexByte(tn, '['); i > 0 { // generic instance
				tn = tn[:i]
			}
			return tn + "." + x.Sel.Name
		}
		return "var " + chanName(x)
	case *ast.Ident:
		if o := info.Uses[x]; o != nil {
			if o.Parent() == o.Pkg().Scope() {
				return strings.TrimPrefix(o.Pkg().Path(), repoMod+"/") + "." + o.Name()
			}
			// a local / a receiver with an embedded mutex
			t := o.Type()
			if p, ok := t.(*types.Pointer); ok {
				t = p.Elem()
			}
			if n, ok := t.(*types.Named); ok && n.Obj().Pkg() != nil && n.Obj().Pkg().Path() != "sync" {
				return strings.TrimPrefix(n.Obj().Pkg().Path(), repoMod+"/") + "." + n.Obj().Name() + ".<embedded>"
			}
			return "local " + o.Name() + "@" + w.rel(o.Pos())
		}
	}
	return "expr " + w.text(recv)
}

var lockFns = map[string]bool{"(*sync.Mutex).Lock": true, "(*sync.RWMutex).Lock": true, "(*sync.RWMutex).RLock": true}
var unlockFns = map[string]bool{"(*sync.Mutex).Unlock": true, "(*sync.RWMutex).Unlock": true, "(*sync.RWMutex).RUnlock": true}
var waitFns = map[string]bool{"(*sync.WaitGroup).Wait": true, "(*sync.Cond).Wait": true}

const errgroupWait = "(*golang.org/x/sync/errgroup.Group).Wait"
const errgroupGo = "(*golang.org/x/sync/errgroup.Group).Go"

func (w *world) parking(p Point) bool {
	if p.Poll {
		return false
	}
	switch p.Kind {
	case 5:
		free, known := w.mutexFree[p.CName]
		return (known && !free) || w.lockBad[p.CName]
	case 6:
		return !p.Flag
	}
	return true
}

// frameForDecl: a frame for looking at expressions of another declaration (value flow of func values)
func (w *world) frameForDecl(pi *pkgInfo, fd *ast.FuncDecl, caller string) *frame {
	fr := &frame{pkg: pi, fd: fd, caller: caller, fnName: caller, derived: map[types.Object]bool{}, params: map[types.Object]bool{}}
	if fd == nil {
		return fr
	}
	fr.body = fd.Body
	if fn, ok := pi.info.Defs[fd.Name].(*types.Func); ok {
		fr.encl = fn
		fr.fnName = qualName(fn)
	}
	if fd.Type.Params != nil {
		for _, fl := range fd.Type.Params.List {
			for _, nm := range fl.Names {
				if o := pi.info.Defs[nm]; o != nil {
					fr.params[o] = true
				}
			}
		}
	}
	return fr
}

func paramIndex(pi *pkgInfo, fd *ast.FuncDecl, v types.Object) int {
	idx := 0
	if fd == nil || fd.Type.Params == nil {
		return -1
	}
	for _, fl := range fd.Type.Params.List {
		if len(fl.Names) == 0 {
			idx++
			continue
		}
		for _, nm := range fl.Names {
			if pi.info.Defs[nm] == v {
				return idx
			}
			idx++
		}
	}
	return -1
}

// resolveFuncValue: what a func-valued expression can be (value flow through locals, parameters - by the call sites of the
// enclosing function -, struct fields - by every assignment in the loaded packages).  ok=false: origin unknown.
// Func literals met in place (foreign=false) are walked by walkNode itself and need no target.
func (w *world) resolveFuncValue(fr *frame, e ast.Expr, depth int, foreign bool) (targets []target, external bool, ok bool) {
	info := fr.pkg.info
	e = unparen(e)
	if depth > 10 {
		return nil, false, false
	}
	if tv, has := info.Types[e]; has && tv.IsNil() {
		return nil, false, true
	}
	switch x := e.(type) {
	case *ast.FuncLit:
		if foreign {
			return []target{{lit: x, pkg: fr.pkg, fd: fr.fd}}, false, true
		}
		return nil, false, true
	case *ast.IndexExpr:
		if _, isFn := w.staticCallee(info, x.X).(*types.Func); isFn {
			return w.resolveFuncValue(fr, x.X, depth, foreign)
		}
		return nil, false, false
	case *ast.IndexListExpr:
		return w.resolveFuncValue(fr, x.X, depth, foreign)
	case *ast.CallExpr:
		// a func value returned by a function OUTSIDE the repository (context.WithCancel's cancel …) is external
		if fn, isFn := w.staticCallee(info, x.Fun).(*types.Func); isFn && !isRepoPkg(fn.Pkg()) {
			return nil, true, true
		}
		return nil, false, false
	}
	o := w.staticCallee(info, e)
	switch v := o.(type) {
	case *types.Func:
		if sig, _ := v.Type().(*types.Signature); sig != nil && sig.Recv() != nil && types.IsInterface(sig.Recv().Type()) {
			return nil, true, true // method value of an interface: boundary / external, recorded where it is referenced
		}
		if !isRepoPkg(v.Pkg()) {
			return nil, true, true
		}
		return []target{{fn: v.Origin()}}, false, true
	case *types.Var:
		if v.IsField() {
			if !isRepoPkg(v.Pkg()) {
				return nil, true, true
			}
			as := w.fieldAs[v.Origin()]
			if len(as) == 0 {
				return nil, false, false
			}
			for _, a := range as {
				t, ext, good := w.resolveFuncValue(w.frameForDecl(a.pkg, a.fd, fr.caller), a.e, depth+1, true)
				if !good {
					return nil, false, false
				}
				external = external || ext
				targets = append(targets, t...)
			}
			return targets, external, true
		}
		if fr.params[v] {
			if fr.paramsOK {
				return nil, false, true // validated (and followed) at the call site that is being followed
			}
			idx := paramIndex(fr.pkg, fr.fd, v)
			sites := w.sites[fr.encl]
			if idx < 0 || fr.encl == nil || len(sites) == 0 {
				return nil, false, false
			}
			for _, st := range sites {
				if idx >= len(st.call.Args) {
					return nil, false, false
				}
				t, ext, good := w.resolveFuncValue(w.frameForDecl(st.pkg, st.fd, fr.caller), st.call.Args[idx], depth+1, true)
				if !good {
					return nil, false, false
				}
				external = external || ext
				targets = append(targets, t...)
			}
			return targets, external, true
		}
		if v.Parent() != nil && v.Pkg() != nil && v.Parent() == v.Pkg().Scope() {
			return nil, false, false // package-level func variable
		}
		// local variable: every value assigned to it in the enclosing declaration
		if fr.body == nil {
			return nil, false, false
		}
		found, good := 0, true
		check := func(l ast.Expr, r ast.Expr, tuple bool) {
			id, isId := l.(*ast.Ident)
			if !isId {
				return
			}
			ob := info.Defs[id]
			if ob == nil {
				ob = info.Uses[id]
			}
			if ob != v {
				return
			}
			found++
			if r == nil {
				return
			}
			t, ext, g := w.resolveFuncValue(fr, r, depth+1, foreign)
			if !g {
				good = false
			}
			_ = tuple
			external = external || ext
			targets = append(targets, t...)
		}
		ast.Inspect(fr.body, func(n ast.Node) bool {
			switch x := n.(type) {
			case *ast.AssignStmt:
				if len(x.Lhs) == len(x.Rhs) {
					for i := range x.Lhs {
						check(x.Lhs[i], x.Rhs[i], false)
					}
				} else if len(x.Rhs) == 1 {
					for i := range x.Lhs {
						check(x.Lhs[i], x.Rhs[0], true) // a result of a call
					}
				}
			case *ast.ValueSpec:
				for i, nm := range x.Names {
					if info.Defs[nm] == v {
						if len(x.Values) == len(x.Names) {
							check(nm, x.Values[i], false)
						} else if len(x.Values) == 1 {
							check(nm, x.Values[0], true)
						} else {
							found++
						}
					}
				}
			}
			return true
		})
		if found == 0 || !good {
			return nil, false, false
		}
		return targets, external, true
	}
	return nil, false, false
}

// followTarget returns the points of a resolved func value
func (w *world) followTarget(t target, caller string) []Point {
	if t.fn != nil {
		return w.follow(t.fn, nil, false, caller)
	}
	if t.lit == nil {
		return nil
	}
	if pts, ok := w.litSumm[t.lit]; ok {
		return pts
	}
	if w.litProg[t.lit] {
		return nil
	}
	w.litProg[t.lit] = true
	fr := w.frameForDecl(t.pkg, t.fd, caller)
	pts := w.walkNode(t.lit.Body, fr)
	delete(w.litProg, t.lit)
	w.litSumm[t.lit] = pts
	return pts
}

func (w *world) recvTypeName(info *types.Info, sel *ast.SelectorExpr) string {
	t := info.TypeOf(sel.X)
	if t == nil {
		return "?"
	}
	if p, ok := t.(*types.Pointer); ok {
		t = p.Elem()
	}
	qf := func(p *types.Package) string { return strings.TrimPrefix(p.Path(), repoMod+"/") }
	if n, ok := t.(*types.Named); ok { // without type arguments
		if n.Obj().Pkg() == nil {
			return n.Obj().Name()
		}
		return qf(n.Obj().Pkg()) + "." + n.Obj().Name()
	}
	return types.TypeString(t, qf)
}

// follow returns the blocking points of a declared function of the repository (memoised; a cycle contributes nothing new).
func (w *world) follow(fn *types.Func, argDerived []bool, paramsOK bool, caller string) []Point {
	d, ok := w.decls[fn]
	if !ok || d.fd.Body == nil {
		w.notFollowed[[2]string{caller, qualName(fn) + " (no body in the loaded packages)"}] = true
		return nil
	}
	sig := fn.Type().(*types.Signature)
	mask := make([]byte, 0, sig.Params().Len())
	pd := map[types.Object]bool{}
	params := map[types.Object]bool{}
	idx := 0
	if d.fd.Type.Params != nil {
		for _, f := range d.fd.Type.Params.List {
			names := f.Names
			if len(names) == 0 {
				idx++
				continue
			}
			for _, nm := range names {
				o := d.pkg.info.Defs[nm]
				if o != nil {
					params[o] = true
					if isContext(o.Type()) {
						dv := idx < len(argDerived) && argDerived[idx]
						pd[o] = dv
						if dv {
							mask = append(mask, '1')
						} else {
							mask = append(mask, '0')
						}
					}
				}
				idx++
			}
		}
	}
	k := fkey{fn, string(mask), paramsOK}
	if pts, done := w.summ[k]; done {
		return pts
	}
	if w.inprog[k] {
		return nil
	}
	w.inprog[k] = true
	fr := &frame{pkg: d.pkg, fd: d.fd, encl: fn, fnName: qualName(fn), caller: qualName(fn), body: d.fd.Body, params: params, paramsOK: paramsOK}
	w.computeDerived(fr, d.fd.Body, pd)
	if !w.termSeen[d.fd] {
		w.termSeen[d.fd] = true
		w.checkTerminal(fr, d.fd)
	}
	pts := w.walkNode(d.fd.Body, fr)
	delete(w.inprog, k)
	w.summ[k] = pts
	return pts
}

// checkTerminal: a plain `errCh <- …` statement must be followed by `return` (or end the function)
func (w *world) checkTerminal(fr *frame, fd *ast.FuncDecl) {
	var checkBlock func(list []ast.Stmt, tailReturns bool)
	var checkStmt func(s ast.Stmt, nextReturns bool)
	checkBlock = func(list []ast.Stmt, tailReturns bool) {
		for i, s := range list {
			next := tailReturns
			if i+1 < len(list) {
				_, next = list[i+1].(*ast.ReturnStmt)
			}
			checkStmt(s, next)
		}
	}
	checkStmt = func(s ast.Stmt, nextReturns bool) {
		switch x := s.(type) {
		case *ast.SendStmt:
			if chanName(x.Chan) == "errCh" {
				w.errSends[w.rel(x.Pos())] = nextReturns
			}
			if chanName(x.Chan) == "errCh" && !nextReturns {
				w.terminal = false
				w.notes = append(w.notes, fmt.Sprintf("%s: error send not followed by return", w.rel(x.Pos())))
			}
		case *ast.BlockStmt:
			checkBlock(x.List, nextReturns)
		case *ast.IfStmt:
			checkBlock(x.Body.List, nextReturns)
			if x.Else != nil {
				checkStmt(x.Else, nextReturns)
			}
		case *ast.ForStmt:
			checkBlock(x.Body.List, false)
		case *ast.RangeStmt:
			checkBlock(x.Body.List, false)
		case *ast.SelectStmt:
			for _, c := range x.Body.List {
				checkBlock(c.(*ast.CommClause).Body, nextReturns)
			}
		case *ast.SwitchStmt:
			for _, c := range x.Body.List {
				checkBlock(c.(*ast.CaseClause).Body, nextReturns)
			}
		case *ast.TypeSwitchStmt:
			for _, c := range x.Body.List {
				checkBlock(c.(*ast.CaseClause).Body, nextReturns)
			}
		case *ast.LabeledStmt:
			checkStmt(x.Stmt, nextReturns)
		}
	}
	checkBlock(fd.Body.List, true)
}

// ctxReturn: does the loop body contain (outside nested function literals and nested loops' own business) a select with a
// case on the node context whose body leaves the function (or the loop by a labelled break / goto)?
func (w *world) ctxReturn(fr *frame, body *ast.BlockStmt) bool {
	found := false
	ast.Inspect(body, func(n ast.Node) bool {
		if _, isLit := n.(*ast.FuncLit); isLit {
			return false
		}
		sel, ok := n.(*ast.SelectStmt)
		if !ok {
			return true
		}
		for _, c := range sel.Body.List {
			cc := c.(*ast.CommClause)
			if cc.Comm == nil {
				continue
			}
			if u := recvOf(cc.Comm); u != nil && w.isCtxDone(fr, u) && len(cc.Body) > 0 {
				switch l := cc.Body[len(cc.Body)-1].(type) {
				case *ast.ReturnStmt:
					found = true
				case *ast.BranchStmt:
					if l.Label != nil && (l.Tok == token.BREAK || l.Tok == token.GOTO) {
						found = true
					}
				}
			}
		}
		return true
	})
	return found
}

// walkNode lists the blocking points under n in source order; calls into the repository are followed.
func (w *world) walkNode(n ast.Node, fr *frame) []Point {
	var pts []Point
	info := fr.pkg.info
	skip := map[ast.Node]bool{}
	callpos := map[ast.Expr]bool{}
	handled := map[*ast.Ident]bool{}
	add := func(n ast.Node, kind int, cname string, flag, poll bool) {
		pos := w.fset.Position(n.Pos())
		p := Point{Kind: kind, Flag: flag, Poll: poll, Fn: fr.fnName, Line: pos.Line, Src: w.text(n), CName: cname,
			Pos: fmt.Sprintf("%s:%d:%d", pos.Filename, pos.Line, pos.Column)}
		pts = append(pts, p)
	}
	miss := func(n ast.Node, what string) {
		w.notFollowed[[2]string{fr.caller, fmt.Sprintf("%s at %s: %s", what, w.rel(n.Pos()), w.text(n))}] = true
	}
	followFn := func(call *ast.CallExpr, fn *types.Func, paramsOK bool) {
		var ad []bool
		if call != nil {
			for _, a := range call.Args {
				t := info.TypeOf(a)
				ad = append(ad, t != nil && isContext(t) && w.derivedExpr(fr, a))
			}
		}
		res := w.follow(fn, ad, paramsOK, fr.caller)
		// channel identity through PARAMETERS (refactoring R2: `reportSyncError(errCh, err)`): a chan-typed parameter IS the
		// channel it receives at the call being followed - the callee's points on it are renamed to the argument's name (the
		// summary is shared: renamed on a copy); transitive, since the callee's own calls were renamed the same way
		if call != nil {
			if sig, ok := fn.Type().(*types.Signature); ok {
				ren := map[string]string{}
				for i, a := range call.Args {
					if i >= sig.Params().Len() {
						break
					}
					prm := sig.Params().At(i)
					if _, isChan := prm.Type().Underlying().(*types.Chan); isChan && prm.Name() != "" && prm.Name() != "_" {
						if an := chanName(a); an != prm.Name() && !strings.HasPrefix(an, "<") {
							ren[prm.Name()] = an
						}
					}
				}
				if len(ren) > 0 {
					cp := make([]Point, len(res))
					copy(cp, res)
					for i := range cp {
						if cp[i].Kind == 2 || cp[i].Kind == 3 {
							if n, ok := ren[cp[i].CName]; ok {
								cp[i].CName = n
							}
						}
					}
					res = cp
				}
			}
		}
		pts = append(pts, res...)
	}
	// a func value used as a value (argument, assignment, method value): the repository function behind it is followed here
	valueRef := func(e ast.Expr) {
		if !isFuncType(info.TypeOf(e)) {
			return
		}
		if fn, ok := w.staticCallee(info, e).(*types.Func); ok {
			if sig, _ := fn.Type().(*types.Signature); sig != nil && sig.Recv() != nil && types.IsInterface(sig.Recv().Type()) {
				if isRepoPkg(fn.Pkg()) {
					if s, ok := unparen(e).(*ast.SelectorExpr); ok {
						w.boundary[[3]string{fr.caller, w.recvTypeName(info, s), fn.Name()}] = true
					}
				}
				return
			}
			if isRepoPkg(fn.Pkg()) {
				followFn(nil, fn.Origin(), false)
			} else if fn.Pkg() != nil {
				w.external[fn.Pkg().Path()] = true
			}
		}
	}
	ast.Inspect(n, func(n ast.Node) bool {
		if n == nil || skip[n] {
			return false
		}
		switch x := n.(type) {
		case *ast.GoStmt:
			joined := w.goJoined(fr, x)
			w.goStmts[fmt.Sprintf("%s: %s (joined before the function returns: %v)", w.rel(x.Pos()), w.text(x), joined)] = true
			if !joined {
				// an activity that outlives the function that started it: the worker's return does not cover it.  (Its
				// body is still walked in place below.)
				add(x, 7, "", false, false)
			}
		case *ast.ForStmt:
			if x.Init == nil && x.Post == nil && !w.loopSeen[x] {
				w.loopSeen[x] = true
				w.checkLoop(fr, x, x.Body)
				w.checkTimers(fr, x)
			}
		case *ast.RangeStmt:
			if t := info.TypeOf(x.X); t != nil {
				if _, isChan := t.Underlying().(*types.Chan); isChan {
					add(x, 3, chanName(x.X), false, false)
					if !w.loopSeen[x] {
						w.loopSeen[x] = true
						w.checkLoop(fr, x, x.Body)
					}
				}
			}
		case *ast.SelectStmt:
			if len(x.Body.List) == 0 {
				add(x, 3, "<never>", false, false)
				return true
			}
			hasCtx, hasDefault := false, false
			for _, c := range x.Body.List {
				cc := c.(*ast.CommClause)
				if cc.Comm == nil {
					hasDefault = true
				} else if u := recvOf(cc.Comm); u != nil && w.isCtxDone(fr, u) {
					hasCtx = true
				}
			}
			guarded := hasCtx || hasDefault
			if hasCtx {
				add(x, 0, "", true, hasDefault)
			}
			for _, c := range x.Body.List {
				cc := c.(*ast.CommClause)
				if cc.Comm == nil {
					continue
				}
				if u := recvOf(cc.Comm); u != nil {
					skip[u] = true
					if !w.isCtxDone(fr, u) {
						add(cc.Comm, 3, chanName(u.X), guarded, hasDefault)
					}
				} else if s, ok := cc.Comm.(*ast.SendStmt); ok {
					skip[cc.Comm] = true
					add(cc.Comm, 2, chanName(s.Chan), guarded, hasDefault)
					// the value sent may contain calls
					pts = append(pts, w.walkNode(s.Value, fr)...)
				}
			}
		case *ast.SendStmt:
			cn := chanName(x.Chan)
			if cn == "errCh" {
				add(x, 4, cn, false, false)
			} else {
				add(x, 2, cn, false, false)
			}
		case *ast.UnaryExpr:
			if x.Op == token.ARROW {
				if w.isCtxDone(fr, x) {
					add(x, 0, "", true, false)
				} else {
					add(x, 3, chanName(x.X), false, false)
				}
			}
		case *ast.SelectorExpr:
			handled[x.Sel] = true
			if !callpos[x] {
				valueRef(x)
			}
		case *ast.Ident:
			if !handled[x] && !callpos[x] {
				if _, isFn := info.Uses[x].(*types.Func); isFn {
					valueRef(x)
				}
			}
		case *ast.CallExpr:
			fun := unparen(x.Fun)
			if tv, ok := info.Types[fun]; ok && tv.IsType() {
				return true // conversion
			}
			callpos[fun] = true
			if ix, ok := fun.(*ast.IndexExpr); ok {
				callpos[unparen(ix.X)] = true
			}
			if ix, ok := fun.(*ast.IndexListExpr); ok {
				callpos[unparen(ix.X)] = true
			}
			if _, ok := fun.(*ast.FuncLit); ok {
				return true // called in place: the body is walked in place
			}
			// func-valued arguments: their origin must be known
			for _, a := range x.Args {
				if isFuncType(info.TypeOf(a)) {
					targets, _, ok := w.resolveFuncValue(fr, a, 0, false)
					if !ok {
						miss(a, "func-valued argument of unknown origin")
					}
					for _, t := range targets { // the callee may call it: its points belong to this walk
						pts = append(pts, w.followTarget(t, fr.caller)...)
					}
				}
			}
			switch o := w.staticCallee(info, fun).(type) {
			case *types.Builtin, *types.TypeName, nil:
				if o == nil {
					miss(x, "dynamic call")
				}
			case *types.Func:
				sig, _ := o.Type().(*types.Signature)
				if sig != nil && sig.Recv() != nil && types.IsInterface(sig.Recv().Type()) {
					// a method call on a TYPE PARAMETER (`items[l-1].Height()` in `lastItemHeight[T interface{ Height() uint64 }]`,
					// refactoring R3): not an interface call - resolved through the instantiations of the generic function
					// (go/types Info.Instances, closed world over the loaded packages; a type argument that is itself a type
					// parameter is resolved through ITS instantiations) and followed like a static call.  Only when no
					// instantiation is known does it stay an unfollowed call on "T" (reported by C13_boundary_declared).
					if s, ok := fun.(*ast.SelectorExpr); ok {
						if ms, ok := w.typeParamMethods(info.TypeOf(s.X), o); ok {
							for _, m := range ms {
								msig, _ := m.Type().(*types.Signature)
								switch {
								case msig != nil && msig.Recv() != nil && types.IsInterface(msig.Recv().Type()):
									if isRepoPkg(m.Pkg()) {
										w.boundary[[3]string{fr.caller, strings.TrimPrefix(types.TypeString(msig.Recv().Type(), func(p *types.Package) string { return strings.TrimPrefix(p.Path(), repoMod+"/") }), "*"), m.Name()}] = true
									} else if m.Pkg() != nil {
										w.external[m.Pkg().Path()] = true
									}
								case isRepoPkg(m.Pkg()):
									followFn(x, m.Origin(), true)
								case m.Pkg() != nil:
									w.external[m.Pkg().Path()] = true
								}
							}
							return true
						}
					}
					if isRepoPkg(o.Pkg()) {
						iface := "?"
						if s, ok := fun.(*ast.SelectorExpr); ok {
							iface = w.recvTypeName(info, s)
						}
						w.boundary[[3]string{fr.caller, iface, o.Name()}] = true
					} else if o.FullName() == "(sync.Locker).Lock" {
						// a mutex behind the Locker interface: which one is not known, so it is not known to be free
						w.mutexFree["sync.Locker (dynamic)"] = false
						add(x, 5, "sync.Locker (dynamic)", false, false)
					} else if o.Pkg() != nil {
						w.external[o.Pkg().Path()] = true
					}
					return true
				}
				if isRepoPkg(o.Pkg()) {
					followFn(x, o.Origin(), true)
					return true
				}
				fname := o.Origin().FullName()
				switch {
				case fname == "time.Sleep" && len(x.Args) == 1:
					add(x, 1, "", w.boundedSleep(fr, x.Args[0]), false)
				case lockFns[fname]:
					if s, ok := fun.(*ast.SelectorExpr); ok {
						add(x, 5, w.mutexKey(fr, s.X), true, false)
					}
				case waitFns[fname]:
					// a WaitGroup that never leaves the declaration joins exactly the `go` statements of the declaration,
					// whose bodies are walked in place: as good as their points
					add(x, 6, fname, fname == "(*sync.WaitGroup).Wait" && w.localWaitGroup(fr, fun) != nil, false)
				case fname == errgroupWait:
					// the functions handed to g.Go are walked in place (literals) or followed (declared functions); the
					// join is as good as they are - unless one of them is of unknown origin
					add(x, 6, fname, w.errgroupInlined(fr, fun), false)
				default:
					if o.Pkg() != nil {
						w.external[o.Pkg().Path()] = true
					}
				}
			case *types.Var:
				targets, ext, ok := w.resolveFuncValue(fr, fun, 0, false)
				if !ok {
					miss(x, "call through a func value of unknown origin")
					return true
				}
				if ext {
					w.external["<func value obtained from outside the repository>"] = true
				}
				for _, t := range targets {
					if t.fn != nil {
						followFn(x, t.fn, true)
					} else {
						pts = append(pts, w.followTarget(t, fr.caller)...)
					}
				}
			}
		}
		return true
	})
	return pts
}

// errgroupInlined: every g.Go(f) of the same group variable in the enclosing declaration has an f of known origin.
func (w *world) errgroupInlined(fr *frame, waitFun ast.Expr) bool {
	s, ok := waitFun.(*ast.SelectorExpr)
	if !ok || fr.body == nil {
		return false
	}
	gid, ok := unparen(s.X).(*ast.Ident)
	if !ok {
		return false
	}
	info := fr.pkg.info
	g := info.Uses[gid]
	if g == nil || g.Parent() == nil || g.Parent() == g.Pkg().Scope() {
		return false
	}
	good, n := true, 0
	ast.Inspect(fr.body, func(n2 ast.Node) bool {
		c, ok := n2.(*ast.CallExpr)
		if !ok {
			return true
		}
		if fn, ok := w.staticCallee(info, c.Fun).(*types.Func); ok && fn.FullName() == errgroupGo {
			if cs, ok := unparen(c.Fun).(*ast.SelectorExpr); ok {
				if id, ok := unparen(cs.X).(*ast.Ident); ok && info.Uses[id] == g && len(c.Args) == 1 {
					n++
					if _, _, ok := w.resolveFuncValue(fr, c.Args[0], 0, false); !ok {
						good = false
					}
				}
			}
		}
		return true
	})
	return good && n > 0
}

// localWaitGroup: the receiver of a WaitGroup method call if it is a local variable of the enclosing declaration that is
// used for nothing but Add / Done / Wait calls (so nobody else can Add to it)
func (w *world) localWaitGroup(fr *frame, fun ast.Expr) types.Object {
	s, ok := unparen(fun).(*ast.SelectorExpr)
	if !ok || fr.body == nil {
		return nil
	}
	id, ok := unparen(s.X).(*ast.Ident)
	if !ok {
		return nil
	}
	info := fr.pkg.info
	o := info.Uses[id]
	v, isVar := o.(*types.Var)
	if !isVar || v.IsField() || fr.params[o] || (v.Pkg() != nil && v.Parent() == v.Pkg().Scope()) {
		return nil
	}
	recvOK := map[*ast.Ident]bool{}
	ast.Inspect(fr.body, func(n ast.Node) bool {
		if c, ok := n.(*ast.CallExpr); ok {
			if cs, ok := unparen(c.Fun).(*ast.SelectorExpr); ok {
				if rid, ok := unparen(cs.X).(*ast.Ident); ok && info.Uses[rid] == o {
					if fn, ok := w.staticCallee(info, c.Fun).(*types.Func); ok {
						switch fn.FullName() {
						case "(*sync.WaitGroup).Add", "(*sync.WaitGroup).Done", "(*sync.WaitGroup).Wait":
							recvOK[rid] = true
						}
					}
				}
			}
		}
		return true
	})
	clean := true
	ast.Inspect(fr.body, func(n ast.Node) bool {
		if rid, ok := n.(*ast.Ident); ok && info.Uses[rid] == o && !recvOK[rid] {
			clean = false
		}
		return true
	})
	if !clean {
		return nil
	}
	return o
}

// goJoined: `go func() { defer wg.Done() … }()` with a local WaitGroup (see localWaitGroup) whose Wait is called later in the
// same declaration (or deferred): the goroutine has returned when the declaration returns.
func (w *world) goJoined(fr *frame, g *ast.GoStmt) bool {
	lit, ok := unparen(g.Call.Fun).(*ast.FuncLit)
	if !ok || fr.body == nil {
		return false
	}
	info := fr.pkg.info
	var wg types.Object
	ast.Inspect(lit.Body, func(n ast.Node) bool {
		if c, ok := n.(*ast.CallExpr); ok {
			if fn, ok := w.staticCallee(info, c.Fun).(*types.Func); ok && fn.FullName() == "(*sync.WaitGroup).Done" {
				if o := w.localWaitGroup(fr, c.Fun); o != nil {
					wg = o
				}
			}
		}
		return true
	})
	if wg == nil {
		return false
	}
	waited := false
	ast.Inspect(fr.body, func(n ast.Node) bool {
		switch x := n.(type) {
		case *ast.FuncLit:
			return false
		case *ast.CallExpr:
			if fn, ok := w.staticCallee(info, x.Fun).(*types.Func); ok && fn.FullName() == "(*sync.WaitGroup).Wait" {
				if w.localWaitGroup(fr, x.Fun) == wg && x.Pos() > g.End() {
					waited = true
				}
			}
		case *ast.DeferStmt:
			if fn, ok := w.staticCallee(info, x.Call.Fun).(*types.Func); ok && fn.FullName() == "(*sync.WaitGroup).Wait" {
				if w.localWaitGroup(fr, x.Call.Fun) == wg {
					waited = true
				}
			}
		}
		return true
	})
	return waited
}

// ---- timer-driven loops: `for { select { … case <-t.C: … } … }` with t a *time.Timer must re-arm t (t.Reset) on every path
// from that case back to the head of the loop, otherwise the loop never fires again (it still stops promptly).

func isTimerPtr(t types.Type) bool {
	p, ok := t.(*types.Pointer)
	if !ok {
		return false
	}
	n, ok := p.Elem().(*types.Named)
	return ok && n.Obj().Pkg() != nil && n.Obj().Pkg().Path() == "time" && n.Obj().Name() == "Timer"
}

func (w *world) exprObj(info *types.Info, e ast.Expr) types.Object {
	switch x := unparen(e).(type) {
	case *ast.Ident:
		if o := info.Uses[x]; o != nil {
			return o
		}
		return info.Defs[x]
	case *ast.SelectorExpr:
		if sel := info.Selections[x]; sel != nil && sel.Kind() == types.FieldVal {
			return sel.Obj()
		}
	}
	return nil
}

// resetsParam: the declared function re-arms its idx-th parameter on every path that returns normally (or hands it on to a
// function that does)
func (w *world) resetsParam(fn *types.Func, idx int, depth int) bool {
	d, ok := w.decls[fn]
	if !ok || d.fd.Body == nil || depth > 4 {
		return false
	}
	var po types.Object
	i := 0
	if d.fd.Type.Params != nil {
		for _, fl := range d.fd.Type.Params.List {
			if len(fl.Names) == 0 {
				i++
				continue
			}
			for _, nm := range fl.Names {
				if i == idx {
					po = d.pkg.info.Defs[nm]
				}
				i++
			}
		}
	}
	if po == nil {
		return false
	}
	// every path that leaves the function normally (end of the body, `return`, `return nil …`) must have re-armed the
	// parameter; a return that hands back a non-nil error is taken to end the caller's loop
	ok2 := true
	tf := &timerFlow{w: w, pi: d.pkg, t: po, depth: depth + 1, onReturn: func(r *ast.ReturnStmt, cur bool) {
		if cur {
			return
		}
		for _, res := range r.Results {
			if tv, has := d.pkg.info.Types[res]; !has || !tv.IsNil() {
				if id, isId := res.(*ast.Ident); !isId || id.Name != "nil" {
					return // an error (or some value) is returned: not the success path
				}
			}
		}
		ok2 = false
	}}
	cur, falls := tf.flow(d.fd.Body.List, false, false)
	if falls && !cur {
		ok2 = false
	}
	return ok2
}

// stmtResets: the statement is (an assignment of / an expression statement of) t.Reset(…) or f(…, t, …) with f re-arming it
func (w *world) stmtResets(pi *pkgInfo, st ast.Stmt, t types.Object, depth int) bool {
	var calls []*ast.CallExpr
	switch x := st.(type) {
	case *ast.ExprStmt:
		if c, ok := x.X.(*ast.CallExpr); ok {
			calls = append(calls, c)
		}
	case *ast.AssignStmt:
		for _, r := range x.Rhs {
			if c, ok := r.(*ast.CallExpr); ok {
				calls = append(calls, c)
			}
		}
	}
	for _, c := range calls {
		fn, _ := w.staticCallee(pi.info, c.Fun).(*types.Func)
		if fn == nil {
			continue
		}
		if fn.FullName() == "(*time.Timer).Reset" {
			if s, ok := unparen(c.Fun).(*ast.SelectorExpr); ok && w.exprObj(pi.info, s.X) == t {
				return true
			}
		}
		if isRepoPkg(fn.Pkg()) {
			for i, a := range c.Args {
				if w.exprObj(pi.info, a) == t && w.resetsParam(fn.Origin(), i, depth+1) {
					return true
				}
			}
		}
	}
	return false
}

// timerFlow: structured path analysis "is timer t re-armed on every path" over if / switch / select / continue / break / return
type timerFlow struct {
	w          *world
	pi         *pkgInfo
	t          types.Object
	depth      int
	onContinue func(pos token.Pos, cur bool)
	onReturn   func(r *ast.ReturnStmt, cur bool)
}

func mergeFlow(outs [][2]bool) (bool, bool) {
	cur, falls := true, false
	for _, o := range outs {
		if o[1] {
			falls = true
			cur = cur && o[0]
		}
	}
	return cur, falls
}

func (tf *timerFlow) one(st ast.Stmt, cur bool, inSwitch bool) (bool, bool) {
	w, info, t := tf.w, tf.pi.info, tf.t
	switch x := st.(type) {
	case *ast.LabeledStmt:
		return tf.one(x.Stmt, cur, inSwitch)
	case *ast.ExprStmt, *ast.AssignStmt:
		if w.stmtResets(tf.pi, st, t, tf.depth) {
			return true, true
		}
		if es, ok := st.(*ast.ExprStmt); ok {
			if c, ok := es.X.(*ast.CallExpr); ok {
				if id, ok := c.Fun.(*ast.Ident); ok && id.Name == "panic" {
					return cur, false
				}
			}
		}
		return cur, true
	case *ast.ReturnStmt:
		if tf.onReturn != nil {
			tf.onReturn(x, cur)
		}
		return cur, false
	case *ast.BranchStmt:
		switch x.Tok {
		case token.CONTINUE:
			if tf.onContinue != nil {
				tf.onContinue(x.Pos(), cur)
			}
			return cur, false
		case token.BREAK:
			if inSwitch && x.Label == nil {
				return cur, true // leaves the switch / select only
			}
			return cur, false
		}
		return cur, false
	case *ast.BlockStmt:
		return tf.flow(x.List, cur, inSwitch)
	case *ast.IfStmt:
		if x.Init != nil {
			cur, _ = tf.one(x.Init, cur, inSwitch)
		}
		c1, f1 := tf.flow(x.Body.List, cur, inSwitch)
		c2, f2 := cur, true
		if x.Else != nil {
			c2, f2 = tf.one(x.Else, cur, inSwitch)
		}
		return mergeFlow([][2]bool{{c1, f1}, {c2, f2}})
	case *ast.SwitchStmt, *ast.TypeSwitchStmt:
		var body *ast.BlockStmt
		if sw, ok := x.(*ast.SwitchStmt); ok {
			body = sw.Body
		} else {
			body = x.(*ast.TypeSwitchStmt).Body
		}
		var outs [][2]bool
		hasDefault := false
		for _, c := range body.List {
			cc := c.(*ast.CaseClause)
			if cc.List == nil {
				hasDefault = true
			}
			c1, f1 := tf.flow(cc.Body, cur, true)
			outs = append(outs, [2]bool{c1, f1})
		}
		if !hasDefault {
			outs = append(outs, [2]bool{cur, true})
		}
		return mergeFlow(outs)
	case *ast.SelectStmt:
		var outs [][2]bool
		for _, c := range x.Body.List {
			cc := c.(*ast.CommClause)
			start := cur
			if cc.Comm != nil {
				if u := recvOf(cc.Comm); u != nil {
					if s, ok := unparen(u.X).(*ast.SelectorExpr); ok && s.Sel.Name == "C" && w.exprObj(info, s.X) == t {
						start = false // the timer has fired: it is no longer armed
					}
				}
			}
			c1, f1 := tf.flow(cc.Body, start, true)
			outs = append(outs, [2]bool{c1, f1})
		}
		return mergeFlow(outs)
	case *ast.ForStmt, *ast.RangeStmt:
		return cur, true // an inner loop: what it does to the timer is not relied upon
	}
	return cur, true
}

func (tf *timerFlow) flow(list []ast.Stmt, cur bool, inSwitch bool) (bool, bool) {
	for _, st := range list {
		var f bool
		cur, f = tf.one(st, cur, inSwitch)
		if !f {
			return cur, false
		}
	}
	return cur, true
}

func (w *world) checkTimers(fr *frame, loop *ast.ForStmt) {
	info := fr.pkg.info
	// the timers received from in a select at the top level of the loop body
	timers := map[types.Object]string{}
	for _, st := range loop.Body.List {
		sel, ok := st.(*ast.SelectStmt)
		if !ok {
			continue
		}
		for _, c := range sel.Body.List {
			cc := c.(*ast.CommClause)
			if cc.Comm == nil {
				continue
			}
			if u := recvOf(cc.Comm); u != nil {
				if s, ok := unparen(u.X).(*ast.SelectorExpr); ok && s.Sel.Name == "C" {
					if t := info.TypeOf(s.X); t != nil && isTimerPtr(t) {
						if o := w.exprObj(info, s.X); o != nil {
							timers[o] = w.text(s.X)
						}
					}
				}
			}
		}
	}
	for t, name := range timers {
		var bad []string
		edgeKey := fmt.Sprintf("%s (%s) timer %s", w.rel(loop.Pos()), fr.fnName, name)
		tf := &timerFlow{w: w, pi: fr.pkg, t: t, onContinue: func(pos token.Pos, cur bool) {
			w.timerEdges[[2]string{edgeKey, fmt.Sprintf("`continue` at %s", w.rel(pos))}] = cur
			if !cur {
				bad = append(bad, fmt.Sprintf("`continue` at %s", w.rel(pos)))
			}
		}}
		flow := tf.flow
		cur, falls := flow(loop.Body.List, true, false)
		if falls {
			w.timerEdges[[2]string{edgeKey, "end of the loop body"}] = cur
		}
		if falls && !cur {
			bad = append(bad, "end of the loop body")
		}
		if len(bad) > 0 {
			w.timerOK = false
			w.timerDoc = append(w.timerDoc, fmt.Sprintf("%s (%s): timer %s is not re-armed before %s", w.rel(loop.Pos()), fr.fnName, name, strings.Join(bad, ", ")))
		} else {
			w.timerDoc = append(w.timerDoc, fmt.Sprintf("%s (%s): timer %s re-armed on every path", w.rel(loop.Pos()), fr.fnName, name))
		}
	}
}

// checkLoop: a `for {…}` / `for cond {…}` / `for range ch {…}` whose body (calls followed) can park the goroutine must
// leave the function at a case on the node context.
func (w *world) checkLoop(fr *frame, loop ast.Node, body *ast.BlockStmt) {
	pts := w.walkNode(body, fr)
	_, isRange := loop.(*ast.RangeStmt)
	park := isRange
	for _, p := range pts {
		if w.parking(p) {
			park = true
		}
	}
	w.loopData[fmt.Sprintf("%s (%s)", w.rel(loop.Pos()), fr.fnName)] = [2]bool{park, w.ctxReturn(fr, body)}
	if park && !w.ctxReturn(fr, body) {
		w.headed = false
		w.notes = append(w.notes, fmt.Sprintf("%s (%s): loop that can park its goroutine has no `case <-ctx.Done(): …return`", w.rel(loop.Pos()), fr.fnName))
	}
}

// ------------------------------------------------------------------------------------------------ mutex regions

// lockRegions finds, in every function of the repository's loaded packages, the statements executed while `key` is held.
func (w *world) lockRegions(key string) (regions [][]ast.Stmt, frames []*frame, where []string) {
	for _, path := range w.order {
		pi := w.pkgs[path]
		for _, f := range pi.files {
			for _, d := range f.Decls {
				fd, ok := d.(*ast.FuncDecl)
				if !ok || fd.Body == nil {
					continue
				}
				fn, _ := pi.info.Defs[fd.Name].(*types.Func)
				params := map[types.Object]bool{}
				pd := map[types.Object]bool{}
				if fd.Type.Params != nil {
					for _, fl := range fd.Type.Params.List {
						for _, nm := range fl.Names {
							if o := pi.info.Defs[nm]; o != nil {
								params[o] = true
								if isContext(o.Type()) {
									pd[o] = true
								}
							}
						}
					}
				}
				fr := &frame{pkg: pi, fd: fd, encl: fn, fnName: qualName(fn), caller: qualName(fn) + " [critical section of " + key + "]", body: fd.Body, params: params, paramsOK: true}
				derivedDone := false
				var scan func(list []ast.Stmt)
				isCallOn := func(s ast.Stmt, set map[string]bool) bool {
					es, ok := s.(*ast.ExprStmt)
					if !ok {
						return false
					}
					c, ok := es.X.(*ast.CallExpr)
					if !ok {
						return false
					}
					fn, ok := w.staticCallee(pi.info, c.Fun).(*types.Func)
					if !ok || !set[fn.Origin().FullName()] {
						return false
					}
					sel, ok := unparen(c.Fun).(*ast.SelectorExpr)
					return ok && w.mutexKey(fr, sel.X) == key
				}
				scan = func(list []ast.Stmt) {
					for i, s := range list {
						if isCallOn(s, lockFns) {
							j := len(list)
							for k := i + 1; k < len(list); k++ {
								if isCallOn(list[k], unlockFns) {
									j = k
									break
								}
							}
							if !derivedDone {
								w.computeDerived(fr, fd.Body, pd)
								derivedDone = true
							}
							regions = append(regions, list[i+1:j])
							frames = append(frames, fr)
							where = append(where, fmt.Sprintf("%s %s", w.rel(s.Pos()), qualName(fn)))
						}
						ast.Inspect(s, func(n ast.Node) bool {
							switch b := n.(type) {
							case *ast.BlockStmt:
								scan(b.List)
								return false
							case *ast.CaseClause:
								scan(b.Body)
								return false
							case *ast.CommClause:
								scan(b.Body)
								return false
							}
							return true
						})
					}
				}
				scan(fd.Body.List)
			}
		}
	}
	return
}

// mutexFixpoint: free[m] = no critical section of m contains an operation that can park the holder (nested locks of
// non-free mutexes included).
func (w *world) mutexFixpoint(keys []string) {
	all := map[string]bool{}
	var queue []string
	for _, k := range keys {
		if !all[k] {
			all[k] = true
			queue = append(queue, k)
			w.mutexFree[k] = true
		}
	}
	type reg struct {
		pts   []Point
		where string
	}
	regs := map[string][]reg{}
	for len(queue) > 0 {
		k := queue[0]
		queue = queue[1:]
		rs, frs, wh := w.lockRegions(k)
		for i, r := range rs {
			var pts []Point
			for _, s := range r {
				pts = append(pts, w.walkNode(s, frs[i])...)
			}
			regs[k] = append(regs[k], reg{pts, wh[i]})
			for _, p := range pts {
				if p.Kind == 5 && !all[p.CName] { // nested mutex: analysed too
					all[p.CName] = true
					w.mutexFree[p.CName] = true
					queue = append(queue, p.CName)
				}
			}
		}
	}
	for changed := true; changed; {
		changed = false
		for k, rs := range regs {
			if !w.mutexFree[k] {
				continue
			}
			for _, r := range rs {
				for _, p := range r.pts {
					if w.parking(p) {
						w.mutexFree[k] = false
						changed = true
					}
				}
			}
		}
	}
	for k, rs := range regs {
		for _, r := range rs {
			var bad []string
			for _, p := range r.pts {
				if w.parking(p) {
					bad = append(bad, fmt.Sprintf("%s %s", w.rel2(p), p.Src))
				}
			}
			w.regionData[[2]string{k, r.where}] = len(bad)
			w.mutexDoc[k] = append(w.mutexDoc[k], fmt.Sprintf("%s: %d operations that can park the holder%s", r.where, len(bad), func() string {
				if len(bad) == 0 {
					return ""
				}
				return " [" + strings.Join(bad, "; ") + "]"
			}()))
		}
	}
	// lock nesting: every Lock/RLock met inside a critical section of k (directly or through followed calls, whatever the pair
	// Lock/RLock: a second RLock parks behind a pending writer) is an edge k -> acquired mutex.  An edge k -> k is a
	// self-deadlock: sync.Mutex / sync.RWMutex are not re-entrant.
	w.nest = map[[2]string][]string{}
	for k, rs := range regs {
		for _, r := range rs {
			for _, p := range r.pts {
				if p.Kind == 5 {
					e := [2]string{k, p.CName}
					w.nest[e] = append(w.nest[e], fmt.Sprintf("[%s] acquires at %s (%s): %s", r.where, w.rel2(p), p.Fn, p.Src))
				}
			}
		}
	}
	w.lockGraph()
}

// lockGraph: cycles and a topological order of the nesting relation `w.nest`, over every mutex known to the walks.
func (w *world) lockGraph() {
	var keys []string
	for k := range w.mutexFree {
		keys = append(keys, k)
	}
	sort.Strings(keys)
	succ := map[string][]string{}
	for e := range w.nest {
		succ[e[0]] = append(succ[e[0]], e[1])
	}
	for k := range succ {
		sort.Strings(succ[k])
	}
	w.onCycle = map[string]bool{}
	for _, k := range keys {
		seen := map[string]bool{}
		stack := append([]string(nil), succ[k]...)
		for len(stack) > 0 {
			x := stack[len(stack)-1]
			stack = stack[:len(stack)-1]
			if x == k {
				w.onCycle[k] = true
				break
			}
			if seen[x] {
				continue
			}
			seen[x] = true
			stack = append(stack, succ[x]...)
		}
	}
	// Kahn's algorithm (deterministic: smallest name first); what is left over is on or behind a cycle and goes last
	indeg := map[string]int{}
	for e := range w.nest {
		indeg[e[1]]++
	}
	done := map[string]bool{}
	w.lockOrder = nil
	for progress := true; progress; {
		progress = false
		for _, k := range keys {
			if !done[k] && indeg[k] == 0 {
				done[k] = true
				progress = true
				w.lockOrder = append(w.lockOrder, k)
				for _, x := range succ[k] {
					indeg[x]--
				}
				break
			}
		}
	}
	for _, k := range keys {
		if !done[k] {
			w.lockOrder = append(w.lockOrder, k)
		}
	}
	// a Lock of m is as good as "m is released by its holders without anybody's help": m's sections hold no parking
	// operation (mutexFree), m is not on a nesting cycle, and the same goes for everything acquired inside them
	w.lockBad = map[string]bool{}
	for _, k := range keys {
		if !w.mutexFree[k] || w.onCycle[k] {
			w.lockBad[k] = true
		}
	}
	for changed := true; changed; {
		changed = false
		for e := range w.nest {
			if w.lockBad[e[1]] && !w.lockBad[e[0]] {
				w.lockBad[e[0]] = true
				changed = true
			}
		}
	}
}

func (w *world) rel2(p Point) string {
	s := strings.TrimPrefix(p.Pos, w.root+"/")
	if i := strings.LastIndexByte(s, ':'); i > 0 {
		s = s[:i]
	}
	return s
}

// ------------------------------------------------------------------------------------------------ table

type table struct {
	RunSel    bool
	RunWait   bool
	RunReads  int
	RunGo     [][3]string // (where, source, "joined" | "unjoined")
	RunGoOK   []bool
	PostJoin  []string
	Workers   map[int][]Point
	Names     map[int]string
	Agg, Full []int
	CapErr    int
	CapHdr    int
	CapData   int
	RunOK     bool
}

func constInt(files []*ast.File, name string) int {
	for _, f := range files {
		for _, d := range f.Decls {
			gd, ok := d.(*ast.GenDecl)
			if !ok {
				continue
			}
			for _, s := range gd.Specs {
				vs, ok := s.(*ast.ValueSpec)
				if !ok {
					continue
				}
				for i, n := range vs.Names {
					if n.Name == name && i < len(vs.Values) {
						if bl, ok := vs.Values[i].(*ast.BasicLit); ok {
							v, _ := strconv.Atoi(strings.ReplaceAll(bl.Value, "_", ""))
							return v
						}
					}
				}
			}
		}
	}
	return -1
}

// makeCap finds `<name>: make(chan T, N)` / `<name> := make(chan T, N)` and evaluates N (literal or package constant).
func makeCap(files []*ast.File, name string) int {
	res := -1
	eval := func(e ast.Expr) int {
		c, ok := e.(*ast.CallExpr)
		if !ok {
			return -1
		}
		if id, ok := c.Fun.(*ast.Ident); !ok || id.Name != "make" {
			return -1
		}
		if len(c.Args) < 2 {
			return 0
		}
		switch v := c.Args[1].(type) {
		case *ast.BasicLit:
			n, _ := strconv.Atoi(v.Value)
			return n
		case *ast.Ident:
			return constInt(files, v.Name)
		}
		return -1
	}
	for _, f := range files {
		ast.Inspect(f, func(n ast.Node) bool {
			switch x := n.(type) {
			case *ast.KeyValueExpr:
				if id, ok := x.Key.(*ast.Ident); ok && id.Name == name {
					if v := eval(x.Value); v >= 0 {
						res = v
					}
				}
			case *ast.AssignStmt:
				if len(x.Lhs) == 1 && len(x.Rhs) == 1 {
					if chanName(x.Lhs[0]) == name {
						if v := eval(x.Rhs[0]); v >= 0 {
							res = v
						}
					}
				}
			}
			return true
		})
	}
	return res
}

func analyse() (*world, *table, error) {
	w, err := load()
	if err != nil {
		return nil, nil, err
	}
	bp, np := w.pkgs[repoMod+"/block"], w.pkgs[repoMod+"/node"]
	t := &table{Workers: map[int][]Point{}, Names: map[int]string{}}
	// node/full.go: Run
	var run *ast.FuncDecl
	for _, f := range np.files {
		for _, d := range f.Decls {
			if fd, ok := d.(*ast.FuncDecl); ok && fd.Name.Name == "Run" && fd.Recv != nil {
				if s, ok := fd.Recv.List[0].Type.(*ast.StarExpr); ok {
					if id, ok := s.X.(*ast.Ident); ok && id.Name == "FullNode" {
						run = fd
					}
				}
			}
		}
	}
	if run == nil {
		return nil, nil, fmt.Errorf("FullNode.Run not found in %s/node", w.root)
	}
	t.CapErr = makeCap([]*ast.File{{Decls: []ast.Decl{run}}}, "errCh")
	t.CapHdr = makeCap(bp.files, "headerInCh")
	t.CapData = makeCap(bp.files, "dataInCh")
	spawned := func(b *ast.BlockStmt) []*types.Func {
		var out []*types.Func
		ast.Inspect(b, func(n ast.Node) bool {
			c, ok := n.(*ast.CallExpr)
			if !ok {
				return true
			}
			if id, ok := c.Fun.(*ast.Ident); !ok || id.Name != "spawnWorker" || len(c.Args) != 1 {
				return true
			}
			ast.Inspect(c.Args[0], func(k ast.Node) bool {
				if cc, ok := k.(*ast.CallExpr); ok {
					if fn, ok := w.staticCallee(np.info, cc.Fun).(*types.Func); ok && isRepoPkg(fn.Pkg()) {
						out = append(out, fn.Origin())
						return false
					}
				}
				return true
			})
			return false
		})
		return out
	}
	var aggFns, fullFns []*types.Func
	ast.Inspect(run.Body, func(n ast.Node) bool {
		is, ok := n.(*ast.IfStmt)
		if !ok {
			return true
		}
		if s, ok := is.Cond.(*ast.SelectorExpr); ok && s.Sel.Name == "Aggregator" {
			aggFns = spawned(is.Body)
			if eb, ok := is.Else.(*ast.BlockStmt); ok {
				fullFns = spawned(eb)
			}
			return false
		}
		return true
	})
	if len(aggFns) == 0 || len(fullFns) == 0 {
		return nil, nil, fmt.Errorf("could not read the worker sets of FullNode.Run")
	}
	// Run's own protocol: one select with `<-errCh` and `<-parentCtx.Done()`, then wg.Wait(); errCh read nowhere else
	errReads, selOK, waitAfter := 0, false, false
	var selPos token.Pos
	ast.Inspect(run.Body, func(n ast.Node) bool {
		switch x := n.(type) {
		case *ast.SelectStmt:
			hasErr, hasParent := false, false
			for _, c := range x.Body.List {
				cc := c.(*ast.CommClause)
				if cc.Comm == nil {
					continue
				}
				if u := recvOf(cc.Comm); u != nil {
					if c, ok := u.X.(*ast.CallExpr); ok {
						if s, ok := c.Fun.(*ast.SelectorExpr); ok && s.Sel.Name == "Done" {
							if t := np.info.TypeOf(s.X); t != nil && isContext(t) {
								hasParent = true
							}
						}
					} else if chanName(u.X) == "errCh" {
						hasErr = true
					}
				}
			}
			if hasErr && hasParent {
				selOK = true
				selPos = x.Pos()
			}
		case *ast.UnaryExpr:
			if x.Op == token.ARROW && chanName(x.X) == "errCh" {
				errReads++
			}
		case *ast.CallExpr:
			if fn, ok := w.staticCallee(np.info, x.Fun).(*types.Func); ok && fn.FullName() == "(*sync.WaitGroup).Wait" && selOK && x.Pos() > selPos {
				waitAfter = true
			}
		}
		return true
	})
	t.RunSel, t.RunWait, t.RunReads = selOK, waitAfter, errReads
	t.RunOK = selOK && waitAfter && errReads == 1
	// Run's own `go` statements (and those of the functions of package node it calls): joined by its WaitGroup, or not
	{
		seenFd := map[*ast.FuncDecl]bool{}
		var collect func(fd *ast.FuncDecl)
		collect = func(fd *ast.FuncDecl) {
			if fd == nil || fd.Body == nil || seenFd[fd] {
				return
			}
			seenFd[fd] = true
			fr := w.frameForDecl(np, fd, "node.FullNode.Run")
			ast.Inspect(fd.Body, func(n ast.Node) bool {
				switch x := n.(type) {
				case *ast.GoStmt:
					j := "unjoined"
					if w.goJoined(fr, x) {
						j = "joined"
					}
					t.RunGo = append(t.RunGo, [3]string{fmt.Sprintf("%s (%s)", w.rel(x.Pos()), fr.fnName), w.text(x), j})
					// an un-joined goroutine of Run is accepted only as `X.ListenAndServe()` of an http.Server (ended by the
					// Shutdown calls of the post-join phase)
					serves := false
					ast.Inspect(x.Call, func(k ast.Node) bool {
						if c, ok := k.(*ast.CallExpr); ok {
							if fn, ok := w.staticCallee(np.info, c.Fun).(*types.Func); ok && fn.FullName() == "(*net/http.Server).ListenAndServe" {
								serves = true
							}
						}
						return true
					})
					t.RunGoOK = append(t.RunGoOK, j == "joined" || serves)
				case *ast.CallExpr:
					if fn, ok := w.staticCallee(np.info, x.Fun).(*types.Func); ok && fn.Pkg() == np.tpkg {
						if d, ok := w.decls[fn.Origin()]; ok {
							collect(d.fd)
						}
					}
				}
				return true
			})
		}
		collect(run)
		// the post-join phase: what Run calls after wg.Wait() (logging / error plumbing aside)
		after := false
		seenCall := map[string]bool{}
		for _, st := range run.Body.List {
			if es, ok := st.(*ast.ExprStmt); ok {
				if c, ok := es.X.(*ast.CallExpr); ok {
					if fn, ok := w.staticCallee(np.info, c.Fun).(*types.Func); ok && fn.FullName() == "(*sync.WaitGroup).Wait" {
						after = true
						continue
					}
				}
			}
			if !after {
				continue
			}
			ast.Inspect(st, func(n ast.Node) bool {
				c, ok := n.(*ast.CallExpr)
				if !ok {
					return true
				}
				fn, ok := w.staticCallee(np.info, c.Fun).(*types.Func)
				if !ok || fn.Pkg() == nil {
					return true
				}
				switch fn.Pkg().Path() {
				case "fmt", "errors", "github.com/ipfs/go-log/v2", "time":
					return true
				}
				name := fn.Origin().FullName()
				if isRepoPkg(fn.Pkg()) {
					name = qualName(fn.Origin())
					if sig, _ := fn.Type().(*types.Signature); sig != nil && sig.Recv() != nil && types.IsInterface(sig.Recv().Type()) {
						if s, ok := unparen(c.Fun).(*ast.SelectorExpr); ok {
							name = w.recvTypeName(np.info, s) + "." + fn.Name()
						}
					}
				}
				if !seenCall[name] {
					seenCall[name] = true
					t.PostJoin = append(t.PostJoin, name)
				}
				return true
			})
		}
		sort.Strings(t.PostJoin)
	}
	if !t.RunOK {
		w.notes = append(w.notes, fmt.Sprintf("Run protocol: select(errCh,parent)=%v wg.Wait after=%v reads of errCh=%d", selOK, waitAfter, errReads))
	}
	unknown := 90
	fnOf := map[int]*types.Func{}
	code := func(fn *types.Func) int {
		q := qualName(fn) // block.Manager.AggregationLoop
		q = strings.TrimPrefix(q, "block.")
		if c, ok := loopCodes[q]; ok {
			t.Names[c] = strings.TrimPrefix(q, "Manager.")
			fnOf[c] = fn
			return c
		}
		unknown++
		t.Names[unknown] = q
		fnOf[unknown] = fn
		return unknown
	}
	for _, fn := range aggFns {
		t.Agg = append(t.Agg, code(fn))
	}
	for _, fn := range fullFns {
		t.Full = append(t.Full, code(fn))
	}
	var order []int
	for c := range t.Names {
		order = append(order, c)
	}
	sort.Ints(order)
	var mutexKeys []string
	for _, c := range order {
		fn := fnOf[c]
		sig := fn.Type().(*types.Signature)
		ad := make([]bool, sig.Params().Len())
		for i := range ad {
			ad[i] = isContext(sig.Params().At(i).Type()) // Run hands the node context to every worker
		}
		raw := w.follow(fn, ad, false, "FullNode.Run")
		seen := map[string]bool{}
		var pts []Point
		for _, p := range raw {
			k := fmt.Sprintf("%s/%d/%s", p.Pos, p.Kind, p.CName)
			if seen[k] {
				continue
			}
			seen[k] = true
			pts = append(pts, p)
			if p.Kind == 5 {
				mutexKeys = append(mutexKeys, p.CName)
			}
		}
		t.Workers[c] = pts
	}
	sort.Strings(mutexKeys)
	// loop checks ran with every mutex considered free; decide the mutexes, then re-run the loop checks if one is not
	w.mutexFixpoint(mutexKeys)
	anyHeld := false
	for _, free := range w.mutexFree {
		if !free {
			anyHeld = true
		}
	}
	if len(w.lockBad) > 0 {
		anyHeld = true
	}
	if anyHeld {
		old := w.loopSeen
		w.loopSeen = map[ast.Node]bool{}
		w.summ = map[fkey][]Point{}
		for _, c := range order {
			fn := fnOf[c]
			sig := fn.Type().(*types.Signature)
			ad := make([]bool, sig.Params().Len())
			for i := range ad {
				ad[i] = isContext(sig.Params().At(i).Type())
			}
			w.follow(fn, ad, false, "FullNode.Run")
		}
		_ = old
	}
	return w, t, nil
}

func Facts() (string, error) {
	w, t, err := analyse()
	if err != nil {
		return "", err
	}
	var sb strings.Builder
	pf := func(f string, a ...any) { fmt.Fprintf(&sb, f, a...) }
	nats := func(xs []int) string {
		p := make([]string, len(xs))
		for i, x := range xs {
			p[i] = strconv.Itoa(x)
		}
		return "[" + strings.Join(p, ", ") + "]"
	}
	strs := func(xs []string) string {
		p := make([]string, len(xs))
		for i, x := range xs {
			p[i] = strconv.Quote(x)
		}
		return "[" + strings.Join(p, ",\n  ") + "]"
	}
	pairs := func(m map[[2]string]bool) string {
		var ks [][2]string
		for k := range m {
			ks = append(ks, k)
		}
		sort.Slice(ks, func(i, j int) bool { return ks[i][0]+"\x00"+ks[i][1] < ks[j][0]+"\x00"+ks[j][1] })
		p := make([]string, len(ks))
		for i, k := range ks {
			p[i] = fmt.Sprintf("(%q, %q)", k[0], k[1])
		}
		return "[" + strings.Join(p, ",\n  ") + "]"
	}
	pf("/-- capacity of `errCh` in FullNode.Run, of headerInCh / dataInCh in NewManager -/\n")
	pf("def capErrCh : Nat := %d\ndef capHeaderInCh : Nat := %d\ndef capDataInCh : Nat := %d\n", max(t.CapErr, 0), max(t.CapHdr, 0), max(t.CapData, 0))
	pf("/-- worker sets of FullNode.Run (loop codes: 0 AggregationLoop 1 Reaper.Start 2 HeaderSubmissionLoop 3 DataSubmissionLoop\n 4 DAIncluderLoop 5 RetrieveLoop 6 HeaderStoreRetrieveLoop 7 DataStoreRetrieveLoop 8 SyncLoop, >90 unknown) -/\n")
	pf("def aggregatorWorkers : List Nat := %s\ndef fullWorkers : List Nat := %s\n", nats(t.Agg), nats(t.Full))
	var codes []int
	for c := range t.Names {
		codes = append(codes, c)
	}
	sort.Ints(codes)
	pf("def workerNames : List (Nat × String) := [")
	for i, c := range codes {
		if i > 0 {
			pf(", ")
		}
		pf("(%d, %q)", c, t.Names[c])
	}
	pf("]\n")
	pf("/-- Run waits in one select on errCh and the parent context, reads errCh nowhere else, and joins with wg.Wait() -/\n")
	pf("def runProtocol : Bool := %s\n", hx.LeanBool(t.RunOK))
	pf("/-- the data behind `runProtocol`: Run has a select over errCh and the parent context; a (*sync.WaitGroup).Wait follows it; number\n of receives from errCh in Run -/\n")
	pf("def runSelectOverErrChAndParent : Bool := %s\ndef runWaitsAfterSelect : Bool := %s\ndef runErrChReads : Nat := %d\n", hx.LeanBool(t.RunSel), hx.LeanBool(t.RunWait), t.RunReads)
	pf("/-- `go` statements of Run and of the functions of package node it calls: (where, source, joined | unjoined, acceptable =\n joined by Run's WaitGroup or an http.Server.ListenAndServe that the post-join Shutdown ends) -/\n")
	pf("def runGoStmts : List (String × String × String × Bool) := [")
	for i, g := range t.RunGo {
		if i > 0 {
			pf(",\n  ")
		}
		pf("(%q, %q, %q, %s)", g[0], g[1], g[2], hx.LeanBool(t.RunGoOK[i]))
	}
	pf("]\n")
	pf("/-- the post-join phase of Run: what it calls after wg.Wait() (logging and error plumbing aside).  Not in the table: declared\n boundary (Spec.C13.declaredPostJoin, props assumptions) -/\ndef runPostJoinCalls : List String := %s\n", strs(t.PostJoin))
	pf("/-- every plain `errCh <- …` is followed by `return` -/\ndef errSendsTerminal : Bool := %s\n", hx.LeanBool(w.terminal))
	{
		var ks []string
		for k := range w.errSends {
			ks = append(ks, k)
		}
		sort.Strings(ks)
		pf("/-- the data behind `errSendsTerminal`: (plain error send, followed by return) -/\ndef plainErrSends : List (String × Bool) := [")
		for i, k := range ks {
			if i > 0 {
				pf(", ")
			}
			pf("(%q, %s)", k, hx.LeanBool(w.errSends[k]))
		}
		pf("]\n")
	}
	{
		var ks []string
		for k := range w.loopData {
			ks = append(ks, k)
		}
		sort.Strings(ks)
		pf("/-- the data behind `loopsHeaded`: (loop, its body - calls followed - can park the goroutine, its body leaves the function at\n a case on the node context) -/\ndef loopChecks : List (String × Bool × Bool) := [")
		for i, k := range ks {
			if i > 0 {
				pf(",\n  ")
			}
			pf("(%q, %s, %s)", k, hx.LeanBool(w.loopData[k][0]), hx.LeanBool(w.loopData[k][1]))
		}
		pf("]\n")
	}
	pf("/-- every `for {…}`, `for cond {…}` and `for range ch {…}` reached from a loop whose body (calls followed) holds an\n operation that can park the goroutine has a `case <-ctx.Done(): … return` on the NODE context in its body -/\ndef loopsHeaded : Bool := %s\n", hx.LeanBool(w.headed))
	// mutexes
	var mkeys []string
	for k := range w.mutexFree {
		mkeys = append(mkeys, k)
	}
	sort.Strings(mkeys)
	mid := map[string]int{}
	allFree := true
	pf("/-- mutexes locked by the loops (and those locked inside their critical sections): (code, name, no critical section of it\n anywhere in the repository's loaded packages contains an operation that can park the holder) -/\n")
	pf("def mutexes : List (Nat × String × Bool) := [")
	for i, k := range mkeys {
		mid[k] = i
		if i > 0 {
			pf(", ")
		}
		pf("(%d, %q, %s)", i, k, hx.LeanBool(w.mutexFree[k]))
		if !w.mutexFree[k] {
			allFree = false
		}
	}
	pf("]\n")
	pf("def mutexRegionsNonBlocking : Bool := %s\n", hx.LeanBool(allFree))
	var mdoc []string
	for _, k := range mkeys {
		ds := append([]string(nil), w.mutexDoc[k]...)
		sort.Strings(ds)
		for _, d := range ds {
			mdoc = append(mdoc, k+" @ "+d)
		}
	}
	{
		var ks [][2]string
		for k := range w.regionData {
			ks = append(ks, k)
		}
		sort.Slice(ks, func(i, j int) bool { return ks[i][0]+"\x00"+ks[i][1] < ks[j][0]+"\x00"+ks[j][1] })
		pf("/-- the data behind `mutexes` / `mutexRegionsNonBlocking`: (mutex code, critical section, number of operations inside - calls\n followed - that can park the holder) -/\ndef mutexRegionData : List (Nat × String × Nat) := [")
		for i, k := range ks {
			if i > 0 {
				pf(",\n  ")
			}
			pf("(%d, %q, %d)", mid[k[0]], k[1], w.regionData[k])
		}
		pf("]\n")
	}
	pf("/-- the critical sections found (documentation) -/\ndef mutexRegionsDoc : List String := %s\n", strs(mdoc))
	{
		var es [][2]string
		for e := range w.nest {
			es = append(es, e)
		}
		sort.Slice(es, func(i, j int) bool { return es[i][0]+"\x00"+es[i][1] < es[j][0]+"\x00"+es[j][1] })
		pf("/-- LOCK NESTING: (held mutex code, mutex code acquired - Lock or RLock, directly or through followed calls - inside one of its\n critical sections).  An edge (m, m) is a self-deadlock (sync.Mutex / sync.RWMutex are not re-entrant; RLock inside RLock parks\n behind a pending writer); a cycle is a lock-order inversion.  Spec.C13.C13_lock_order_acyclic decides: no self edge, and\n `lockRank` is a topological order of this relation. -/\ndef lockNesting : List (Nat × Nat) := [")
		var ndoc []string
		for i, e := range es {
			if i > 0 {
				pf(", ")
			}
			pf("(%d, %d)", mid[e[0]], mid[e[1]])
			ds := append([]string(nil), w.nest[e]...)
			sort.Strings(ds)
			for j, d := range ds {
				if j == 0 || d != ds[j-1] {
					ndoc = append(ndoc, fmt.Sprintf("%s -> %s %s", e[0], e[1], d))
				}
			}
		}
		pf("]\n")
		pf("/-- the sites behind `lockNesting` (documentation): held -> acquired [critical section] acquires at … -/\ndef lockNestingDoc : List String := %s\n", strs(ndoc))
		var rk []int
		for _, k := range w.lockOrder {
			rk = append(rk, mid[k])
		}
		pf("/-- a topological order of `lockNesting` computed by the extractor (mutex codes; every mutex of `mutexes` once; mutexes on a\n cycle last) - CHECKED in Lean: every edge must go from an earlier to a strictly later position -/\ndef lockRank : List Nat := %s\n", nats(rk))
	}
	pf("/-- COMPLETENESS: calls met on the walks (loops and critical sections) that lead into the repository's own packages, or\n through func values, and could NOT be resolved and followed: (caller, what).  Spec.C13 requires `[]`. -/\n")
	pf("def callsNotFollowed : List (String × String) := %s\n", pairs(w.notFollowed))
	pf("/-- the declared boundary: calls of methods of interfaces DECLARED IN THE REPOSITORY (execution, sequencing, DA, store,\n broadcast, signer …) are not followed; (caller, interface.method) -/\n")
	bc := map[[2]string]bool{}
	bi := map[string]bool{}
	for k := range w.boundary {
		bc[[2]string{k[0], k[1] + "." + k[2]}] = true
		bi[k[1]] = true
	}
	pf("def boundaryCalls : List (String × String) := %s\n", pairs(bc))
	var bis []string
	for k := range bi {
		bis = append(bis, k)
	}
	sort.Strings(bis)
	pf("def boundaryInterfaces : List String := %s\n", strs(bis))
	var exts []string
	for k := range w.external {
		exts = append(exts, k)
	}
	sort.Strings(exts)
	pf("/-- packages outside the repository that the walks call into (not followed; the blocking primitives of time / sync /\n errgroup are classified, everything else is taken to return) -/\n")
	pf("def externalPkgs : List String := %s\n", strs(exts))
	var gos []string
	for k := range w.goStmts {
		gos = append(gos, k)
	}
	sort.Strings(gos)
	pf("/-- `go` statements met on the walks (their bodies are walked in place: conservative) -/\ndef goStmts : List String := %s\n", strs(gos))
	giw := map[[2]string]bool{}
	for _, c := range codes {
		for _, p := range t.Workers[c] {
			if p.Kind == 7 {
				giw[[2]string{t.Names[c], fmt.Sprintf("%s (%s): %s", w.rel2(p), p.Fn, p.Src)}] = true
			}
		}
	}
	pf("/-- `go` statements reachable from a worker whose goroutine is NOT joined before the function that starts it returns\n (joined = a WaitGroup local to that function is waited for; an errgroup is not a `go` statement and is a join point): the\n worker's return - which is all that Run's wg.Wait() sees - does not cover that activity.  (loop, where)  Spec.C13 requires `[]`. -/\n")
	pf("def goStmtsInWorkers : List (String × String) := %s\n", pairs(giw))
	sort.Strings(w.timerDoc)
	var tdoc []string
	for i, d := range w.timerDoc {
		if i == 0 || d != w.timerDoc[i-1] {
			tdoc = append(tdoc, d)
		}
	}
	pf("/-- every `for { select { … case <-t.C: … } … }` met on the walks with t a *time.Timer re-arms t (t.Reset, directly or through a\n function it is handed to) on every path from that case back to the head of the loop -/\n")
	pf("def timerLoopsRearmOnEveryPath : Bool := %s\ndef timerLoopsDoc : List String := %s\n", hx.LeanBool(w.timerOK), strs(tdoc))
	{
		var ks [][2]string
		for k := range w.timerEdges {
			ks = append(ks, k)
		}
		sort.Slice(ks, func(i, j int) bool { return ks[i][0]+"\x00"+ks[i][1] < ks[j][0]+"\x00"+ks[j][1] })
		pf("/-- the data behind `timerLoopsRearmOnEveryPath`: (loop and timer, back-edge to the loop head reachable after the timer fired,\n the timer is re-armed on every path to it) -/\ndef timerBackEdges : List (String × String × Bool) := [")
		for i, k := range ks {
			if i > 0 {
				pf(",\n  ")
			}
			pf("(%q, %q, %s)", k[0], k[1], hx.LeanBool(w.timerEdges[k]))
		}
		pf("]\n")
	}
	pf("/-- blocking points: (loop code, kind, channel code, flag) - kind 0 ctxSelect (a select with a case on a context DERIVED\n from the node context), 1 sleep (flag = constant / configuration duration / min of those), 2 send, 3 recv (flag = inside a\n select with such a ctx case or a default), 4 plain send on errCh, 5 mutex Lock/RLock (channel = mutex code, flag = no\n critical section of it can park its holder), 6 join: WaitGroup.Wait / Cond.Wait (flag false) or errgroup Wait (flag = all\n joined functions are walked in place), 7 spawn: a `go` statement that is not joined.  `for range ch` and `select {}` are\n plain receives.\n Channel codes: 0 errCh 1 headerInCh 2 dataInCh 3 headerStoreCh 4 dataStoreCh 5 retrieveCh 6 daIncluderCh 7 txNotifyCh\n 8 timer 9 never, >=100 local. -/\n")
	pf("def points : List (Nat × Nat × Nat × Bool) := [\n")
	first := true
	var doc []string
	locals := map[string]int{}
	chanCode := func(name string) int {
		if c, ok := chanCodes[name]; ok {
			return c
		}
		if c, ok := locals[name]; ok {
			return c
		}
		c := 100 + len(locals)
		locals[name] = c
		return c
	}
	for _, c := range codes {
		for _, p := range t.Workers[c] {
			if !first {
				pf(",\n")
			}
			first = false
			ch, flag := 0, p.Flag
			switch p.Kind {
			case 2, 3:
				ch = chanCode(p.CName)
			case 5:
				ch = mid[p.CName]
				flag = w.mutexFree[p.CName] && !w.lockBad[p.CName]
			}
			pf("  (%d, %d, %d, %s)", c, p.Kind, ch, hx.LeanBool(flag))
			kind := []string{"ctxSelect", "sleep", "send", "recv", "errSend", "lock", "join", "spawn"}[p.Kind]
			doc = append(doc, fmt.Sprintf("(%q, %q, %q, %q, %q, %s, %q)", t.Names[c], p.Fn, w.rel2(p), kind, p.CName, hx.LeanBool(flag), p.Src))
		}
	}
	pf("]\n")
	pf("/-- the same points with their source location (documentation; the theorems use `points`):\n (loop, function, file:line, kind, channel / mutex, flag, source) -/\n")
	pf("def pointsDoc : List (String × String × String × String × String × Bool × String) := [\n  %s]\n", strings.Join(doc, ",\n  "))
	var notes []string
	seenNote := map[string]bool{}
	for _, n := range w.notes {
		if !seenNote[n] {
			seenNote[n] = true
			notes = append(notes, n)
		}
	}
	pf("def notes : List String := %s\n", strs(notes))
	return sb.String(), nil
}
