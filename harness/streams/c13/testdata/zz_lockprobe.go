package block

// Extractor probe for the lock-nesting table (C13, round 6).  Not compiled with the harness (testdata): the self-check
// TestLockNestingProbe overlays it into /repo/block, has Reaper.SubmitTxs call zzLockProbe and pins how the fact
// extractor classifies each construct.

import "sync"

type zzP struct {
	a, b, c, d, e sync.RWMutex
	f, g          sync.Mutex
	n             int
}

var zzp zzP

// 1. re-entrant RLock through a callee: a -> a (self-deadlock with a pending writer)
func (p *zzP) readA() int { p.a.RLock(); defer p.a.RUnlock(); return p.n }
func (p *zzP) reentrant() int {
	p.a.RLock()
	defer p.a.RUnlock()
	return p.readA()
}

// 2. a deferred-unlock section calling a method that locks ANOTHER mutex: b -> c (ordered nesting, harmless)
func (p *zzP) lockC() { p.c.Lock(); p.n++; p.c.Unlock() }
func (p *zzP) nested() {
	p.b.Lock()
	defer p.b.Unlock()
	p.lockC()
}

// 3. a two-mutex cycle: d -> e in one function, e -> d in another
func (p *zzP) de() {
	p.d.Lock()
	defer p.d.Unlock()
	p.e.Lock()
	p.n++
	p.e.Unlock()
}
func (p *zzP) ed() {
	p.e.Lock()
	p.d.Lock()
	p.n++
	p.d.Unlock()
	p.e.Unlock()
}

// 4. HARMLESS: a critical section that calls a helper which takes no lock: no edge, f stays free
func (p *zzP) helper() int { return p.n + 1 }
func (p *zzP) harmless() {
	p.f.Lock()
	defer p.f.Unlock()
	p.n = p.helper()
}

// 5. HARMLESS: released, then taken again: no edge, g stays free
func (p *zzP) sequential() {
	p.g.Lock()
	p.n++
	p.g.Unlock()
	p.g.Lock()
	p.n++
	p.g.Unlock()
}

func zzLockProbe() {
	zzp.reentrant()
	zzp.nested()
	zzp.de()
	zzp.ed()
	zzp.harmless()
	zzp.sequential()
}
