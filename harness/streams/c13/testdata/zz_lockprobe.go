package block

// Extractor probe for the lock-nesting table (C13, round 6).  Not compiled with the harness (testdata): the self-check
// TestLockNestingProbe overlays it into /repo/block, has Reaper.SubmitTxs call zzLockProbe and pins how the fact
// extractor classifies each construct.

import "sync"

type zzP struct {
	a, b, c, d, e sync.RWMutex
	f, g, h, i    sync.Mutex
	n             int
}

var zzp zzP

// 1. re-entrant RLock through a callee: a -> a (self-deadlock with a pending writer)
func (p *zzP) readA() int { p.a.RLock(); defer p.a.RUnlock(); return p.n }
func (p *zzP) reentrant() int {
	p.a.RLock()
	defer p.a.RUnlock()
	return p.readA()
}

// 2. a deferred-unlock section calling a method that locks ANOTHER mutex: b -> c (ordered nesting, harmless)
func (p *zzP) lockC() { p.c.Lock(); p.n++; p.c.Unlock() }
func (p *zzP) nested() {
	p.b.Lock()
	defer p.b.Unlock()
	p.lockC()
}

// 3. a two-mutex cycle: d -> e in one function, e -> d in another
func (p *zzP) de() {
	p.d.Lock()
	defer p.d.Unlock()
	p.e.Lock()
	p.n++
	p.e.Unlock()
}
func (p *zzP) ed() {
	p.e.Lock()
	p.d.Lock()
	p.n++
	p.d.Unlock()
	p.e.Unlock()
}

// 4. HARMLESS: a critical section that calls a helper which takes no lock: no edge, f stays free
func (p *zzP) helper() int { return p.n + 1 }
func (p *zzP) harmless() {
	p.f.Lock()
	defer p.f.Unlock()
	p.n = p.helper()
}

// 5. HARMLESS: released, then taken again: no edge, g stays free
func (p *zzP) sequential() {
	p.g.Lock()
	p.n++
	p.g.Unlock()
	p.g.Lock()
	p.n++
	p.g.Unlock()
}

// 6. GENERIC helper with a method constraint (refactoring R3): `items[l-1].Height()` on a type parameter is resolved through
// the instantiation (zzH) and followed: h -> c, and NO unfollowed interface call on "T"
type zzH struct{ p *zzP }

func (x zzH) Height() uint64 { x.p.c.Lock(); defer x.p.c.Unlock(); return uint64(x.p.n) }
func zzLast[T interface{ Height() uint64 }](items []T) uint64 {
	if l := len(items); l > 0 {
		return items[l-1].Height()
	}
	return 0
}
func (p *zzP) generic() uint64 {
	p.h.Lock()
	defer p.h.Unlock()
	return zzLast([]zzH{{p}})
}

// 7. func-typed PARAMETER of a generic helper, the argument is a literal: followed: i -> c
func zzApply[T any](x T, f func(T) uint64) uint64 { return f(x) }
func (p *zzP) genericFn() uint64 {
	p.i.Lock()
	defer p.i.Unlock()
	return zzApply(p, func(q *zzP) uint64 { q.lockC(); return 1 })
}

func zzLockProbe() {
	zzp.generic()
	zzp.genericFn()
	zzp.reentrant()
	zzp.nested()
	zzp.de()
	zzp.ed()
	zzp.harmless()
	zzp.sequential()
}
