//go:build verif

package c13

import (
	"encoding/json"
	"os"
	"path/filepath"
	"sort"
	"strings"
	"testing"
)

// TestLockNestingProbe pins the classification of lock constructs by the fact extractor (self-check, not part of `check`):
//
//	cd /verif/harness && GOFLAGS=-mod=mod GOPROXY=off go test -tags verif -run TestLockNestingProbe ./streams/c13/
//
// testdata/zz_lockprobe.go is overlaid into /repo/block and called from Reaper.SubmitTxs (a copy of reaper.go in a scratch
// directory; /repo is not touched).
func TestLockNestingProbe(t *testing.T) {
	root := repoRoot()
	dir := t.TempDir()
	probe, err := os.ReadFile("testdata/zz_lockprobe.go")
	if err != nil {
		t.Fatal(err)
	}
	reaper, err := os.ReadFile(filepath.Join(root, "block", "reaper.go"))
	if err != nil {
		t.Fatal(err)
	}
	const hook = "func (r *Reaper) SubmitTxs() {"
	if strings.Count(string(reaper), hook) != 1 {
		t.Fatalf("reaper.go: %q not found exactly once", hook)
	}
	must := func(err error) {
		if err != nil {
			t.Fatal(err)
		}
	}
	must(os.WriteFile(filepath.Join(dir, "zz_lockprobe.go"), probe, 0o644))
	must(os.WriteFile(filepath.Join(dir, "reaper.go"), []byte(strings.Replace(string(reaper), hook, hook+"\n\tzzLockProbe()\n", 1)), 0o644))
	ov, _ := json.Marshal(map[string]map[string]string{"Replace": {
		filepath.Join(root, "block", "zz_lockprobe.go"): filepath.Join(dir, "zz_lockprobe.go"),
		filepath.Join(root, "block", "reaper.go"):       filepath.Join(dir, "reaper.go"),
	}})
	must(os.WriteFile(filepath.Join(dir, "ov.json"), ov, 0o644))
	t.Setenv("VERIF_OVERLAY", filepath.Join(dir, "ov.json"))
	w, _, err := analyse()
	if err != nil {
		t.Fatal(err)
	}
	var edges []string
	for e := range w.nest {
		edges = append(edges, strings.TrimPrefix(e[0], "block.zzP.")+"->"+strings.TrimPrefix(e[1], "block.zzP."))
	}
	sort.Strings(edges)
	if got, want := strings.Join(edges, " "), "a->a b->c d->e e->d h->c i->c"; got != want {
		t.Errorf("lock nesting edges: got %q, want %q", got, want)
	}
	for m, want := range map[string][2]bool{ // (on a cycle, lock rows flagged free)
		"block.zzP.a": {true, false}, "block.zzP.b": {false, true}, "block.zzP.c": {false, true},
		"block.zzP.d": {true, false}, "block.zzP.e": {true, false}, "block.zzP.f": {false, true}, "block.zzP.g": {false, true},
		"block.zzP.h": {false, true}, "block.zzP.i": {false, true},
		"block.Manager.lastStateMtx": {false, true},
	} {
		free, known := w.mutexFree[m]
		if !known {
			t.Errorf("%s: not among the mutexes of the table", m)
			continue
		}
		if !free {
			t.Errorf("%s: its sections hold no parking operation, yet mutexFree is false", m)
		}
		if w.onCycle[m] != want[0] {
			t.Errorf("%s: onCycle = %v, want %v", m, w.onCycle[m], want[0])
		}
		if got := free && !w.lockBad[m]; got != want[1] {
			t.Errorf("%s: lock rows flagged free = %v, want %v", m, got, want[1])
		}
	}
	// the order is a topological order of the acyclic part: b before c
	pos := map[string]int{}
	for i, k := range w.lockOrder {
		pos[k] = i
	}
	if !(pos["block.zzP.b"] < pos["block.zzP.c"]) {
		t.Errorf("lockOrder: b must come before c: %v", w.lockOrder)
	}
	// generic helpers: the method call on a type parameter and the func-typed parameter were resolved and followed
	for k := range w.boundary {
		if k[1] == "T" || strings.HasPrefix(k[0], "block.zzLast") {
			t.Errorf("method call on a type parameter left as an unfollowed interface call: %v", k)
		}
	}
	for k := range w.notFollowed {
		t.Errorf("call not followed: %v", k)
	}
	// the emitted module carries the table
	txt, err := Facts()
	if err != nil {
		t.Fatal(err)
	}
	for _, s := range []string{"def lockNesting : List (Nat × Nat) := [", "def lockRank : List Nat := [", "block.zzP.a -> block.zzP.a"} {
		if !strings.Contains(txt, s) {
			t.Errorf("facts text lacks %q", s)
		}
	}
}
