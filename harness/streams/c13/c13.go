// Package c13: all background loops of a node run concurrently through the REAL node.FullNode.Run (race
// detector on), stop requested at a scripted instant; stop latency and world invariants are monitored
// (property C13; the runtime part is exploration, see notes/C13.md).
package c13

import (
	"bytes"
	"context"
	"encoding/binary"
	"fmt"
	"io"
	"os"
	"regexp"
	"runtime"
	"sort"
	"strconv"
	"strings"
	"sync"
	"sync/atomic"
	"time"

	logging "github.com/ipfs/go-log/v2"

	"verifharness/bm"
	"verifharness/hx"

	"github.com/evstack/ev-node/block"
	coreda "github.com/evstack/ev-node/core/da"
	coresequencer "github.com/evstack/ev-node/core/sequencer"
	"github.com/evstack/ev-node/node"
	"github.com/evstack/ev-node/pkg/config"
	genesispkg "github.com/evstack/ev-node/pkg/genesis"
	"github.com/evstack/ev-node/pkg/p2p"
	"github.com/evstack/ev-node/pkg/p2p/key"
	noopsigner "github.com/evstack/ev-node/pkg/signer/noop"
	storepkg "github.com/evstack/ev-node/pkg/store"
	"github.com/evstack/ev-node/types"

	ds "github.com/ipfs/go-datastore"
	ktds "github.com/ipfs/go-datastore/keytransform"
)

func init() { hx.Register("C13", hx.Stream{Gen: Gen, Run: Run}) }

const (
	promptBound = 2 * time.Second
	hangBound   = 12 * time.Second
)

// ---------------------------------------------------------------- generator

type scen struct {
	mode   string // agg | full
	future int    // genesis N ms in the future (0 = in the past)
	slow   int    // DA answers after N ms (0 = fast)
	lazy   bool
	bt     int    // block time ms
	span   int    // ms between start and the stop request
	prod   int    // full: ms the producer runs first
	xexec  int    // full: the execution layer takes N ms per call (2N for SetFinal) and gives up with ctx.Err() when cancelled
	daf    string // DA submission faults: "" none | reject (always "already in mempool") | flaky (rejected, then accepted, alternating) | error (generic error on two calls of three)
	dabt   int    // DA block time ms (0 = the block time); the submitters' retry back-off is derived from it
	ttl    int    // DA mempool TTL in DA blocks (0 = 1): a rejected submission is retried after dabt*ttl
	gas    bool   // non-default gas configuration (price 1, multiplier 2): rejected submissions escalate the price
	maxp   int    // cfg.Node.MaxPendingHeadersAndData (0 = 100000: never reached)
	outms  int    // daf=outage: every submission fails during the first outms milliseconds of the node's life, then the DA accepts
	notx   bool   // idle chain: the execution double is fed no transactions
	xagg   int    // agg: the execution layer's GetTxs takes N ms WHATEVER the context says (a remote component that winds a cancelled call down slowly)
	// STORE FAULT (round 6, seed C13-H): sfat ms after the node under test started, the next sfn (default 1) writes of the
	// chosen kind on the node's datastore return an injected error and write nothing (hx.LogDS's FailPut / FailCommit
	// semantics): "state" = single Puts of the state key (store.UpdateState), "put" = single Puts whatever the key
	// (SetHeight / UpdateState / SetMetadata), "commit" = batch commits (SaveBlockData)
	sf   string
	sfat int
	sfn  int
}

func (s scen) line() string {
	l := 0
	if s.lazy {
		l = 1
	}
	x := ""
	if s.xexec > 0 {
		x = fmt.Sprintf(" xexec=%d", s.xexec)
	}
	if s.daf != "" {
		x += " daf=" + s.daf
	}
	if s.dabt > 0 {
		x += fmt.Sprintf(" dabt=%d", s.dabt)
	}
	if s.ttl > 0 {
		x += fmt.Sprintf(" ttl=%d", s.ttl)
	}
	if s.gas {
		x += " gas=1"
	}
	if s.xagg > 0 {
		x += fmt.Sprintf(" xagg=%d", s.xagg)
	}
	if s.maxp > 0 {
		x += fmt.Sprintf(" maxp=%d", s.maxp)
	}
	if s.outms > 0 {
		x += fmt.Sprintf(" outms=%d", s.outms)
	}
	if s.notx {
		x += " notx=1"
	}
	if s.sf != "" {
		x += fmt.Sprintf(" sf=%s sfat=%d", s.sf, s.sfat)
		if s.sfn > 0 {
			x += fmt.Sprintf(" sfn=%d", s.sfn)
		}
	}
	return fmt.Sprintf("run mode=%s future=%d slow=%d lazy=%d bt=%d span=%d prod=%d%s", s.mode, s.future, s.slow, l, s.bt, s.span, s.prod, x)
}

func Gen(r *hx.Rng, tier string, w io.Writer) {
	var ss []scen
	// fixed core: every axis once, and deliberately the stop request DURING the start-up delay (genesis in the future):
	// repaired in /repo by 57ac6dd (the delay is a select on ctx.Done()/time.After), so it must stop promptly now; if
	// the delay ever becomes uninterruptible again the monitor reports C13/stop/AggregationLoop-not-prompt/start-up-delay
	// (no longer in the known list: a VIOLATION)
	ss = append(ss,
		scen{mode: "agg", bt: 50, span: 700},
		scen{mode: "agg", bt: 50, span: 600, slow: 120},
		scen{mode: "agg", bt: 40, span: 700, lazy: true},
		scen{mode: "agg", bt: 100, span: 300, future: 4000}, // stop during the start-up delay: must be prompt
		scen{mode: "agg", bt: 50, span: 900, future: 300},   // start-up delay over before the stop
		scen{mode: "full", bt: 50, span: 800, prod: 600},
		scen{mode: "full", bt: 50, span: 700, prod: 500, slow: 40},
		// a DA layer that (practically) hangs: every call is in flight when the stop request arrives and must be
		// abandoned through the node's context
		scen{mode: "full", bt: 50, span: 700, prod: 400, slow: 5000},
		scen{mode: "agg", bt: 50, span: 600, slow: 5000},
		// the DA layer rejects every submission and the retry back-off (DA block time x mempool TTL) is far longer than the
		// stop bound: the stop request falls INTO the back-off of both submission loops and must still be prompt
		scen{mode: "agg", bt: 50, span: 600, daf: "reject", dabt: 60, ttl: 100},
		// rejected, then accepted at an escalated gas price, with a non-default gas configuration: both submission
		// loops and the includer touch the manager's gas settings concurrently (race detector)
		scen{mode: "agg", bt: 40, span: 900, daf: "flaky", dabt: 20, gas: true},
		// a slow execution layer on the AGGREGATOR: a reaping round (GetTxs) is in flight when the stop request arrives and
		// takes 1.2 s to come back whatever the context says.  Reaper.Start may return that much later (inside the bound),
		// but when Run has returned NOTHING the node started may still be running (leak monitor)
		scen{mode: "agg", bt: 50, span: 500, xagg: 1200},
		// the DA layer answers one submission in three with "context canceled" (a proxy that timed out) while the node is
		// NOT stopping: the submission loops must live on (alive-at-stop and progress monitors)
		scen{mode: "agg", bt: 50, span: 900, daf: "canceled", dabt: 25},
		// an IDLE chain in lazy mode (lazy interval 160 ms), pending limit 2, the DA layer is down for the first 500 ms: the
		// limit is reached while lazy ticks fire; once the DA layer accepts the backlog, production must resume
		scen{mode: "agg", bt: 40, span: 2000, lazy: true, dabt: 20, daf: "outage", outms: 500, maxp: 2, notx: true},
		// STORE FAULTS while the node runs: one write of the node's datastore fails (state write of a block being produced /
		// applied; any single Put; a batch commit).  The loop that meets the error reports it, Run returns the error by itself
		// or - if the failing write is one the node lives with - stops promptly when asked; nothing may hang
		scen{mode: "agg", bt: 50, span: 900, sf: "state", sfat: 400},
		scen{mode: "full", bt: 50, span: 900, prod: 600, sf: "state", sfat: 0},
		scen{mode: "agg", bt: 50, span: 800, sf: "commit", sfat: 350},
		scen{mode: "agg", bt: 40, span: 800, sf: "put", sfat: 300, sfn: 2},
		scen{mode: "full", bt: 50, span: 900, prod: 500, sf: "commit", sfat: 30},
	)
	n := 2
	if tier == "thorough" {
		n = 22
	}
	for i := 0; i < n; i++ {
		s := scen{bt: []int{30, 50, 80, 120}[r.Intn(4)], span: 250 + r.Intn(700)}
		if r.Chance(40) {
			s.mode = "full"
			s.prod = 300 + r.Intn(500)
		} else {
			s.mode = "agg"
			s.lazy = r.Chance(30)
			if r.Chance(15) {
				s.future = 150 + r.Intn(200)
				s.span = s.future + s.bt + 300 + r.Intn(300)
			}
		}
		if r.Chance(35) {
			s.slow = 20 + r.Intn(150)
		}
		if s.mode == "agg" && r.Chance(45) {
			s.daf = []string{"reject", "flaky", "error", "canceled"}[r.Intn(4)]
			s.dabt = []int{10, 20, 60, 200}[r.Intn(4)]
			s.ttl = []int{0, 1, 50, 200}[r.Intn(4)]
			s.gas = r.Chance(60)
		}
		if r.Chance(25) {
			s.sf = []string{"state", "put", "commit"}[r.Intn(3)]
			s.sfat = 100 + r.Intn(max(s.span-150, 1))
			s.sfn = 1 + r.Intn(3)
		}
		ss = append(ss, s)
	}
	if tier == "thorough" {
		ss = append(ss, scen{mode: "agg", bt: 60, span: 500, future: 5000, lazy: true})
		// DA outage + pending limit, then recovery: normal mode, lazy mode with traffic, other limits / intervals
		ss = append(ss,
			scen{mode: "agg", bt: 40, span: 2000, dabt: 20, daf: "outage", outms: 500, maxp: 2, notx: true},
			scen{mode: "agg", bt: 50, span: 2200, lazy: true, dabt: 25, daf: "outage", outms: 700, maxp: 1, notx: true},
			scen{mode: "agg", bt: 30, span: 2000, lazy: true, dabt: 30, daf: "outage", outms: 400, maxp: 3},
			scen{mode: "agg", bt: 40, span: 2100, dabt: 40, daf: "outage", outms: 600, maxp: 5},
		)
	}
	// generated deliberately and last: a full node whose execution layer aborts its calls with ctx.Err() when the node
	// is stopped - SyncLoop and DAIncluderLoop both report the error on the capacity-1 errCh after Run stopped reading
	// it.  Repaired in /repo by 9e73ab9 (non-blocking error reports), so Run must return promptly now; a blocking
	// `errCh <- err` coming back is reported as C13/stop/Run-never-returns/second-error-send-on-full-errCh (VIOLATION)
	ss = append(ss, scen{mode: "full", bt: 50, span: 700, prod: 700, xexec: 120, slow: 60})
	for _, s := range ss {
		fmt.Fprintln(w, "reset")
		fmt.Fprintln(w, s.line())
	}
	// malformed / unknown ops
	fmt.Fprintln(w, "reset")
	fmt.Fprintln(w, "run mode=neither")
	fmt.Fprintln(w, "frobnicate x=1")
}

// ---------------------------------------------------------------- doubles (all state under a mutex: the race
// detector must only ever speak about the repository's code)

type execD struct {
	mu      sync.Mutex
	pending [][]byte
	n       int
	finals  []uint64
	takes   time.Duration // every ExecuteTxs takes this long (SetFinal twice as long); cancelled -> ctx.Err()
	getTxs  time.Duration // GetTxs takes this long, context or not
}

func (e *execD) work(ctx context.Context, d time.Duration) error {
	if d <= 0 {
		return nil
	}
	select {
	case <-ctx.Done():
		return ctx.Err()
	case <-time.After(d):
		return nil
	}
}

func (e *execD) InitChain(context.Context, time.Time, uint64, string) ([]byte, uint64, error) {
	return append([]byte(nil), hx.GenesisRoot...), 1 << 20, nil
}
func (e *execD) GetTxs(context.Context) ([][]byte, error) {
	if e.getTxs > 0 {
		time.Sleep(e.getTxs)
	}
	e.mu.Lock()
	defer e.mu.Unlock()
	out := e.pending
	e.pending = nil
	return out, nil
}
func (e *execD) inject(tag string) {
	e.mu.Lock()
	defer e.mu.Unlock()
	e.n++
	e.pending = append(e.pending, []byte(fmt.Sprintf("tx-%s-%d", tag, e.n)))
}
func (e *execD) ExecuteTxs(ctx context.Context, txs [][]byte, _ uint64, _ time.Time, prev []byte) ([]byte, uint64, error) {
	if err := e.work(ctx, e.takes); err != nil {
		return nil, 0, err
	}
	return hx.ExecRoot(prev, txs), 1 << 20, nil
}
func (e *execD) SetFinal(ctx context.Context, h uint64) error {
	if err := e.work(ctx, 2*e.takes); err != nil {
		return err
	}
	e.mu.Lock()
	defer e.mu.Unlock()
	e.finals = append(e.finals, h)
	return nil
}

type seqD struct {
	mu    sync.Mutex
	queue [][]byte
}

func (s *seqD) SubmitBatchTxs(_ context.Context, req coresequencer.SubmitBatchTxsRequest) (*coresequencer.SubmitBatchTxsResponse, error) {
	s.mu.Lock()
	defer s.mu.Unlock()
	if req.Batch != nil {
		for _, tx := range req.Batch.Transactions {
			s.queue = append(s.queue, append([]byte(nil), tx...))
		}
	}
	return &coresequencer.SubmitBatchTxsResponse{}, nil
}
func (s *seqD) GetNextBatch(context.Context, coresequencer.GetNextBatchRequest) (*coresequencer.GetNextBatchResponse, error) {
	s.mu.Lock()
	defer s.mu.Unlock()
	txs := s.queue
	s.queue = nil
	return &coresequencer.GetNextBatchResponse{Batch: &coresequencer.Batch{Transactions: txs}, Timestamp: time.Now()}, nil
}

// RecordMetrics makes the double a block.MetricsRecorder like the real single sequencer: the submission and
// inclusion loops then read the pending counters concurrently with the production loop.
func (s *seqD) RecordMetrics(float64, uint64, coreda.StatusCode, uint64, uint64) {}

func (s *seqD) VerifyBatch(context.Context, coresequencer.VerifyBatchRequest) (*coresequencer.VerifyBatchResponse, error) {
	return &coresequencer.VerifyBatchResponse{Status: true}, nil
}

// slowDA delays every call of the DA double by a fixed time (a DA layer that answers slowly; the wait ends early
// when the caller's context does).
type slowDA struct {
	*hx.DA
	delay time.Duration
}

func (d *slowDA) wait(ctx context.Context) {
	if d.delay <= 0 {
		return
	}
	select {
	case <-ctx.Done():
	case <-time.After(d.delay):
	}
}
func (d *slowDA) SubmitWithOptions(ctx context.Context, blobs []coreda.Blob, gp float64, ns []byte, o []byte) ([]coreda.ID, error) {
	d.wait(ctx)
	return d.DA.SubmitWithOptions(ctx, blobs, gp, ns, o)
}
func (d *slowDA) Submit(ctx context.Context, blobs []coreda.Blob, gp float64, ns []byte) ([]coreda.ID, error) {
	d.wait(ctx)
	return d.DA.Submit(ctx, blobs, gp, ns)
}
func (d *slowDA) GetIDs(ctx context.Context, h uint64, ns []byte) (*coreda.GetIDsResult, error) {
	d.wait(ctx)
	return d.DA.GetIDs(ctx, h, ns)
}

// faultDA makes submissions fail by a pattern (its own state under a mutex); everything else goes to the double.
type faultDA struct {
	coreda.DA
	mu    sync.Mutex
	kind  string
	n     int
	until time.Time // outage: every submission fails until then
}

func (d *faultDA) fault() error {
	d.mu.Lock()
	defer d.mu.Unlock()
	d.n++
	switch d.kind {
	case "reject":
		return coreda.ErrTxAlreadyInMempool
	case "flaky":
		if d.n%2 == 1 {
			return coreda.ErrTxAlreadyInMempool
		}
	case "error":
		if d.n%3 != 0 {
			return fmt.Errorf("da: connection refused")
		}
	case "outage":
		if time.Now().Before(d.until) {
			return fmt.Errorf("da: connection refused")
		}
	case "canceled":
		if d.n%3 == 1 {
			return context.Canceled // what a DA client answers when ITS request context ended; the node's has not
		}
	}
	return nil
}
func (d *faultDA) SubmitWithOptions(ctx context.Context, blobs []coreda.Blob, gp float64, ns []byte, o []byte) ([]coreda.ID, error) {
	if err := d.fault(); err != nil {
		return nil, err
	}
	return d.DA.SubmitWithOptions(ctx, blobs, gp, ns, o)
}
func (d *faultDA) Submit(ctx context.Context, blobs []coreda.Blob, gp float64, ns []byte) ([]coreda.ID, error) {
	if err := d.fault(); err != nil {
		return nil, err
	}
	return d.DA.Submit(ctx, blobs, gp, ns)
}

// ---------------------------------------------------------------- store faults

// faultDS hands the node hx.LogDS with hx.LogDS's fault semantics (the next n single Puts / batch commits return
// hx.ErrInjected and write NOTHING), armed from another goroutine while the node runs: counters are atomics, so the race
// detector only ever speaks about the repository's code.
type faultDS struct {
	*hx.LogDS
	failPut, failState, failCommit atomic.Int64
	fired                          atomic.Int64
}

func take(c *atomic.Int64) bool {
	for {
		n := c.Load()
		if n <= 0 {
			return false
		}
		if c.CompareAndSwap(n, n-1) {
			return true
		}
	}
}

func (f *faultDS) Put(ctx context.Context, k ds.Key, v []byte) error {
	if (strings.HasSuffix(k.String(), "/s") && take(&f.failState)) || take(&f.failPut) {
		f.fired.Add(1)
		return hx.ErrInjected
	}
	return f.LogDS.Put(ctx, k, v)
}

type faultBatch struct {
	ds.Batch
	f *faultDS
}

func (f *faultDS) Batch(ctx context.Context) (ds.Batch, error) {
	b, err := f.LogDS.Batch(ctx)
	if err != nil {
		return nil, err
	}
	return &faultBatch{Batch: b, f: f}, nil
}

func (b *faultBatch) Commit(ctx context.Context) error {
	if take(&b.f.failCommit) {
		b.f.fired.Add(1)
		return hx.ErrInjected // nothing is written: the inner batch is dropped
	}
	return b.Batch.Commit(ctx)
}

func (f *faultDS) arm(kind string, n int) {
	if n <= 0 {
		n = 1
	}
	switch kind {
	case "state":
		f.failState.Store(int64(n))
	case "put":
		f.failPut.Store(int64(n))
	case "commit":
		f.failCommit.Store(int64(n))
	}
}

// ---------------------------------------------------------------- one real node

type nodeEnv struct {
	fn       *node.FullNode
	ds       *hx.LogDS
	fds      *faultDS
	store    storepkg.Store
	exec     *execD
	gen      genesispkg.Genesis
	root     string
	cfg      config.Config
	cancel   context.CancelFunc
	done     chan error
	baseline map[string]bool
	recovery time.Time // daf=outage: when the DA layer starts to accept
}

func newNode(s scen, aggregator bool, da *hx.DA, genesisTime time.Time) (*nodeEnv, error) {
	e := &nodeEnv{exec: &execD{}, ds: hx.NewLogDS(nil)}
	e.fds = &faultDS{LogDS: e.ds}
	if !aggregator && s.xexec > 0 {
		e.exec.takes = time.Duration(s.xexec) * time.Millisecond
	}
	if aggregator && s.xagg > 0 {
		e.exec.getTxs = time.Duration(s.xagg) * time.Millisecond
	}
	root, err := os.MkdirTemp(bm.WorkDir(), "c13-")
	if err != nil {
		return nil, err
	}
	e.root = root
	priv, pub := bm.DetKey(1)
	e.gen = genesispkg.NewGenesis(bm.ChainID, 1, genesisTime, types.KeyAddress(pub))
	cfg := config.DefaultConfig
	cfg.RootDir = root
	cfg.ChainID = bm.ChainID
	cfg.Node.Aggregator = aggregator
	cfg.Node.BlockTime.Duration = time.Duration(s.bt) * time.Millisecond
	cfg.Node.LazyMode = s.lazy && aggregator
	cfg.Node.LazyBlockInterval.Duration = time.Duration(4*s.bt) * time.Millisecond
	cfg.Node.MaxPendingHeadersAndData = 100000
	if s.maxp > 0 {
		cfg.Node.MaxPendingHeadersAndData = uint64(s.maxp)
	}
	cfg.DA.BlockTime.Duration = time.Duration(s.bt) * time.Millisecond
	if s.dabt > 0 {
		cfg.DA.BlockTime.Duration = time.Duration(s.dabt) * time.Millisecond
	}
	cfg.DA.MempoolTTL = 1
	if s.ttl > 0 {
		cfg.DA.MempoolTTL = uint64(s.ttl)
	}
	if s.gas {
		cfg.DA.GasPrice, cfg.DA.GasMultiplier = 1, 2
	}
	cfg.DA.StartHeight = 1
	cfg.P2P.ListenAddress = "/ip4/127.0.0.1/tcp/0"
	cfg.P2P.Peers = ""
	cfg.RPC.Address = "127.0.0.1:0"
	ins := *config.DefaultInstrumentationConfig()
	ins.Prometheus, ins.Pprof = false, false
	cfg.Instrumentation = &ins
	e.cfg = cfg
	sg, err := noopsigner.NewNoopSigner(priv)
	if err != nil {
		return nil, err
	}
	// a node key of its own for libp2p
	npriv, npub := bm.DetKey(byte(7 + map[bool]int{true: 0, false: 1}[aggregator]))
	p2pc, err := p2p.NewClient(cfg, &key.NodeKey{PrivKey: npriv, PubKey: npub}, hx.NewLogDS(nil), logging.Logger("verif-p2p"), p2p.NopMetrics())
	if err != nil {
		return nil, fmt.Errorf("p2p client: %w", err)
	}
	var dal coreda.DA = da
	if s.slow > 0 {
		dal = &slowDA{DA: da, delay: time.Duration(s.slow) * time.Millisecond}
	}
	if s.daf != "" && aggregator {
		dal = &faultDA{DA: dal, kind: s.daf, until: time.Now().Add(time.Duration(s.outms) * time.Millisecond)}
		e.recovery = time.Now().Add(time.Duration(s.outms) * time.Millisecond)
	}
	n, err := node.NewNode(context.Background(), cfg, e.exec, &seqD{}, dal, sg, p2pc, e.gen, e.fds,
		node.DefaultMetricsProvider(&ins), logging.Logger("verif-node"), node.NodeOptions{})
	if err != nil {
		return nil, fmt.Errorf("NewNode: %w", err)
	}
	fn, ok := n.(*node.FullNode)
	if !ok {
		return nil, fmt.Errorf("not a full node")
	}
	e.fn = fn
	e.store = storepkg.New(ktds.Wrap(e.ds, ktds.PrefixTransform{Prefix: ds.NewKey(node.RollkitPrefix)}))
	return e, nil
}

func (e *nodeEnv) start() {
	e.baseline = goroutineIDs()
	ctx, cancel := context.WithCancel(context.Background())
	e.cancel = cancel
	e.done = make(chan error, 1)
	go func() {
		defer func() {
			if r := recover(); r != nil {
				e.done <- fmt.Errorf("panic: %v", r)
			}
		}()
		e.done <- e.fn.Run(ctx)
	}()
}

func (e *nodeEnv) cleanup() {
	if e != nil && e.root != "" {
		_ = os.RemoveAll(e.root)
	}
}

// ---------------------------------------------------------------- stop measurement

var loopFrames = []struct{ name, frame string }{
	{"AggregationLoop", "block.(*Manager).AggregationLoop"},
	{"Reaper.Start", "block.(*Reaper).Start"},
	{"HeaderSubmissionLoop", "block.(*Manager).HeaderSubmissionLoop"},
	{"DataSubmissionLoop", "block.(*Manager).DataSubmissionLoop"},
	{"DAIncluderLoop", "block.(*Manager).DAIncluderLoop"},
	{"RetrieveLoop", "block.(*Manager).RetrieveLoop"},
	{"HeaderStoreRetrieveLoop", "block.(*Manager).HeaderStoreRetrieveLoop"},
	{"DataStoreRetrieveLoop", "block.(*Manager).DataStoreRetrieveLoop"},
	{"SyncLoop", "block.(*Manager).SyncLoop"},
}

var goIDRe = regexp.MustCompile(`^goroutine (\d+) `)

// goroutineIDs lists the goroutines that exist now (those of earlier, hung nodes are ignored later).
func goroutineIDs() map[string]bool {
	out := map[string]bool{}
	buf := make([]byte, 4<<20)
	buf = buf[:runtime.Stack(buf, true)]
	for _, g := range strings.Split(string(buf), "\n\n") {
		if m := goIDRe.FindStringSubmatch(g); m != nil {
			out[m[1]] = true
		}
	}
	return out
}

// liveLoops parses a dump of all goroutines: loop name -> reason class of where it is parked.
func liveLoops(ignore map[string]bool) map[string]string {
	buf := make([]byte, 1<<20)
	for {
		n := runtime.Stack(buf, true)
		if n < len(buf) {
			buf = buf[:n]
			break
		}
		buf = make([]byte, 2*len(buf))
	}
	out := map[string]string{}
	for _, g := range strings.Split(string(buf), "\n\n") {
		if m := goIDRe.FindStringSubmatch(g); m != nil && ignore[m[1]] {
			continue
		}
		for _, lf := range loopFrames {
			if !strings.Contains(g, lf.frame+"(") {
				continue
			}
			head := g
			if i := strings.IndexByte(g, '\n'); i > 0 {
				head = g[:i]
			}
			state := ""
			if i := strings.IndexByte(head, '['); i >= 0 {
				state = strings.TrimSuffix(head[i+1:], "]:")
				if j := strings.IndexByte(state, ','); j > 0 {
					state = state[:j]
				}
			}
			lines := strings.Split(g, "\n")
			top := ""
			if len(lines) > 1 {
				top = lines[1]
			}
			// the first frame of the repository below the top
			repoFn, repoFn2 := "", "" // and its caller (a goroutine parked on a mutex: who holds what is in the caller)
			for _, l := range lines[1:] {
				if strings.HasPrefix(l, "github.com/evstack/ev-node/") {
					f := l[strings.LastIndex(l[:strings.IndexByte(l+"(", '(')], "/")+1:]
					if i := strings.LastIndex(f, "("); i > 0 {
						f = f[:i]
					}
					if repoFn == "" {
						repoFn = f
						continue
					}
					repoFn2 = f
					break
				}
			}
			reason := "other"
			switch {
			case state == "sleep" && strings.HasPrefix(top, "time.Sleep") && lf.name == "AggregationLoop" && strings.Contains(repoFn, "AggregationLoop") && !strings.Contains(repoFn, "lazy") && !strings.Contains(repoFn, "normal"):
				reason = "start-up-delay"
			case state == "sleep":
				reason = "sleep-in-" + repoFn
			case state == "chan send":
				reason = "blocked-send-in-" + repoFn
			case state == "chan receive":
				reason = "blocked-receive-in-" + repoFn
			case state == "select":
				reason = "select-in-" + repoFn
			case strings.HasPrefix(state, "sync."), state == "semacquire":
				reason = "lock-in-" + repoFn
				if repoFn2 != "" {
					reason += "-called-by-" + repoFn2
				}
			case state == "running" || state == "runnable":
				reason = "busy-in-" + repoFn
			case state == "IO wait":
				reason = "io-in-" + repoFn
			}
			out[lf.name] = reason
		}
	}
	return out
}

// repoGoroutines lists the goroutines that did not exist at the baseline and have a function of the repository on their
// stack: root function of the repository on that stack (short) -> state.
func repoGoroutines(ignore map[string]bool) map[string]string {
	buf := make([]byte, 1<<20)
	for {
		n := runtime.Stack(buf, true)
		if n < len(buf) {
			buf = buf[:n]
			break
		}
		buf = make([]byte, 2*len(buf))
	}
	out := map[string]string{}
	const pfx = "github.com/evstack/ev-node/"
	for _, g := range strings.Split(string(buf), "\n\n") {
		m := goIDRe.FindStringSubmatch(g)
		if m == nil || ignore[m[1]] {
			continue
		}
		lines := strings.Split(g, "\n")
		root := ""
		for _, l := range lines[1:] {
			if strings.HasPrefix(l, pfx) { // a function frame (the "created by" line starts differently)
				root = l
			}
		}
		if root == "" {
			continue
		}
		root = strings.TrimPrefix(root, pfx)
		if i := strings.LastIndex(root, "("); i > 0 && strings.HasSuffix(root, ")") {
			root = root[:i] // drop the arguments
		}
		// keep "pkg.Func" / "pkg.(*T).Method": drop the directories before the package
		cut := root
		if j := strings.Index(cut, ".("); j > 0 {
			cut = cut[:j]
		}
		if i := strings.LastIndex(cut, "/"); i >= 0 {
			root = root[i+1:]
		}
		state := ""
		if i := strings.IndexByte(lines[0], '['); i >= 0 {
			state = strings.TrimSuffix(lines[0][i+1:], "]:")
		}
		out[root] = state
	}
	return out
}

type stopResult struct {
	runTook  time.Duration
	stopAt   time.Time
	returned bool
	runErr   error
	loopTook map[string]time.Duration // loops that were alive at cancel
	late     map[string]string        // loop -> reason (alive after promptBound)
	atStop   map[string]string        // the loops that were alive at the stop request
	leaked   map[string]string        // goroutines of the repository's code still alive after Run returned: root function -> state
}

func (e *nodeEnv) stop() stopResult {
	res := stopResult{loopTook: map[string]time.Duration{}, late: map[string]string{}}
	alive := liveLoops(e.baseline)
	res.atStop = alive
	t0 := time.Now()
	res.stopAt = t0
	e.cancel()
	tick := time.NewTicker(20 * time.Millisecond)
	defer tick.Stop()
	lateSeen := false
	for {
		select {
		case err := <-e.done:
			res.runTook, res.returned, res.runErr = time.Since(t0), true, err
			for l := range alive {
				if _, ok := res.loopTook[l]; !ok {
					res.loopTook[l] = res.runTook
				}
			}
			// Run has returned: nothing the node's code started since Run began may still be running (grace: 600 ms)
			for i := 0; ; i++ {
				res.leaked = repoGoroutines(e.baseline)
				if len(res.leaked) == 0 || i >= 12 {
					break
				}
				time.Sleep(50 * time.Millisecond)
			}
			return res
		case <-tick.C:
			now := liveLoops(e.baseline)
			el := time.Since(t0)
			for l := range alive {
				if _, still := now[l]; !still {
					if _, ok := res.loopTook[l]; !ok {
						res.loopTook[l] = el
					}
				}
			}
			if el > promptBound && !lateSeen {
				lateSeen = true
				for l, why := range now {
					if _, was := alive[l]; was {
						res.late[l] = why
					}
				}
			}
			if el > hangBound {
				res.runTook = el
				for l, why := range now {
					res.late[l] = why
				}
				return res
			}
		}
	}
}

// ---------------------------------------------------------------- race log

var raceOff int64

func raceLogPath() string {
	for _, f := range strings.Fields(os.Getenv("GORACE")) {
		if strings.HasPrefix(f, "log_path=") {
			p := strings.TrimPrefix(f, "log_path=")
			if p == "stderr" || p == "stdout" {
				return ""
			}
			return p + "." + strconv.Itoa(os.Getpid())
		}
	}
	return ""
}

var frameRe = regexp.MustCompile(`^  (\S+)\(\)$`)

func shortFn(f string) string {
	f = strings.TrimPrefix(f, "github.com/evstack/ev-node/")
	return f
}

// scanRaces reads what the race detector wrote since the last call and reports every race whose conflicting
// accesses involve code of the repository.
func scanRaces(c *hx.Ctx) int {
	p := raceLogPath()
	if p == "" {
		return 0
	}
	f, err := os.Open(p)
	if err != nil {
		return 0
	}
	defer f.Close()
	if _, err := f.Seek(raceOff, io.SeekStart); err != nil {
		return 0
	}
	b, _ := io.ReadAll(f)
	raceOff += int64(len(b))
	n := 0
	for _, blk := range strings.Split(string(b), "WARNING: DATA RACE")[1:] {
		// stacks of the two conflicting accesses: the first two paragraphs
		paras := strings.Split(blk, "\n\n")
		var tops []string
		repo := false
		for i, para := range paras {
			if i >= 2 {
				break
			}
			k := 0
			first := ""
			for _, l := range strings.Split(para, "\n") {
				if m := frameRe.FindStringSubmatch(l); m != nil {
					if k < 4 && strings.HasPrefix(m[1], "github.com/evstack/ev-node/") {
						repo = true
						if first == "" {
							first = shortFn(m[1])
						}
					}
					k++
				}
			}
			if first == "" {
				first = "-"
			}
			tops = append(tops, first)
		}
		if !repo {
			continue
		}
		sort.Strings(tops)
		n++
		txt := blk
		if len(txt) > 1500 {
			txt = txt[:1500]
		}
		c.Report("C13/race/"+strings.Join(tops, "|"), "race detector: "+txt)
	}
	return n
}

// ---------------------------------------------------------------- world monitors after the stop

func metaU64(st storepkg.Store, key string) uint64 {
	b, err := st.GetMetadata(context.Background(), key)
	if err != nil || len(b) != 8 {
		return 0
	}
	return binary.LittleEndian.Uint64(b)
}

type blockRec struct {
	hash []byte
	txs  [][]byte
	time time.Time
}

func keys(m map[string]string) []string {
	var out []string
	for k := range m {
		out = append(out, k)
	}
	sort.Strings(out)
	return out
}

// checkChain: C01 on a stopped node's store (copied from streams/prod.checkChain, reduced to what holds without
// knowledge of the batches). Returns the chain for comparison.
func checkChain(c *hx.Ctx, who string, e *nodeEnv, m *block.Manager) (chain []blockRec, ok bool) {
	ctx := context.Background()
	_, pub := bm.DetKey(1)
	ok = true
	bad := func(sig, what string) {
		ok = false
		c.Report("C13/inv/"+who+"/"+sig, what)
	}
	h, err := e.store.Height(ctx)
	if err != nil {
		bad("height-unreadable", err.Error())
		return
	}
	st, errS := e.store.GetState(ctx)
	if h >= 1 && (errS != nil || st.LastBlockHeight != h) {
		// a stop between SetHeight and UpdateState (producer) / between updateState and SetHeight (syncer) leaves the two
		// apart by one: that is C04/C05's subject (known there); here only a larger gap is reported
		d := int64(st.LastBlockHeight) - int64(h)
		if errS != nil || d > 1 || d < -1 {
			bad("state-height-disagree", fmt.Sprintf("state %d height %d err %v", st.LastBlockHeight, h, errS))
		}
	}
	root := append([]byte(nil), hx.GenesisRoot...)
	var prev *types.SignedHeader
	var prevTime time.Time
	for k := uint64(1); k <= h; k++ {
		sh, d, err := e.store.GetBlockData(ctx, k)
		if err != nil {
			if k == h && errS == nil && st.LastBlockHeight == h {
				// syncer: state (and height) may be ahead of the block by one write - C05's subject
				break
			}
			bad("block-missing", fmt.Sprintf("height %d of %d: %v", k, h, err))
			return
		}
		if sh.Height() != k {
			bad("height-field", fmt.Sprintf("stored at %d has height %d", k, sh.Height()))
		}
		if prev != nil {
			if !bytes.Equal(sh.LastHeaderHash, prev.Hash()) {
				bad("last-header-hash", fmt.Sprintf("height %d", k))
			}
			if sh.Time().Before(prevTime) {
				bad("time-regression", fmt.Sprintf("height %d", k))
			}
		}
		bare := types.Data{Txs: d.Txs}
		want := []byte(bare.DACommitment())
		if len(d.Txs) == 0 {
			want = block.VerifEmptyDataHash()
		}
		if !bytes.Equal(sh.DataHash, want) {
			bad("data-hash", fmt.Sprintf("height %d", k))
		}
		if !bytes.Equal(sh.AppHash, root) {
			bad("app-hash", fmt.Sprintf("height %d", k))
		}
		txs := make([][]byte, len(d.Txs))
		for i := range d.Txs {
			txs[i] = d.Txs[i]
		}
		root = hx.ExecRoot(root, txs)
		if bm.SigClass(pub, &sh.Header, sh.Signature) != "valid" || sh.Signer.PubKey == nil || !sh.Signer.PubKey.Equals(pub) {
			bad("signature", fmt.Sprintf("height %d", k))
		}
		if !bytes.Equal(sh.ProposerAddress, e.gen.ProposerAddress) || sh.ChainID() != e.gen.ChainID {
			bad("proposer-or-chain-id", fmt.Sprintf("height %d", k))
		}
		vst := types.State{ChainID: e.gen.ChainID, LastBlockHeight: k - 1, LastBlockTime: prevTime, AppHash: sh.AppHash}
		if prev == nil {
			vst.LastBlockTime = e.gen.GenesisDAStartTime
		}
		if err := m.VerifExecValidate(vst, sh, d); err != nil {
			bad("full-node-validation", fmt.Sprintf("height %d: %v", k, err))
		}
		if d.Metadata == nil || d.Metadata.Height != k || d.Metadata.ChainID != e.gen.ChainID {
			bad("data-metadata", fmt.Sprintf("height %d", k))
		}
		chain = append(chain, blockRec{hash: sh.Hash(), txs: txs, time: sh.Time()})
		prev, prevTime = sh, sh.Time()
	}
	if errS == nil && st.LastBlockHeight == uint64(len(chain)) && len(chain) > 0 && !bytes.Equal(st.AppHash, root) {
		bad("state-app-hash", fmt.Sprintf("state root %s expected %s", bm.H8(st.AppHash), bm.H8(root)))
	}
	// watermarks and DA-included height never ahead of the chain
	lh, ld := m.VerifLastSubmitted()
	if lh > h || ld > h {
		bad("watermark-ahead", fmt.Sprintf("last submitted header %d data %d height %d", lh, ld, h))
	}
	if mh := metaU64(e.store, storepkg.LastSubmittedHeaderHeightKey); mh > h {
		bad("watermark-ahead", fmt.Sprintf("persisted header watermark %d height %d", mh, h))
	}
	if md := metaU64(e.store, block.LastSubmittedDataHeightKey); md > h {
		bad("watermark-ahead", fmt.Sprintf("persisted data watermark %d height %d", md, h))
	}
	if di := m.GetDAIncludedHeight(); di > h {
		bad("da-included-ahead", fmt.Sprintf("DA included %d height %d", di, h))
	}
	if di := metaU64(e.store, storepkg.DAIncludedHeightKey); di > h {
		bad("da-included-ahead", fmt.Sprintf("persisted DA included %d height %d", di, h))
	}
	return chain, ok
}

// ---------------------------------------------------------------- scenario execution

type outcome struct {
	stopped string // "1" | "late" | "hang"
	inv     bool
	blocks  int
	reasons map[string]string
	took    time.Duration
	err     string
}

func injector(ctx context.Context, e *execD, tag string, every time.Duration) {
	t := time.NewTicker(every)
	defer t.Stop()
	for {
		select {
		case <-ctx.Done():
			return
		case <-t.C:
			e.inject(tag)
		}
	}
}

// runNode runs one real node for span, requests the stop and evaluates the monitors.
func runNode(c *hx.Ctx, s scen, who string, aggregator bool, da *hx.DA, span time.Duration, genesisTime time.Time) (out outcome, chain []blockRec) {
	out = outcome{stopped: "1", inv: true, reasons: map[string]string{}}
	e, err := newNode(s, aggregator, da, genesisTime)
	if err != nil {
		out.err = err.Error()
		return
	}
	defer e.cleanup()
	ictx, icancel := context.WithCancel(context.Background())
	if aggregator && !s.notx {
		go injector(ictx, e.exec, who, time.Duration(s.bt)*time.Millisecond/2+time.Millisecond)
	}
	e.start()
	var res stopResult
	selfReturned := false
	stopTimer := time.After(span)
	var armTimer <-chan time.Time
	if s.sf != "" {
		armTimer = time.After(time.Duration(s.sfat) * time.Millisecond)
	}
wait:
	for {
		select {
		case err := <-e.done:
			if s.sf != "" && e.fds.fired.Load() > 0 && err != nil {
				// the expected behaviour after a failed store write: the loop that met it reported the error and Run shut the
				// node down by itself - nothing is left to stop; the leak monitor still looks at what survives
				selfReturned = true
				c.Hit("sfault/" + s.sf + "/run-returned-the-error")
				res = stopResult{returned: true, runErr: err, stopAt: time.Now(), loopTook: map[string]time.Duration{}, late: map[string]string{}}
				for i := 0; ; i++ {
					res.leaked = repoGoroutines(e.baseline)
					if len(res.leaked) == 0 || i >= 12 {
						break
					}
					time.Sleep(50 * time.Millisecond)
				}
				break wait
			}
			icancel()
			out.err = fmt.Sprintf("Run returned before the stop request: %v", err)
			return
		case <-armTimer:
			armTimer = nil
			e.fds.arm(s.sf, s.sfn)
		case <-stopTimer:
			break wait
		}
	}
	if !selfReturned {
		res = e.stop()
		if s.sf != "" {
			if e.fds.fired.Load() > 0 {
				c.Hit("sfault/" + s.sf + "/stopped-on-request")
			} else {
				c.Hit("sfault/" + s.sf + "/not-met")
			}
		}
	}
	icancel()
	out.took = res.runTook
	for l, d := range res.loopTook {
		c.Hit(fmt.Sprintf("stop/%s/%s", l, bucket(d)))
	}
	c.Hit("stop/Run/" + bucket(res.runTook))
	if !res.returned {
		out.stopped = "hang"
	} else if res.runTook > promptBound {
		out.stopped = "late"
	}
	out.reasons = res.late
	if res.returned && res.runErr != nil && res.runErr != context.Canceled {
		c.Hit("run-error")
	}
	if !res.returned {
		return
	}
	m := e.fn.VerifBlockManager()
	if os.Getenv("C13_DEBUG") != "" {
		e.exec.mu.Lock()
		fmt.Fprintf(os.Stderr, "[c13] %s height=%d finals=%v daIncluded=%d runTook=%v runErr=%v late=%v\n", who, func() uint64 { h, _ := e.store.Height(context.Background()); return h }(), e.exec.finals, m.GetDAIncludedHeight(), res.runTook, res.runErr, res.late)
		e.exec.mu.Unlock()
	}
	ch, ok := checkChain(c, who, e, m)
	out.inv = ok
	out.blocks = len(ch)
	// every worker of the mode was alive when the stop request came (a loop that returned earlier without an error
	// reaching Run is an activity that silently ended while the node was running)
	want := []string{"RetrieveLoop", "HeaderStoreRetrieveLoop", "DataStoreRetrieveLoop", "SyncLoop", "DAIncluderLoop"}
	if aggregator {
		want = []string{"AggregationLoop", "Reaper.Start", "HeaderSubmissionLoop", "DataSubmissionLoop", "DAIncluderLoop"}
	}
	if selfReturned || (s.sf != "" && e.fds.fired.Load() > 0) {
		want = nil // the loop that met the injected store error may have returned (with the error) before the stop request
	}
	for _, l := range want {
		if _, ok := res.atStop[l]; !ok {
			out.inv = false
			c.Report("C13/world/loop-exited-while-running/"+l, fmt.Sprintf("%s: %s was no longer running at the stop request (Run had not returned, no error reported); alive: %v", who, l, keys(res.atStop)))
		}
	}
	// production resumes after a DA outage that made the pending limit bite: once the DA layer accepts again, the backlog is
	// submitted and blocks must be produced again - at the lazy interval on an idle chain in lazy mode, at the block time
	// otherwise (generous: 3 blocks when at least 1.4 s and 8 intervals have passed since the recovery)
	if aggregator && s.daf == "outage" && s.maxp > 0 && len(ch) > 0 {
		interval := time.Duration(s.bt) * time.Millisecond
		kind := "normal"
		if s.lazy {
			kind = "lazy"
			if s.notx {
				interval = 4 * interval
			}
		}
		since := res.stopAt.Sub(e.recovery)
		after := 0
		for _, b := range ch {
			if b.time.After(e.recovery) {
				after++
			}
		}
		lh, ld := m.VerifLastSubmitted()
		if os.Getenv("C13_DEBUG") != "" {
			fmt.Fprintf(os.Stderr, "[c13] %s outage: since recovery %v height %d blocks after recovery %d lh=%d ld=%d limit %d\n", who, since, len(ch), after, lh, ld, s.maxp)
		}
		c.Hit(fmt.Sprintf("outage/blocks-before-recovery/%d", min(len(ch)-after, 9)))
		if since >= 1400*time.Millisecond && since >= 8*interval && after < 3 {
			out.inv = false
			c.Report("C13/world/production-stopped-after-da-recovery/"+kind, fmt.Sprintf("%s: the DA layer accepts again since %v (interval %v, pending limit %d): chain height %d, only %d blocks produced since; last submitted header %d data %d", who, since, interval, s.maxp, len(ch), after, lh, ld))
		}
	}
	// nothing survives the shutdown
	for fn, st := range res.leaked {
		out.inv = false
		c.Report("C13/leak/goroutine-survives-shutdown/"+fn, fmt.Sprintf("%s: Run returned %v after the stop request, 600 ms later a goroutine of the node is still running %s [%s]", who, res.runTook, fn, st))
	}
	// progress while running: with a healthy DA layer, 6 DA block times after the first block both submission watermarks
	// are close to the chain and something is DA-included
	if aggregator && s.daf == "" && s.slow == 0 && s.xagg == 0 && s.sf == "" && len(ch) > 0 {
		dabt := time.Duration(s.dabt) * time.Millisecond
		if dabt == 0 {
			dabt = time.Duration(s.bt) * time.Millisecond
		}
		bt := time.Duration(s.bt) * time.Millisecond
		ran := res.stopAt.Sub(ch[0].time)
		if ran >= 6*dabt+2*bt {
			h := uint64(len(ch))
			slack := uint64(4*dabt/bt) + 3
			lh, ld := m.VerifLastSubmitted()
			lastData := uint64(0) // the last block with transactions at least 4 DA block times old
			for i, b := range ch {
				if len(b.txs) > 0 && res.stopAt.Sub(b.time) >= 4*dabt+bt {
					lastData = uint64(i + 1)
				}
			}
			if os.Getenv("C13_DEBUG") != "" {
				fmt.Fprintf(os.Stderr, "[c13] %s progress: ran=%v h=%d lh=%d ld=%d lastData=%d di=%d slack=%d\n", who, ran, h, lh, ld, lastData, m.GetDAIncludedHeight(), slack)
			}
			if lh+slack < h {
				out.inv = false
				c.Report("C13/world/submission-stalled-while-running/header", fmt.Sprintf("%s: %v after the first block, healthy DA: chain height %d, last submitted header %d (DA block time %v)", who, ran, h, lh, dabt))
			}
			if ld < lastData && lastData > 0 {
				out.inv = false
				c.Report("C13/world/submission-stalled-while-running/data", fmt.Sprintf("%s: %v after the first block, healthy DA: block %d with transactions is more than 4 DA block times old, last submitted data %d (DA block time %v)", who, ran, lastData, ld, dabt))
			}
			if m.GetDAIncludedHeight() == 0 && lastData > 0 {
				out.inv = false
				c.Report("C13/world/submission-stalled-while-running/da-included", fmt.Sprintf("%s: %v after the first block, healthy DA: chain height %d, nothing DA-included", who, ran, h))
			}
		}
	}
	return out, ch
}

var lockNote struct {
	once sync.Once
	txt  string
}

// lockOrderNote runs the fact extractor on the tree this binary was built from (overlay honoured) and says which edges of
// the lock-nesting table break the proof obligation Spec.C13.C13_lock_order_acyclic - so that the replay of a goroutine
// parked on a mutex names the static cause next to the failing input.
func lockOrderNote() string {
	lockNote.once.Do(func() {
		w, _, err := analyse()
		if err != nil {
			return
		}
		var bad []string
		for e, sites := range w.nest {
			if e[0] == e[1] || (w.onCycle[e[0]] && w.onCycle[e[1]]) {
				ds := append([]string(nil), sites...)
				sort.Strings(ds)
				kind := "cycle edge"
				if e[0] == e[1] {
					kind = "SELF edge (re-entrant acquisition of a non-re-entrant mutex)"
				}
				bad = append(bad, fmt.Sprintf("%s: %s -> %s %s", kind, e[0], e[1], ds[0]))
			}
		}
		sort.Strings(bad)
		if len(bad) > 0 {
			lockNote.txt = "; static facts of this tree: proof obligation Spec.C13.C13_lock_order_acyclic is BROKEN - Gen.C13.lockNesting has " + strings.Join(bad, " | ")
		} else {
			lockNote.txt = "; static facts of this tree: lock nesting acyclic (Spec.C13.C13_lock_order_acyclic holds): a section of that mutex must park for another reason"
		}
	})
	return lockNote.txt
}

func bucket(d time.Duration) string {
	switch {
	case d < 100*time.Millisecond:
		return "<100ms"
	case d < 500*time.Millisecond:
		return "<500ms"
	case d < promptBound:
		return "<2s"
	default:
		return ">=2s"
	}
}

func runScenario(c *hx.Ctx, s scen) outcome {
	da := hx.NewDA()
	now := time.Now()
	if s.mode == "agg" {
		gt := now.Add(-time.Second)
		if s.future > 0 {
			gt = now.Add(time.Duration(s.future) * time.Millisecond)
		}
		out, _ := runNode(c, s, "aggregator", true, da, time.Duration(s.span)*time.Millisecond, gt)
		return out
	}
	// full node: a producer (real aggregator node) fills the DA double first
	gt := now.Add(-time.Second)
	ps := s
	ps.lazy = false
	ps.sf = "" // the store fault is for the node under test
	pout, pchain := runNode(c, ps, "producer", true, da, time.Duration(s.prod)*time.Millisecond, gt)
	if pout.err != "" || pout.stopped != "1" {
		pout.err = "producer: " + pout.err
		return pout
	}
	out, fchain := runNode(c, s, "fullnode", false, da, time.Duration(s.span)*time.Millisecond, gt)
	out.inv = out.inv && pout.inv
	// the applied prefix equals the producer's chain
	if len(fchain) > len(pchain) {
		out.inv = false
		c.Report("C13/inv/fullnode/longer-than-producer", fmt.Sprintf("%d > %d", len(fchain), len(pchain)))
	}
	for i := range fchain {
		if i < len(pchain) && !bytes.Equal(fchain[i].hash, pchain[i].hash) {
			out.inv = false
			c.Report("C13/inv/fullnode/prefix-differs", fmt.Sprintf("height %d", i+1))
			break
		}
	}
	if len(fchain) > 0 {
		c.Hit("fullnode-synced-some")
	}
	out.blocks = len(fchain)
	return out
}

func parseScen(o hx.Op) (scen, bool) {
	s := scen{mode: o.Str("mode"), future: o.Int("future"), slow: o.Int("slow"), lazy: o.Bool("lazy"), bt: o.Int("bt"), span: o.Int("span"), prod: o.Int("prod"), xexec: o.Int("xexec"),
		daf: o.Str("daf"), dabt: o.Int("dabt"), ttl: o.Int("ttl"), gas: o.Bool("gas"), xagg: o.Int("xagg"),
		maxp: o.Int("maxp"), outms: o.Int("outms"), notx: o.Bool("notx"), sf: o.Str("sf"), sfat: o.Int("sfat"), sfn: o.Int("sfn")}
	if (s.sf != "" && s.sf != "state" && s.sf != "put" && s.sf != "commit") || s.sfat < 0 || s.sfat > 20000 || s.sfn < 0 || s.sfn > 100 || (s.sf == "" && (s.sfat != 0 || s.sfn != 0)) {
		return s, false
	}
	if s.mode != "agg" && s.mode != "full" {
		return s, false
	}
	if (s.daf != "" && s.daf != "reject" && s.daf != "flaky" && s.daf != "error" && s.daf != "canceled" && s.daf != "outage") || s.dabt > 60000 || s.ttl > 1000 || (s.daf != "" && s.mode != "agg") {
		return s, false
	}
	if s.bt < 10 || s.bt > 2000 || s.span < 50 || s.span > 20000 || s.future > 60000 || s.slow > 5000 {
		return s, false
	}
	if s.mode == "full" && (s.prod < 50 || s.prod > 20000) {
		return s, false
	}
	if s.xexec > 2000 || (s.xexec > 0 && s.mode != "full") {
		return s, false
	}
	if s.xagg > 1500 || (s.xagg > 0 && s.mode != "agg") {
		return s, false
	}
	if s.maxp > 100000 || s.outms > 20000 || (s.outms > 0) != (s.daf == "outage") {
		return s, false
	}
	return s, true
}

func Run(c *hx.Ctx) {
	_ = logging.SetLogLevel("*", "FATAL")
	raceOff = 0
	if p := raceLogPath(); p != "" {
		if fi, err := os.Stat(p); err == nil {
			raceOff = fi.Size()
		}
	}
	for {
		o, ok := c.Next()
		if !ok {
			break
		}
		switch o.Verb {
		case "reset":
			c.Emit("ok")
		case "run":
			s, ok := parseScen(o)
			if !ok {
				c.Emit("bad-op")
				continue
			}
			c.Hit("mode/" + s.mode)
			var out outcome
			for attempt := 0; attempt < 3; attempt++ {
				out = runScenario(c, s)
				if s.xexec > 0 && out.err == "" && out.stopped == "1" {
					// two error reports at the stop request need both loops inside the execution layer at the stop
					// instant: the scenario is run three times (all three must stop promptly) so that a blocking error
					// send, should one come back, is met with high probability
					c.Hit("xexec-repeat")
					continue
				}
				if out.err != "" || out.stopped == "1" || out.stopped == "hang" {
					break
				}
				// a late stop whose cause is the start-up delay is deterministic by construction; anything else is
				// repeated (alone) to filter scheduling noise
				det := false
				for _, why := range out.reasons {
					if why == "start-up-delay" {
						det = true
					}
				}
				if det {
					break
				}
				c.Hit("late-retry")
			}
			scanRaces(c)
			if out.err != "" {
				c.Report("C13/harness/"+strings.SplitN(out.err, ":", 2)[0], out.err)
				c.Emit("err")
				continue
			}
			if out.stopped != "1" {
				if len(out.reasons) == 0 && out.stopped == "late" {
					c.Report("C13/stop/Run-not-prompt/after-the-loops", fmt.Sprintf("Run returned %v after the stop request (all loops had returned within %v)", out.took, promptBound))
				}
				if out.stopped == "hang" && len(out.reasons) > 0 {
					// every loop that is left sits in a plain channel send of its own body: the only channel these three
					// loops send on in their own body is errCh (Gen/C13.lean) - the second error after Run stopped reading
					all := true
					var who []string
					for l, why := range out.reasons {
						if !(strings.HasPrefix(why, "blocked-send-in-block.(*Manager).") && strings.HasSuffix(why, l) &&
							(l == "SyncLoop" || l == "DAIncluderLoop" || l == "AggregationLoop")) {
							all = false
						}
						who = append(who, l)
					}
					if all {
						sort.Strings(who)
						c.Report("C13/stop/Run-never-returns/second-error-send-on-full-errCh",
							fmt.Sprintf("%v blocked for ever in `errCh <- err` %v after the stop request: errCh (capacity 1) already holds the other loop's error and Run no longer reads it; wg.Wait() never returns", who, out.took))
						out.reasons = nil
					}
				}
				for l, why := range out.reasons {
					kind := "not-prompt"
					if out.stopped == "hang" {
						kind = "never-returns"
					}
					note := ""
					if strings.HasPrefix(why, "lock-in-") {
						note = lockOrderNote() // a goroutine parked on a mutex: what the static lock-nesting table of this tree says
					}
					c.Report(fmt.Sprintf("C13/stop/%s-%s/%s", l, kind, why), fmt.Sprintf("%s still running %v after the stop request (%s); Run took %v%s", l, promptBound, why, out.took, note))
				}
			}
			inv := "ok"
			if !out.inv {
				inv = "violated"
			}
			c.Hit("stopped/" + out.stopped)
			if out.blocks > 0 {
				c.Hit("chain-nonempty")
			}
			// the diffed line carries only what the model predicts; the invariants are monitor-only (every violation is a c.Report)
			c.Hit("invariants/" + inv)
			c.Emit("stopped=%s", out.stopped)
		default:
			c.Emit("bad-op")
		}
	}
}
