// Package subm: correspondence streams and monitors for DA submission, watermarks, the pending limit and
// the DA-included height on the sequencer node (C06, C07, C08).
package subm

import (
	"bytes"
	"context"
	"encoding/binary"
	"fmt"
	"sort"
	"strings"
	"time"

	"verifharness/bm"
	"verifharness/hx"

	"github.com/evstack/ev-node/pkg/signer"
	"github.com/evstack/ev-node/types"
	"github.com/libp2p/go-libp2p/core/crypto"
)

type World struct {
	c       *hx.Ctx
	env     *bm.Env
	opt     bm.Options
	da      *hx.DA
	from    int
	dead    bool
	ts      int64
	lastInc uint64
	lastHwm uint64
	lastDwm uint64
	finalsN int
	crashed bool // a crash restart happened in this scenario
	// DA-inclusion marks (header hash / data commitment) that were present right before a crash restart and absent
	// right after it
	lostH, lostD map[string]bool
	refused      int
	sigHook      func() // armed by `during=… at=sign`: runs at the next signer call
	// chain height when the running submission body read its pending list, if a block was committed while it ran (else 0)
	readHeight uint64
	readSet    bool // readHeight is meaningful (the chain height the body read may be 0)
	// both real loop goroutines came to rest (nothing pending) since the last committed block, after an outage script:
	// a refusal now is a refusal after the DA layer has accepted everything
	realQuietH, realQuietD bool
	okData                 int // accepting data ticks (empty script) since the last committed block / non-accepting data tick
	// a crash may have taken the durable record of an acknowledgement with it: the restarted node then counts blocks
	// the DA layer holds as still waiting, and is right to - it cannot know. Justified until the next accepting tick
	// of that kind (two for data), which re-submits them.
	lostAckH, lostAckD bool
	incAt              map[int]uint64 // DA-included height the node reported right before its n-th durable write
	// injected write faults (`fail=n` on a submission op: the next n single Puts of the datastore - the writes that
	// persist the watermark - fail): how many the current tick consumed; whether the durable copy of the header / data
	// watermark lags behind memory because of one (justified until the next successful write or a restart); the
	// durable copies after the previous op; whether a persist failed since the last (re)start
	failUsed           int
	lagH, lagD         bool
	diskHwm, diskDwm   uint64
	failedSinceStart   bool
	// highest header / data height the DA layer accepted AND acknowledged to the running process (after a restart: the
	// reloaded watermark - what lies above it may be submitted again)
	ackH, ackD uint64
}

func be(b []byte) uint64 {
	if len(b) != 8 {
		return 0
	}
	return binary.LittleEndian.Uint64(b)
}

func (w *World) meta(k string) uint64 {
	b, err := w.env.Store.GetMetadata(context.Background(), k)
	if err != nil {
		return 0
	}
	return be(b)
}

func marks(m map[string]uint64) string {
	var out []string
	for k, v := range m {
		k = strings.ToLower(k)
		if len(k) > 8 {
			k = k[:8]
		}
		out = append(out, fmt.Sprintf("%s:%d", k, v))
	}
	sort.Strings(out)
	if len(out) == 0 {
		return "-"
	}
	return strings.Join(out, ",")
}

// decode one DA blob: ("h"|"d", block height, ok)
func decodeBlob(b []byte) (string, uint64, *types.SignedHeader, *types.SignedData) {
	var sh types.SignedHeader
	if err := sh.UnmarshalBinary(b); err == nil && sh.Signer.PubKey != nil && len(sh.ProposerAddress) > 0 && sh.ValidateBasic() == nil {
		return "h", sh.Height(), &sh, nil
	}
	var sd types.SignedData
	if err := sd.UnmarshalBinary(b); err == nil && sd.Metadata != nil {
		return "d", sd.Height(), nil, &sd
	}
	return "?", 0, nil, nil
}

func (w *World) state() string {
	e := w.env
	hm, dm := e.M.VerifLastSubmitted()
	nh, nd := e.M.VerifPendingCounts()
	return fmt.Sprintf("height=%d hwm=%d/%d dwm=%d/%d np=%d/%d dainc=%d/%d hm=%s dm=%s", e.Height(), hm, w.meta("last-submitted-header-height"),
		dm, w.meta("last-submitted-data-height"), nh, nd, e.M.GetDAIncludedHeight(), w.meta("d"),
		marks(e.M.HeaderCache().VerifDAIncluded()), marks(e.M.DataCache().VerifDAIncluded()))
}

func (w *World) start(img map[string][]byte, root string) string {
	o := w.opt
	o.Image = img
	o.Root = root
	o.DA = w.da
	old := w.env
	env, err := bm.New(o)
	if old != nil && root == "" {
		old.Cleanup()
	}
	w.env = env
	w.from = 0
	if err != nil {
		w.dead = true
		return "start err"
	}
	w.dead = false
	w.finalsN = 0
	w.incAt = map[int]uint64{}
	m, at := env.M, w.incAt
	env.DS.OnWrite = func(n int) { at[n] = m.GetDAIncludedHeight() }
	return "start " + w.state()
}

func Run(c *hx.Ctx) {
	w := &World{c: c}
	defer func() {
		if w.env != nil {
			w.env.Cleanup()
		}
	}()
	for {
		o, ok := c.Next()
		if !ok {
			return
		}
		c.Hit(o.Verb)
		if o.Verb != "reset" && (w.env == nil || w.dead) {
			c.Emit("dead")
			continue
		}
		switch o.Verb {
		case "reset":
			if w.env != nil {
				w.env.Cleanup()
				w.env = nil
			}
			ih, _ := o.U64("ih")
			maxp, _ := o.U64("maxp")
			w.opt = bm.Options{InitialHeight: ih, GenesisTime: time.Unix(0, o.I64("gt")), MaxPending: maxp, Aggregator: true,
				WrapSigner: func(sg signer.Signer) signer.Signer { return &hookSigner{Signer: sg, w: w} }}
			w.da = hx.NewDA()
			w.ts = o.I64("gt")
			w.lastInc, w.lastHwm, w.lastDwm, w.crashed, w.refused, w.okData = 0, 0, 0, false, 0, 0
			w.realQuietH, w.realQuietD = false, false
			w.lostAckH, w.lostAckD = false, false
			w.lostH, w.lostD = map[string]bool{}, map[string]bool{}
			w.lagH, w.lagD, w.failUsed, w.failedSinceStart = false, false, 0, false
			c.Emit("%s", w.start(nil, ""))
			if !w.dead {
				w.lastHwm, w.lastDwm = w.env.M.VerifLastSubmitted()
				w.ackH, w.ackD = w.lastHwm, w.lastDwm
				w.diskHwm, w.diskDwm = w.meta("last-submitted-header-height"), w.meta("last-submitted-data-height")
			}
			if !w.dead {
				// heights below the initial height need no inclusion: the reported height starts at initialHeight-1,
				// which is the chain height of a node that has not committed yet
				w.lastInc = w.env.M.GetDAIncludedHeight()
				w.checkIncBounds("start")
			}
		case "produce":
			w.from = w.env.DS.NumWrites()
			cls := w.doProduce(o.List("txs"))
			c.Emit("produced out=%s %s", cls, w.state())
			w.checkCounters("produce")
		case "subh", "subd":
			e := w.env
			w.da.Script = nil
			if s := o.Str("script"); s != "" && s != "-" {
				w.da.Script = strings.Split(s, "|")
			}
			n0 := len(w.da.Submits)
			w.from = e.DS.NumWrites()
			// `during=produce:<txs> at=sign|submit`: the aggregation loop commits a block WHILE this submission body
			// runs - at its first signer call (data only: after the pending list was read, before anything is signed) or
			// at its first Submit call (the blobs are in flight). If that point is never reached the block is produced
			// right after the body.
			during, dcls, dat := o.Has("during"), "", "after"
			if during {
				txs, _ := hx.UnHexList(strings.TrimPrefix(o.Str("during"), "produce:"))
				w.readHeight, w.readSet = 0, false
				fire := func() { w.readHeight, w.readSet = e.Height(), true; dcls = w.doProduce(txs) }
				if o.Str("at") == "submit" {
					w.da.OnSubmit = func() { w.da.OnSubmit = nil; dat = "submit"; fire() }
				} else {
					w.sigHook = func() { dat = "sign"; fire() }
				}
			}
			// `fail=n`: the next n single Puts of the datastore fail - the writes that persist the watermark
			// (store.SetMetadata) are the only single Puts of a submission body (not combined with `during=`)
			nf := 0
			if !during && o.Has("fail") {
				if nf = o.Int("fail"); nf < 0 {
					nf = 0
				}
			}
			e.DS.FailPut = nf
			var ran bool
			var err error
			if o.Verb == "subh" {
				ran, err = e.M.VerifSubmitHeadersOnce(context.Background())
			} else {
				ran, err = e.M.VerifSubmitDataOnce(context.Background())
			}
			w.failUsed = nf - e.DS.FailPut
			e.DS.FailPut = 0
			if during {
				w.da.OnSubmit, w.sigHook = nil, nil
				if dat == "after" {
					txs, _ := hx.UnHexList(strings.TrimPrefix(o.Str("during"), "produce:"))
					w.readHeight, w.readSet = e.Height(), true
					dcls = w.doProduce(txs)
				}
			}
			out := "done"
			switch {
			case !ran && err == nil:
				out = "skipped"
			case !ran:
				out = "fetchErr"
			case err != nil:
				out = "incomplete"
			}
			var calls []string
			for _, s := range w.da.Submits[n0:] {
				var hs []string
				for _, b := range s.Blobs {
					k, h, _, _ := decodeBlob(b)
					hs = append(hs, fmt.Sprintf("%s%d", k, h))
				}
				calls = append(calls, fmt.Sprintf("%s:%s:%d:%d", strings.Join(hs, "+"), s.Answer, s.Height, s.Accepted))
			}
			cs := "-"
			if len(calls) > 0 {
				cs = strings.Join(calls, ";")
			}
			left := len(w.da.Script)
			w.da.Script = nil
			if out == "incomplete" && len(w.da.Submits[n0:]) > 0 && w.da.Submits[len(w.da.Submits)-1].Answer == "canceled" {
				out = "done" // a cancelled submission returns nil
			}
			if during {
				c.Emit("%s out=%s calls=%s %s w=%s during=%s@%s", o.Verb, out, cs, w.state(), bm.DescribeWrites(e.DS, w.from), dcls, dat)
			} else {
				c.Emit("%s out=%s calls=%s %s w=%s", o.Verb, out, cs, w.state(), bm.DescribeWrites(e.DS, w.from))
			}
			for _, sb := range w.da.Submits[n0:] {
				// the DA layer took the blobs but its acknowledgement never reached the node: the node is right to go on
				// counting them as waiting until a later tick gets them acknowledged
				if strings.HasPrefix(sb.Answer, "lost") {
					if o.Verb == "subh" {
						w.lostAckH = true
					} else {
						w.lostAckD = true
					}
				}
			}
			if o.Verb == "subd" {
				if s := o.Str("script"); s == "" || s == "-" {
					w.okData++
					if w.okData >= 2 {
						w.lostAckD = false
					}
				} else {
					w.okData = 0
				}
			} else if s := o.Str("script"); s == "" || s == "-" {
				w.lostAckH = false
			}
			w.monitorSubmit(o.Verb, n0, left)
			w.readHeight, w.readSet = 0, false
		case "subhreal", "subdreal":
			// the UNMODIFIED HeaderSubmissionLoop / DataSubmissionLoop goroutine (1 ms ticker): start it, wait until
			// nothing of its kind is pending any more, stop it. The scripted answers are consumed tick after tick; once
			// they are used up the DA double accepts, so the loop always comes to rest with an empty pending range.
			e := w.env
			isData := o.Verb == "subdreal"
			w.da.Script = nil
			if s := o.Str("script"); s != "" && s != "-" {
				w.da.Script = strings.Split(s, "|")
			}
			n0 := len(w.da.Submits)
			w.from = e.DS.NumWrites()
			nf := 0
			if o.Has("fail") {
				if nf = o.Int("fail"); nf < 0 {
					nf = 0
				}
			}
			e.DS.FailPut = nf
			quiet := w.runRealSubmitter(isData)
			w.failUsed = nf - e.DS.FailPut
			e.DS.FailPut = 0
			var calls []string
			for _, s := range w.da.Submits[n0:] {
				var hs []string
				for _, b := range s.Blobs {
					k, h, _, _ := decodeBlob(b)
					hs = append(hs, fmt.Sprintf("%s%d", k, h))
				}
				calls = append(calls, fmt.Sprintf("%s:%s:%d:%d", strings.Join(hs, "+"), s.Answer, s.Height, s.Accepted))
			}
			cs := "-"
			if len(calls) > 0 {
				cs = strings.Join(calls, ";")
			}
			left := len(w.da.Script)
			w.da.Script = nil
			out := "quiescent"
			if !quiet {
				out = "busy"
				c.Report("C06/real-loop/does-not-come-to-rest", fmt.Sprintf("%s: still pending after 3 s of ticks with an accepting DA layer: %s", o.Verb, w.state()))
			}
			c.Emit("%s out=%s calls=%s %s w=%s", o.Verb, out, cs, w.state(), bm.DescribeWrites(e.DS, w.from))
			if !quiet {
				// the DA layer accepts once the script is used up: a loop that does not resume is the C08 liveness
				// violation (outage of finite length), whatever else it is
				c.Report("C08/refuses/after-outage-real-loop-does-not-resume", fmt.Sprintf("%s script=%s: the DA layer accepts again after the scripted answers, the loop still has blocks pending after 3 s: %s", o.Verb, o.Str("script"), w.state()))
			}
			if isData {
				if quiet {
					w.okData, w.lostAckD = 2, false
				}
				w.realQuietD = quiet
				w.monitorSubmit("subd", n0, left)
			} else {
				if quiet {
					w.lostAckH = false
				}
				w.realQuietH = quiet
				w.monitorSubmit("subh", n0, left)
			}
		case "incl", "inclreal":
			e := w.env
			w.from = e.DS.NumWrites()
			if o.Verb == "incl" {
				if err := e.M.VerifDAIncluderOnce(context.Background()); err != nil {
					c.Report("C07/includer-error", err.Error())
				}
			} else {
				w.runRealIncluder()
			}
			fin := e.Exec.Finals[w.finalsN:]
			w.finalsN = len(e.Exec.Finals)
			var fs []string
			for _, f := range fin {
				fs = append(fs, fmt.Sprint(f))
			}
			f := "-"
			if len(fs) > 0 {
				f = strings.Join(fs, ",")
			}
			c.Emit("incl finals=%s %s w=%s rhb=%s", f, w.state(), bm.DescribeWrites(e.DS, w.from), w.rhb())
			w.monitorInclusion(fin)
		case "restart", "crash":
			e := w.env
			root := ""
			n := e.DS.NumWrites()
			keep := n
			if o.Verb == "restart" {
				root = e.Root
				if err := e.M.SaveCache(); err != nil {
					c.Report("C07/save-cache-fails", err.Error())
				}
			} else {
				if k := o.Int("keep"); w.from+k < n {
					keep = w.from + k
				}
				w.crashed = true
				w.realQuietH, w.realQuietD = false, false
				if keep < n {
					w.lostAckH, w.lostAckD = true, true
					w.okData = 0
				}
			}
			img := e.DS.ImageAt(keep)
			reported := w.incAt
			lagH, lagD := w.lagH, w.lagD
			if lagH {
				w.lostAckH = true // the restarted node cannot know what the lost write recorded
			}
			if lagD {
				w.lostAckD, w.okData = true, 0
			}
			hmBefore, dmBefore := e.M.HeaderCache().VerifDAIncluded(), e.M.DataCache().VerifDAIncluded()
			c.Emit("%s", w.start(img, root))
			if o.Verb == "crash" && !w.dead {
				hmAfter, dmAfter := w.env.M.HeaderCache().VerifDAIncluded(), w.env.M.DataCache().VerifDAIncluded()
				for k := range hmBefore {
					if _, ok := hmAfter[k]; !ok {
						w.lostH[k] = true
					}
				}
				for k := range dmBefore {
					if _, ok := dmAfter[k]; !ok {
						w.lostD[k] = true
					}
				}
			}
			if root != "" && w.env != nil {
				w.env.Options.Root = ""
			}
			if w.dead {
				c.Report("C06/restart-fails", "NewManager failed after "+o.Verb)
			} else {
				hm, dm := w.env.M.VerifLastSubmitted()
				inc := w.env.M.GetDAIncludedHeight()
				if o.Verb == "restart" || keep == n {
					// nothing was lost: what was recorded before the restart must still be there - where a write of the
					// watermark failed (injected fault), what was recorded durably is the lagging disk copy: submission
					// resumes from it
					floorH, floorD := w.lastHwm, w.lastDwm
					if lagH {
						floorH = w.diskHwm
					}
					if lagD {
						floorD = w.diskDwm
					}
					if hm < floorH || dm < floorD {
						c.Report("C06/watermark/decreased-across-restart", fmt.Sprintf("%d/%d (durable %d/%d) -> %d/%d", w.lastHwm, w.lastDwm, w.diskHwm, w.diskDwm, hm, dm))
					}
					if hm > w.lastHwm || dm > w.lastDwm {
						if ih := w.env.Options.InitialHeight; hm > max(w.lastHwm, ih-1) || dm > max(w.lastDwm, ih-1) {
							c.Report("C06/watermark/raised-by-restart", fmt.Sprintf("%d/%d -> %d/%d", w.lastHwm, w.lastDwm, hm, dm))
						}
					}
					if inc < w.lastInc {
						c.Report("C07/da-included/decreased-across-restart", fmt.Sprintf("%d -> %d", w.lastInc, inc))
					}
				} else {
					// the process died before the dropped writes: the recorded values are those of the image
					pre := func(k string) uint64 {
						if b, ok := img["/m/"+k]; ok {
							return be(b)
						}
						return 0
					}
					if hm < pre("last-submitted-header-height") || dm < pre("last-submitted-data-height") {
						c.Report("C06/watermark/decreased-across-restart", fmt.Sprintf("image %d/%d -> %d/%d", pre("last-submitted-header-height"), pre("last-submitted-data-height"), hm, dm))
					}
					if inc < pre("d") {
						c.Report("C07/da-included/decreased-across-restart", fmt.Sprintf("image %d -> %d", pre("d"), inc))
					}
					if rep, ok := reported[keep]; ok && inc < rep {
						c.Report("C07/da-included/reported-before-durable", fmt.Sprintf("the node reported %d at the instant it died (before its durable write %d), after the restart it reports %d", rep, keep, inc))
					}
				}
				w.lastHwm, w.lastDwm, w.lastInc = hm, dm, inc
				w.ackH, w.ackD = hm, dm
				w.lagH, w.lagD, w.failUsed, w.failedSinceStart = false, false, 0, false
				w.diskHwm, w.diskDwm = w.meta("last-submitted-header-height"), w.meta("last-submitted-data-height")
				w.checkIncBounds(o.Verb)
			}
		default:
			c.Emit("bad-op")
		}
	}
}

// the unmodified DAIncluderLoop goroutine: signal it, wait (bounded) until it has reached what is reachable
func (w *World) runRealIncluder() {
	e := w.env
	ctx, cancel := context.WithCancel(context.Background())
	errCh := make(chan error, 4)
	done := make(chan struct{})
	go func() { defer close(done); e.M.DAIncluderLoop(ctx, errCh) }()
	want := w.reachable()
	e.M.VerifDAIncluderSignal()
	deadline := time.Now().Add(3 * time.Second)
	for e.M.GetDAIncludedHeight() < want && time.Now().Before(deadline) {
		time.Sleep(100 * time.Microsecond)
	}
	time.Sleep(3 * time.Millisecond) // an overshoot would show now
	cancel()
	select {
	case <-done:
	case <-time.After(3 * time.Second):
		w.c.Report("C13/stop/da-includer-loop-did-not-return", "DAIncluderLoop still running 3 s after cancel")
	}
}

// doProduce: one block production step with the given batch (the op `produce`, also run inside a submission body)
func (w *World) doProduce(txs [][]byte) string {
	c, e := w.c, w.env
	w.ts += 1_000_000_000
	e.Seq.Next = &hx.SeqResp{Txs: txs, Ts: time.Unix(0, w.ts)}
	hb := e.Height()
	nw := e.DS.NumWrites()
	calls := e.Seq.Calls
	execs := len(e.Exec.Calls)
	err := e.M.VerifPublishBlock(context.Background())
	cls := "nil"
	if err != nil {
		cls = "err"
	}
	refused := err == nil && e.Height() == hb && e.Seq.Calls == calls && len(e.Exec.Calls) == execs && e.DS.NumWrites() == nw
	if e.Height() != hb {
		w.okData = 0
		w.realQuietH, w.realQuietD = false, false
	}
	if refused {
		cls = "refused"
		w.refused++
		if w.realQuietH && w.realQuietD {
			nh, nd := e.M.VerifPendingCounts()
			c.Report("C08/refuses/after-outage-real-loop-came-to-rest", fmt.Sprintf("the unmodified header and data submission loops ran until nothing was pending (the DA layer accepted after the scripted outage), no block was committed since, yet production is refused: limit %d, counters %d/%d", e.Options.MaxPending, nh, nd))
		}
		w.checkRefusal()
	}
	return cls
}

// hookSigner: the node's signer; its first call after `sigHook` was armed runs the hook (once) before answering
type hookSigner struct {
	signer.Signer
	w *World
}

func (h *hookSigner) fire() {
	if f := h.w.sigHook; f != nil {
		h.w.sigHook = nil
		f()
	}
}
func (h *hookSigner) Sign(m []byte) ([]byte, error)     { h.fire(); return h.Signer.Sign(m) }
func (h *hookSigner) GetPublic() (crypto.PubKey, error) { h.fire(); return h.Signer.GetPublic() }

// the unmodified submission loop goroutine of one kind: run it until nothing of that kind is pending (bounded), stop it
func (w *World) runRealSubmitter(isData bool) bool {
	e := w.env
	ctx, cancel := context.WithCancel(context.Background())
	done := make(chan struct{})
	go func() {
		defer close(done)
		if isData {
			e.M.DataSubmissionLoop(ctx)
		} else {
			e.M.HeaderSubmissionLoop(ctx)
		}
	}()
	pending := func() uint64 {
		nh, nd := e.M.VerifPendingCounts()
		if isData {
			return nd
		}
		return nh
	}
	deadline := time.Now().Add(3 * time.Second)
	for pending() != 0 && time.Now().Before(deadline) {
		time.Sleep(100 * time.Microsecond)
	}
	quiet := pending() == 0
	time.Sleep(3 * time.Millisecond) // a few idle ticks: anything they did would show
	cancel()
	select {
	case <-done:
	case <-time.After(3 * time.Second):
		w.c.Report("C13/stop/submission-loop-did-not-return", "submission loop still running 3 s after cancel")
	}
	return quiet
}

// reachable: the largest h such that every block in (dainc, h] is stored and has its parts marked
func (w *World) reachable() uint64 {
	e := w.env
	ctx := context.Background()
	hm, dm := e.M.HeaderCache().VerifDAIncluded(), e.M.DataCache().VerifDAIncluded()
	h := e.M.GetDAIncludedHeight()
	for k := h + 1; k <= e.Height(); k++ {
		sh, d, err := e.Store.GetBlockData(ctx, k)
		if err != nil {
			break
		}
		if _, ok := hm[sh.Hash().String()]; !ok {
			break
		}
		if len(d.Txs) > 0 {
			if _, ok := dm[d.DACommitment().String()]; !ok {
				break
			}
		}
		h = k
	}
	return h
}

func (w *World) rhb() string {
	var out []string
	first := w.env.Options.InitialHeight
	if first < 1 {
		first = 1
	}
	for k := first; k <= w.env.M.GetDAIncludedHeight(); k++ {
		out = append(out, fmt.Sprintf("%d:%d:%d", k, w.meta(fmt.Sprintf("rhb/%d/h", k)), w.meta(fmt.Sprintf("rhb/%d/d", k))))
	}
	if len(out) == 0 {
		return "-"
	}
	return strings.Join(out, ",")
}

// ---- monitors (independent of the Lean model) ----

// onDA: at which DA heights is the header / data of block h stored?
func (w *World) onDA(kind string, h uint64) []uint64 {
	var out []uint64
	for dah, blobs := range w.da.Blobs {
		for _, b := range blobs {
			if k, bh, _, _ := decodeBlob(b); k == kind && bh == h {
				out = append(out, dah)
			}
		}
	}
	return out
}

func (w *World) monitorSubmit(verb string, n0, scriptLeft int) {
	c, e := w.c, w.env
	w.checkCounters(verb)
	ctx := context.Background()
	hm, dm := e.M.VerifLastSubmitted()
	failed := w.failUsed > 0
	w.failUsed = 0
	if failed {
		w.failedSinceStart = true
		c.Hit("failed-persist")
	}
	sfx := ""
	if w.failedSinceStart {
		sfx = "/after-failed-persist"
	}
	if hm < w.lastHwm || dm < w.lastDwm {
		c.Report("C06/watermark/decreased"+sfx, fmt.Sprintf("%d/%d -> %d/%d", w.lastHwm, w.lastDwm, hm, dm))
	}
	prevH, prevD := w.lastHwm, w.lastDwm
	w.lastHwm, w.lastDwm = hm, dm
	if hm > e.Height() || dm > e.Height() {
		c.Report("C06/watermark/above-chain-height", fmt.Sprintf("%d/%d height %d", hm, dm, e.Height()))
	}
	// memory = durable copy - except where a write of the watermark failed (injected fault): then the durable copy is
	// what it was (it lags), until the next write of that watermark succeeds; memory is raised all the same
	diskH, diskD := w.meta("last-submitted-header-height"), w.meta("last-submitted-data-height")
	if diskH < w.diskHwm || diskD < w.diskDwm {
		c.Report("C06/watermark/durable-copy-decreased", fmt.Sprintf("%d/%d -> %d/%d", w.diskHwm, w.diskDwm, diskH, diskD))
	}
	lag := func(mem, prevMem, disk, prevDisk uint64, was, failedNow bool) (bool, bool) { // (lagging, justified)
		if mem == disk {
			return false, true
		}
		return true, disk < mem && ((failedNow && disk >= prevDisk) || (was && mem == prevMem && disk == prevDisk))
	}
	var okH, okD bool
	w.lagH, okH = lag(hm, prevH, diskH, w.diskHwm, w.lagH, failed && verb == "subh")
	w.lagD, okD = lag(dm, prevD, diskD, w.diskDwm, w.lagD, failed && verb == "subd")
	if !okH || !okD {
		c.Report("C06/watermark/not-persisted", fmt.Sprintf("mem %d/%d disk %d/%d", hm, dm, diskH, diskD))
	}
	w.diskHwm, w.diskDwm = diskH, diskD
	// nothing the DA layer accepted and acknowledged to this process is submitted again while it keeps running
	for _, sb := range w.da.Submits[n0:] {
		for i, b := range sb.Blobs {
			k, h, _, _ := decodeBlob(b)
			if (k == "h" && h <= w.ackH) || (k == "d" && h <= w.ackD && h > 0) {
				what := "acknowledged-items"
				if w.failedSinceStart {
					what = "acknowledged-items-after-failed-persist"
				}
				c.Report("C06/resubmitted/"+what, fmt.Sprintf("%s%d (blob %d of a %s submission) was accepted and acknowledged before (up to %d/%d), the node has not restarted since", k, h, i, verb, w.ackH, w.ackD))
				break
			}
		}
		if strings.HasPrefix(sb.Answer, "ok") {
			for i := 0; i < sb.Accepted && i < len(sb.Blobs); i++ {
				k, h, _, _ := decodeBlob(sb.Blobs[i])
				if k == "h" && h > w.ackH {
					w.ackH = h
				}
				if k == "d" && h > w.ackD {
					w.ackD = h
				}
			}
		}
	}
	ih := e.Options.InitialHeight
	// soundness: everything at or below the watermark is on the DA layer
	for k := ih; k <= hm; k++ {
		if len(w.onDA("h", k)) == 0 {
			c.Report("C06/watermark/header-not-on-da", fmt.Sprintf("header watermark %d but header %d was never accepted", hm, k))
			break
		}
	}
	for k := ih; k <= dm; k++ {
		if _, d, err := e.Store.GetBlockData(ctx, k); err == nil && len(d.Txs) > 0 && len(w.onDA("d", k)) == 0 {
			c.Report("C06/watermark/data-not-on-da", fmt.Sprintf("data watermark %d but data %d was never accepted", dm, k))
			break
		}
	}
	// every call: consecutive increasing heights; every accepted blob is the committed item, signed by the proposer
	for _, s := range w.da.Submits[n0:] {
		var prev uint64
		for i, b := range s.Blobs {
			k, h, sh, sd := decodeBlob(b)
			if k == "?" {
				c.Report("C06/blob/undecodable", fmt.Sprintf("blob %d of a %s submission", i, verb))
				continue
			}
			if i > 0 && h <= prev {
				c.Report("C06/order/not-increasing", fmt.Sprintf("%d after %d in one submission", h, prev))
			}
			if i > 0 && k == "h" && h != prev+1 {
				c.Report("C06/order/header-skipped", fmt.Sprintf("%d after %d in one submission", h, prev))
			}
			prev = h
			csh, cd, err := e.Store.GetBlockData(ctx, h)
			if err != nil {
				c.Report("C06/blob/not-a-committed-block", fmt.Sprintf("%s%d", k, h))
				continue
			}
			if k == "h" {
				want, _ := csh.MarshalBinary()
				if !bytes.Equal(want, b) || bm.SigClass(e.Pub, &sh.Header, sh.Signature) != "valid" {
					c.Report("C06/blob/header-differs-from-committed", fmt.Sprintf("height %d", h))
				}
			} else {
				want, _ := cd.MarshalBinary()
				got, _ := sd.Data.MarshalBinary()
				okSig := false
				if sd.Signer.PubKey != nil && sd.Signer.PubKey.Equals(e.Pub) {
					okSig, _ = sd.Signer.PubKey.Verify(got, sd.Signature)
				}
				if !bytes.Equal(want, got) || !okSig || len(sd.Txs) == 0 {
					c.Report("C06/blob/data-differs-from-committed", fmt.Sprintf("height %d", h))
				}
			}
		}
	}
	// an acknowledged acceptance is recorded: after the iteration the watermark covers every blob the DA layer
	// accepted AND acknowledged (otherwise confirmed items are re-submitted and the pending count never falls)
	for _, sb := range w.da.Submits[n0:] {
		if !strings.HasPrefix(sb.Answer, "ok") || sb.Accepted == 0 {
			continue
		}
		for i := 0; i < sb.Accepted && i < len(sb.Blobs); i++ {
			k, h, _, _ := decodeBlob(sb.Blobs[i])
			// with a failed persist in this tick: the value was in memory when the acknowledgement was processed
			// (setLastSubmittedHeight stores it before it writes) and is not any more - it went back
			sig := "C06/watermark/behind-acknowledged-acceptance"
			if failed {
				sig = "C06/watermark/decreased/after-failed-persist"
			}
			if k == "h" && h > hm {
				c.Report(sig, fmt.Sprintf("header %d was accepted and acknowledged, watermark %d", h, hm))
			}
			if k == "d" && h > dm {
				c.Report(sig, fmt.Sprintf("data %d was accepted and acknowledged, watermark %d", h, dm))
			}
		}
	}
	// the liveness clauses below are about the pending range the body READ: if a block was committed while it ran
	// (`during=`), that is the range up to the chain height at its beginning
	href := e.Height()
	if w.readSet {
		href = w.readHeight
	}
	// retry until accepted: when the DA layer finally accepts everything the watermark reaches the chain height
	if scriptLeft == 0 && len(w.da.Submits) > n0 && w.da.Submits[len(w.da.Submits)-1].Answer == "ok" && len(w.da.Submits)-n0 < 30 {
		if verb == "subh" && hm != href {
			c.Report("C06/retry/headers-left-behind", fmt.Sprintf("watermark %d height %d after an accepting DA", hm, href))
		}
		if verb == "subd" {
			last := uint64(0)
			for k := ih; k <= href; k++ {
				if _, d, err := e.Store.GetBlockData(ctx, k); err == nil && len(d.Txs) > 0 {
					last = k
				}
			}
			if dm < last {
				c.Report("C06/retry/data-left-behind", fmt.Sprintf("watermark %d last non-empty %d", dm, last))
			}
		}
	}
	// nothing to submit and an accepting DA layer: when every pending block is empty the data tick passes over them
	if verb == "subd" && scriptLeft == 0 && len(w.da.Submits) == n0 && dm < href {
		allEmpty := true
		for k := dm + 1; k <= href; k++ {
			if _, d, err := e.Store.GetBlockData(ctx, k); err != nil || len(d.Txs) > 0 {
				allEmpty = false
			}
		}
		if allEmpty {
			c.Report("C06/retry/empty-blocks-left-behind", fmt.Sprintf("data watermark %d height %d: every pending block is empty, the tick submitted nothing and left them pending", dm, href))
		}
	}
	// nothing is ever submitted although blocks are committed
	if verb == "subh" && len(w.da.Submits) == n0 && href >= ih && hm < href {
		if ih > 1 {
			c.Report("C06/never-submitted/initial-height-above-1", fmt.Sprintf("height %d watermark %d: the pending range starts below the initial height %d", href, hm, ih))
		} else {
			c.Report("C06/never-submitted/other", fmt.Sprintf("height %d watermark %d", href, hm))
		}
	}
}

// checkRefusal: production was refused: are that many committed blocks genuinely still waiting?
func (w *World) checkRefusal() {
	c, e := w.c, w.env
	ctx := context.Background()
	limit := e.Options.MaxPending
	ih := e.Options.InitialHeight
	var waitH, waitD uint64
	for k := ih; k <= e.Height(); k++ {
		if len(w.onDA("h", k)) == 0 {
			waitH++
		}
		if _, d, err := e.Store.GetBlockData(ctx, k); err == nil && len(d.Txs) > 0 && len(w.onDA("d", k)) == 0 {
			waitD++
		}
	}
	if waitH >= limit || waitD >= limit {
		return
	}
	nh, nd := e.M.VerifPendingCounts()
	if !w.checkCounters("refusal") {
		return // a counter that is not chain height minus watermark is its own violation, nothing below explains it
	}
	if (nh >= limit && w.lostAckH) || (nd >= limit && w.lostAckD) {
		return
	}
	switch {
	case ih > 1 && (nh >= limit && nh > waitH || nd >= limit && nd > waitD) && uint64(e.Height())-(ih-1) < limit:
		c.Report("C08/refuses/initial-height-counted-as-pending", fmt.Sprintf("limit %d, waiting headers %d data %d, counters %d/%d", limit, waitH, waitD, nh, nd))
	case nd >= limit && waitD < limit && nh < limit:
		// the data counter is chain height minus data watermark: besides the non-empty blocks whose data is not yet
		// acknowledged it counts the EMPTY blocks above the watermark until the data loop has passed over them (one
		// accepting tick for the data in front of them, one more for trailing empty blocks)
		_, dm := e.M.VerifLastSubmitted()
		first := dm + 1
		if first < ih {
			first = ih
		}
		var empties, nonEmpty uint64
		for k := first; k <= e.Height(); k++ {
			if _, d, err := e.Store.GetBlockData(ctx, k); err == nil && len(d.Txs) == 0 {
				empties++
			} else {
				nonEmpty++
			}
		}
		switch {
		case nonEmpty >= limit || empties == 0 || nonEmpty+empties != nd:
			c.Report("C08/refuses/other", fmt.Sprintf("limit %d, waiting headers %d data %d, counters %d/%d, above the data watermark: %d non-empty, %d empty", limit, waitH, waitD, nh, nd, nonEmpty, empties))
		case w.okData >= 2:
			// two accepting data ticks since the last committed block: the loop had its chance (defect repaired by 5533199)
			c.Report("C08/refuses/empty-blocks-counted-as-pending-data", fmt.Sprintf("limit %d, non-empty data waiting %d, counter %d after %d accepting data ticks", limit, waitD, nd, w.okData))
		default:
			// by the letter of the property nothing is "genuinely waiting" here: the refusal exists only because empty
			// blocks are counted until the next data tick(s) (recorded finding)
			c.Report("C08/refuses/empty-blocks-counted-until-the-data-loop-passes-them", fmt.Sprintf("limit %d: every header is acknowledged, %d non-empty and %d empty blocks above the data watermark %d, counter %d, %d accepting data ticks since the last block", limit, nonEmpty, empties, dm, nd, w.okData))
		}
	default:
		c.Report("C08/refuses/other", fmt.Sprintf("limit %d, waiting headers %d data %d, counters %d/%d", limit, waitH, waitD, nh, nd))
	}
}

// checkCounters: the two pending counters are, by definition (pending_base.go numPending), chain height minus the
// last-submitted height of their kind - exactly; an over- or under-counting counter is reported here and never
// attributed to a recorded finding
func (w *World) checkCounters(when string) bool {
	e := w.env
	nh, nd := e.M.VerifPendingCounts()
	hm, dm := e.M.VerifLastSubmitted()
	h := e.Height()
	if nh != h-hm || nd != h-dm {
		w.c.Report("C08/counter/differs-from-height-minus-watermark", fmt.Sprintf("after %s: height %d, last submitted %d/%d, counters %d/%d (expected %d/%d)", when, h, hm, dm, nh, nd, h-hm, h-dm))
		return false
	}
	return true
}

// checkIncBounds: right after a (re)start the reported DA-included height is at most the chain height and does not
// claim a height of the chain (>= initial height) that was never reported before
func (w *World) checkIncBounds(when string) {
	e := w.env
	inc := e.M.GetDAIncludedHeight()
	if inc > e.Height() {
		w.c.Report("C07/da-included/above-chain-height", fmt.Sprintf("%d > %d after %s", inc, e.Height(), when))
	}
	if ih := e.Options.InitialHeight; inc >= ih && inc != w.meta("d") {
		w.c.Report("C07/da-included/not-persisted", fmt.Sprintf("mem %d disk %d after %s", inc, w.meta("d"), when))
	}
}

func (w *World) monitorInclusion(fin []uint64) {
	c, e := w.c, w.env
	ctx := context.Background()
	inc := e.M.GetDAIncludedHeight()
	if inc < w.lastInc {
		c.Report("C07/da-included/decreased", fmt.Sprintf("%d -> %d", w.lastInc, inc))
	}
	if inc > e.Height() {
		c.Report("C07/da-included/above-chain-height", fmt.Sprintf("%d > %d", inc, e.Height()))
	}
	if ih := e.Options.InitialHeight; inc != w.meta("d") && inc != 0 && inc+1 != ih {
		c.Report("C07/da-included/not-persisted", fmt.Sprintf("mem %d disk %d", inc, w.meta("d")))
	}
	// finalize calls: exactly lastInc+1 .. inc, in order
	exp := w.lastInc
	for _, f := range fin {
		if f != exp+1 {
			c.Report("C07/finalize/out-of-order-or-gap", fmt.Sprintf("SetFinal(%d) after %d", f, exp))
		}
		exp = f
	}
	if exp != inc {
		c.Report("C07/finalize/does-not-match-reported-height", fmt.Sprintf("finalized up to %d, reported %d", exp, inc))
	}
	// soundness: both parts of every block up to inc are on the DA layer, at the recorded DA heights
	for k := w.lastInc + 1; k <= inc; k++ {
		_, d, err := e.Store.GetBlockData(ctx, k)
		if err != nil {
			c.Report("C07/sound/block-missing", fmt.Sprintf("height %d", k))
			continue
		}
		hs := w.onDA("h", k)
		if len(hs) == 0 {
			c.Report("C07/sound/header-not-on-da", fmt.Sprintf("height %d reported DA-included", k))
		}
		rh, rd := w.meta(fmt.Sprintf("rhb/%d/h", k)), w.meta(fmt.Sprintf("rhb/%d/d", k))
		if !contains(hs, rh) {
			c.Report("C07/recorded-da-height/header", fmt.Sprintf("height %d recorded %d, blobs at %v", k, rh, hs))
		}
		if len(d.Txs) > 0 {
			ds := w.onDA("d", k)
			// the data marks are keyed by the commitment, which two blocks with the same transaction list share: the
			// suffix is given only when that explains the violation - ANOTHER block with the same commitment has its
			// signed data on the DA layer (resp. at exactly the recorded DA height)
			var twinOnDA []uint64
			for j := e.Options.InitialHeight; j <= e.Height(); j++ {
				if _, dj, err := e.Store.GetBlockData(ctx, j); err == nil && j != k && len(dj.Txs) > 0 && string(dj.DACommitment()) == string(d.DACommitment()) {
					twinOnDA = append(twinOnDA, w.onDA("d", j)...)
				}
			}
			if len(ds) == 0 {
				sfx := ""
				if len(twinOnDA) > 0 {
					sfx = "/commitment-shared-by-two-blocks"
				}
				c.Report("C07/sound/data-not-on-da"+sfx, fmt.Sprintf("height %d reported DA-included", k))
			}
			if !contains(ds, rd) {
				sfx := ""
				if contains(twinOnDA, rd) {
					sfx = "/commitment-shared-by-two-blocks"
				}
				c.Report("C07/recorded-da-height/data"+sfx, fmt.Sprintf("height %d recorded %d, blobs at %v", k, rd, ds))
			}
		}
	}
	w.lastInc = inc
	// eventually: everything whose parts are on the DA layer is reported (heights below the initial height do not exist)
	all := inc
	first := inc + 1
	if ih := e.Options.InitialHeight; first < ih {
		first = ih
	}
	for k := first; k <= e.Height(); k++ {
		_, d, err := e.Store.GetBlockData(ctx, k)
		if err != nil || len(w.onDA("h", k)) == 0 || (len(d.Txs) > 0 && len(w.onDA("d", k)) == 0) {
			break
		}
		hmk, dmk := e.M.VerifLastSubmitted()
		if k > hmk || (len(d.Txs) > 0 && k > dmk) {
			break // accepted but the acknowledgement was lost: it will be re-submitted
		}
		all = k
	}
	if inc < all {
		if ih := e.Options.InitialHeight; ih > 1 && inc < ih-1 {
			c.Report("C07/eventually/initial-height-above-1", fmt.Sprintf("both parts of all blocks %d..%d are on the DA layer and below the watermarks, reported %d: the inclusion loop asks for height %d, which does not exist", ih, all, inc, inc+1))
		} else if w.markLost(first) {
			c.Report("C07/eventually/marks-lost-in-crash-restart", fmt.Sprintf("both parts of all blocks up to %d are on the DA layer and below the watermarks, reported %d", all, inc))
		} else {
			c.Report("C07/eventually/other", fmt.Sprintf("both parts of all blocks up to %d are on the DA layer, reported %d", all, inc))
		}
	}
}

// markLost: the inclusion loop is stalled at height k because a mark of block k (header hash, or data commitment of a
// non-empty block) that existed before a crash restart is gone since
func (w *World) markLost(k uint64) bool {
	e := w.env
	sh, d, err := e.Store.GetBlockData(context.Background(), k)
	if err != nil {
		return false
	}
	hm, dm := e.M.HeaderCache().VerifDAIncluded(), e.M.DataCache().VerifDAIncluded()
	hk := sh.Hash().String()
	if _, ok := hm[hk]; !ok && w.lostH[hk] {
		return true
	}
	if len(d.Txs) > 0 {
		dk := d.DACommitment().String()
		if _, ok := dm[dk]; !ok && w.lostD[dk] {
			return true
		}
	}
	return false
}

func contains(l []uint64, x uint64) bool {
	for _, y := range l {
		if x == y {
			return true
		}
	}
	return false
}
