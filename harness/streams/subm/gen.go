package subm

import (
	"fmt"
	"io"
	"strings"

	"verifharness/bm"
	"verifharness/hx"

	"github.com/evstack/ev-node/types"
)

const baseTime = int64(1_700_000_000) * 1_000_000_000

func paHex() string {
	_, pub := bm.DetKey(1)
	return hx.Hex(types.KeyAddress(pub))
}

type g struct {
	w    io.Writer
	r    *hx.Rng
	seq  int
	dups bool
	failPct int // share of plain submission ticks with a failing watermark write
}

func (g *g) reset(ih, maxp uint64) {
	fmt.Fprintf(g.w, "reset ih=%d gt=%d maxp=%d pa=%s\n", ih, baseTime, maxp, paHex())
	fmt.Fprintln(g.w, "produce txs=-") // commits the genesis block
}

func (g *g) produce(empty bool) {
	if empty {
		fmt.Fprintln(g.w, "produce txs=-")
		return
	}
	if g.dups && g.r.Chance(40) { // a block repeating an earlier block's transaction list
		fmt.Fprintln(g.w, "produce txs=73616d65,74786c697374")
		return
	}
	g.seq++
	n := 1 + g.r.Intn(2)
	var txs [][]byte
	for i := 0; i < n; i++ {
		txs = append(txs, []byte(fmt.Sprintf("t%d.%d", g.seq, i)))
	}
	fmt.Fprintf(g.w, "produce txs=%s\n", hx.HexList(txs))
}

func (g *g) ans() string {
	switch g.r.Intn(12) {
	case 0:
		return fmt.Sprintf("ok:%d", g.r.Intn(4))
	case 1:
		return fmt.Sprintf("lost:%d", 1+g.r.Intn(3))
	case 2:
		return "lost"
	case 3:
		return "notincluded"
	case 4:
		return "inmempool"
	case 5:
		return "toobig"
	case 6:
		return "error"
	case 7:
		if g.r.Chance(30) {
			return "canceled"
		}
		return "ok"
	default:
		return "ok"
	}
}

func (g *g) script(max int) string {
	n := g.r.Intn(max + 1)
	if n == 0 {
		return "-"
	}
	var a []string
	for i := 0; i < n; i++ {
		a = append(a, g.ans())
	}
	return strings.Join(a, "|")
}

func (g *g) sub(verb string, script string) {
	if g.failPct > 0 && g.r.Chance(g.failPct) {
		g.subFail(verb, script, 1+g.r.Intn(2))
		return
	}
	fmt.Fprintf(g.w, "%s script=%s\n", verb, script)
}

// subFail: the next n writes of the watermark (store.SetMetadata = one datastore Put) fail during this tick
func (g *g) subFail(verb string, script string, n int) {
	fmt.Fprintf(g.w, "%s script=%s fail=%d\n", verb, script, n)
}

// failCorpus: the write that persists the watermark fails right after the DA layer accepted and acknowledged - with
// every answer kind in front, hook bodies and the unmodified loops, both kinds; then further ticks (nothing acknowledged
// may be submitted again while the node runs), a restart (resumes from the lagging disk copy: re-submits exactly what the
// lost write covered), a crash, more blocks.
func (g *g) failCorpus() {
	for _, a := range []string{"-", "ok:1", "ok:2|ok", "ok:0|ok", "lost|ok", "lost:1|ok:1", "notincluded|ok", "inmempool|ok", "toobig|ok", "error|ok:2", "ok:1|canceled", "canceled"} {
		for _, real := range []string{"", "real"} {
			for nf := 1; nf <= 2; nf++ {
				g.reset(1, 0)
				g.produce(false)
				g.produce(a == "ok:1")
				g.produce(false)
				g.subFail("subh"+real, a, nf)
				g.subFail("subd"+real, a, nf)
				g.sub("subh", "-")
				g.sub("subd", "-")
				fmt.Fprintln(g.w, "incl")
				g.produce(false)
				if nf == 1 {
					fmt.Fprintln(g.w, "restart")
				} else {
					fmt.Fprintf(g.w, "crash keep=%d\n", g.r.Intn(3))
				}
				g.sub("subh"+real, "-")
				g.sub("subd"+real, "-")
				g.sub("subd", "-")
				fmt.Fprintln(g.w, "incl")
			}
		}
	}
	// a lagging disk copy caught up by the next successful write; two failed persists in a row; restart right after
	g.reset(2, 0)
	g.produce(false)
	g.subFail("subh", "-", 1)
	g.subFail("subd", "-", 1)
	g.produce(false)
	g.sub("subh", "-")
	g.sub("subd", "-")
	g.produce(true)
	g.produce(true)
	g.subFail("subd", "-", 1) // the all-empty advance of the data watermark fails to persist
	g.subFail("subh", "ok:1|ok", 2)
	fmt.Fprintln(g.w, "restart")
	g.sub("subh", "-")
	g.sub("subd", "-")
	g.sub("subd", "-")
	fmt.Fprintln(g.w, "incl")
}

// subDuring: a submission body during which the aggregation loop commits a block (after the pending list was read: at
// the body's first signer call, or at its first Submit call)
func (g *g) subDuring(verb, script string, empty bool, at string) {
	txs := "-"
	if !empty {
		g.seq++
		txs = hx.HexList([][]byte{[]byte(fmt.Sprintf("w%d", g.seq))})
	}
	fmt.Fprintf(g.w, "%s script=%s during=produce:%s at=%s\n", verb, script, txs, at)
}

// raceCorpus: blocks committed while a submission body runs. First the case a check-then-act slip needs: everything
// pending is EMPTY and a NON-EMPTY block is committed in the window - the data watermark must stop at the last block the
// body examined; then the other combinations, both interleaving points, both loops; then submission, inclusion.
func (g *g) raceCorpus(ih, maxp uint64) {
	for _, at := range []string{"sign", "submit"} {
		for _, emptyPending := range []bool{true, false} {
			for _, emptyNew := range []bool{false, true} {
				g.reset(ih, maxp)
				g.produce(emptyPending)
				g.produce(true)
				g.subDuring("subd", "-", emptyNew, at)
				g.subDuring("subh", "ok:1|canceled", emptyNew, "submit")
				g.sub("subh", "-")
				g.sub("subd", "-")
				g.sub("subd", "-")
				fmt.Fprintln(g.w, "incl")
				fmt.Fprintln(g.w, "restart")
				g.sub("subd", "-")
				fmt.Fprintln(g.w, "incl")
			}
		}
	}
}

// subMaybeReal: a share of the ticks run the unmodified loop goroutine (until nothing is pending) instead of the
// single-iteration hook
func (g *g) subMaybeReal(verb string, script string, pct int) {
	if g.r.Chance(10) { // a block is committed while the body runs
		at := "submit"
		if verb == "subd" && g.r.Bool() {
			at = "sign"
		}
		g.subDuring(verb, script, g.r.Chance(40), at)
		return
	}
	if g.r.Chance(pct) {
		verb += "real"
	}
	g.sub(verb, script)
}

// DA outages of finite length handled by the UNMODIFIED loop goroutines: a whole retry round fails (33 errors > 30
// attempts), the DA answers 'context canceled', mixed failures - afterwards the DA double accepts
var outages = []string{
	strings.TrimSuffix(strings.Repeat("error|", 33), "|"),
	"canceled",
	"error|canceled|notincluded|canceled",
	"lost|toobig|canceled|inmempool|ok:1|canceled",
	strings.TrimSuffix(strings.Repeat("notincluded|", 31), "|") + "|canceled|error",
}

func GenC06(r *hx.Rng, tier string, w io.Writer) {
	x := &g{w: w, r: r}
	// corpus: initial height above 1 (recorded finding)
	x.reset(3, 0)
	x.produce(false)
	x.sub("subh", "-")
	x.sub("subd", "-")
	// every single answer on a 3-block pending list, then acceptance
	for _, a := range []string{"ok", "ok:1", "ok:2", "ok:0", "lost", "lost:1", "notincluded", "inmempool", "toobig", "error", "canceled"} {
		for _, verb := range []string{"subh", "subd"} {
			x.reset(1, 0)
			x.produce(false)
			x.produce(verb == "subd" && a == "ok:1")
			x.produce(false)
			x.sub(verb, a)
			x.sub(verb, "-")
			x.sub(verb, "-")
		}
	}
	x.raceCorpus(1, 0)
	// the unmodified loop goroutines: every single answer, then the DA layer accepts; an outage longer than the
	// attempt bound of a tick; trailing empty blocks (two data ticks)
	for _, a := range []string{"-", "ok:1", "ok:0|lost:2", "lost|notincluded|inmempool", "toobig|error|canceled|ok:1", strings.TrimSuffix(strings.Repeat("error|", 33), "|")} {
		x.reset(2, 0)
		x.produce(false)
		x.produce(true)
		x.produce(false)
		x.produce(true)
		x.sub("subhreal", a)
		x.sub("subdreal", a)
		fmt.Fprintln(w, "incl")
	}
	x.failCorpus()
	n := 60
	if tier == "thorough" {
		n = 900
	}
	for i := 0; i < n; i++ {
		ih := uint64(1)
		if r.Chance(8) {
			ih = 2 + uint64(r.Intn(4))
		}
		x.dups = r.Chance(25)
		// a modest share of scenarios: some of the watermark writes fail
		x.failPct = 0
		if r.Chance(20) {
			x.failPct = 30
		}
		x.reset(ih, 0)
		steps := 4 + r.Intn(14)
		for j := 0; j < steps; j++ {
			switch r.Intn(10) {
			case 0, 1, 2:
				x.produce(r.Chance(35))
			case 3, 4:
				x.subMaybeReal("subh", x.script(4), 15)
			case 5, 6:
				x.subMaybeReal("subd", x.script(4), 15)
			case 7:
				if r.Bool() {
					fmt.Fprintln(w, "restart")
				} else {
					fmt.Fprintf(w, "crash keep=%d\n", r.Intn(3))
				}
			case 8:
				// a long outage: more failures than the retry limit
				x.sub("subh", strings.TrimSuffix(strings.Repeat("error|", 31), "|"))
			default:
				x.produce(false)
			}
		}
		if i%4 == 1 {
			x.sub("subhreal", "-")
			x.sub("subdreal", "-")
		} else {
			x.sub("subh", "-")
			x.sub("subd", "-")
		}
	}
}

func GenC07(r *hx.Rng, tier string, w io.Writer) {
	x := &g{w: w, r: r}
	// corpus: crash between submission and inclusion (recorded finding)
	x.reset(1, 0)
	x.produce(false)
	x.produce(true)
	x.produce(false)
	x.sub("subh", "-")
	x.sub("subd", "-")
	fmt.Fprintln(w, "crash keep=9")
	fmt.Fprintln(w, "incl")
	x.sub("subh", "-")
	x.sub("subd", "-")
	fmt.Fprintln(w, "incl")
	// a crash at every write boundary of an inclusion pass
	for keep := 0; keep <= 6; keep++ {
		x.reset(1, 0)
		x.produce(false)
		x.produce(true)
		x.sub("subh", "-")
		x.sub("subd", "-")
		fmt.Fprintln(w, "incl")
		fmt.Fprintf(w, "crash keep=%d\n", keep)
		x.sub("subh", "-")
		x.sub("subd", "-")
		fmt.Fprintln(w, "incl")
	}
	// two blocks with the same transaction list: the data mark is keyed by the commitment
	x.reset(1, 0)
	fmt.Fprintln(w, "produce txs=73616d65")
	x.produce(false)
	fmt.Fprintln(w, "produce txs=73616d65")
	x.sub("subh", "-")
	x.sub("subd", "ok:1")
	fmt.Fprintln(w, "incl")
	x.sub("subd", "-")
	fmt.Fprintln(w, "incl")
	x.reset(1, 0)
	fmt.Fprintln(w, "produce txs=73616d65")
	fmt.Fprintln(w, "produce txs=73616d65")
	x.sub("subh", "-")
	x.sub("subd", "ok:1|canceled")
	fmt.Fprintln(w, "incl")
	// the same with a clean restart: marks are reloaded
	x.reset(1, 0)
	x.produce(false)
	x.produce(true)
	x.sub("subh", "-")
	x.sub("subd", "-")
	fmt.Fprintln(w, "restart")
	fmt.Fprintln(w, "incl")
	// initial heights above 1: everything on the DA layer, then inclusion (also across a clean restart and with
	// the unmodified loop goroutine)
	for ih := uint64(2); ih <= 4; ih++ {
		x.reset(ih, 0)
		fmt.Fprintln(w, "incl")
		x.produce(false)
		x.produce(true)
		x.sub("subh", "-")
		x.sub("subd", "-")
		fmt.Fprintln(w, "incl")
		fmt.Fprintln(w, "restart")
		x.produce(false)
		x.sub("subh", "-")
		x.sub("subd", "-")
		if ih == 3 {
			fmt.Fprintln(w, "inclreal")
		} else {
			fmt.Fprintln(w, "incl")
		}
		fmt.Fprintln(w, "crash keep=9")
		fmt.Fprintln(w, "incl")
	}
	x.raceCorpus(2, 0)
	// outages through the unmodified submission loop goroutines, then inclusion: everything is reported
	for i, sc := range outages {
		x.reset(uint64(1+i%3), 0)
		x.produce(false)
		x.produce(true)
		x.produce(false)
		x.sub("subhreal", sc)
		x.sub("subdreal", sc)
		if i%2 == 0 {
			fmt.Fprintln(w, "inclreal")
		} else {
			fmt.Fprintln(w, "incl")
		}
	}
	n := 60
	if tier == "thorough" {
		n = 900
	}
	for i := 0; i < n; i++ {
		ih := uint64(1)
		if r.Chance(15) {
			ih = 2 + uint64(r.Intn(3))
		}
		x.reset(ih, 0)
		steps := 5 + r.Intn(16)
		crashes := r.Chance(15)
		for j := 0; j < steps; j++ {
			switch r.Intn(12) {
			case 0, 1, 2:
				x.produce(r.Chance(40))
			case 3, 4:
				x.subMaybeReal("subh", x.script(3), 15)
			case 5, 6:
				x.subMaybeReal("subd", x.script(3), 15)
			case 7, 8:
				fmt.Fprintln(w, "incl")
			case 9:
				if i%5 == 0 {
					fmt.Fprintln(w, "inclreal")
				} else {
					fmt.Fprintln(w, "incl")
				}
			case 10:
				fmt.Fprintln(w, "restart")
			default:
				if crashes {
					fmt.Fprintf(w, "crash keep=%d\n", r.Intn(4))
				} else {
					x.produce(false)
				}
			}
		}
		if i%4 == 2 {
			x.sub("subhreal", "-")
			x.sub("subdreal", "-")
		} else {
			x.sub("subh", "-")
			x.sub("subd", "-")
		}
		if i%7 == 0 {
			fmt.Fprintln(w, "inclreal")
		} else {
			fmt.Fprintln(w, "incl")
		}
	}
}

func GenC08(r *hx.Rng, tier string, w io.Writer) {
	x := &g{w: w, r: r}
	// corpus: an idle chain (all blocks empty) with a limit (repaired finding), and an initial height above 1
	x.reset(1, 3)
	for i := 0; i < 4; i++ {
		x.produce(true)
	}
	x.sub("subh", "-")
	x.sub("subd", "-")
	x.sub("subd", "-")
	x.produce(true)
	// every header acknowledged, three empty blocks above the data watermark, no data tick yet: refused although nothing
	// is waiting for the DA layer (recorded finding: empty blocks are counted until the data loop has passed them)
	x.reset(1, 3)
	x.produce(true)
	x.produce(true)
	x.sub("subh", "-")
	x.produce(true)
	x.sub("subd", "-")
	x.produce(true)
	// trailing empty blocks after a non-empty one: passed over by the second accepting data tick
	x.reset(1, 2)
	x.produce(false)
	x.produce(true)
	x.sub("subh", "-")
	x.sub("subd", "-")
	x.sub("subd", "-")
	x.produce(true)
	x.reset(5, 3)
	x.produce(false)
	x.raceCorpus(1, 4)
	// an outage of finite length through the unmodified loop goroutines, then the DA layer accepts: production, refused
	// at the limit, must resume (C08: "resumes as soon as the DA layer has accepted them")
	for i, sc := range outages {
		lim := uint64(2 + i%2)
		x.reset(1, lim)
		for j := uint64(1); j < lim; j++ {
			x.produce(j%2 == 0)
		}
		x.produce(false) // refused: the limit is reached
		x.sub("subhreal", sc)
		x.sub("subdreal", sc)
		x.produce(false)
		x.produce(i%2 == 0)
	}
	// a block repeating an earlier block's transaction list (same data commitment) after the earlier one was accepted,
	// then the chain goes idle: nothing is genuinely waiting once the DA layer accepted it, production must go on
	x.reset(1, 3)
	fmt.Fprintln(w, "produce txs=73616d65,74786c697374")
	x.sub("subh", "-")
	x.sub("subd", "-")
	fmt.Fprintln(w, "produce txs=73616d65,74786c697374")
	x.produce(true)
	x.produce(true)
	for i := 0; i < 3; i++ {
		x.sub("subh", "-")
		x.sub("subd", "-")
		x.sub("subd", "-")
		x.produce(true)
	}
	// restarts (clean and crash) on a chain with an initial height above 1 and a backlog, then an accepting DA layer
	for _, kind := range []string{"restart", "crash keep=0", "crash keep=2"} {
		x.reset(4, 2)
		x.produce(false)
		x.sub("subh", "error")
		fmt.Fprintln(w, kind)
		x.sub("subh", "-")
		x.sub("subd", "-")
		x.sub("subd", "-")
		x.produce(false)
		x.produce(true)
		fmt.Fprintln(w, "restart")
		x.sub("subh", "-")
		x.sub("subd", "-")
		x.sub("subd", "-")
		x.produce(false)
	}
	lims := []uint64{1, 2, 3, 5}
	n := 50
	if tier == "thorough" {
		n = 700
	}
	for i := 0; i < n; i++ {
		lim := lims[r.Intn(len(lims))]
		ih := uint64(1)
		if r.Chance(6) {
			ih = 4
		}
		x.dups = r.Chance(25)
		x.reset(ih, lim)
		allEmpty := r.Chance(8)
		steps := 6 + r.Intn(20)
		for j := 0; j < steps; j++ {
			switch r.Intn(8) {
			case 0, 1, 2, 3:
				x.produce(allEmpty || r.Chance(15))
				if !allEmpty && r.Chance(70) {
					// keep the last block non-empty most of the time (the recorded finding needs trailing empty blocks)
					x.produce(false)
				}
			case 4:
				if r.Chance(30) {
					x.sub("subh", "ok:1|canceled") // part of the backlog is accepted and acknowledged, then the tick ends
				} else {
					x.subMaybeReal("subh", x.script(2), 15)
				}
			case 5:
				if r.Chance(30) {
					x.sub("subd", "ok:1|canceled")
				} else {
					x.subMaybeReal("subd", x.script(2), 15)
				}
			case 6:
				if r.Chance(35) {
					if r.Chance(50) {
						fmt.Fprintln(w, "restart")
					} else {
						fmt.Fprintf(w, "crash keep=%d\n", r.Intn(4))
					}
					break
				}
				fallthrough
			default:
				// the DA layer is back: both loops tick with an accepting DA (the data loop twice: trailing empty
				// blocks are passed over by the tick after the one that got the data before them accepted), then
				// production must resume
				if r.Chance(25) {
					sc := "-"
					if r.Chance(60) {
						sc = outages[r.Intn(len(outages))]
					}
					x.sub("subhreal", sc)
					x.sub("subdreal", sc)
				} else {
					x.sub("subh", "-")
					x.sub("subd", "-")
					x.sub("subd", "-")
				}
				x.produce(allEmpty)
			}
		}
		x.sub("subh", "-")
		x.sub("subd", "-")
		x.sub("subd", "-")
		x.produce(false)
	}
}

func init() {
	hx.Register("C06", hx.Stream{Gen: GenC06, Run: Run})
	hx.Register("C07", hx.Stream{Gen: GenC07, Run: Run})
	hx.Register("C08", hx.Stream{Gen: GenC08, Run: Run})
}
