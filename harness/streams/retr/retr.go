// Package retr: correspondence streams and monitors for DA scanning and admission of DA blobs / P2P headers
// (C09 scanning never skips, retries, survives any blob; C03 only the genesis proposer's material is accepted).
// The REAL RetrieveLoop goroutine scans a scripted DA double; single blobs also go through the real
// handlePotentialHeader / handlePotentialData under recover.
package retr

import (
	"context"
	"fmt"
	"sort"
	"strings"
	"sync"
	"time"

	goheader "github.com/celestiaorg/go-header"
	ds "github.com/ipfs/go-datastore"
	dssync "github.com/ipfs/go-datastore/sync"

	"github.com/libp2p/go-libp2p/core/crypto"
	cryptopb "github.com/libp2p/go-libp2p/core/crypto/pb"

	"verifharness/bm"
	"verifharness/hx"

	"github.com/evstack/ev-node/block"
	evsync "github.com/evstack/ev-node/pkg/sync"
	"github.com/evstack/ev-node/types"
)

type placed struct {
	da      uint64
	blob    []byte
	genuine string // "h:<height>" / "d:<height>" for items signed by the genesis proposer, "" otherwise
}

// hstore: the part of a go-header store the P2P header loop reads (Height, GetByHeight)
type hstore struct {
	goheader.Store[*types.SignedHeader]
	mu    sync.Mutex
	base  uint64
	items []*types.SignedHeader
	gets  int
}

func (h *hstore) Height() uint64 {
	h.mu.Lock()
	defer h.mu.Unlock()
	return h.base + uint64(len(h.items))
}
func (h *hstore) GetByHeight(_ context.Context, k uint64) (*types.SignedHeader, error) {
	h.mu.Lock()
	defer h.mu.Unlock()
	h.gets++
	if k <= h.base || k > h.base+uint64(len(h.items)) {
		return nil, fmt.Errorf("header %d not in store", k)
	}
	return h.items[k-h.base-1], nil
}

type World struct {
	c              *hx.Ctx
	env            *bm.Env
	da             *hx.DA
	cancel         context.CancelFunc
	done           chan struct{}
	placed         []placed
	logN           int
	passed         map[uint64]bool
	lastC          uint64
	placedAndGiven [][]byte
	hs             *hstore
	genuine        map[string]bool // hashes of header blobs really signed with the proposer's key that the node was given
	cp             bool            // the node under test (and its chain) uses the custom signature payload provider
	genuineData    map[string]bool // "<height>:<data hash>" of those headers: the data the proposer committed to
}

func (w *World) stop() {
	if w.cancel != nil {
		w.cancel()
		select {
		case <-w.done:
		case <-time.After(5 * time.Second):
			w.c.Report("C13/stop/retrieve-loop-did-not-return", "RetrieveLoop still running 5 s after cancel")
		}
		w.cancel = nil
	}
	if w.env != nil {
		w.env.Cleanup()
		w.env = nil
	}
}

func short(b []byte) string {
	s := hx.Hex(b)
	if len(s) > 8 {
		s = s[:8]
	}
	return s
}

func marks(m map[string]uint64) string {
	var out []string
	for k, v := range m {
		k = strings.ToLower(k)
		if len(k) > 8 {
			k = k[:8]
		}
		out = append(out, fmt.Sprintf("%s:%d", k, v))
	}
	sort.Strings(out)
	if len(out) == 0 {
		return "-"
	}
	return strings.Join(out, ",")
}

// drain the event channels (no SyncLoop runs in this stream); headers first, then data, each in channel order
func (w *World) drain() (string, []block.NewHeaderEvent, []block.NewDataEvent) {
	m := w.env.M
	var evs []string
	var hs []block.NewHeaderEvent
	var ds []block.NewDataEvent
	for {
		select {
		case e := <-m.VerifHeaderInCh():
			evs = append(evs, fmt.Sprintf("h:%d:%s@%d", e.Header.Height(), short(e.Header.Hash()), e.DAHeight))
			hs = append(hs, e)
			continue
		default:
		}
		break
	}
	for {
		select {
		case e := <-m.VerifDataInCh():
			evs = append(evs, fmt.Sprintf("d:%d:%s@%d", dHeight(e.Data), short(e.Data.DACommitment()), e.DAHeight))
			ds = append(ds, e)
			continue
		default:
		}
		break
	}
	if len(evs) == 0 {
		return "-", hs, ds
	}
	return strings.Join(evs, ","), hs, ds
}

// Oracles computes, with the real crypto, what the model takes as parameters. kaddr is types.KeyAddress of the
// carried key and is reported only when that key is NOT an Ed25519 key (the model computes the address of Ed25519
// keys itself from the bytes, so the comparison checks that computation too).
func Oracles(b []byte, customPayload bool) (keyok, hsig, dsig bool, kaddr []byte) {
	var sh types.SignedHeader
	if err := sh.UnmarshalBinary(b); err == nil && sh.Signer.PubKey != nil {
		keyok = true
		if pl, err := HeaderPayload(&sh.Header, customPayload); err == nil {
			hsig, _ = sh.Signer.PubKey.Verify(pl, sh.Signature)
		}
		if sh.Signer.PubKey.Type() != cryptopb.KeyType_Ed25519 {
			kaddr = types.KeyAddress(sh.Signer.PubKey)
		}
	}
	var sd types.SignedData
	if err := sd.UnmarshalBinary(b); err == nil && sd.Signer.PubKey != nil {
		keyok = true
		if pl, err := sd.Data.MarshalBinary(); err == nil {
			dsig, _ = sd.Signer.PubKey.Verify(pl, sd.Signature)
		}
		if sd.Signer.PubKey.Type() != cryptopb.KeyType_Ed25519 {
			kaddr = types.KeyAddress(sd.Signer.PubKey)
		}
	}
	return
}

// HeaderPayload: what a header signature is verified over - the default payload (Header.MarshalBinary) or the
// chain's custom signature payload (bm.CustomPayloadProvider) when the node is configured with one
func HeaderPayload(h *types.Header, customPayload bool) ([]byte, error) {
	if customPayload {
		return bm.CustomPayloadProvider(h)
	}
	return h.MarshalBinary()
}

// sigOK: the signature verifies under the proposer's key over the payload THIS node is configured with (a header of a
// custom-payload chain signed over the default payload is a forgery there, and vice versa)
func (w *World) sigOK(h *types.Header, sig []byte) bool {
	if len(sig) == 0 {
		return false
	}
	pl, err := HeaderPayload(h, w.cp)
	if err != nil {
		return false
	}
	ok, _ := w.env.Pub.Verify(pl, sig)
	return ok
}

func dHeight(d *types.Data) uint64 {
	if d == nil || d.Metadata == nil {
		return 0
	}
	return d.Metadata.Height
}

func b01(b bool) int {
	if b {
		return 1
	}
	return 0
}

func Run(c *hx.Ctx) {
	w := &World{c: c}
	defer w.stop()
	for {
		o, ok := c.Next()
		if !ok {
			return
		}
		c.Hit(o.Verb)
		if o.Verb != "reset" && w.env == nil {
			c.Emit("dead")
			continue
		}
		switch o.Verb {
		case "reset":
			w.stop()
			ih, _ := o.U64("ih")
			st, _ := o.U64("start")
			w.da = hx.NewDA()
			w.hs = &hstore{base: ih - 1}
			w.genuine = map[string]bool{}
			w.genuineData = map[string]bool{}
			w.placedAndGiven = nil
			w.cp = o.Bool("cp")
			env, err := bm.New(bm.Options{InitialHeight: ih, GenesisTime: time.Unix(0, o.I64("gt")), Aggregator: false, DA: w.da, DAStart: st, HeaderStore: w.hs, CustomPayload: w.cp})
			if err != nil {
				c.Emit("reset err")
				continue
			}
			w.env = env
			w.placed, w.logN, w.passed = nil, 0, map[uint64]bool{}
			ctx, cancel := context.WithCancel(context.Background())
			w.cancel, w.done = cancel, make(chan struct{})
			go func(d chan struct{}) {
				defer close(d)
				var wg sync.WaitGroup
				wg.Add(1)
				go func() { defer wg.Done(); env.M.HeaderStoreRetrieveLoop(ctx) }()
				env.M.RetrieveLoop(ctx)
				wg.Wait()
			}(w.done)
			w.lastC = env.M.VerifDAHeight()
			c.Emit("start cursor=%d", w.lastC)
		case "seen":
			// the header was applied earlier (through P2P): its hash is in the seen-set
			var sh types.SignedHeader
			if err := sh.UnmarshalBinary(o.Bytes("blob")); err != nil {
				c.Emit("undecodable")
				continue
			}
			w.env.M.HeaderCache().SetSeen(sh.Hash().String())
			c.Emit("ok")
		case "p2phdr":
			// a header arriving through the P2P header store (what go-header hands over)
			b := o.Bytes("blob")
			sh := new(types.SignedHeader)
			if err := sh.UnmarshalBinary(b); err != nil {
				c.Emit("undecodable")
				continue
			}
			w.note(b)
			w.hs.mu.Lock()
			w.hs.items = append(w.hs.items, sh)
			want := w.hs.gets + 1
			w.hs.mu.Unlock()
			w.env.M.VerifHeaderStoreSignal()
			for i := 0; i < 40000; i++ {
				w.hs.mu.Lock()
				g := w.hs.gets
				w.hs.mu.Unlock()
				if g >= want {
					break
				}
				time.Sleep(50 * time.Microsecond)
			}
			time.Sleep(2 * time.Millisecond)
			evs, hs, ds := w.drain()
			c.Emit("p2p events=%s", evs)
			w.checkAdmission(hs, ds)
		case "p2plib":
			// what go-header does with a header received over gossip (p2p/subscriber.go) or in an exchange session
			// (p2p/session.go) before it is stored: New + UnmarshalBinary + Validate through the library's generic
			// header interface, then the library's header.Verify against the trusted header
			b := o.Bytes("blob")
			var trusted *types.SignedHeader
			if t := o.Str("trusted"); t != "" && t != "-" {
				trusted = new(types.SignedHeader)
				if err := trusted.UnmarshalBinary(o.Bytes("trusted")); err != nil {
					c.Emit("bad-trusted")
					continue
				}
			}
			w.note(b)
			if trusted != nil {
				w.note(o.Bytes("trusted"))
			}
			var hdr *types.SignedHeader
			verdict := "panic"
			func() {
				defer func() {
					if r := recover(); r != nil {
						c.Report("C03/panic/p2p-library-entry", fmt.Sprint(r))
					}
				}()
				hdr, verdict = libAdmit[*types.SignedHeader](trusted, trusted != nil, b)
			}()
			c.Emit("p2plib %s", verdict)
			if verdict == "accepted" && hdr != nil {
				w.checkStored(hdr)
			}
			if w.cp && verdict == "rejected:validate" && hdr != nil && hdr.Signer.PubKey != nil && hdr.Signer.PubKey.Equals(w.env.Pub) && w.sigOK(&hdr.Header, hdr.Signature) {
				// documented caveat (DESIGN 6.1): since /repo 35dfc53 go-header's Validate() checks the DEFAULT payload, so on a
				// custom-signature-payload chain the P2P library entry rejects the proposer's own headers
				c.Hit("p2plib-custom-payload-chain-genuine-header-rejected")
			}
		case "p2pboot":
			// the first header of the P2P header store of a node without a trusted hash: what a peer answers to
			// Exchange.GetByHeight(initial height). go-header only DECODES that answer (New + UnmarshalBinary; Validate() is
			// called for gossip and exchange sessions only), so the decoded, UNVALIDATED item goes to the service's own init
			// path (initStoreAndStartSyncer -> Validate, genesis-proposer check, the REAL go-header store's Init)
			b := o.Bytes("blob")
			w.note(b)
			verdict := "panic"
			var hdr *types.SignedHeader
			func() {
				defer func() {
					if r := recover(); r != nil {
						c.Report("C03/panic/p2p-store-init", fmt.Sprint(r))
					}
				}()
				verdict, hdr = bootstrap[*types.SignedHeader](w, b)
			}()
			c.Emit("p2pboot %s", verdict)
			if verdict == "stored" {
				if string(hdr.ProposerAddress) != string(w.env.Gen.ProposerAddress) {
					c.Report("C03/p2p-store/seeded-with-header-of-foreign-proposer", fmt.Sprintf("height %d hash %s", hdr.Height(), short(hdr.Hash())))
				} else if kind := w.storedKind(hdr); kind != "" {
					c.Report("C03/p2p-store/seeded-with-unvalidated-header/"+kind, fmt.Sprintf("height %d hash %s names the proposer but is not signed with the proposer's key", hdr.Height(), short(hdr.Hash())))
				}
			}
		case "p2pstale":
			// the real HeaderSyncService restarted on a store whose genuine head is `age` hours old (stale.go)
			w.opStale(c, o)
		case "p2pbootdat":
			// the same init path for the first item of the P2P DATA store
			b := o.Bytes("blob")
			verdict := "panic"
			func() {
				defer func() {
					if r := recover(); r != nil {
						c.Report("C03/panic/p2p-store-init-data", fmt.Sprint(r))
					}
				}()
				verdict, _ = bootstrap[*types.Data](w, b)
			}()
			c.Emit("p2pbootdat %s", verdict)
		case "p2plibdat":
			// a data item received over gossip / in an exchange session of the data sync service
			b := o.Bytes("blob")
			var trusted *types.Data
			if t := o.Str("trusted"); t != "" && t != "-" {
				trusted = new(types.Data)
				if err := trusted.UnmarshalBinary(o.Bytes("trusted")); err != nil || trusted.Metadata == nil {
					c.Emit("bad-trusted")
					continue
				}
			}
			verdict := "panic"
			var dat *types.Data
			func() {
				defer func() {
					if r := recover(); r != nil {
						c.Report("C03/panic/p2p-library-entry-data", fmt.Sprint(r))
					}
				}()
				dat, verdict = libAdmit[*types.Data](trusted, trusted != nil, b)
			}()
			c.Emit("p2plibdat %s", verdict)
			// C03 by the letter: what a node stores in its P2P data store and serves to peers must be the proposer's. P2P
			// Data carries no signature; the only tie is the data hash of a proposer-signed header. An accepted item that
			// is not the data of any proposer-signed header the node was given is third-party material in the store.
			if verdict == "accepted" && dat != nil && dat.Metadata != nil {
				if !w.genuineData[fmt.Sprintf("%d:%x", dat.Height(), []byte(dat.DACommitment()))] {
					c.Report("C03/p2p-data-store/unsigned-data-accepted", fmt.Sprintf("height %d, %d txs, commitment %s", dat.Height(), len(dat.Txs), short(dat.DACommitment())))
				}
			}
		case "place":
			da, _ := o.U64("da")
			b := o.Bytes("blob")
			w.note(b)
			w.da.Place(da, b)
			w.placed = append(w.placed, placed{da, b, o.Str("genuine")})
			c.Emit("ok")
		case "script":
			da, _ := o.U64("da")
			if s := o.Str("outcomes"); s != "" && s != "-" {
				w.da.Fetch[da] = strings.Split(s, ",")
			}
			c.Emit("ok")
		case "blob":
			b := o.Bytes("blob")
			da, _ := o.U64("da")
			w.note(b)
			ret := "false"
			func() {
				defer func() {
					if r := recover(); r != nil {
						c.Report(w.panicClass(b), fmt.Sprint(r))
						ret = "panic"
					}
				}()
				if len(b) == 0 {
					ret = "empty" // the loop skips nil or empty blobs before classification
					return
				}
				if w.env.M.VerifHandlePotentialHeader(context.Background(), b, da) {
					ret = "true"
				} else {
					w.env.M.VerifHandlePotentialData(context.Background(), b, da)
				}
			}()
			evs, hs, ds := w.drain()
			c.Emit("blob ret=%s events=%s hm=%s dm=%s", ret, evs, marks(w.env.M.HeaderCache().VerifDAIncluded()), marks(w.env.M.DataCache().VerifDAIncluded()))
			w.checkAdmission(hs, ds)
		case "flood":
			// more genuine blobs at one DA height than the hand-off channel holds, with a consumer that lags behind
			da, _ := o.U64("da")
			n := o.Int("n")
			b := o.Bytes("blob")
			w.note(b)
			for i := 0; i < n; i++ {
				w.da.Place(da, b)
			}
			for i := 0; i < n; i++ {
				w.placed = append(w.placed, placed{da, b, ""})
			}
			stopc := make(chan struct{})
			var got int
			donec := make(chan struct{})
			go func() {
				defer close(donec)
				hch, dch := w.env.M.VerifHeaderInCh(), w.env.M.VerifDataInCh()
				for {
					select {
					case <-stopc:
						return
					default:
					}
					if len(hch) == cap(hch) || len(dch) == cap(dch) {
						time.Sleep(3 * time.Millisecond) // lag: the producer side must wait, not drop
						for len(hch) > 0 {
							<-hch
							got++
						}
						for len(dch) > 0 {
							<-dch
							got++
						}
					} else {
						time.Sleep(100 * time.Microsecond)
					}
				}
			}()
			w.env.M.VerifRetrieveSignal()
			w.waitIdle()
			close(stopc)
			<-donec
			for len(w.env.M.VerifHeaderInCh()) > 0 {
				<-w.env.M.VerifHeaderInCh()
				got++
			}
			for len(w.env.M.VerifDataInCh()) > 0 {
				<-w.env.M.VerifDataInCh()
				got++
			}
			w.logN = len(w.da.Log())
			cur := w.env.M.VerifDAHeight()
			c.Emit("flood cursor=%d nev=%d", cur, got)
			if got < n && cur > da {
				c.Report("C09/handoff/genuine-blob-not-handed-to-sync", fmt.Sprintf("%d genuine blobs at DA height %d, only %d handed to sync (hand-off channel full?)", n, da, got))
			}
			w.lastC = cur
			for h := uint64(0); h < cur; h++ {
				w.passed[h] = true
			}
		case "tick":
			w.env.M.VerifRetrieveSignal()
			w.waitIdle()
			log := w.da.Log()
			fl := "-"
			if len(log) > w.logN {
				fl = strings.Join(log[w.logN:], ",")
			}
			newLog := log[w.logN:]
			w.logN = len(log)
			evs, hs, ds := w.drain()
			cur := w.env.M.VerifDAHeight()
			c.Emit("tick cursor=%d fetch=%s events=%s hm=%s dm=%s", cur, fl, evs, marks(w.env.M.HeaderCache().VerifDAIncluded()), marks(w.env.M.DataCache().VerifDAIncluded()))
			w.checkScan(newLog, cur, hs, ds)
			w.checkAdmission(hs, ds)
		default:
			c.Emit("bad-op")
		}
	}
}

// libAdmit is go-header's treatment of a received header, generic over the header type exactly as the library is:
// Validate() is resolved through the constraint header.Header[H] (for *types.SignedHeader: its own method if it has
// one, else the one promoted from the embedded unsigned Header).
func libAdmit[H goheader.Header[H]](trusted H, hasTrusted bool, data []byte) (H, string) {
	hdr := goheader.New[H]()
	if err := hdr.UnmarshalBinary(data); err != nil {
		return hdr, "rejected:decode"
	}
	if err := hdr.Validate(); err != nil {
		return hdr, "rejected:validate"
	}
	// what the library reads from every validated item (logging, height bookkeeping, store keys)
	_, _, _, _ = hdr.Height(), hdr.ChainID(), hdr.Time(), hdr.Hash()
	if hasTrusted {
		if err := goheader.Verify(trusted, hdr); err != nil {
			return hdr, "rejected:verify"
		}
	}
	return hdr, "accepted"
}

// bootstrap: decode as Exchange.Get/GetByHeight does (no Validate) and run the service's own init path through the hook
func bootstrap[H goheader.Header[H]](w *World, data []byte) (string, H) {
	hdr := goheader.New[H]()
	if err := hdr.UnmarshalBinary(data); err != nil {
		return "rejected:decode", hdr
	}
	stored, err := evsync.VerifBootstrap[H](context.Background(), dssync.MutexWrap(ds.NewMapDatastore()), w.env.Gen, hdr)
	switch {
	case err == nil: // (an item of height 0 is written by Init as well, the store's Height() then stays 0)
		return "stored", hdr
	case !stored && err != nil && strings.Contains(err.Error(), "is invalid"):
		return "rejected:validate", hdr
	case !stored && err != nil && strings.Contains(err.Error(), "genesis proposer"):
		return "rejected:genesis", hdr
	}
	return fmt.Sprintf("inconsistent stored=%v err=%v", stored, err), hdr
}

// checkStored (C03): a header the P2P library entry accepts, and that names the genesis proposer, must be signed with
// the proposer's key (harness's own key comparison + the real ed25519 verification; the code under test is not asked).
func (w *World) checkStored(sh *types.SignedHeader) {
	if string(sh.ProposerAddress) != string(w.env.Gen.ProposerAddress) {
		return // a header of another chain/proposer: nothing ties it to this genesis (no trusted header was given)
	}
	if kind := w.storedKind(sh); kind != "" {
		w.c.Report("C03/p2p-store/accepted-without-proposer-signature/"+kind, fmt.Sprintf("height %d hash %s", sh.Height(), short(sh.Hash())))
	}
}

// storedKind: "" if the header carries the proposer's key and a signature the real ed25519 verifies; else why not
func (w *World) storedKind(sh *types.SignedHeader) string {
	pub := w.env.Pub
	switch {
	case sh.Signer.PubKey == nil:
		if len(sh.Signature) == 0 {
			return "unsigned"
		}
		return "key-absent"
	case !sh.Signer.PubKey.Equals(pub):
		return "foreign-key"
	case len(sh.Signature) == 0:
		return "unsigned"
	case bm.SigClass(pub, &sh.Header, sh.Signature) != "valid":
		if !w.genuine[strings.ToLower(sh.Hash().String())] {
			return "mutated"
		}
		return "garbage-signature"
	}
	// (a header carrying the proposer's key and a valid signature but a wrong signer-address FIELD is signed by the
	// proposer: the repaired code rejects it, the property does not demand that)
	return ""
}

// panicClass names the kind of blob that made a handler panic, so that a different crash is a different finding.
func (w *World) panicClass(b []byte) string {
	var sd types.SignedData
	if err := sd.UnmarshalBinary(b); err == nil && len(sd.Txs) > 0 && sd.Metadata == nil && sd.Signer.PubKey != nil {
		pl, _ := sd.Data.MarshalBinary()
		ok, _ := sd.Signer.PubKey.Verify(pl, sd.Signature)
		if ok && string(sd.Signer.Address) == string(w.env.Gen.ProposerAddress) {
			return "C09/panic/accepted-signed-data-without-metadata"
		}
		return "C09/panic/rejected-signed-data-without-metadata"
	}
	var sh types.SignedHeader
	if err := sh.UnmarshalBinary(b); err == nil {
		return "C09/panic/blob-decoding-as-header"
	}
	return "C09/panic/other-blob"
}

// waitIdle: the loop stops at the first height that is from the future or fails ten times in a row.
func (w *World) waitIdle() {
	deadline := time.Now().Add(20 * time.Second)
	for time.Now().Before(deadline) {
		log := w.da.Log()
		if n := len(log); n > w.logN {
			last := log[n-1]
			if strings.HasSuffix(last, ":future") || strings.HasSuffix(last, ":futuretext") {
				time.Sleep(2 * time.Millisecond)
				return
			}
			// a text-only "from the future" error on a Get ends the round (the loop recognises the text): quiet log
			lastIds := ""
			for i := n - 1; i >= w.logN; i-- {
				if strings.HasPrefix(log[i], "ids:") {
					lastIds = log[i]
					break
				}
			}
			if strings.Contains(lastIds, ":errgettext") && strings.HasPrefix(last, "get:") {
				time.Sleep(250 * time.Millisecond)
				if len(w.da.Log()) == n {
					return
				}
				continue
			}
			// ten failed attempts at one height end the pass
			fails, h := 0, ""
			for i := w.logN; i < n; i++ {
				p := strings.SplitN(log[i], ":", 3)
				if p[0] != "ids" {
					continue
				}
				if p[1] != h {
					h, fails = p[1], 0
				}
				if p[2] == "errids" || strings.HasPrefix(p[2], "errget") || p[2] == "notfoundtext" {
					// (a text-only "not found" is a success on the unchanged tree: the next line is then another height)
					fails++
				} else {
					fails = 0
				}
			}
			if fails >= 10 {
				time.Sleep(150 * time.Millisecond)
				if len(w.da.Log()) == n {
					return
				}
			}
		}
		time.Sleep(200 * time.Microsecond)
	}
	w.c.Report("C09/harness/wait-timeout", "RetrieveLoop did not come to rest within 20 s")
}

// checkScan: heights are examined in increasing order, a height is passed only after a successful fetch or a
// confirmed "nothing here", a failed height is retried, every genuine blob at a passed height becomes an event.
func (w *World) checkScan(log []string, cursor uint64, hs []block.NewHeaderEvent, ds []block.NewDataEvent) {
	c := w.c
	if cursor < w.lastC {
		c.Report("C09/cursor/decreased", fmt.Sprintf("%d -> %d", w.lastC, cursor))
	}
	cur := w.lastC
	fetched := map[uint64]bool{} // heights whose blobs were all fetched successfully in this tick
	success := false             // did the last attempt succeed?
	lastOutcome := ""
	first := true
	for _, e := range log {
		p := strings.SplitN(e, ":", 3)
		if p[0] != "ids" {
			continue
		}
		var h uint64
		fmt.Sscan(p[1], &h)
		if !first || h != cur {
			switch {
			case h == cur && !success: // retry of a failed height
			case h == cur+1 && success:
				cur = h
			case h == cur && success && strings.HasPrefix(lastOutcome, "notfound"):
				// the DA layer said "nothing at this height" (as a sentinel or as a text-only error) and the height is
				// examined again instead of being passed
				c.Report("C09/scan/empty-height-not-passed/"+lastOutcome, fmt.Sprintf("height %d examined again after the DA layer reported it empty", h))
			default:
				c.Report("C09/scan/height-skipped-or-out-of-order", fmt.Sprintf("examined %d while the cursor was %d (last outcome %s, success %v)", h, cur, lastOutcome, success))
				cur = h
			}
		}
		first = false
		lastOutcome = p[2]
		nb := len(w.da.Blobs[h])
		nch := (nb + 99) / 100
		switch {
		case p[2] == "ok":
			success = true
			fetched[h] = true
		case p[2] == "notfound" || p[2] == "notfoundtext":
			success = true
		case strings.HasPrefix(p[2], "errget"):
			fc := 0
			if i := strings.IndexByte(p[2], ':'); i > 0 {
				fmt.Sscan(p[2][i+1:], &fc)
			}
			success = fc >= nch
			if success {
				fetched[h] = true
			}
		default:
			success = false
		}
	}
	want := cur
	if success {
		want = cur + 1
	}
	if len(log) > 0 && cursor != want {
		if cursor > want {
			c.Report("C09/cursor/advanced-past-a-height-not-fetched", fmt.Sprintf("cursor %d, last examined %d with outcome %s", cursor, cur, lastOutcome))
		} else if strings.HasPrefix(lastOutcome, "notfound") {
			c.Report("C09/scan/empty-height-not-passed/"+lastOutcome, fmt.Sprintf("cursor %d stays at a height the DA layer reported empty (expected %d)", cursor, want))
		} else {
			c.Report("C09/cursor/not-advanced-after-success", fmt.Sprintf("cursor %d expected %d", cursor, want))
		}
	}
	// every genuine blob at a height passed in this tick was handed to sync exactly once per blob
	for h := w.lastC; h < cursor; h++ {
		if w.passed[h] || !fetched[h] {
			continue
		}
		w.passed[h] = true
		for pi, p := range w.placed {
			if p.da != h || p.genuine == "" {
				continue
			}
			found := 0
			for _, e := range hs {
				if e.DAHeight == h && fmt.Sprintf("h:%d", e.Header.Height()) == p.genuine {
					found++
				}
			}
			for _, e := range ds {
				if e.DAHeight == h && fmt.Sprintf("d:%d", dHeight(e.Data)) == p.genuine {
					found++
				}
			}
			if found == 0 {
				c.Report("C09/handoff/genuine-blob-not-handed-to-sync", fmt.Sprintf("%s at DA height %d", p.genuine, h))
				// C03: third-party material on the DA layer must not prevent the node from following the proposer's chain
				if ahead := w.thirdPartyAhead(pi); ahead > 0 {
					c.Report("C03/interference/proposer-blob-not-handed-over-behind-third-party-blobs",
						fmt.Sprintf("%s at DA height %d sits behind %d third-party blobs (%d blobs at the height)", p.genuine, h, ahead, len(w.da.Blobs[h])))
				}
			}
		}
	}
	w.lastC = cursor
}

// thirdPartyAhead: how many blobs that are not the proposer's were placed before placed[i] at the same DA height
func (w *World) thirdPartyAhead(i int) int {
	n := 0
	for j := 0; j < i; j++ {
		if w.placed[j].da == w.placed[i].da && w.placed[j].genuine == "" {
			n++
		}
	}
	return n
}

// note: remember which header hashes the node was given in a form really signed with the proposer's key
func (w *World) note(b []byte) {
	w.placedAndGiven = append(w.placedAndGiven, b)
	var sh types.SignedHeader
	if err := sh.UnmarshalBinary(b); err != nil || sh.Signer.PubKey == nil || !sh.Signer.PubKey.Equals(w.env.Pub) {
		return
	}
	if w.sigOK(&sh.Header, sh.Signature) {
		w.genuine[strings.ToLower(sh.Hash().String())] = true
		w.genuineData[fmt.Sprintf("%d:%x", sh.Height(), []byte(sh.DataHash))] = true
	}
}

// checkAdmission (C03): whatever is handed to sync / marked DA-included was signed with the proposer's key.
func (w *World) checkAdmission(hs []block.NewHeaderEvent, ds []block.NewDataEvent) {
	c := w.c
	pub := w.env.Pub
	for _, e := range hs {
		sh := e.Header
		if string(sh.ProposerAddress) != string(w.env.Gen.ProposerAddress) {
			c.Report("C03/header/accepted-with-foreign-proposer-address", fmt.Sprintf("height %d", sh.Height()))
		} else if sh.Signer.PubKey == nil || !sh.Signer.PubKey.Equals(pub) {
			c.Report("C03/da-header/accepted-under-proposer-address-with-foreign-key", fmt.Sprintf("height %d", sh.Height()))
		} else if !w.sigOK(&sh.Header, sh.Signature) {
			c.Report("C03/da-header/accepted-without-valid-proposer-signature", fmt.Sprintf("height %d", sh.Height()))
		}
	}
	// data events carry no signer: an event is legitimate only if a blob with that commitment, really signed with the
	// proposer's key, was given to the node (same rule as for the marks below)
	for _, e := range ds {
		if e.Data == nil {
			c.Report("C03/da-data/nil-data-handed-to-sync", "")
			continue
		}
		if sig := w.dataCause(e.Data.DACommitment().String()); sig != "" {
			c.Report(strings.Replace(sig, "marked-da-included", "handed-to-sync", 1), fmt.Sprintf("event: height %d", dHeight(e.Data)))
		}
	}
	// a header is marked DA-included only on the strength of a blob really signed with the proposer's key (decided
	// here with the harness's own comparison of keys and the real ed25519 verification, not with the code under test)
	for h := range w.env.M.HeaderCache().VerifDAIncluded() {
		if w.genuine[strings.ToLower(h)] {
			continue
		}
		foreign := false
		for _, p := range w.placedAndGiven {
			var sh types.SignedHeader
			if err := sh.UnmarshalBinary(p); err == nil && strings.EqualFold(sh.Hash().String(), h) && sh.Signer.PubKey != nil &&
				!sh.Signer.PubKey.Equals(pub) && string(sh.ProposerAddress) == string(w.env.Gen.ProposerAddress) {
				if pl, err := sh.Header.MarshalBinary(); err == nil {
					if ok, _ := sh.Signer.PubKey.Verify(pl, sh.Signature); ok {
						foreign = true
					}
				}
			}
		}
		if foreign {
			c.Report("C03/da-header/accepted-under-proposer-address-with-foreign-key", "marked DA-included: header hash "+h)
		} else {
			c.Report("C03/da-header/marked-da-included-without-a-validly-signed-blob", "header hash "+h)
		}
	}
	// marks: EVERY data mark must belong to a blob signed by the proposer that the node was given (through the DA
	// double or directly through the handler); the cause is classified per commitment
	dm := w.env.M.DataCache().VerifDAIncluded()
	for _, k := range hx.SortedKeys(dm) {
		if sig := w.dataCause(k); sig != "" {
			c.Report(sig, "mark: commitment "+short([]byte(k)))
		}
	}
}

// dataCause: "" if a signed-data blob with this commitment, really signed with the proposer's key (harness's own key
// comparison + real ed25519 verification), is among the blobs the node was given; otherwise the violation's signature
// according to what WAS given (a different cause gets a different signature).
func (w *World) dataCause(commit string) string {
	pub := w.env.Pub
	foreignKey, foreignAddr := false, false
	for _, b := range w.placedAndGiven {
		var sd types.SignedData
		if err := sd.UnmarshalBinary(b); err != nil || sd.Signer.PubKey == nil {
			continue
		}
		if !strings.EqualFold(sd.Data.DACommitment().String(), commit) {
			continue
		}
		if genuineData(pub, &sd) {
			return ""
		}
		selfOK := false
		if pl, err := sd.Data.MarshalBinary(); err == nil {
			selfOK, _ = sd.Signer.PubKey.Verify(pl, sd.Signature)
		}
		if !selfOK {
			continue
		}
		if string(sd.Signer.Address) == string(w.env.Gen.ProposerAddress) {
			foreignKey = true
		} else {
			foreignAddr = true
		}
	}
	switch {
	case foreignKey:
		return "C03/da-data/accepted-under-proposer-address-with-foreign-key"
	case foreignAddr:
		return "C03/data/accepted-with-foreign-signer-address"
	}
	return "C03/da-data/marked-da-included-without-a-validly-signed-blob"
}

func genuineData(pub crypto.PubKey, sd *types.SignedData) bool {
	if sd.Signer.PubKey == nil || !sd.Signer.PubKey.Equals(pub) {
		return false
	}
	pl, err := sd.Data.MarshalBinary()
	if err != nil {
		return false
	}
	ok, _ := pub.Verify(pl, sd.Signature)
	return ok
}
