package retr

import (
	"bytes"
	"context"
	"fmt"
	"io"
	"strings"
	"time"

	"github.com/libp2p/go-libp2p/core/crypto"
	"google.golang.org/protobuf/encoding/protowire"
	"google.golang.org/protobuf/proto"

	"verifharness/bm"
	"verifharness/hx"

	"github.com/evstack/ev-node/types"
	pb "github.com/evstack/ev-node/types/pb/evnode/v1"
)

const baseTime = int64(1_700_000_000) * 1_000_000_000

func paHex() string {
	_, pub := bm.DetKey(1)
	return hx.Hex(types.KeyAddress(pub))
}

// chain: a real proposer chain whose headers/data are the genuine blobs
type chain struct {
	cp   bool // headers are signed over the custom signature payload
	hdr  map[uint64][]byte
	dat  map[uint64][]byte
	pdat map[uint64][]byte // the plain (unsigned) Data of every height, as the data sync service gossips it
	shs  map[uint64]*types.SignedHeader
	top  uint64
	ih   uint64
	priv crypto.PrivKey
	pub  crypto.PubKey
}

func buildChain(r *hx.Rng, ih uint64, n int) *chain { return buildChainCP(r, ih, n, false) }

// buildChainCP: the chain of an aggregator that signs over the custom signature payload when cp is set
func buildChainCP(r *hx.Rng, ih uint64, n int, cp bool) *chain {
	env, err := bm.New(bm.Options{InitialHeight: ih, GenesisTime: time.Unix(0, baseTime), Aggregator: true, CustomPayload: cp})
	if err != nil {
		panic(err)
	}
	defer env.Cleanup()
	c := &chain{cp: cp, hdr: map[uint64][]byte{}, dat: map[uint64][]byte{}, pdat: map[uint64][]byte{}, shs: map[uint64]*types.SignedHeader{}, ih: ih}
	c.priv, c.pub = bm.DetKey(1)
	ts := baseTime
	for i := 0; i < n; i++ {
		ts += 1_000_000_000
		var txs [][]byte
		if i > 0 && !r.Chance(30) {
			for j := 0; j <= r.Intn(2); j++ {
				txs = append(txs, []byte(fmt.Sprintf("c%d.%d.%d", i, j, r.Intn(1000))))
			}
			if r.Chance(30) { // a zero-length transaction somewhere in the list is a transaction like any other
				pos := r.Intn(len(txs) + 1)
				txs = append(txs[:pos], append([][]byte{{}}, txs[pos:]...)...)
			}
		}
		env.Seq.Next = &hx.SeqResp{Txs: txs, Ts: time.Unix(0, ts)}
		_ = env.M.VerifPublishBlock(context.Background())
	}
	c.top = env.Height()
	for h := ih; h <= c.top; h++ {
		sh, d, err := env.Store.GetBlockData(context.Background(), h)
		if err != nil {
			continue
		}
		b, _ := sh.MarshalBinary()
		c.hdr[h] = b
		c.shs[h] = sh
		if d.Metadata != nil {
			c.pdat[h], _ = d.MarshalBinary()
		}
		if len(d.Txs) > 0 {
			pl, _ := d.MarshalBinary()
			sig, _ := c.priv.Sign(pl)
			sd := types.SignedData{Data: *d, Signature: sig, Signer: types.Signer{PubKey: c.pub, Address: types.KeyAddress(c.pub)}}
			c.dat[h], _ = sd.MarshalBinary()
		}
	}
	return c
}

// adversarial items constructible without the proposer's private key
func (c *chain) forgeries(r *hx.Rng) map[string][]byte {
	out := map[string][]byte{}
	advPriv, advPub := bm.DetKey(2)
	gaddr := types.KeyAddress(c.pub)
	any := c.shs[c.top] // deterministic choice (map order is not)
	if any == nil {
		return out
	}
	sign := func(h *types.Header, k crypto.PrivKey) []byte {
		pl, _ := HeaderPayload(h, c.cp) // the strongest forgery signs what the node verifies
		s, _ := k.Sign(pl)
		return s
	}
	// 0 the proposer's own key over the OTHER payload (default on a custom-payload chain and vice versa): not valid here
	{
		o := *any
		pl, _ := HeaderPayload(&o.Header, !c.cp)
		o.Signature, _ = c.priv.Sign(pl)
		out["hdr-proposer-key-other-payload"], _ = o.MarshalBinary()
		a := *any
		a.Header.AppHash = []byte("forged-other-payload")
		a.Signer = types.Signer{PubKey: advPub, Address: gaddr}
		pla, _ := HeaderPayload(&a.Header, !c.cp)
		a.Signature, _ = advPriv.Sign(pla)
		out["hdr-foreign-key-other-payload"], _ = a.MarshalBinary()
	}
	// 1 self-consistent forgery: proposer's address, foreign key, signed with the foreign key
	f := *any
	f.Header.AppHash = []byte("forged-app-hash")
	f.Signer = types.Signer{PubKey: advPub, Address: gaddr}
	f.Signature = sign(&f.Header, advPriv)
	out["hdr-foreign-key-proposer-address"], _ = f.MarshalBinary()
	// 2 field-mutated copy of a genuine header, old signature
	g := *any
	g.Header.DataHash = r.Bytes(32)
	out["hdr-mutated-old-signature"], _ = g.MarshalBinary()
	// 3 unsigned / garbage-signed header that links correctly
	u := *any
	u.Signature = nil
	out["hdr-unsigned"], _ = u.MarshalBinary()
	u2 := *any
	u2.Signature = r.Bytes(64)
	out["hdr-garbage-signature"], _ = u2.MarshalBinary()
	// 4 foreign proposer address, consistently signed by the foreign key
	w := *any
	w.Header.ProposerAddress = types.KeyAddress(advPub)
	w.Signer = types.Signer{PubKey: advPub, Address: types.KeyAddress(advPub)}
	w.Signature = sign(&w.Header, advPriv)
	out["hdr-foreign-proposer"], _ = w.MarshalBinary()
	// 5 wrong chain id, signed with the foreign key under the proposer's address
	x := *any
	x.Header.BaseHeader.ChainID = "other-chain"
	x.Signer = types.Signer{PubKey: advPub, Address: gaddr}
	x.Signature = sign(&x.Header, advPriv)
	out["hdr-wrong-chain-foreign-key"], _ = x.MarshalBinary()
	// 6 signed data under the proposer's address with a foreign key (with and without metadata)
	d := types.Data{Metadata: &types.Metadata{ChainID: bm.ChainID, Height: any.Height(), Time: any.BaseHeader.Time}, Txs: types.Txs{types.Tx("forged-tx")}}
	pl, _ := d.MarshalBinary()
	sg, _ := advPriv.Sign(pl)
	sd := types.SignedData{Data: d, Signature: sg, Signer: types.Signer{PubKey: advPub, Address: gaddr}}
	out["data-foreign-key-proposer-address"], _ = sd.MarshalBinary()
	d2 := types.Data{Txs: types.Txs{types.Tx("forged-tx-2")}}
	pl2, _ := d2.MarshalBinary()
	sg2, _ := advPriv.Sign(pl2)
	sd2 := types.SignedData{Data: d2, Signature: sg2, Signer: types.Signer{PubKey: advPub, Address: gaddr}}
	out["data-foreign-key-no-metadata"], _ = sd2.MarshalBinary()
	// 7 genuine data with a broken signature; data under a foreign address
	var firstDat []byte
	for h := c.ih; h <= c.top; h++ {
		if b, ok := c.dat[h]; ok {
			firstDat = b
			break
		}
	}
	if firstDat != nil {
		m := append([]byte(nil), firstDat...)
		m[len(m)/2] ^= 0x40
		out["data-corrupted"] = m
	}
	sd3 := types.SignedData{Data: d, Signature: sg, Signer: types.Signer{PubKey: advPub, Address: types.KeyAddress(advPub)}}
	out["data-foreign-address"], _ = sd3.MarshalBinary()

	// --- near misses of the key/address binding (/repo e753a34)
	aaddr := types.KeyAddress(advPub)
	gkey, _ := crypto.MarshalPublicKey(c.pub)
	akey, _ := crypto.MarshalPublicKey(advPub)
	graw, _ := c.pub.Raw()
	araw, _ := advPub.Raw()
	// raw wire construction: any signer address / key bytes, any signature
	rawHdr := func(h *types.Header, sig, addr, key []byte) []byte {
		b, _ := proto.Marshal(&pb.SignedHeader{Header: h.ToProto(), Signature: sig, Signer: &pb.Signer{Address: addr, PubKey: key}})
		return b
	}
	rawDat := func(dd *types.Data, sig, addr, key []byte) []byte {
		b, _ := proto.Marshal(&pb.SignedData{Data: dd.ToProto(), Signature: sig, Signer: &pb.Signer{Address: addr, PubKey: key}})
		return b
	}
	pkBytes := func(fields ...interface{}) []byte { // (uint64 type | []byte data)... in the given order
		var b []byte
		for _, f := range fields {
			switch v := f.(type) {
			case uint64:
				b = protowire.AppendTag(b, 1, protowire.VarintType)
				b = protowire.AppendVarint(b, v)
			case []byte:
				b = protowire.AppendTag(b, 2, protowire.BytesType)
				b = protowire.AppendBytes(b, v)
			}
		}
		return b
	}
	gh := any.Header
	gsig := []byte(any.Signature)
	// 8 the right key with a wrong address field (the signature does not cover the signer)
	out["hdr-right-key-wrong-address-field"] = rawHdr(&gh, gsig, aaddr, gkey)
	out["hdr-right-key-empty-address-field"] = rawHdr(&gh, gsig, nil, gkey)
	// 9 the address of the carried key, but the header names the proposer (and the reverse)
	f9 := *any
	f9.Header.AppHash = []byte("forged-9")
	out["hdr-foreign-key-own-address-names-proposer"] = rawHdr(&f9.Header, sign(&f9.Header, advPriv), aaddr, akey)
	f9b := *any
	f9b.Header.ProposerAddress = aaddr
	out["hdr-names-foreign-signer-claims-proposer"] = rawHdr(&f9b.Header, sign(&f9b.Header, advPriv), gaddr, akey)
	// 10 no key at all, the proposer's address
	out["hdr-key-absent-proposer-address"] = rawHdr(&gh, gsig, gaddr, nil)
	// 11 the proposer's key in non-canonical envelopes (same key: must still be accepted), and envelopes that
	// only look like it
	out["hdr-genuine-key-unknown-field"] = rawHdr(&gh, gsig, gaddr, protowire.AppendVarint(protowire.AppendTag(append([]byte(nil), gkey...), 9, protowire.VarintType), 7))
	out["hdr-genuine-key-type-wraps-32-bits"] = rawHdr(&gh, gsig, gaddr, pkBytes(uint64(1<<32+1), graw))
	out["hdr-genuine-key-data-first"] = rawHdr(&gh, gsig, gaddr, pkBytes(graw, uint64(1)))
	out["hdr-genuine-key-nonminimal-varint"] = rawHdr(&gh, gsig, gaddr, append([]byte{0x08, 0x81, 0x00, 0x12, 0x20}, graw...))
	f11 := *any
	f11.Header.AppHash = []byte("forged-11")
	out["hdr-key-data-proposer-then-foreign"] = rawHdr(&f11.Header, sign(&f11.Header, advPriv), gaddr, pkBytes(uint64(1), graw, araw))
	out["hdr-key-data-foreign-then-proposer"] = rawHdr(&f11.Header, sign(&f11.Header, advPriv), gaddr, pkBytes(uint64(1), araw, graw))
	out["hdr-key-type-foreign-then-ed25519"] = rawHdr(&gh, gsig, gaddr, pkBytes(uint64(5), uint64(1), graw))
	out["hdr-key-type-ed25519-then-unknown"] = rawHdr(&gh, gsig, gaddr, pkBytes(uint64(1), uint64(5), graw))
	// 12 a key of another type (secp256k1): under the proposer's address, and self-consistently under its own
	sPriv, _ := crypto.UnmarshalSecp256k1PrivateKey(bytes.Repeat([]byte{3}, 32)) // fixed key, RFC 6979 signatures
	sPub := sPriv.GetPublic()
	skey, _ := crypto.MarshalPublicKey(sPub)
	saddr := types.KeyAddress(sPub)
	f12 := *any
	f12.Header.AppHash = []byte("forged-12")
	out["hdr-secp256k1-key-proposer-address"] = rawHdr(&f12.Header, sign(&f12.Header, sPriv), gaddr, skey)
	f12b := *any
	f12b.Header.ProposerAddress = saddr
	out["hdr-secp256k1-self-consistent-foreign"] = rawHdr(&f12b.Header, sign(&f12b.Header, sPriv), saddr, skey)
	// 13 the same for signed data
	var gd *types.SignedData
	if firstDat != nil {
		x := new(types.SignedData)
		if x.UnmarshalBinary(firstDat) == nil {
			gd = x
		}
	}
	if gd != nil {
		out["data-right-key-wrong-address-field"] = rawDat(&gd.Data, gd.Signature, aaddr, gkey)
		out["data-key-absent-proposer-address"] = rawDat(&gd.Data, gd.Signature, gaddr, nil)
		out["data-genuine-key-type-wraps-32-bits"] = rawDat(&gd.Data, gd.Signature, gaddr, pkBytes(uint64(1<<32+1), graw))
		out["data-genuine-key-unknown-field"] = rawDat(&gd.Data, gd.Signature, gaddr, protowire.AppendVarint(protowire.AppendTag(append([]byte(nil), gkey...), 9, protowire.VarintType), 7))
	}
	out["data-key-data-proposer-then-foreign"] = rawDat(&d, sg, gaddr, pkBytes(uint64(1), graw, araw))
	ssg, _ := sPriv.Sign(pl)
	out["data-secp256k1-key-proposer-address"] = rawDat(&d, ssg, gaddr, skey)
	out["data-secp256k1-self-consistent-foreign"] = rawDat(&d, ssg, saddr, skey)
	// wire messages with sub-messages ABSENT (not merely empty): only the header field of a genuine signed header, the
	// same truncated in the middle of nothing, a bare empty header field, a signed data with nothing but a signature
	if full, err := any.MarshalBinary(); err == nil {
		var hdrOnly []byte
		for b := full; len(b) > 0; {
			num, typ, n := protowire.ConsumeTag(b)
			if n < 0 {
				break
			}
			m := protowire.ConsumeFieldValue(num, typ, b[n:])
			if m < 0 {
				break
			}
			if num == 1 {
				hdrOnly = append(hdrOnly, b[:n+m]...)
			}
			b = b[n+m:]
		}
		out["hdr-signer-field-absent"] = hdrOnly
		out["hdr-signer-absent-with-signature"] = protowire.AppendBytes(protowire.AppendTag(append([]byte(nil), hdrOnly...), 2, protowire.BytesType), any.Signature)
	}
	out["hdr-bare-empty-header-field"] = []byte{0x0a, 0x00}
	out["data-only-a-signature"] = protowire.AppendBytes(protowire.AppendTag(nil, 2, protowire.BytesType), sg)
	return out
}

func rawSignedHeader(h *types.Header, sig, addr, key []byte) []byte {
	b, _ := proto.Marshal(&pb.SignedHeader{Header: h.ToProto(), Signature: sig, Signer: &pb.Signer{Address: addr, PubKey: key}})
	return b
}

// p2pVariants: the header of height h as the proposer signed it, and copies nobody or somebody else signed
func (c *chain) p2pVariants(r *hx.Rng, h uint64) map[string][]byte {
	out := map[string][]byte{}
	g := c.shs[h]
	if g == nil {
		return out
	}
	advPriv, advPub := bm.DetKey(2)
	gaddr, aaddr := types.KeyAddress(c.pub), types.KeyAddress(advPub)
	gkey, _ := crypto.MarshalPublicKey(c.pub)
	akey, _ := crypto.MarshalPublicKey(advPub)
	sign := func(hh *types.Header, k crypto.PrivKey) []byte {
		pl, _ := hh.MarshalBinary()
		s, _ := k.Sign(pl)
		return s
	}
	gh := g.Header
	out["a-genuine"] = c.hdr[h]
	out["b-unsigned"] = rawSignedHeader(&gh, nil, gaddr, gkey)
	out["c-garbage-signature"] = rawSignedHeader(&gh, r.Bytes(64), gaddr, gkey)
	out["d-foreign-key-proposer-address"] = rawSignedHeader(&gh, sign(&gh, advPriv), gaddr, akey)
	out["e-right-key-wrong-address-field"] = rawSignedHeader(&gh, g.Signature, aaddr, gkey)
	m := gh
	m.AppHash = r.Bytes(32) // the hash link to the previous header is untouched
	out["f-mutated-old-signature"] = rawSignedHeader(&m, g.Signature, gaddr, gkey)
	out["g-mutated-resigned-foreign-key"] = rawSignedHeader(&m, sign(&m, advPriv), gaddr, akey)
	wp := gh
	wp.ProposerAddress = aaddr
	out["h-foreign-proposer-self-consistent"] = rawSignedHeader(&wp, sign(&wp, advPriv), aaddr, akey)
	out["i-key-absent"] = rawSignedHeader(&gh, g.Signature, gaddr, nil)
	out["j-no-signer-unsigned"] = rawSignedHeader(&gh, nil, nil, nil)
	bl := gh
	bl.LastHeaderHash = r.Bytes(32)
	out["k-unsigned-broken-link"] = rawSignedHeader(&bl, nil, gaddr, gkey)
	cid := gh
	cid.BaseHeader.ChainID = "other-chain"
	out["l-unsigned-wrong-chain"] = rawSignedHeader(&cid, nil, gaddr, gkey)
	return out
}

// p2pAhead: forged headers far ahead of the head, from the future, older than the head
func (c *chain) p2pAhead(r *hx.Rng) map[string][]byte {
	out := map[string][]byte{}
	g := c.shs[c.top]
	advPriv, advPub := bm.DetKey(2)
	gaddr := types.KeyAddress(c.pub)
	gkey, _ := crypto.MarshalPublicKey(c.pub)
	akey, _ := crypto.MarshalPublicKey(advPub)
	f := g.Header
	f.BaseHeader.Height = c.top + 5
	f.BaseHeader.Time += 5_000_000_000
	f.LastHeaderHash = r.Bytes(32)
	out["ahead-unsigned"] = rawSignedHeader(&f, nil, gaddr, gkey)
	pl, _ := f.MarshalBinary()
	sg, _ := advPriv.Sign(pl)
	out["ahead-foreign-key"] = rawSignedHeader(&f, sg, gaddr, akey)
	ft := f
	ft.BaseHeader.Time = 7_258_118_400_000_000_000 // year 2200
	out["ahead-from-the-future"] = rawSignedHeader(&ft, nil, gaddr, gkey)
	fw := f
	fw.BaseHeader.Time = 1 << 63 // wraps to a negative time
	out["ahead-time-wraps"] = rawSignedHeader(&fw, nil, gaddr, gkey)
	fo := f
	fo.BaseHeader.Time = g.Header.BaseHeader.Time - 3_000_000_000
	out["ahead-older-than-head"] = rawSignedHeader(&fo, nil, gaddr, gkey)
	// the same shapes signed by the proposer itself (only the proposer can make these): they pass Validate, so the
	// library's Verify decides - this is what exercises the Verify stage of the model
	psign := func(hh *types.Header) []byte {
		pl, _ := hh.MarshalBinary()
		s, _ := c.priv.Sign(pl)
		return rawSignedHeader(hh, s, gaddr, gkey)
	}
	out["proposer-signed-ahead"] = psign(&f)
	out["proposer-signed-from-the-future"] = psign(&ft)
	out["proposer-signed-time-wraps"] = psign(&fw)
	out["proposer-signed-older-than-head"] = psign(&fo)
	adj := g.Header
	adj.BaseHeader.Height = c.top + 1
	adj.BaseHeader.Time += 1_000_000_000
	adj.LastHeaderHash = g.Hash()
	out["proposer-signed-next"] = psign(&adj)
	adjb := adj
	adjb.LastHeaderHash = r.Bytes(32)
	out["proposer-signed-next-broken-link"] = psign(&adjb)
	adjc := adj
	adjc.BaseHeader.ChainID = "other-chain"
	out["proposer-signed-next-wrong-chain"] = psign(&adjc)
	adjt := adj
	adjt.BaseHeader.Time = g.Header.BaseHeader.Time // equal times are allowed
	out["proposer-signed-next-same-time"] = psign(&adjt)
	return out
}

// dataTimeOK: go-header's "from the future" check uses the wall clock, which the model replaces by a horizon
// (2100-01-01); timestamps between 2025-01-01 and the horizon are not generated
func dataTimeOK(b []byte) bool {
	var d types.Data
	if err := d.UnmarshalBinary(b); err != nil || d.Metadata == nil {
		return true
	}
	t := int64(d.Metadata.Time)
	return t < 1_735_689_600_000_000_000 || t > 4_102_444_800_000_000_000
}

// p2pDataVariants: data items a peer can send (Data carries no signature)
func (c *chain) p2pDataVariants(r *hx.Rng) map[string][]byte {
	out := map[string][]byte{}
	var g types.Data
	if err := g.UnmarshalBinary(c.pdat[c.top]); err != nil || g.Metadata == nil {
		return out
	}
	enc := func(d *types.Data) []byte { b, _ := d.MarshalBinary(); return b }
	out["a-genuine-top"] = c.pdat[c.top]
	out["b-no-metadata-one-tx"] = enc(&types.Data{Txs: types.Txs{types.Tx("x")}})
	out["c-no-metadata-no-tx"] = enc(&types.Data{})
	out["d-empty-message"] = nil
	out["e-raw-0a00"] = []byte{0x0a, 0x00} // metadata present but empty
	md := *g.Metadata
	md.ChainID = "other-chain"
	out["f-wrong-chain"] = enc(&types.Data{Metadata: &md, Txs: g.Txs})
	mb := *g.Metadata
	mb.LastDataHash = r.Bytes(32)
	out["g-broken-link"] = enc(&types.Data{Metadata: &mb, Txs: g.Txs})
	mf := *g.Metadata
	mf.Time = 7_258_118_400_000_000_000
	out["h-from-the-future"] = enc(&types.Data{Metadata: &mf, Txs: g.Txs})
	mw := *g.Metadata
	mw.Time = 1 << 63
	out["i-time-wraps"] = enc(&types.Data{Metadata: &mw, Txs: g.Txs})
	mo := *g.Metadata
	mo.Height = 0
	out["j-height-zero"] = enc(&types.Data{Metadata: &mo, Txs: g.Txs})
	ma := *g.Metadata
	ma.Height += 7
	out["k-far-ahead"] = enc(&types.Data{Metadata: &ma, Txs: types.Txs{types.Tx("forged")}})
	out["l-garbage"] = r.Bytes(40)
	return out
}

func junk(r *hx.Rng, src []byte) []byte {
	b := append([]byte(nil), src...)
	switch r.Intn(8) {
	case 0:
		return nil
	case 1:
		return r.Bytes(1 + r.Intn(60))
	case 2:
		if len(b) > 0 {
			return b[:r.Intn(len(b))]
		}
	case 3:
		if len(b) > 0 {
			b[r.Intn(len(b))] ^= byte(1 << uint(r.Intn(8)))
		}
	case 4: // absurd length field
		b = protowire.AppendTag(b, protowire.Number(1+r.Intn(3)), protowire.BytesType)
		b = protowire.AppendVarint(b, 1<<uint(20+r.Intn(43)))
	case 5: // unknown fields
		b = protowire.AppendTag(b, protowire.Number(20+r.Intn(100)), protowire.VarintType)
		b = protowire.AppendVarint(b, r.U64())
	case 6: // only a signer
		b = protowire.AppendTag(nil, 3, protowire.BytesType)
		b = protowire.AppendBytes(b, r.Bytes(r.Intn(10)))
	default:
		if len(b) > 2 {
			pos := r.Intn(len(b))
			b = append(b[:pos], append(r.Bytes(1+r.Intn(3)), b[pos:]...)...)
		}
	}
	return b
}

// curCP: the signature payload provider of the node the ops being generated are for (set with every reset line)
var curCP bool

func blobArgs(b []byte) string { return blobArgsCP(b, curCP) }

// blobArgsLib: the P2P library entry (go-header's Validate) always verifies the DEFAULT payload
func blobArgsLib(b []byte) string { return blobArgsCP(b, false) }

func blobArgsCP(b []byte, cp bool) string {
	k, h, d, ka := Oracles(b, cp)
	s := fmt.Sprintf("blob=%s keyok=%d hsig=%d dsig=%d", hx.Hex(b), b01(k), b01(h), b01(d))
	if len(ka) > 0 {
		s += " kaddr=" + hx.Hex(ka)
	}
	return s
}

func genStream(r *hx.Rng, tier string, w io.Writer, adversarial bool) {
	nScen, nBlob := 14, 500
	if tier == "thorough" {
		nScen, nBlob = 120, 12000
	}
	// --- the very first blobs this process decodes: a forgery under the proposer's address with a foreign key, THEN the
	// genuine items (decoding must not depend on what was decoded before)
	{
		c0 := buildChain(r, 1, 3)
		fmt.Fprintf(w, "reset ih=1 gt=%d pa=%s start=0\n", baseTime, paHex())
		fg0 := c0.forgeries(r)
		fmt.Fprintf(w, "blob da=1 %s\n", blobArgs(fg0["hdr-foreign-key-proposer-address"]))
		fmt.Fprintf(w, "blob da=1 %s\n", blobArgs(fg0["data-foreign-key-proposer-address"]))
		fmt.Fprintf(w, "place da=1 %s\n", blobArgs(fg0["hdr-foreign-key-proposer-address"]))
		for h := c0.ih; h <= c0.top; h++ {
			fmt.Fprintf(w, "place da=%d %s genuine=h:%d\n", 1+(h%2), blobArgs(c0.hdr[h]), h)
			if b, ok := c0.dat[h]; ok {
				fmt.Fprintf(w, "place da=%d %s genuine=d:%d\n", 1+(h%2), blobArgs(b), h)
			}
		}
		fmt.Fprintln(w, "tick")
		fmt.Fprintf(w, "p2phdr %s\n", blobArgs(c0.hdr[c0.ih]))
	}
	// --- single blobs through handlePotentialHeader / handlePotentialData (malformed stream + forgeries)
	c := buildChain(r, 1, 6)
	fmt.Fprintf(w, "reset ih=1 gt=%d pa=%s start=0\n", baseTime, paHex())
	fg := c.forgeries(r)
	for _, name := range hx.SortedKeys(fg) {
		fmt.Fprintf(w, "blob da=3 %s\n", blobArgs(fg[name]))
	}
	// a header already applied (seen), then copies of it that nobody signed appear on the DA layer
	if adversarial {
		g := c.shs[c.ih+1]
		gb := c.hdr[c.ih+1]
		fmt.Fprintf(w, "seen %s\n", blobArgs(gb))
		u := *g
		u.Signature = r.Bytes(64)
		ub, _ := u.MarshalBinary()
		fmt.Fprintf(w, "blob da=4 %s\n", blobArgs(ub))
		u2 := *g
		u2.Signature = nil
		ub2, _ := u2.MarshalBinary()
		fmt.Fprintf(w, "blob da=4 %s\n", blobArgs(ub2))
		fmt.Fprintf(w, "blob da=5 %s\n", blobArgs(gb))
		// the P2P path: genuine headers and every forgery
		for h := c.ih; h <= c.top; h++ {
			fmt.Fprintf(w, "p2phdr %s\n", blobArgs(c.hdr[h]))
		}
		for _, name := range hx.SortedKeys(fg) {
			fmt.Fprintf(w, "p2phdr %s\n", blobArgs(fg[name]))
		}
		// the P2P library entry (go-header: Validate, then Verify against a trusted header): every height of the
		// genuine chain in genuine and forged variants, against trusted = head, an older header, a later header, none
		fmt.Fprintf(w, "reset ih=1 gt=%d pa=%s start=0\n", baseTime, paHex())
		lib := func(trusted, b []byte) {
			t := "-"
			tk := 0
			if trusted != nil {
				t = hx.Hex(trusted)
				k, _, _, _ := Oracles(trusted, false)
				tk = b01(k)
			}
			fmt.Fprintf(w, "p2plib trusted=%s tkeyok=%d %s\n", t, tk, blobArgsLib(b))
		}
		for h := c.ih; h <= c.top; h++ {
			vs := c.p2pVariants(r, h)
			var trs [][]byte
			if h > c.ih {
				trs = append(trs, c.hdr[h-1])
			}
			if h > c.ih+1 {
				trs = append(trs, c.hdr[h-2])
			}
			if h < c.top {
				trs = append(trs, c.hdr[h+1]) // the received header is already known
			}
			trs = append(trs, nil)
			for _, name := range hx.SortedKeys(vs) {
				for _, tr := range trs {
					lib(tr, vs[name])
				}
			}
		}
		// everything else the grammar produces (built from the top header), against head-1, head-2 and no trusted header
		for _, name := range hx.SortedKeys(fg) {
			lib(c.hdr[c.top-1], fg[name])
			lib(c.hdr[c.top-2], fg[name])
			lib(nil, fg[name])
		}
		// far ahead of the head (Verify skips the hash link for non-adjacent heights), from the future, before the head
		ah := c.p2pAhead(r)
		for _, name := range hx.SortedKeys(ah) {
			lib(c.hdr[c.top], ah[name])
			lib(c.hdr[c.top-1], ah[name])
		}
		// a trusted header that does not decode, an empty message
		fmt.Fprintf(w, "p2plib trusted=ffff tkeyok=0 %s\n", blobArgsLib(c.hdr[c.top]))
		lib(c.hdr[c.top-1], nil)
		// the real sync service restarted on a store whose head is hours / weeks old (stale.go)
		genStale(r, tier, w, c)
		// the FIRST header of the P2P store (no trusted hash): whatever a peer answers for the initial height
		for h := c.ih; h <= c.ih+1; h++ {
			vs := c.p2pVariants(r, h)
			for _, name := range hx.SortedKeys(vs) {
				fmt.Fprintf(w, "p2pboot %s\n", blobArgsLib(vs[name]))
			}
		}
		for _, name := range hx.SortedKeys(fg) {
			fmt.Fprintf(w, "p2pboot %s\n", blobArgsLib(fg[name]))
		}
		fmt.Fprintf(w, "p2pboot %s\n", blobArgsLib(nil))
		// ... and of the P2P data store
		dvb := c.p2pDataVariants(r)
		for _, name := range hx.SortedKeys(dvb) {
			fmt.Fprintf(w, "p2pbootdat blob=%s\n", hx.Hex(dvb[name]))
		}
		fmt.Fprintf(w, "p2pbootdat blob=%s\n", hx.Hex(c.pdat[c.ih]))
		// P2P data items through the library entry
		libd := func(trusted, b []byte) {
			t := "-"
			if trusted != nil {
				t = hx.Hex(trusted)
			}
			fmt.Fprintf(w, "p2plibdat trusted=%s blob=%s\n", t, hx.Hex(b))
		}
		dv := c.p2pDataVariants(r)
		for h := c.ih; h <= c.top; h++ {
			if c.pdat[h] == nil {
				continue
			}
			var trs [][]byte
			if h > c.ih && c.pdat[h-1] != nil {
				trs = append(trs, c.pdat[h-1])
			}
			if h > c.ih+1 && c.pdat[h-2] != nil {
				trs = append(trs, c.pdat[h-2])
			}
			if h < c.top && c.pdat[h+1] != nil {
				trs = append(trs, c.pdat[h+1])
			}
			trs = append(trs, nil)
			for _, tr := range trs {
				libd(tr, c.pdat[h])
			}
		}
		for _, name := range hx.SortedKeys(dv) {
			libd(c.pdat[c.top-1], dv[name])
			libd(nil, dv[name])
		}
		libd([]byte{0x12, 0x01, 0x78}, c.pdat[c.top]) // a trusted item without metadata: bad-trusted
		nj := 150
		if tier == "thorough" {
			nj = 3000
		}
		for i := 0; i < nj; i++ {
			b := junk(r, c.pdat[c.ih+uint64(r.Intn(int(c.top-c.ih+1)))])
			if r.Chance(30) {
				b = junk(r, b)
			}
			if !dataTimeOK(b) || len(b) > 4000 {
				continue
			}
			if r.Bool() {
				libd(c.pdat[c.ih], b)
			} else {
				libd(nil, b)
			}
		}
	}
	var srcs [][]byte
	for h := c.ih; h <= c.top; h++ {
		srcs = append(srcs, c.hdr[h])
		if b, ok := c.dat[h]; ok {
			srcs = append(srcs, b)
		}
	}
	for _, name := range hx.SortedKeys(fg) {
		srcs = append(srcs, fg[name])
	}
	for i := 0; i < nBlob; i++ {
		if i%100 == 99 {
			fmt.Fprintf(w, "reset ih=1 gt=%d pa=%s start=0\n", baseTime, paHex())
		}
		src := srcs[r.Intn(len(srcs))]
		var b []byte
		switch {
		case r.Chance(25):
			b = src // genuine or forged, unchanged
		case r.Chance(30):
			b = junk(r, junk(r, src))
		default:
			b = junk(r, src)
		}
		if len(b) > 4000 {
			continue
		}
		fmt.Fprintf(w, "blob da=%d %s\n", 1+r.Intn(9), blobArgs(b))
	}
	// --- a chain with a custom signature payload provider through the direct handlers and the P2P header store path:
	// genuine headers (signed over the custom payload) are accepted, the same headers signed over the DEFAULT payload and
	// every other forgery are rejected
	{
		cc := buildChainCP(r, 1, 4, true)
		curCP = true
		fmt.Fprintf(w, "reset ih=1 gt=%d pa=%s start=0 cp=1\n", baseTime, paHex())
		fgc := cc.forgeries(r)
		for h := cc.ih; h <= cc.top; h++ {
			fmt.Fprintf(w, "blob da=2 %s\n", blobArgs(cc.hdr[h]))
			if b, ok := cc.dat[h]; ok {
				fmt.Fprintf(w, "blob da=2 %s\n", blobArgs(b))
			}
		}
		for _, name := range hx.SortedKeys(fgc) {
			fmt.Fprintf(w, "blob da=3 %s\n", blobArgs(fgc[name]))
		}
		for h := cc.ih; h <= cc.top; h++ {
			fmt.Fprintf(w, "p2phdr %s\n", blobArgs(cc.hdr[h]))
		}
		for _, name := range hx.SortedKeys(fgc) {
			fmt.Fprintf(w, "p2phdr %s\n", blobArgs(fgc[name]))
		}
		if adversarial {
			// the P2P LIBRARY entry verifies the default payload (documented caveat since /repo 35dfc53): it rejects the
			// genuine headers of this chain, and accepts the proposer-signed default-payload copy
			for h := cc.ih + 1; h <= cc.top; h++ {
				fmt.Fprintf(w, "p2plib trusted=%s tkeyok=1 %s\n", hx.Hex(cc.hdr[h-1]), blobArgsLib(cc.hdr[h]))
			}
			fmt.Fprintf(w, "p2plib trusted=- tkeyok=0 %s\n", blobArgsLib(fgc["hdr-proposer-key-other-payload"]))
		}
		curCP = false
	}
	// --- the real RetrieveLoop over scripted DA contents and fetch outcomes
	for s := 0; s < nScen; s++ {
		ih := uint64(1)
		if r.Chance(20) {
			ih = 3
		}
		// every fourth scenario: a chain (and a node) with a non-default signature payload provider
		cp := s%4 == 2
		c := buildChainCP(r, ih, 3+r.Intn(6), cp)
		start := uint64(r.Intn(3))
		curCP = cp
		fmt.Fprintf(w, "reset ih=%d gt=%d pa=%s start=%d cp=%d\n", ih, baseTime, paHex(), start, b01(cp))
		fg := c.forgeries(r)
		names := hx.SortedKeys(fg)
		maxDA := uint64(2 + r.Intn(8))
		place := func(da uint64, b []byte, genuine string) {
			g := ""
			if genuine != "" {
				g = " genuine=" + genuine
			}
			fmt.Fprintf(w, "place da=%d %s%s\n", da, blobArgs(b), g)
		}
		// third-party flood (C03: third-party material must not keep the node from following the proposer's chain):
		// 120 / 230 junk and forged blobs IN FRONT of the proposer's blobs, at one DA height or at several
		var floodAt []uint64
		if (adversarial && s%3 == 0) || (!adversarial && s%7 == 2) {
			nf := 1
			if s%2 == 0 {
				nf = 2 + r.Intn(2)
			}
			for k := 0; k < nf; k++ {
				da := start + uint64(r.Intn(int(maxDA)))
				floodAt = append(floodAt, da)
				n := []int{120, 230}[r.Intn(2)]
				for j := 0; j < n; j++ {
					if j%40 == 7 {
						nm := names[r.Intn(len(names))]
						if nm != "data-foreign-key-no-metadata" {
							place(da, fg[nm], "")
							continue
						}
					}
					place(da, []byte{0xf0, byte(j), byte(j >> 8), byte(k)}, "")
				}
			}
		}
		pick := func() uint64 {
			if len(floodAt) > 0 && r.Chance(60) {
				return floodAt[r.Intn(len(floodAt))]
			}
			return start + uint64(r.Intn(int(maxDA)))
		}
		// genuine blobs at random DA heights (many per height, out of height order)
		for h := c.ih; h <= c.top; h++ {
			place(pick(), c.hdr[h], fmt.Sprintf("h:%d", h))
			if b, ok := c.dat[h]; ok {
				place(pick(), b, fmt.Sprintf("d:%d", h))
			}
			if r.Chance(15) { // duplicates
				place(pick(), c.hdr[h], fmt.Sprintf("h:%d", h))
			}
		}
		nj := r.Intn(6)
		if adversarial {
			nj += 4
		}
		for j := 0; j < nj; j++ {
			da := start + uint64(r.Intn(int(maxDA)))
			if r.Chance(50) {
				n := names[r.Intn(len(names))]
				if n == "data-foreign-key-no-metadata" {
					continue // crashes the scanning goroutine on the unchanged tree (recorded finding): single-blob ops only
				}
				place(da, fg[n], "")
			} else {
				src := c.hdr[c.ih]
				b := junk(r, src)
				if len(b) > 0 {
					var sd types.SignedData
					if err := sd.UnmarshalBinary(b); err == nil && sd.Metadata == nil && len(sd.Txs) > 0 {
						continue
					}
				}
				place(da, b, "")
			}
		}
		if s < 3 {
			// chunked fetch with a failing chunk that is not the last one, and genuine blobs inside the failing chunk:
			// the height must be fetched again until every chunk came back, and the genuine blobs must reach the sync loop
			da := start + maxDA + 2 + uint64(s)
			gh := c.ih + uint64(r.Intn(int(c.top-c.ih+1)))
			pre := []int{0, 100, 130}[s] // junk in front: the genuine blobs sit in chunk 0 / 1 / 1
			for j := 0; j < pre; j++ {
				place(da, []byte{byte(j), 0xfe, byte(j >> 3)}, "")
			}
			place(da, c.hdr[gh], fmt.Sprintf("h:%d", gh))
			if b, ok := c.dat[gh]; ok {
				place(da, b, fmt.Sprintf("d:%d", gh))
			}
			for j := 0; j < 260-pre; j++ {
				place(da, []byte{byte(j), 0xfd, byte(j >> 3)}, "")
			}
			failing := []int{0, 1, 1}[s]
			fmt.Fprintf(w, "script da=%d outcomes=errget:%d,errget:%d\n", da, failing, failing)
			for k := start + maxDA; k < da; k++ { // nothing in between
				_ = k
			}
		}
		if s%5 == 0 { // more than 100 blobs at one height: chunked fetch
			da := start + uint64(r.Intn(int(maxDA)))
			for j := 0; j < 230; j++ {
				place(da, []byte{byte(j), 0xff, byte(j >> 3)}, "")
			}
			if r.Bool() {
				fmt.Fprintf(w, "script da=%d outcomes=errget:%d,errget:1\n", da, r.Intn(3))
			}
		}
		// fetch outcome scripts
		for da := start; da < start+maxDA+1; da++ {
			if !r.Chance(45) {
				continue
			}
			var outs []string
			for k := 0; k <= r.Intn(3); k++ {
				outs = append(outs, []string{"errids", "errget:0", "future", "notfound", "ok", "errids", "notfoundtext", "futuretext", "errgettext:0"}[r.Intn(9)])
			}
			if s%7 == 3 && da == start+1 {
				outs = strings.Split(strings.TrimSuffix(strings.Repeat("errids,", 11), ","), ",") // a whole pass fails
			}
			if s%4 == 1 && da == start {
				// a proxied DA answers every listing of an empty height with a text-only "not found"
				outs = strings.Split(strings.TrimSuffix(strings.Repeat("notfoundtext,", 12), ","), ",")
			}
			fmt.Fprintf(w, "script da=%d outcomes=%s\n", da, strings.Join(outs, ","))
		}
		nt := 5
		if s < 3 {
			nt = 9
		}
		for t := 0; t < nt; t++ {
			fmt.Fprintln(w, "tick")
		}
	}
}

func GenC09(r *hx.Rng, tier string, w io.Writer) {
	genStream(r, tier, w, false)
	curCP = false
	// back-pressure: more genuine blobs at one height than the hand-off channel can hold
	c := buildChain(r, 1, 2)
	fmt.Fprintf(w, "reset ih=1 gt=%d pa=%s start=0\n", baseTime, paHex())
	fmt.Fprintf(w, "flood da=0 n=10060 %s\n", blobArgs(c.hdr[c.ih]))
}
func GenC03(r *hx.Rng, tier string, w io.Writer) {
	curCP = false
	genStream(r, tier, w, true)
	curCP = false
}

func init() {
	hx.Register("C09", hx.Stream{Gen: GenC09, Run: Run})
	hx.Register("C03", hx.Stream{Gen: GenC03, Run: Run})
}
