package retr

// Op p2pstale (C03): the REAL HeaderSyncService (pkg/sync) of a node that comes back with a P2P header store whose
// head - a genuine header of the genesis proposer - is `age` hours old, started end to end (Start: subscriber, store,
// exchange server, exchange, go-header Syncer) on a libp2p mocknet inside this process. Its only peer is a go-header
// ExchangeServer whose store head is the offered header (one above the node's head). What the node's store holds
// afterwards is read from the service's own store (the one its ExchangeServer serves to light clients).
//
// The op line carries TEMPLATE blobs with header times relative to the op's `now`; go-header reads the wall clock
// (isExpired, isRecent, the "from the future" check), so both headers are re-timed by (time.Now() - now) and re-signed
// with the key they were signed with (the proposer's for the head; the offered one keeps its kind: signed by the key it
// carries, or not signed). All time DIFFERENCES the decision depends on are those of the op line; nothing is slept.

import (
	"bytes"
	"context"
	"fmt"
	"io"
	"os"
	"time"

	goheaderp2p "github.com/celestiaorg/go-header/p2p"
	goheaderstore "github.com/celestiaorg/go-header/store"
	goheadersync "github.com/celestiaorg/go-header/sync"
	ds "github.com/ipfs/go-datastore"
	dssync "github.com/ipfs/go-datastore/sync"
	logging "github.com/ipfs/go-log/v2"
	"github.com/libp2p/go-libp2p/core/crypto"
	mocknet "github.com/libp2p/go-libp2p/p2p/net/mock"
	"github.com/multiformats/go-multiaddr"

	"verifharness/bm"
	"verifharness/hx"

	"github.com/evstack/ev-node/pkg/config"
	"github.com/evstack/ev-node/pkg/p2p"
	"github.com/evstack/ev-node/pkg/p2p/key"
	evsync "github.com/evstack/ev-node/pkg/sync"
	"github.com/evstack/ev-node/types"
)

// ConfiguredTrustingPeriodHours: the trusting period the NODE is to configure for the go-header syncer (since /repo
// 700919b pkg/sync/sync_service.go passes goheadersync.WithTrustingPeriod(headTrustingPeriod), 100*365*24 h: the stored
// head never stops being the anchor of verification). It is written into every op line (tp=) so that the Lean driver
// runs the model with it; it is NOT read from the node: the real service is held to it by behaviour - for every
// generated age below it (up to ~91 years) a foreign head must be refused, so any shorter configured period (the
// library default of 336 h before the fix, a "tuned" 24 h) shows up as a monitor violation AND a correspondence diff.
const ConfiguredTrustingPeriodHours = 100 * 365 * 24

// OldLibraryDefaultHours: go-header's default as the LINKED library states it (336 h in v0.6.6): what the tree ran with
// before /repo 700919b. Only used to choose ages on both sides of it.
var OldLibraryDefaultHours = uint64(goheadersync.DefaultParameters().TrustingPeriod / time.Hour)

// retime shifts the header's time by delta, fixes the hash link to `link` when the template linked to `oldLink`, and
// re-signs with the key the header carries when the template's signature verified under that key (keys known to the
// harness: DetKey(1) the proposer, DetKey(2) the third party).
func retime(sh *types.SignedHeader, delta time.Duration, oldLink, link []byte) error {
	signedBy := crypto.PrivKey(nil)
	if sh.Signer.PubKey != nil && len(sh.Signature) > 0 {
		if pl, err := sh.Header.MarshalBinary(); err == nil {
			if ok, _ := sh.Signer.PubKey.Verify(pl, sh.Signature); ok {
				for _, seed := range []byte{1, 2} {
					priv, pub := bm.DetKey(seed)
					if pub.Equals(sh.Signer.PubKey) {
						signedBy = priv
					}
				}
				if signedBy == nil {
					return fmt.Errorf("template signed with a key the harness does not hold")
				}
			}
		}
	}
	sh.BaseHeader.Time = uint64(int64(sh.BaseHeader.Time) + int64(delta))
	if oldLink != nil && bytes.Equal(sh.LastHeaderHash, oldLink) {
		sh.LastHeaderHash = link
	}
	if signedBy != nil {
		pl, err := sh.Header.MarshalBinary()
		if err != nil {
			return err
		}
		sig, err := signedBy.Sign(pl)
		if err != nil {
			return err
		}
		sh.Signature = sig
	}
	return nil
}

// runStale returns the head of the node's P2P header store after Start and every header stored above the genuine head.
func (w *World) runStale(head, offered *types.SignedHeader) (*types.SignedHeader, []*types.SignedHeader, error) {
	ctx, cancel := context.WithTimeout(context.Background(), 20*time.Second)
	defer cancel()
	if os.Getenv("C03_STALE_LOG") == "" { logging.SetAllLoggers(logging.LevelFatal) } else { logging.SetAllLoggers(logging.LevelDebug) } // go-header reports the failed requests of this scenario on stderr
	chainID := w.env.Gen.ChainID

	mn := mocknet.New()
	defer func() { _ = mn.Close() }()
	nodePriv, nodePub := bm.DetKey(3)
	nodeKey := &key.NodeKey{PrivKey: nodePriv, PubKey: nodePub}
	nodeHost, err := mn.AddPeer(nodePriv, multiaddr.StringCast("/ip4/10.0.0.1/tcp/7676"))
	if err != nil {
		return nil, nil, err
	}
	peerPriv, _ := bm.DetKey(4)
	peerHost, err := mn.AddPeer(peerPriv, multiaddr.StringCast("/ip4/10.0.0.2/tcp/7676"))
	if err != nil {
		return nil, nil, err
	}
	if err := mn.LinkAll(); err != nil {
		return nil, nil, err
	}
	if err := mn.ConnectAllButSelf(); err != nil {
		return nil, nil, err
	}
	// the peer: an exchange server over a store whose head is the offered header
	peerStore, err := goheaderstore.NewStore[*types.SignedHeader](dssync.MutexWrap(ds.NewMapDatastore()))
	if err != nil {
		return nil, nil, err
	}
	if err := peerStore.Start(ctx); err != nil {
		return nil, nil, err
	}
	defer func() { _ = peerStore.Stop(context.Background()) }()
	if err := peerStore.Init(ctx, offered); err != nil {
		return nil, nil, err
	}
	srv, err := goheaderp2p.NewExchangeServer[*types.SignedHeader](peerHost, peerStore,
		goheaderp2p.WithNetworkID[goheaderp2p.ServerParameters](chainID+"-headerSync"))
	if err != nil {
		return nil, nil, err
	}
	if err := srv.Start(ctx); err != nil {
		return nil, nil, err
	}
	defer func() { _ = srv.Stop(context.Background()) }()

	conf := config.DefaultConfig
	conf.RootDir = "/nonexistent-verif-c03" // only required to be non-empty; nothing is read or written there
	conf.ChainID = chainID
	conf.P2P.Peers = peerHost.Addrs()[0].String() + "/p2p/" + peerHost.ID().String()
	kv := dssync.MutexWrap(ds.NewMapDatastore())
	logger := logging.Logger("verif-c03")
	client, err := p2p.NewClientWithHost(conf, nodeKey, kv, logger, p2p.NopMetrics(), nodeHost)
	if err != nil {
		return nil, nil, err
	}
	if err := client.Start(ctx); err != nil {
		return nil, nil, err
	}
	defer func() { _ = client.Close() }()
	svc, err := evsync.NewHeaderSyncService(kv, conf, w.env.Gen, client, logger)
	if err != nil {
		return nil, nil, err
	}
	// the node's earlier run left this head (Init is what initStoreAndStartSyncer did then)
	if err := svc.Store().Init(ctx, head); err != nil {
		return nil, nil, err
	}
	// Start ends with "failed to fetch the genesis" (the peer has no header of the initial height); the syncer has been
	// started by then (prepareSyncer -> StartSyncer -> Syncer.Start -> Head, synchronously)
	_ = svc.Start(ctx)
	defer func() { _ = svc.Stop(context.Background()) }()

	// everything that decides is synchronous in Start; a short grace for the sync loop, ended early when the head moved
	var cur *types.SignedHeader
	for i := 0; i < 12; i++ {
		cur, err = svc.Store().Head(ctx)
		if err != nil {
			return nil, nil, err
		}
		if cur.Height() > head.Height() {
			break
		}
		time.Sleep(25 * time.Millisecond)
	}
	var above []*types.SignedHeader
	for h := head.Height() + 1; h <= cur.Height(); h++ {
		x, err := svc.Store().GetByHeight(ctx, h)
		if err != nil {
			return nil, nil, err
		}
		above = append(above, x)
	}
	return cur, above, nil
}

func (w *World) opStale(c *hx.Ctx, o hx.Op) {
	age, okA := o.U64("age")
	tp, okT := o.U64("tp")
	now := o.I64("now")
	head, offered := new(types.SignedHeader), new(types.SignedHeader)
	if !okA || !okT || now == 0 || head.UnmarshalBinary(o.Bytes("head")) != nil {
		c.Emit("bad-op")
		return
	}
	if err := offered.UnmarshalBinary(o.Bytes("blob")); err != nil {
		c.Emit("p2pstale undecodable") // the exchange drops an answer that does not decode
		return
	}
	oldHash := []byte(head.Hash())
	delta := time.Duration(time.Now().UnixNano() - now)
	if err := retime(head, delta, nil, nil); err != nil {
		c.Emit("bad-op")
		return
	}
	if err := retime(offered, delta, oldHash, head.Hash()); err != nil {
		c.Emit("bad-op")
		return
	}
	if w.storedKind(head) != "" || string(head.ProposerAddress) != string(w.env.Gen.ProposerAddress) {
		c.Emit("bad-op") // the scenario starts from a store that satisfies the property
		return
	}
	// the oracle answers the model was given are those of the template; they must hold for the re-timed item too
	ob, _ := offered.MarshalBinary()
	k, hs, _, _ := Oracles(ob, false)
	if b01(k) != o.Int("keyok") || b01(hs) != o.Int("hsig") {
		c.Emit("p2pstale inconsistent-oracle")
		return
	}
	var cur *types.SignedHeader
	var above []*types.SignedHeader
	var err error
	func() {
		defer func() {
			if r := recover(); r != nil {
				err = fmt.Errorf("panic: %v", r)
				c.Report("C03/panic/p2p-sync-service-stale-head", fmt.Sprint(r))
			}
		}()
		cur, above, err = w.runStale(head, offered)
	}()
	if err != nil {
		c.Emit("p2pstale harness-error %v", err)
		return
	}
	verdict := "kept"
	if cur.Height() > head.Height() {
		verdict = "adopted"
	}
	c.Emit("p2pstale head=%d %s", cur.Height(), verdict)
	c.Hit("p2pstale-" + verdict)
	// C03: every header in the store the node serves to light clients must be signed with the genesis proposer's key
	for _, x := range above {
		kind := w.storedKind(x)
		if kind == "" && string(x.ProposerAddress) == string(w.env.Gen.ProposerAddress) {
			continue
		}
		what := fmt.Sprintf("head of the P2P header store was the proposer's header %d, %d h old; a peer answered the head request with header %d "+
			"(proposer address %s, %s); the node stored it and serves it", head.Height(), age, x.Height(), short(x.ProposerAddress), kindOr(kind, "signed by the key it carries"))
		switch {
		case string(x.ProposerAddress) == string(w.env.Gen.ProposerAddress):
			// names the proposer but does not carry the proposer's signature: Validate() would have rejected it
			c.Report("C03/p2p-store/head-answer-stored-without-validate/"+kind, what)
		case age > tp:
			// by the letter only: the head is older than the period the node configures (100 years); not generated
			c.Report("C03/p2p-store/foreign-head-adopted-after-trusting-period", what)
		default:
			c.Report("C03/p2p-store/foreign-head-adopted-within-trusting-period", what)
		}
	}
}

func kindOr(k, d string) string {
	if k == "" {
		return d
	}
	return k
}

// staleNow: the op lines' clock (the run re-times the headers to the wall clock)
const staleNow = baseTime + int64(1000*24*time.Hour)

// staleOffers: what the peer calls the head - header n+1 linked to the node's head, in the kinds that matter here
func staleOffers(c *chain, head *types.SignedHeader) map[string][]byte {
	advPriv, advPub := bm.DetKey(2)
	gaddr, aaddr := types.KeyAddress(c.pub), types.KeyAddress(advPub)
	gkey, _ := crypto.MarshalPublicKey(c.pub)
	akey, _ := crypto.MarshalPublicKey(advPub)
	sign := func(hh *types.Header, k crypto.PrivKey) []byte {
		pl, _ := hh.MarshalBinary()
		s, _ := k.Sign(pl)
		return s
	}
	nh := c.shs[head.Height()+1].Header
	nh.BaseHeader.Time = uint64(staleNow - int64(time.Second))
	nh.LastHeaderHash = head.Hash()
	out := map[string][]byte{}
	out["a-genuine"] = rawSignedHeader(&nh, sign(&nh, c.priv), gaddr, gkey)
	fp := nh
	fp.ProposerAddress = aaddr
	fp.ValidatorHash = aaddr
	out["b-selfsigned-foreign-proposer"] = rawSignedHeader(&fp, sign(&fp, advPriv), aaddr, akey)
	out["c-unsigned-naming-proposer"] = rawSignedHeader(&nh, nil, gaddr, gkey)
	out["d-foreign-key-proposer-address"] = rawSignedHeader(&nh, sign(&nh, advPriv), gaddr, akey)
	return out
}

// genStale writes p2pstale ops: ages on both sides of the library's trusting period, every kind of offer
func genStale(r *hx.Rng, tier string, w io.Writer, c *chain) {
	n := c.ih + 1
	g := c.shs[n]
	if g == nil || c.shs[n+1] == nil {
		return
	}
	gaddr := types.KeyAddress(c.pub)
	gkey, _ := crypto.MarshalPublicKey(c.pub)
	line := func(age int64, kind string) {
		hh := g.Header
		hh.BaseHeader.Time = uint64(staleNow - age*int64(time.Hour))
		pl, _ := hh.MarshalBinary()
		sig, _ := c.priv.Sign(pl)
		hb := rawSignedHeader(&hh, sig, gaddr, gkey)
		head := new(types.SignedHeader)
		if head.UnmarshalBinary(hb) != nil {
			return
		}
		fmt.Fprintf(w, "p2pstale age=%d tp=%d now=%d head=%s tkeyok=1 %s\n", age, uint64(ConfiguredTrustingPeriodHours), staleNow, hx.Hex(hb), blobArgsLib(staleOffers(c, head)[kind]))
	}
	// fixed part: the former finding (head older than the library's default period), its neighbours, what a shortened
	// period would change, and ages far beyond anything a shorter configured period could cover (800000 h = 91 years:
	// the head's time is before 1970, a negative Unix time)
	line(400, "b-selfsigned-foreign-proposer")
	line(25, "b-selfsigned-foreign-proposer")
	line(300, "b-selfsigned-foreign-proposer")
	line(1, "b-selfsigned-foreign-proposer")
	line(20000, "b-selfsigned-foreign-proposer")
	line(800000, "b-selfsigned-foreign-proposer")
	line(25, "a-genuine")
	line(20000, "a-genuine")
	line(400, "c-unsigned-naming-proposer")
	extra := 2
	if tier == "thorough" {
		extra = 14
	}
	kinds := []string{"a-genuine", "b-selfsigned-foreign-proposer", "c-unsigned-naming-proposer", "d-foreign-key-proposer-address"}
	ages := []int64{1, 2, 12, 23, 25, 48, 100, 167, 169, 300, 335, 337, 400, 1000, 5000, 20000, 100000, 800000}
	for i := 0; i < extra; i++ {
		line(ages[r.Intn(len(ages))], kinds[r.Intn(len(kinds))])
	}
}
