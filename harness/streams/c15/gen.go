package c15

import (
	"fmt"
	"io"

	"verifharness/hx"
)

// ---------------------------------------------------------------- generator
//
// Mostly well-formed blocks over a small key alphabet (so that keys are overwritten and the
// normalisation of ds.NewKey is exercised), a separate supply of malformed transactions, and
// b-only operations interleaved.  SetFinal is exercised in four scenarios out of five (often before the
// first execution: the timing that used to separate the two instances until /repo 511b618); every
// fifth scenario never finalizes.

var wsPool = []string{"", "", "", " ", "\t", "\n", " \r\n", "\v\f", "\u00a0", "\u0085", "\u1680", "\u2000", "\u2003", "\u200a", "\u2028", "\u2029", "\u202f", "\u205f", "\u3000", " \u00a0\t"}

var keyPool = []string{
	"a", "b", "c", "x", "y", "/a", "a/b", "a//b", "./a", "a/./b", "a/../b", "../a", "a/", "/a/b/", "//x",
	"finalizedHeightX", "/finalizedHeight/x", "FinalizedHeight", "finalizedheight", "finalized", "genesis", "genesis/x", "genesis/initializedX",
	"Genesis/initialized", "genesis/initialized/x", "genesis/stateroot2", "a b", "a:b", "k;", "k:1;", ".", "..", "/", "...", "a/..",
	"\xe2\x80", "\xc2", "\xa0", "k\xe2\x80", "\xffk", "\u00e9", "\u200bz", "\u180ez",
}

var valPool = []string{"", "1", "2", "v", "a=b", "=", "x:y;", "in ner", ":", ";", "/a:1;", "\xe2\x80", "\xa0\xc2", "true"}

var badPool = []string{
	"", "novalue", "=", "=v", " =v", "\u00a0=v", "\t \n=1", "\u3000\u2003 = x",
	"genesis/initialized=1", "/genesis/stateroot=zz", " genesis//initialized =1", "genesis/./stateroot=",
	"a/../genesis/initialized=1", "/genesis/initialized/=x", "genesis/x/../stateroot=1", "\u2028/genesis/stateroot\u0085=q",
	"\t\n", "k", "key:value", "\xff\xfe", "a;b",
	"finalizedHeight=1", "/finalizedHeight=", "finalizedHeight/ = 12", "x/../finalizedHeight=7", "\u2003./finalizedHeight\u00a0=\u3000n",
}

type gen struct {
	r   *hx.Rng
	w   io.Writer
	ctr int
}

func (g *gen) pick(p []string) string { return p[g.r.Intn(len(p))] }

func (g *gen) emit(f string, a ...any) { fmt.Fprintf(g.w, f+"\n", a...) }

func (g *gen) key() string {
	if g.r.Chance(12) {
		b := g.r.Bytes(1 + g.r.Intn(3))
		for i := range b {
			if b[i] == '=' {
				b[i] = 'e'
			}
		}
		return string(b)
	}
	return g.pick(keyPool)
}

func (g *gen) val() string {
	switch {
	case g.r.Chance(50):
		g.ctr++
		return fmt.Sprintf("n%d", g.ctr) // fresh value: every committed write is visible in the root
	case g.r.Chance(15):
		return string(g.r.Bytes(g.r.Intn(5)))
	case g.r.Chance(5):
		return string(g.r.Bytes(60 + g.r.Intn(80)))
	}
	return g.pick(valPool)
}

func (g *gen) goodTx() []byte {
	// keys whose trimmed form is empty or reserved (genesis keys, finalizedHeight) are not in keyPool
	// (they are in badPool); random keys may trim to "" -
	// such a transaction is then simply a malformed one (the run side classifies, not the generator)
	return []byte(g.pick(wsPool) + g.key() + g.pick(wsPool) + "=" + g.pick(wsPool) + g.val() + g.pick(wsPool))
}

func (g *gen) badTx() []byte {
	if g.r.Chance(15) {
		b := g.r.Bytes(g.r.Intn(6))
		for i := range b {
			if b[i] == '=' {
				b[i] = '-'
			}
		}
		return b
	}
	return []byte(g.pick(badPool))
}

func (g *gen) block(n int, bad bool) [][]byte {
	txs := make([][]byte, 0, n+1)
	for i := 0; i < n; i++ {
		txs = append(txs, g.goodTx())
	}
	if bad {
		pos := len(txs) // most often last: everything before it is staged already
		if g.r.Chance(40) {
			pos = g.r.Intn(len(txs) + 1)
		}
		txs = append(txs, nil)
		copy(txs[pos+1:], txs[pos:])
		txs[pos] = g.badTx()
	}
	return txs
}

func (g *gen) blockSize() int {
	switch {
	case g.r.Chance(8):
		return 0
	case g.r.Chance(5):
		return 20 + g.r.Intn(30)
	case g.r.Chance(1):
		return 250 + g.r.Intn(400)
	}
	return 1 + g.r.Intn(5)
}

func (g *gen) exec(bad bool) { g.emit("exec txs=%s", hx.HexList(g.block(g.blockSize(), bad))) }

func (g *gen) getKey() string {
	if g.r.Chance(30) {
		return g.pick([]string{"/genesis/initialized", "/genesis/stateroot", "genesis//stateroot", "/finalizedHeight", "finalizedHeight", "", "/"})
	}
	return g.pick(wsPool[:5]) + g.key()
}

func (g *gen) final() {
	switch {
	case g.r.Chance(10):
		g.emit("final h=0")
	case g.r.Chance(6):
		g.emit("final h=%s", g.pick([]string{"18446744073709551615", "4294967296", "1000000", "1203"}))
	default:
		g.emit("final h=%d", 1+g.r.Intn(12))
	}
}

func (g *gen) scenario(nops int, noFinal bool, badPct int) {
	g.emit("reset")
	if !noFinal && g.r.Chance(25) {
		g.final() // before genesis
	}
	if g.r.Chance(70) {
		g.emit("init")
	}
	if !noFinal && g.r.Chance(35) {
		g.final() // before the first execution
	}
	for i := 0; i < nops; i++ {
		k := g.r.Intn(100)
		switch {
		case k < 40:
			g.exec(g.r.Chance(badPct))
		case k < 47:
			g.exec(g.r.Chance(badPct))
			if !noFinal && g.r.Chance(30) {
				g.final() // finalize between execution and re-execution
			}
			g.emit("reexec")
		case k < 61:
			if noFinal {
				g.exec(false)
			} else {
				g.final()
			}
		case k < 69:
			g.emit("inject tx=%s", hx.Hex(g.goodTx()))
		case k < 74:
			g.emit("gettxs")
		case k < 83:
			g.emit("init")
		case k < 90:
			g.emit("reopen")
		default:
			g.emit("get key=%s", hx.Hex([]byte(g.getKey())))
		}
	}
}

func genC15(r *hx.Rng, tier string, w io.Writer) {
	g := &gen{r: r, w: w}
	// ---- deliberate inputs (deterministic; printed on every run)
	// the defect repaired by /repo 511b618, minimal: same executed txs, finalize before execution on b only
	g.emit("reset")
	g.emit("final h=1")
	g.emit("exec txs=%s", hx.HexList([][]byte{[]byte("x=1")}))
	// finalize after execution; the finalized height is a reserved entry: readable, not writable by a
	// transaction (whatever the spelling, wherever in the block), kept over reopen, never in the root
	g.emit("reset")
	g.emit("init")
	g.emit("exec txs=%s", hx.HexList([][]byte{[]byte("x=1")}))
	g.emit("final h=7")
	g.emit("get key=%s", hx.Hex([]byte("finalizedHeight")))
	g.emit("exec txs=%s", hx.HexList([][]byte{[]byte("finalizedHeight=7")}))
	g.emit("exec txs=%s", hx.HexList([][]byte{[]byte("y=2"), []byte("\u2003./finalizedHeight/ = 3")}))
	g.emit("reexec")
	g.emit("get key=%s", hx.Hex([]byte("/finalizedHeight")))
	g.emit("get key=%s", hx.Hex([]byte("y")))
	g.emit("final h=18446744073709551615")
	g.emit("reopen")
	g.emit("get key=%s", hx.Hex([]byte("/finalizedHeight")))
	g.emit("exec txs=%s", hx.HexList([][]byte{[]byte("finalizedHeight/x=7"), []byte("FinalizedHeight=1")}))
	g.emit("final h=7")
	g.emit("final h=0")
	g.emit("reexec")
	g.emit("init")
	// malformed positions, reserved spellings, staged-then-rejected
	g.emit("reset")
	g.emit("init")
	g.emit("exec txs=%s", hx.HexList([][]byte{[]byte("a=1"), []byte("b=2")}))
	g.emit("exec txs=%s", hx.HexList([][]byte{[]byte("a=9"), []byte("c=3"), []byte("oops")}))
	g.emit("exec txs=%s", hx.HexList([][]byte{[]byte("a=8"), []byte(" =v")}))
	g.emit("exec txs=%s", hx.HexList([][]byte{[]byte("d=1"), []byte("genesis//initialized=no")}))
	g.emit("exec txs=%s", hx.HexList([][]byte{[]byte("  a/./b/../a  =  7  "), []byte("a=6")}))
	g.emit("reexec")
	g.emit("get key=%s", hx.Hex([]byte("/genesis/stateroot")))
	g.emit("reopen")
	g.emit("init")
	g.emit("get key=%s", hx.Hex([]byte("a")))
	// large blocks rejected late: everything before the malformed transaction is staged already and must leave no trace
	// (an executor that commits its batch in chunks of a few hundred writes would keep a prefix)
	for _, n := range []int{257, 520, 1100} {
		g.emit("reset")
		g.emit("init")
		g.emit("exec txs=%s", hx.HexList([][]byte{[]byte("base=1")}))
		big := make([][]byte, 0, n+1)
		for i := 0; i < n; i++ {
			big = append(big, []byte(fmt.Sprintf("k%04d=%d", i, i)))
		}
		big = append(big, []byte("oops"))
		g.emit("exec txs=%s", hx.HexList(big))
		g.emit("get key=%s", hx.Hex([]byte("k0000")))
		g.emit("reexec")
		g.emit("exec txs=%s", hx.HexList(big[:n]))
		g.emit("reopen")
		g.emit("get key=%s", hx.Hex([]byte(fmt.Sprintf("k%04d", n-1))))
	}
	// roots of the past must stay what they were (the caller keeps the slice it was given as AppHash): a later root
	// that fits the room of an earlier one and differs inside its first len(earlier) bytes - an early key gets a new
	// value, a new key sorts before the existing ones, same length / shorter / longer, from InitChain and from
	// ExecuteTxs, with a reopen (a fresh executor) in between.  Appending keys that sort last never shows anything.
	g.emit("reset")
	g.emit("exec txs=%s", hx.HexList([][]byte{[]byte("a=1"), []byte("m=5")}))
	g.emit("exec txs=%s", hx.HexList([][]byte{[]byte("a=2")}))
	g.emit("init")
	g.emit("exec txs=%s", hx.HexList([][]byte{[]byte("0=9")}))
	g.emit("init")
	g.emit("final h=3")
	g.emit("exec txs=%s", hx.HexList([][]byte{[]byte("m=")}))
	g.emit("reopen")
	g.emit("exec txs=%s", hx.HexList([][]byte{[]byte("a=3"), []byte("z=1")}))
	g.emit("exec txs=%s", hx.HexList([][]byte{[]byte("a=4")}))
	g.emit("reexec")
	g.emit("inject tx=%s n=3", hx.Hex([]byte("a=7")))
	g.emit("gettxs")
	g.emit("exec txs=%s", hx.HexList([][]byte{[]byte("!=1")}))
	g.emit("gettxs")
	// a long root first (so that there is room), then shorter ones that differ at the very beginning
	g.emit("reset")
	g.emit("init")
	long := make([][]byte, 0, 40)
	for i := 0; i < 40; i++ {
		long = append(long, []byte(fmt.Sprintf("k%02d=%d", i, i)))
	}
	g.emit("exec txs=%s", hx.HexList(long))
	g.emit("exec txs=%s", hx.HexList([][]byte{[]byte("k00=changed")}))
	g.emit("exec txs=%s", hx.HexList([][]byte{[]byte("a=first")}))
	g.emit("reexec")
	g.emit("init")
	// mempool: full channel, drain, never part of the state
	g.emit("reset")
	g.emit("exec txs=%s", hx.HexList([][]byte{[]byte("m=1")}))
	g.emit("inject tx=%s n=10001", hx.Hex([]byte("q=1")))
	g.emit("inject tx=%s", hx.Hex([]byte("r=2")))
	g.emit("gettxs")
	g.emit("gettxs")
	g.emit("inject tx=%s n=2", hx.Hex([]byte("m=5")))
	g.emit("reopen")
	g.emit("gettxs")
	g.emit("bogus x=1")
	g.emit("final")
	g.emit("exec")

	// ---- random scenarios
	n := 140
	if tier == "thorough" {
		n = 500
	}
	for i := 0; i < n; i++ {
		noFinal := i%5 == 2
		badPct := 12
		if i%5 == 4 {
			badPct = 55 // the malformed stream
		}
		nops := 6 + r.Intn(14)
		if tier == "thorough" && r.Chance(10) {
			nops = 40 + r.Intn(40)
		}
		g.scenario(nops, noFinal, badPct)
	}
}
