package c15

import (
	"fmt"
	"os"
	"strings"

	"verifharness/hx"

	kv "github.com/evstack/ev-node/apps/testapp/kv"
)

// Facts for lean/Gen/C15.lean: what the compiled executor answers on a fixed call sequence
// (`Spec.C15.gBlock1` … mirror the inputs).  `Spec.C15.golden_*` compare the model's answers with these
// by kernel evaluation on every run.

var (
	factBlock1 = [][]byte{[]byte(" a/./b/../a\t=  7  "), []byte("b=2"), []byte("\u3000finalizedHeight/x/ = x=y"), []byte("/=r"), []byte("b=3")}
	factBlock2 = [][]byte{[]byte("c=1"), []byte("genesis/../genesis//stateroot=1")} // rejected: reserved
	factBad    = [][]byte{[]byte("novalue"), []byte(" \t=v"), []byte("genesis/./initialized = 1"), []byte("\u2003./finalizedHeight/ = 9")}
)

func errCode(err error) int {
	switch errClass(err) {
	case "":
		return 0
	case "err:malformed":
		return 1
	case "err:emptykey":
		return 2
	case "err:reserved":
		return 3
	}
	return 9
}

func factsC15() (string, error) {
	if dn, err := os.OpenFile(os.DevNull, os.O_WRONLY, 0); err == nil {
		saved := os.Stdout
		os.Stdout = dn
		defer func() { os.Stdout = saved; dn.Close() }()
	}
	dir, err := os.MkdirTemp(workRoot(), "c15-facts-")
	if err != nil {
		return "", err
	}
	defer os.RemoveAll(dir)
	ex, err := kv.NewKVExecutor(dir, "db")
	if err != nil {
		return "", err
	}
	defer func() { _ = closeDB(ex) }()
	var sb strings.Builder
	def := func(name string, b []byte) { fmt.Fprintf(&sb, "def %s : Bytes := %s\n", name, hx.LeanBytes(b)) }
	nat := func(name string, n int) { fmt.Fprintf(&sb, "def %s : Nat := %d\n", name, n) }

	r1, gas1, err := ex.ExecuteTxs(ctx, factBlock1, 1, t0, nil)
	if err != nil {
		return "", fmt.Errorf("block1 rejected: %w", err)
	}
	def("rootAfterBlock1", r1)
	g, gas2, err := ex.InitChain(ctx, t0, 1, "c15")
	if err != nil {
		return "", err
	}
	def("genesisRoot", g)
	nat("gasExecute", int(gas1))
	nat("gasInit", int(gas2))
	_, _, err = ex.ExecuteTxs(ctx, factBlock2, 2, t0, r1)
	nat("block2Error", errCode(err))
	r2, _, _ := ex.ExecuteTxs(ctx, nil, 2, t0, r1)
	def("rootAfterRejectedBlock2", r2)
	if err := ex.SetFinal(ctx, 1203); err != nil {
		return "", err
	}
	r3, _, _ := ex.ExecuteTxs(ctx, nil, 3, t0, r2)
	def("rootAfterFinal1203", r3)
	fv, ok := ex.GetStoreValue(ctx, "finalizedHeight/")
	if !ok {
		return "", fmt.Errorf("SetFinal(1203) stored nothing under /finalizedHeight")
	}
	def("finalizedValue", []byte(fv))
	nat("finalZeroRejected", map[bool]int{true: 1, false: 0}[ex.SetFinal(ctx, 0) != nil])
	g2, _, err := ex.InitChain(ctx, t0, 1, "c15")
	if err != nil {
		return "", err
	}
	def("genesisRootAgain", g2)
	for i, tx := range factBad {
		_, _, err := ex.ExecuteTxs(ctx, [][]byte{tx}, 4, t0, r3)
		nat(fmt.Sprintf("badTxError%d", i+1), errCode(err))
	}
	v, ok := ex.GetStoreValue(ctx, "//a/./a/")
	if !ok {
		return "", fmt.Errorf("key /a/a missing")
	}
	def("valueOfAA", []byte(v))
	// capacity of the mempool channel, observed
	for i := 0; i < 10050; i++ {
		ex.InjectTx([]byte("t=1"))
	}
	txs, _ := ex.GetTxs(ctx)
	nat("mempoolCapacity", len(txs))
	return sb.String(), nil
}

func init() { hx.RegisterFacts("C15", factsC15) }
