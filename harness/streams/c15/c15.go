// Package c15 is the correspondence stream and the monitors of property C15 (reference KV execution
// layer: the state root depends only on the executed transactions).
//
// Two real kv.KVExecutor instances on real badger directories are driven per scenario:
//
//	a  – the reference: receives only `exec` (ExecuteTxs)
//	b  – receives the same `exec` lines plus finalize / inject / gettxs / init / reopen / reexec / get
//
// The monitors are written against the observable behaviour of the two instances only (they never
// look at the Lean model): see the mon* functions.
package c15

import (
	"bytes"
	"context"
	"errors"
	"fmt"
	"io"
	"os"
	"path"
	"path/filepath"
	"reflect"
	"strings"
	"time"
	"unsafe"

	"verifharness/hx"

	kv "github.com/evstack/ev-node/apps/testapp/kv"
)

// ---------------------------------------------------------------- instances

type inst struct {
	ex   *kv.KVExecutor
	dir  string
	name string
	// every byte slice the executor handed out (roots, genesis roots, mempool transactions), as the caller
	// holds it (ref: the very slice, never copied, never written by the harness) next to a private copy
	// taken at return time.  The node keeps such slices (State.AppHash = the slice ExecuteTxs returned), so a
	// value that changes after it was returned changes a root of the past.
	kept []keptSlice
}

type keptSlice struct {
	ref, cp []byte
	what    string
}

func clone(b []byte) []byte {
	if b == nil {
		return nil
	}
	return append([]byte{}, b...)
}

func cloneList(l [][]byte) [][]byte {
	if l == nil {
		return nil
	}
	out := make([][]byte, len(l))
	for i := range l {
		out[i] = clone(l[i])
	}
	return out
}

func (i *inst) keep(what string, b []byte) {
	if len(b) == 0 {
		return
	}
	i.kept = append(i.kept, keptSlice{ref: b, cp: clone(b), what: what})
}

// checkKept: a slice that was returned earlier must still read what it read when it was returned.
func (i *inst) checkKept(c *hx.Ctx, after string) {
	if i == nil {
		return
	}
	for n := range i.kept {
		k := &i.kept[n]
		if bytes.Equal(k.ref, k.cp) {
			continue
		}
		clause := "root"
		if strings.HasPrefix(k.what, "GetTxs") {
			clause = "gettxs"
		}
		c.Report("C15/"+clause+"/returned-slice-changed-later", fmt.Sprintf("instance %s: the slice returned by %s read %q when it was returned and reads %q after a later %s: the executor still writes to memory it handed out (a caller that keeps the slice, as the block manager does with AppHash, sees a past value change)", i.name, k.what, short(k.cp), short(k.ref), after))
		k.cp = clone(k.ref)
	}
}

func short(b []byte) []byte {
	if len(b) > 200 {
		return append(clone(b[:200]), "..."...)
	}
	return b
}

// scribble overwrites memory the CALLER owns and passed to the executor (transactions, previous state
// root): after the call returned the caller may reuse it, nothing the executor does later may depend on it.
func scribble(bs ...[]byte) {
	for _, b := range bs {
		for i := range b {
			b[i] = b[i]*31 + 0x5b
		}
	}
}

var dirSeq int

func workRoot() string {
	if w := os.Getenv("VERIF_WORK"); w != "" {
		return w
	}
	return os.TempDir()
}

func newInst() (*inst, error) {
	dirSeq++
	dir, err := os.MkdirTemp(workRoot(), fmt.Sprintf("c15-%d-%d-", os.Getpid(), dirSeq))
	if err != nil {
		return nil, err
	}
	ex, err := kv.NewKVExecutor(dir, "db")
	if err != nil {
		_ = os.RemoveAll(dir)
		return nil, err
	}
	return &inst{ex: ex, dir: dir}, nil
}

// exec / initChain / getTxs: the executor's calls that return byte slices; what they return is kept (checkKept).
func (i *inst) exec(txs [][]byte, h uint64, prev []byte) ([]byte, error) {
	r, _, err := i.ex.ExecuteTxs(ctx, txs, h, t0, prev)
	i.keep(fmt.Sprintf("ExecuteTxs(%d txs)", len(txs)), r)
	return r, err
}

func (i *inst) initChain() ([]byte, uint64, error) {
	g, gas, err := i.ex.InitChain(ctx, t0, 1, "c15")
	i.keep("InitChain", g)
	return g, gas, err
}

func (i *inst) getTxs() ([][]byte, error) {
	txs, err := i.ex.GetTxs(ctx)
	for n, tx := range txs {
		i.keep(fmt.Sprintf("GetTxs[%d]", n), tx)
	}
	return txs, err
}

// closeDB closes the executor's datastore. KVExecutor has no Close method and the field is
// unexported, so the harness reaches it by reflection (no change of /repo needed).
func closeDB(ex *kv.KVExecutor) error {
	if ex == nil {
		return nil
	}
	f := reflect.ValueOf(ex).Elem().FieldByName("db")
	if !f.IsValid() {
		return errors.New("KVExecutor has no field db")
	}
	f = reflect.NewAt(f.Type(), unsafe.Pointer(f.UnsafeAddr())).Elem()
	c, ok := f.Interface().(io.Closer)
	if !ok {
		return errors.New("KVExecutor.db is not an io.Closer")
	}
	return c.Close()
}

func (i *inst) destroy() {
	if i == nil {
		return
	}
	_ = closeDB(i.ex)
	i.ex = nil
	_ = os.RemoveAll(i.dir)
}

func (i *inst) reopen() error {
	if err := closeDB(i.ex); err != nil {
		return err
	}
	i.ex = nil
	ex, err := kv.NewKVExecutor(i.dir, "db")
	if err != nil {
		return err
	}
	i.ex = ex
	return nil
}

var ctx = context.Background()
var t0 = time.Unix(1700000000, 0)

// rootOf asks the executor for its current state root: ExecuteTxs with an empty block stages
// nothing, commits nothing and returns computeStateRoot().
func (i *inst) rootOf() ([]byte, error) {
	r, err := i.exec(nil, 0, nil)
	return clone(r), err
}

// ---------------------------------------------------------------- oracle pieces (independent of the model)

// txMalformed says whether the property counts tx as malformed: not of the form key=value, an empty
// key, or a key that names one of the two reserved genesis entries.
func txMalformed(tx []byte) bool {
	i := bytes.IndexByte(tx, '=')
	if i < 0 {
		return true
	}
	key := strings.TrimSpace(string(tx[:i]))
	if key == "" {
		return true
	}
	k := path.Clean("/" + key)
	return k == "/genesis/initialized" || k == "/genesis/stateroot"
}

func blockMalformed(txs [][]byte) bool {
	for _, tx := range txs {
		if txMalformed(tx) {
			return true
		}
	}
	return false
}

// keysOf returns the raw key strings the well-formed-looking transactions of a block name
// (used to watch individual entries, including reserved ones, across a rejected block).
func keysOf(txs [][]byte) []string {
	var ks []string
	for _, tx := range txs {
		if i := bytes.IndexByte(tx, '='); i >= 0 {
			if k := strings.TrimSpace(string(tx[:i])); k != "" {
				ks = append(ks, k)
			}
		}
	}
	ks = append(ks, "/genesis/initialized", "/genesis/stateroot", "/finalizedHeight")
	return ks
}

func snapshot(i *inst, keys []string) []string {
	out := make([]string, len(keys))
	for n, k := range keys {
		v, ok := i.ex.GetStoreValue(ctx, k)
		if ok {
			out[n] = "some:" + v
		} else {
			out[n] = "none"
		}
	}
	return out
}

func errClass(err error) string {
	if err == nil {
		return ""
	}
	m := err.Error()
	switch {
	case strings.Contains(m, "malformed transaction"):
		return "err:malformed"
	case strings.Contains(m, "empty key"):
		return "err:emptykey"
	case strings.Contains(m, "reserved key"):
		return "err:reserved"
	case strings.Contains(m, "cannot be zero"):
		return "err:zero"
	case strings.Contains(m, "genesis initialized but failed"):
		return "err:genesis"
	}
	return "err:other"
}

func showRes(root []byte, err error) string {
	if err != nil {
		return errClass(err)
	}
	return hx.Hex(root)
}

// ---------------------------------------------------------------- scenario state + monitors

type scen struct {
	a, b *inst
	last [][]byte
	// current roots of a and b (maintained after every op)
	rootA, rootB []byte
	// b's root was changed by a b-only operation (already reported): a≠b is a consequence of that
	explained bool
	// genesis root returned by the first InitChain of this scenario
	genesis     []byte
	haveGenesis bool
	height      uint64
	dead        bool // an instance could not be (re)created; remaining ops print "dead"
}

func (s *scen) close() {
	if s == nil {
		return
	}
	s.a.destroy()
	s.b.destroy()
}

// compareAB is the central oracle: both instances executed the same transaction lists, so their
// roots must be equal.
func (s *scen) compareAB(c *hx.Ctx, where string) {
	if bytes.Equal(s.rootA, s.rootB) {
		s.explained = false
		return
	}
	if !s.explained {
		c.Report("C15/root-depends-on/instance", fmt.Sprintf("two instances that executed the same transaction lists return different roots after %s: a=%q b=%q", where, s.rootA, s.rootB))
		s.explained = true
	}
}

// bOnly runs an operation that is not an execution on b and demands that b's root is unchanged.
func (s *scen) bOnly(c *hx.Ctx, cause string, f func() string) string {
	before := s.rootB
	out := f()
	after, err := s.b.rootOf()
	if err != nil {
		c.Report("C15/root/unavailable-after-"+cause, err.Error())
		return out + " root=err"
	}
	s.rootB = after
	if !bytes.Equal(before, after) {
		c.Report("C15/root-depends-on/"+cause, fmt.Sprintf("%s changed the state root although no transaction was executed: before=%q after=%q", cause, before, after))
		s.explained = true
	}
	return out + " root=" + hx.Hex(after)
}

// execOn executes a block on one instance and checks the clauses that concern a single instance.
func (s *scen) execOn(c *hx.Ctx, i *inst, name string, txs [][]byte, before []byte) (res string, after []byte) {
	mal := blockMalformed(txs)
	watch := keysOf(txs)
	snap0 := snapshot(i, watch)
	s.height++
	// the executor gets slices of its own (as a caller that decoded a block would pass them) ...
	in, prev := cloneList(txs), clone(before)
	r, err := i.exec(in, s.height, prev)
	after = clone(r)
	// ... and the caller reuses that memory as soon as the call has returned: nothing may depend on it any more
	resv := []string{"/genesis/initialized", "/genesis/stateroot", "/finalizedHeight"}
	snapR := snapshot(i, resv)
	scribble(in...)
	scribble(prev)
	if err == nil {
		again, e2 := i.rootOf()
		switch {
		case e2 != nil:
			c.Report("C15/root/unavailable-after-exec", e2.Error())
		case !bytes.Equal(again, after):
			c.Report("C15/input/executor-kept-callers-slice", fmt.Sprintf("instance %s: ExecuteTxs returned root %q; after the caller overwrote the transaction slices (and the prevStateRoot slice) it had passed, the root reads %q: the executor kept a reference to the caller's memory", name, short(after), short(again)))
		case !reflect.DeepEqual(snapR, snapshot(i, resv)):
			c.Report("C15/input/executor-kept-callers-slice", fmt.Sprintf("instance %s: a reserved entry changed when the caller overwrote the slices it had passed to ExecuteTxs", name))
		}
	}
	if err != nil {
		var e2 error
		after, e2 = i.rootOf()
		if e2 != nil {
			c.Report("C15/root/unavailable-after-exec", e2.Error())
			after = nil
		}
	}
	changed := !bytes.Equal(before, after)
	if !changed && (mal || err != nil) {
		snap1 := snapshot(i, watch)
		for n := range snap0 {
			if snap0[n] != snap1[n] {
				changed = true
			}
		}
	}
	switch {
	case mal && err == nil:
		c.Report("C15/malformed/accepted", fmt.Sprintf("instance %s accepted a block containing a malformed transaction (txs=%s)", name, hx.HexList(txs)))
	case mal && changed:
		c.Report("C15/malformed/partial-commit", fmt.Sprintf("instance %s rejected a block with a malformed transaction but its state changed: root %q -> %q", name, before, after))
	case err != nil && changed:
		c.Report("C15/exec-error/changed-state", fmt.Sprintf("instance %s returned %v but its state changed: root %q -> %q", name, err, before, after))
	}
	return showRes(r, err), after
}

func hasErr(res string) bool { return strings.HasPrefix(res, "err:") }

func guard(c *hx.Ctx, verb string, f func() string) (out string) {
	defer func() {
		if p := recover(); p != nil {
			c.Report("C15/panic/"+verb, fmt.Sprint(p))
			out = "panic"
		}
	}()
	return f()
}

func runC15(c *hx.Ctx) {
	// the executor prints warnings with fmt.Printf; keep them out of the observation stream
	if dn, err := os.OpenFile(os.DevNull, os.O_WRONLY, 0); err == nil {
		os.Stdout = dn
	}
	if c.St.Findings == nil {
		c.St.Findings = []hx.Finding{} // marshal as [] (check iterates over it), also when nothing is found
	}
	var s *scen
	defer func() { s.close() }()
	for {
		o, ok := c.Next()
		if !ok {
			break
		}
		if o.Verb == "reset" {
			s.close()
			s = &scen{}
			var e1, e2 error
			s.a, e1 = newInst()
			s.b, e2 = newInst()
			if s.a != nil {
				s.a.name = "a"
			}
			if s.b != nil {
				s.b.name = "b"
			}
			if e1 != nil || e2 != nil {
				s.dead = true
				c.Report("C15/setup/new-executor-failed", fmt.Sprint(e1, e2))
				c.Emit("dead")
				continue
			}
			s.rootA, _ = s.a.rootOf()
			s.rootB, _ = s.b.rootOf()
			c.Emit("ok")
			c.Hit("scenario")
			continue
		}
		if s == nil || s.dead {
			c.Emit("bad-op")
			continue
		}
		sc := s
		line := guard(c, o.Verb, func() string {
			switch o.Verb {
			case "exec":
				txs := o.List("txs")
				sc.last = txs
				ra, afterA := sc.execOn(c, sc.a, "a", txs, sc.rootA)
				rb, afterB := sc.execOn(c, sc.b, "b", txs, sc.rootB)
				sc.rootA, sc.rootB = afterA, afterB
				if hasErr(ra) != hasErr(rb) {
					c.Report("C15/root-depends-on/exec-result-differs", fmt.Sprintf("the same block is accepted by one instance and rejected by the other: a=%s b=%s", ra, rb))
				}
				sc.compareAB(c, "exec")
				if hasErr(ra) {
					c.Hit("exec/" + ra)
				} else {
					c.Hit("exec/ok")
				}
				return "a=" + ra + " b=" + rb
			case "reexec":
				before := sc.rootB
				rb, after := sc.execOn(c, sc.b, "b", sc.last, before)
				sc.rootB = after
				// only b-only operations (which must not touch the hashed entries) happened since the
				// exec: re-executing that block must be harmless whatever was finalized in between
				if !bytes.Equal(before, after) {
					c.Report("C15/reexec/changed-root", fmt.Sprintf("re-executing the block that was just executed changed the root: %q -> %q", before, after))
					sc.explained = true
				}
				sc.compareAB(c, "reexec")
				c.Hit("reexec")
				return "b=" + rb
			case "final":
				h, ok := o.U64("h")
				if !ok {
					return "bad-op"
				}
				c.Hit("final")
				return sc.bOnly(c, "finalize", func() string {
					err := sc.b.ex.SetFinal(ctx, h)
					res := "ok"
					if err != nil {
						res = errClass(err)
					}
					// the recorded height is part of the observation (SetFinal must keep recording it)
					if v, ok := sc.b.ex.GetStoreValue(ctx, "/finalizedHeight"); ok {
						return res + " fin=" + hx.Hex([]byte(v))
					}
					return res + " fin=none"
				})
			case "inject":
				n := 1
				if o.Has("n") {
					v, ok := o.U64("n")
					if !ok || v > 20000 {
						return "bad-op"
					}
					n = int(v)
				}
				tx := o.Bytes("tx")
				c.Hit("inject")
				return sc.bOnly(c, "mempool-inject", func() string {
					for k := 0; k < n; k++ {
						sc.b.ex.InjectTx(append([]byte(nil), tx...))
					}
					return "ok"
				})
			case "gettxs":
				c.Hit("gettxs")
				return sc.bOnly(c, "gettxs", func() string {
					txs, err := sc.b.getTxs()
					if err != nil {
						return "err:other"
					}
					return fmt.Sprintf("n=%d txs=%s", len(txs), hx.HexList(txs))
				})
			case "init":
				c.Hit("init")
				return sc.bOnly(c, "initchain", func() string {
					g, gas, err := sc.b.initChain()
					if err != nil {
						return errClass(err)
					}
					if sc.haveGenesis && !bytes.Equal(g, sc.genesis) {
						c.Report("C15/initchain/not-idempotent", fmt.Sprintf("a repeated InitChain returned a different genesis root: first=%q now=%q", sc.genesis, g))
					}
					if !sc.haveGenesis {
						sc.genesis, sc.haveGenesis = append([]byte(nil), g...), true
					}
					if v, ok := sc.b.ex.GetStoreValue(ctx, "/genesis/stateroot"); !ok || v != string(sc.genesis) {
						c.Report("C15/initchain/stored-genesis-root-changed", fmt.Sprintf("stored genesis root is %q (present=%v), first InitChain returned %q", v, ok, sc.genesis))
					}
					return fmt.Sprintf("genesis=%s gas=%d", hx.Hex(g), gas)
				})
			case "reopen":
				c.Hit("reopen")
				return sc.bOnly(c, "reopen", func() string {
					if err := sc.b.reopen(); err != nil {
						sc.dead = true
						c.Report("C15/reopen/failed", err.Error())
						panic("reopen failed: " + err.Error())
					}
					return "ok"
				})
			case "get":
				if !o.Has("key") {
					return "bad-op"
				}
				k, err := hx.UnHex(o.Str("key"))
				if err != nil {
					return "bad-op"
				}
				c.Hit("get")
				v, ok := sc.b.ex.GetStoreValue(ctx, string(k))
				if !ok {
					return "none"
				}
				return "val=" + hx.Hex([]byte(v))
			}
			return "bad-op"
		})
		// aliasing monitor: whatever either executor returned so far must still read the same
		sc.a.checkKept(c, o.Verb)
		sc.b.checkKept(c, o.Verb)
		c.Emit("%s", line)
	}
}

func init() { hx.Register("C15", hx.Stream{Gen: genC15, Run: runC15}) }

var _ = filepath.Join
