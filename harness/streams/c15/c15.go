// Package c15 is the correspondence stream and the monitors of property C15 (reference KV execution
// layer: the state root depends only on the executed transactions).
//
// Two real kv.KVExecutor instances on real badger directories are driven per scenario:
//
//	a  – the reference: receives only `exec` (ExecuteTxs)
//	b  – receives the same `exec` lines plus finalize / inject / gettxs / init / reopen / reexec / get
//
// The monitors are written against the observable behaviour of the two instances only (they never
// look at the Lean model): see the mon* functions.
package c15

import (
	"bytes"
	"context"
	"errors"
	"fmt"
	"io"
	"os"
	"path"
	"path/filepath"
	"reflect"
	"strings"
	"time"
	"unsafe"

	"verifharness/hx"

	kv "github.com/evstack/ev-node/apps/testapp/kv"
)

// ---------------------------------------------------------------- instances

type inst struct {
	ex  *kv.KVExecutor
	dir string
}

var dirSeq int

func workRoot() string {
	if w := os.Getenv("VERIF_WORK"); w != "" {
		return w
	}
	return os.TempDir()
}

func newInst() (*inst, error) {
	dirSeq++
	dir, err := os.MkdirTemp(workRoot(), fmt.Sprintf("c15-%d-%d-", os.Getpid(), dirSeq))
	if err != nil {
		return nil, err
	}
	ex, err := kv.NewKVExecutor(dir, "db")
	if err != nil {
		_ = os.RemoveAll(dir)
		return nil, err
	}
	return &inst{ex: ex, dir: dir}, nil
}

// closeDB closes the executor's datastore. KVExecutor has no Close method and the field is
// unexported, so the harness reaches it by reflection (no change of /repo needed).
func closeDB(ex *kv.KVExecutor) error {
	if ex == nil {
		return nil
	}
	f := reflect.ValueOf(ex).Elem().FieldByName("db")
	if !f.IsValid() {
		return errors.New("KVExecutor has no field db")
	}
	f = reflect.NewAt(f.Type(), unsafe.Pointer(f.UnsafeAddr())).Elem()
	c, ok := f.Interface().(io.Closer)
	if !ok {
		return errors.New("KVExecutor.db is not an io.Closer")
	}
	return c.Close()
}

func (i *inst) destroy() {
	if i == nil {
		return
	}
	_ = closeDB(i.ex)
	i.ex = nil
	_ = os.RemoveAll(i.dir)
}

func (i *inst) reopen() error {
	if err := closeDB(i.ex); err != nil {
		return err
	}
	i.ex = nil
	ex, err := kv.NewKVExecutor(i.dir, "db")
	if err != nil {
		return err
	}
	i.ex = ex
	return nil
}

var ctx = context.Background()
var t0 = time.Unix(1700000000, 0)

// rootOf asks the executor for its current state root: ExecuteTxs with an empty block stages
// nothing, commits nothing and returns computeStateRoot().
func (i *inst) rootOf() ([]byte, error) {
	r, _, err := i.ex.ExecuteTxs(ctx, nil, 0, t0, nil)
	return r, err
}

// ---------------------------------------------------------------- oracle pieces (independent of the model)

// txMalformed says whether the property counts tx as malformed: not of the form key=value, an empty
// key, or a key that names one of the two reserved genesis entries.
func txMalformed(tx []byte) bool {
	i := bytes.IndexByte(tx, '=')
	if i < 0 {
		return true
	}
	key := strings.TrimSpace(string(tx[:i]))
	if key == "" {
		return true
	}
	k := path.Clean("/" + key)
	return k == "/genesis/initialized" || k == "/genesis/stateroot"
}

func blockMalformed(txs [][]byte) bool {
	for _, tx := range txs {
		if txMalformed(tx) {
			return true
		}
	}
	return false
}

// keysOf returns the raw key strings the well-formed-looking transactions of a block name
// (used to watch individual entries, including reserved ones, across a rejected block).
func keysOf(txs [][]byte) []string {
	var ks []string
	for _, tx := range txs {
		if i := bytes.IndexByte(tx, '='); i >= 0 {
			if k := strings.TrimSpace(string(tx[:i])); k != "" {
				ks = append(ks, k)
			}
		}
	}
	ks = append(ks, "/genesis/initialized", "/genesis/stateroot", "/finalizedHeight")
	return ks
}

func snapshot(i *inst, keys []string) []string {
	out := make([]string, len(keys))
	for n, k := range keys {
		v, ok := i.ex.GetStoreValue(ctx, k)
		if ok {
			out[n] = "some:" + v
		} else {
			out[n] = "none"
		}
	}
	return out
}

func errClass(err error) string {
	if err == nil {
		return ""
	}
	m := err.Error()
	switch {
	case strings.Contains(m, "malformed transaction"):
		return "err:malformed"
	case strings.Contains(m, "empty key"):
		return "err:emptykey"
	case strings.Contains(m, "reserved key"):
		return "err:reserved"
	case strings.Contains(m, "cannot be zero"):
		return "err:zero"
	case strings.Contains(m, "genesis initialized but failed"):
		return "err:genesis"
	}
	return "err:other"
}

func showRes(root []byte, err error) string {
	if err != nil {
		return errClass(err)
	}
	return hx.Hex(root)
}

// ---------------------------------------------------------------- scenario state + monitors

type scen struct {
	a, b *inst
	last [][]byte
	// current roots of a and b (maintained after every op)
	rootA, rootB []byte
	// b's root was changed by a b-only operation (already reported): a≠b is a consequence of that
	explained bool
	// genesis root returned by the first InitChain of this scenario
	genesis     []byte
	haveGenesis bool
	height      uint64
	dead        bool // an instance could not be (re)created; remaining ops print "dead"
}

func (s *scen) close() {
	if s == nil {
		return
	}
	s.a.destroy()
	s.b.destroy()
}

// compareAB is the central oracle: both instances executed the same transaction lists, so their
// roots must be equal.
func (s *scen) compareAB(c *hx.Ctx, where string) {
	if bytes.Equal(s.rootA, s.rootB) {
		s.explained = false
		return
	}
	if !s.explained {
		c.Report("C15/root-depends-on/instance", fmt.Sprintf("two instances that executed the same transaction lists return different roots after %s: a=%q b=%q", where, s.rootA, s.rootB))
		s.explained = true
	}
}

// bOnly runs an operation that is not an execution on b and demands that b's root is unchanged.
func (s *scen) bOnly(c *hx.Ctx, cause string, f func() string) string {
	before := s.rootB
	out := f()
	after, err := s.b.rootOf()
	if err != nil {
		c.Report("C15/root/unavailable-after-"+cause, err.Error())
		return out + " root=err"
	}
	s.rootB = after
	if !bytes.Equal(before, after) {
		c.Report("C15/root-depends-on/"+cause, fmt.Sprintf("%s changed the state root although no transaction was executed: before=%q after=%q", cause, before, after))
		s.explained = true
	}
	return out + " root=" + hx.Hex(after)
}

// execOn executes a block on one instance and checks the clauses that concern a single instance.
func (s *scen) execOn(c *hx.Ctx, i *inst, name string, txs [][]byte, before []byte) (res string, after []byte) {
	mal := blockMalformed(txs)
	watch := keysOf(txs)
	snap0 := snapshot(i, watch)
	s.height++
	r, _, err := i.ex.ExecuteTxs(ctx, txs, s.height, t0, before)
	after = r
	if err != nil {
		var e2 error
		after, e2 = i.rootOf()
		if e2 != nil {
			c.Report("C15/root/unavailable-after-exec", e2.Error())
			after = nil
		}
	}
	changed := !bytes.Equal(before, after)
	if !changed && (mal || err != nil) {
		snap1 := snapshot(i, watch)
		for n := range snap0 {
			if snap0[n] != snap1[n] {
				changed = true
			}
		}
	}
	switch {
	case mal && err == nil:
		c.Report("C15/malformed/accepted", fmt.Sprintf("instance %s accepted a block containing a malformed transaction (txs=%s)", name, hx.HexList(txs)))
	case mal && changed:
		c.Report("C15/malformed/partial-commit", fmt.Sprintf("instance %s rejected a block with a malformed transaction but its state changed: root %q -> %q", name, before, after))
	case err != nil && changed:
		c.Report("C15/exec-error/changed-state", fmt.Sprintf("instance %s returned %v but its state changed: root %q -> %q", name, err, before, after))
	}
	return showRes(r, err), after
}

func hasErr(res string) bool { return strings.HasPrefix(res, "err:") }

func guard(c *hx.Ctx, verb string, f func() string) (out string) {
	defer func() {
		if p := recover(); p != nil {
			c.Report("C15/panic/"+verb, fmt.Sprint(p))
			out = "panic"
		}
	}()
	return f()
}

func runC15(c *hx.Ctx) {
	// the executor prints warnings with fmt.Printf; keep them out of the observation stream
	if dn, err := os.OpenFile(os.DevNull, os.O_WRONLY, 0); err == nil {
		os.Stdout = dn
	}
	if c.St.Findings == nil {
		c.St.Findings = []hx.Finding{} // marshal as [] (check iterates over it), also when nothing is found
	}
	var s *scen
	defer func() { s.close() }()
	for {
		o, ok := c.Next()
		if !ok {
			break
		}
		if o.Verb == "reset" {
			s.close()
			s = &scen{}
			var e1, e2 error
			s.a, e1 = newInst()
			s.b, e2 = newInst()
			if e1 != nil || e2 != nil {
				s.dead = true
				c.Report("C15/setup/new-executor-failed", fmt.Sprint(e1, e2))
				c.Emit("dead")
				continue
			}
			s.rootA, _ = s.a.rootOf()
			s.rootB, _ = s.b.rootOf()
			c.Emit("ok")
			c.Hit("scenario")
			continue
		}
		if s == nil || s.dead {
			c.Emit("bad-op")
			continue
		}
		sc := s
		line := guard(c, o.Verb, func() string {
			switch o.Verb {
			case "exec":
				txs := o.List("txs")
				sc.last = txs
				ra, afterA := sc.execOn(c, sc.a, "a", txs, sc.rootA)
				rb, afterB := sc.execOn(c, sc.b, "b", txs, sc.rootB)
				sc.rootA, sc.rootB = afterA, afterB
				if hasErr(ra) != hasErr(rb) {
					c.Report("C15/root-depends-on/exec-result-differs", fmt.Sprintf("the same block is accepted by one instance and rejected by the other: a=%s b=%s", ra, rb))
				}
				sc.compareAB(c, "exec")
				if hasErr(ra) {
					c.Hit("exec/" + ra)
				} else {
					c.Hit("exec/ok")
				}
				return "a=" + ra + " b=" + rb
			case "reexec":
				before := sc.rootB
				rb, after := sc.execOn(c, sc.b, "b", sc.last, before)
				sc.rootB = after
				// only b-only operations (which must not touch the hashed entries) happened since the
				// exec: re-executing that block must be harmless whatever was finalized in between
				if !bytes.Equal(before, after) {
					c.Report("C15/reexec/changed-root", fmt.Sprintf("re-executing the block that was just executed changed the root: %q -> %q", before, after))
					sc.explained = true
				}
				sc.compareAB(c, "reexec")
				c.Hit("reexec")
				return "b=" + rb
			case "final":
				h, ok := o.U64("h")
				if !ok {
					return "bad-op"
				}
				c.Hit("final")
				return sc.bOnly(c, "finalize", func() string {
					err := sc.b.ex.SetFinal(ctx, h)
					res := "ok"
					if err != nil {
						res = errClass(err)
					}
					// the recorded height is part of the observation (SetFinal must keep recording it)
					if v, ok := sc.b.ex.GetStoreValue(ctx, "/finalizedHeight"); ok {
						return res + " fin=" + hx.Hex([]byte(v))
					}
					return res + " fin=none"
				})
			case "inject":
				n := 1
				if o.Has("n") {
					v, ok := o.U64("n")
					if !ok || v > 20000 {
						return "bad-op"
					}
					n = int(v)
				}
				tx := o.Bytes("tx")
				c.Hit("inject")
				return sc.bOnly(c, "mempool-inject", func() string {
					for k := 0; k < n; k++ {
						sc.b.ex.InjectTx(append([]byte(nil), tx...))
					}
					return "ok"
				})
			case "gettxs":
				c.Hit("gettxs")
				return sc.bOnly(c, "gettxs", func() string {
					txs, err := sc.b.ex.GetTxs(ctx)
					if err != nil {
						return "err:other"
					}
					return fmt.Sprintf("n=%d txs=%s", len(txs), hx.HexList(txs))
				})
			case "init":
				c.Hit("init")
				return sc.bOnly(c, "initchain", func() string {
					g, gas, err := sc.b.ex.InitChain(ctx, t0, 1, "c15")
					if err != nil {
						return errClass(err)
					}
					if sc.haveGenesis && !bytes.Equal(g, sc.genesis) {
						c.Report("C15/initchain/not-idempotent", fmt.Sprintf("a repeated InitChain returned a different genesis root: first=%q now=%q", sc.genesis, g))
					}
					if !sc.haveGenesis {
						sc.genesis, sc.haveGenesis = append([]byte(nil), g...), true
					}
					if v, ok := sc.b.ex.GetStoreValue(ctx, "/genesis/stateroot"); !ok || v != string(sc.genesis) {
						c.Report("C15/initchain/stored-genesis-root-changed", fmt.Sprintf("stored genesis root is %q (present=%v), first InitChain returned %q", v, ok, sc.genesis))
					}
					return fmt.Sprintf("genesis=%s gas=%d", hx.Hex(g), gas)
				})
			case "reopen":
				c.Hit("reopen")
				return sc.bOnly(c, "reopen", func() string {
					if err := sc.b.reopen(); err != nil {
						sc.dead = true
						c.Report("C15/reopen/failed", err.Error())
						panic("reopen failed: " + err.Error())
					}
					return "ok"
				})
			case "get":
				if !o.Has("key") {
					return "bad-op"
				}
				k, err := hx.UnHex(o.Str("key"))
				if err != nil {
					return "bad-op"
				}
				c.Hit("get")
				v, ok := sc.b.ex.GetStoreValue(ctx, string(k))
				if !ok {
					return "none"
				}
				return "val=" + hx.Hex([]byte(v))
			}
			return "bad-op"
		})
		c.Emit("%s", line)
	}
}

func init() { hx.Register("C15", hx.Stream{Gen: genC15, Run: runC15}) }

var _ = filepath.Join
