// Package syncs: correspondence streams and monitors for a syncing (non-producing) node:
// C02 (convergence under any delivery order), C05 (crash during block application).
// The proposer's chain is built by a REAL producer; events are pushed into the REAL SyncLoop goroutine.
package syncs

import (
	"bytes"
	"context"
	"fmt"
	"sort"
	"strings"
	"time"

	"verifharness/bm"
	"verifharness/hx"

	"github.com/evstack/ev-node/block"
	"github.com/evstack/ev-node/types"
)

type loop struct {
	cancel context.CancelFunc
	done   chan struct{}
	errCh  chan error
}

type World struct {
	c            *hx.Ctx
	prod         *bm.Env
	full         *bm.Env
	lp           *loop
	opt          bm.Options
	from         int // write index where the last delivery began
	dead         bool
	hdrDel       map[uint64]bool // ghost: delivered so far
	datDel       map[uint64]bool
	junkReplaced map[uint64]bool // ghost: a junk item for this height was delivered while the genuine data was cached there
	junkSame     map[uint64]bool // ghost: a junk item carrying the genuine transactions of this height (same commitment) was delivered
	junkDel      map[uint64]bool // ghost: heights for which junk data (unauthenticated P2P data not matching the header) was delivered
	lastH        uint64
	execN        int
	stale        bool   // the node was restarted after a crash on the cache files of an earlier clean stop
	cause        string // after a crash: between which two durable writes it fell ("" = no crash so far)
	// ghost: the genuine data of this height was handed to the running loop while the node was `value` heights below it, and
	// right after the loop had handled it the item was neither in the data cache nor applied nor marked seen (dropped on arrival);
	// cleared when the genuine data is delivered again and kept
	dropDist map[uint64]uint64
	sigOK    map[uint64]string // monitor cache: header hash + signature bytes of height k already verified on this node instance
}

// farAhead: a data item dropped on arrival more than this many heights above the node is classified as "far ahead"
const farAhead = 64

// rep reports a violation; after a crash every finding is attributed to the crash point.
func (w *World) rep(sig, what string) {
	if w.cause != "" {
		i := strings.Index(sig, "/")
		sig = "C05/after-crash/" + w.cause + sig[i:]
	}
	w.c.Report(sig, what)
}

func kindOf(d string) string {
	if i := strings.IndexByte(d, ':'); i > 0 {
		return d[:i]
	}
	return d
}

func (w *World) startLoop() {
	ctx, cancel := context.WithCancel(context.Background())
	lp := &loop{cancel: cancel, done: make(chan struct{}), errCh: make(chan error, 16)}
	m := w.full.M
	go func() {
		defer close(lp.done)
		m.SyncLoop(ctx, lp.errCh)
	}()
	w.lp = lp
}

func (w *World) stopLoop() {
	if w.lp != nil {
		w.lp.cancel()
		select {
		case <-w.lp.done:
		case <-time.After(5 * time.Second):
			w.c.Report("C13/stop/sync-loop-did-not-return", "SyncLoop still running 5 s after cancel")
		}
		w.lp = nil
	}
}

// settle waits until the loop has processed everything queued: a no-effect sentinel header (height 0) is queued
// behind the event; once both channels are empty the event before it has been handled completely.
func (w *World) settle() bool {
	m := w.full.M
	m.VerifHeaderInCh() <- block.NewHeaderEvent{Header: &types.SignedHeader{}, DAHeight: 0}
	deadline := time.Now().Add(10 * time.Second)
	for {
		select {
		case <-w.lp.done:
			return false
		default:
		}
		if len(m.VerifHeaderInCh()) == 0 && len(m.VerifDataInCh()) == 0 {
			// the sentinel has been taken; one more round so that it has been finished as well
			m.VerifHeaderInCh() <- block.NewHeaderEvent{Header: &types.SignedHeader{}, DAHeight: 0}
			for len(m.VerifHeaderInCh()) != 0 {
				select {
				case <-w.lp.done:
					return false
				default:
				}
				if time.Now().After(deadline) {
					return true
				}
				time.Sleep(20 * time.Microsecond)
			}
			return true
		}
		if time.Now().After(deadline) {
			w.c.Report("C02/harness/settle-timeout", "sync loop did not drain its channels within 10 s")
			return true
		}
		time.Sleep(20 * time.Microsecond)
	}
}

// the data event is on another channel than the sentinel: wait until it has been taken
func (w *World) waitDataTaken() {
	for i := 0; len(w.full.M.VerifDataInCh()) != 0 && i < 200000; i++ {
		select {
		case <-w.lp.done:
			i = 200000
		default:
			time.Sleep(20 * time.Microsecond)
		}
	}
}

func short(list []string) string {
	out := make([]string, 0, len(list))
	for _, s := range list {
		s = strings.ToLower(s)
		if len(s) > 8 {
			s = s[:8]
		}
		out = append(out, s)
	}
	sort.Strings(out)
	if len(out) == 0 {
		return "-"
	}
	return strings.Join(out, ",")
}

func nums(l []uint64) string {
	if len(l) == 0 {
		return "-"
	}
	p := make([]string, len(l))
	for i, x := range l {
		p[i] = fmt.Sprint(x)
	}
	return strings.Join(p, ",")
}

func (w *World) observe() string {
	e := w.full
	h := e.Height()
	var ex []string
	for _, c := range e.Exec.Calls[w.execN:] {
		ex = append(ex, fmt.Sprintf("%d:%d", c.Height, len(c.Txs)))
	}
	w.execN = len(e.Exec.Calls)
	exs := "-"
	if len(ex) > 0 {
		exs = strings.Join(ex, ",")
	}
	alive := 1
	if w.dead {
		alive = 0
	}
	st, err := e.Store.GetState(context.Background())
	disk := "none"
	if err == nil {
		disk = bm.ShowState(st)
	}
	return fmt.Sprintf("height=%d disk=%s mem=%s hc=%s dc=%s seenH=%s seenD=%s exec=%s alive=%d w=%s head=[%s]",
		h, disk, bm.ShowState(e.M.GetLastState()), nums(e.M.HeaderCache().VerifItemHeights()), nums(e.M.DataCache().VerifItemHeights()),
		short(e.M.HeaderCache().VerifSeen()), short(e.M.DataCache().VerifSeen()), exs, alive, bm.DescribeWrites(e.DS, w.from), e.ShowBlock(h))
}

func (w *World) startFull(img map[string][]byte, root string) string {
	o := bm.Options{InitialHeight: w.opt.InitialHeight, GenesisTime: w.opt.GenesisTime, Aggregator: false, Image: img, Root: root, CustomPayload: w.opt.CustomPayload}
	old := w.full
	env, err := bm.New(o)
	if old != nil && root == "" {
		old.Cleanup()
	}
	w.full = env
	w.from = 0
	w.execN = 0
	w.sigOK = map[uint64]string{}
	if err != nil {
		w.dead = true
		return "start err"
	}
	w.dead = false
	w.startLoop()
	// the loop applies what the loaded caches already allow before it waits for events: let it finish
	if !w.settle() {
		w.dead = true
		w.rep(w.classifyDeath(), "SyncLoop returned right after it was started")
	}
	return "start " + w.observe()
}

func Run(c *hx.Ctx) {
	w := &World{c: c}
	defer func() {
		w.stopLoop()
		if w.full != nil {
			w.full.Cleanup()
		}
		if w.prod != nil {
			w.prod.Cleanup()
		}
	}()
	for {
		o, ok := c.Next()
		if !ok {
			return
		}
		c.Hit(o.Verb)
		switch o.Verb {
		case "reset":
			w.stopLoop()
			if w.full != nil {
				w.full.Cleanup()
				w.full = nil
			}
			if w.prod != nil {
				w.prod.Cleanup()
			}
			ih, _ := o.U64("ih")
			w.opt = bm.Options{InitialHeight: ih, GenesisTime: time.Unix(0, o.I64("gt")), CustomPayload: o.Bool("cp")}
			po := w.opt
			po.Aggregator = true
			p, err := bm.New(po)
			if err != nil {
				c.Emit("reset err")
				w.prod = nil
				continue
			}
			w.prod = p
			w.hdrDel, w.datDel, w.junkDel, w.junkReplaced, w.junkSame = map[uint64]bool{}, map[uint64]bool{}, map[uint64]bool{}, map[uint64]bool{}, map[uint64]bool{}
			w.dropDist = map[uint64]uint64{}
			w.cause, w.stale = "", false
			c.Emit("%s", w.startFull(nil, ""))
			w.lastH = w.full.Height()
		case "produce":
			if w.prod == nil {
				c.Emit("dead")
				continue
			}
			w.prod.Seq.Next = &hx.SeqResp{Txs: o.List("txs"), Ts: time.Unix(0, o.I64("ts"))}
			err := w.prod.M.VerifPublishBlock(context.Background())
			cls := "nil"
			if err != nil {
				cls = "err"
			}
			h := w.prod.Height()
			c.Emit("produced out=%s height=%d head=[%s]", cls, h, w.prod.ShowBlock(h))
		case "hdr", "dat":
			if w.prod == nil || w.full == nil || w.full.M == nil {
				c.Emit("dead")
				continue
			}
			k, _ := o.U64("h")
			sh, d, err := w.prod.Store.GetBlockData(context.Background(), k)
			if err != nil || k > w.prod.Height() {
				c.Emit("no-such-block")
				continue
			}
			w.from = w.full.DS.NumWrites()
			hBefore := w.full.Height()
			if !w.dead {
				if o.Verb == "hdr" {
					w.full.M.VerifHeaderInCh() <- block.NewHeaderEvent{Header: sh, DAHeight: uint64(o.Int("da"))}
					w.hdrDel[k] = true
				} else {
					w.full.M.VerifDataInCh() <- block.NewDataEvent{Data: d, DAHeight: uint64(o.Int("da"))}
					delete(w.junkReplaced, k) // the genuine data is delivered again
					if len(d.Txs) > 0 {
						w.datDel[k] = true
					}
					w.waitDataTaken()
				}
				if !w.settle() {
					w.dead = true
					w.rep(w.classifyDeath(), fmt.Sprintf("SyncLoop returned while handling %s h=%d", o.Verb, k))
				}
				if o.Verb == "dat" && len(d.Txs) > 0 {
					// ghost: was the genuine data kept?  (applied, cached at its height, or its commitment known as seen)
					delete(w.dropDist, k)
					if !w.dead && k > w.full.Height() && !hasHeight(w.full.M.DataCache().VerifItemHeights(), k) && !w.dataSeen(d) {
						w.dropDist[k] = k - hBefore
					}
				}
			}
			c.Emit("%s", w.observe())
			w.monitor()
		case "junkdat":
			// P2P data is NOT authenticated (types.Data carries no signature, Data.Validate() is a no-op, go-header's
			// Verify only checks LastDataHash): anybody can gossip a Data that names the genuine chain id / height / time
			// of block h but carries other transactions.  DataStoreRetrieveLoop hands it to dataInCh unchanged.
			if w.prod == nil || w.full == nil || w.full.M == nil {
				c.Emit("dead")
				continue
			}
			k, _ := o.U64("h")
			_, d, err := w.prod.Store.GetBlockData(context.Background(), k)
			if err != nil || k > w.prod.Height() {
				c.Emit("no-such-block")
				continue
			}
			w.from = w.full.DS.NumWrites()
			if !w.dead {
				md := *d.Metadata
				junk := &types.Data{Metadata: &md}
				if o.Bool("same") {
					// the GENUINE transactions (hence the genuine data commitment, which ignores metadata) under a wrong time:
					// types.Validate(header, data) rejects it, but its commitment is the one the seen-set is keyed by
					junk.Txs = d.Txs
					md.Time++
				} else {
					for _, tx := range o.List("txs") {
						junk.Txs = append(junk.Txs, types.Tx(tx))
					}
				}
				if w.datDel[k] && hasHeight(w.full.M.DataCache().VerifItemHeights(), k) && k > w.full.Height() {
					w.junkReplaced[k] = true
				}
				w.full.M.VerifDataInCh() <- block.NewDataEvent{Data: junk, DAHeight: uint64(o.Int("da"))}
				w.junkDel[k] = true
				if o.Bool("same") {
					w.junkSame[k] = true
				}
				w.waitDataTaken()
				if !w.settle() {
					w.dead = true
					w.rep(w.classifyDeath(), fmt.Sprintf("SyncLoop returned while handling junk data claiming h=%d", k))
				}
			}
			c.Emit("%s", w.observe())
			w.monitor()
		case "restart", "crash":
			if w.full == nil || w.full.M == nil {
				c.Emit("dead")
				continue
			}
			w.stopLoop()
			n := w.full.DS.NumWrites()
			keep := n
			root := ""
			if o.Verb == "restart" {
				root = w.full.Root
				if err := w.full.M.SaveCache(); err != nil {
					c.Report("C02/save-cache-fails", err.Error())
				}
			} else {
				k := o.Int("keep")
				if w.from+k < n {
					keep = w.from + k
					last := "start"
					if keep > w.from {
						last = kindOf(bm.DescribeWS(w.full.DS.Log[keep-1]))
					}
					w.cause = "crash-between-" + last + "-and-" + kindOf(bm.DescribeWS(w.full.DS.Log[keep]))
				}
				// the in-memory caches are lost: what was delivered but not applied must be delivered again
				w.hdrDel, w.datDel, w.junkDel, w.junkReplaced, w.junkSame = map[uint64]bool{}, map[uint64]bool{}, map[uint64]bool{}, map[uint64]bool{}, map[uint64]bool{}
				w.dropDist = map[uint64]uint64{}
				if o.Bool("stale") {
					// ... but the cache FILES of the last clean stop (an older generation of the caches) are still there
					root = w.full.Root
					w.stale = true
				}
			}
			c.Hit(fmt.Sprintf("%s-keep-%d-of-%d", o.Verb, keep-w.from, n-w.from))
			img := w.full.DS.ImageAt(keep)
			keepEnv := w.full
			c.Emit("%s", w.startFull(img, root))
			if root != "" && keepEnv != nil && w.full != nil {
				w.full.Options.Root = ""
			}
			if w.dead {
				w.rep("C05/restart-fails", "NewManager failed after "+o.Verb)
			} else {
				w.lastH = 0
				w.monitorStore(o.Verb)
			}
		default:
			c.Emit("bad-op")
		}
	}
}

// ready: the largest h such that for all k in [ih, h] the header of k was delivered and (block k is empty or its data was)
func (w *World) ready() uint64 {
	ih := w.opt.InitialHeight
	base := w.full.Height()
	h := ih - 1
	if base > h {
		h = base // blocks already applied need no further events
	}
	for k := h + 1; k <= w.prod.Height(); k++ {
		_, d, err := w.prod.Store.GetBlockData(context.Background(), k)
		if err != nil || !w.hdrDel[k] || (len(d.Txs) > 0 && !w.datDel[k]) {
			break
		}
		h = k
	}
	return h
}

func (w *World) monitor() {
	e := w.full
	h := e.Height()
	if h < w.lastH {
		w.rep("C02/height/decreased", fmt.Sprintf("%d -> %d", w.lastH, h))
	}
	w.lastH = h
	w.monitorStore("deliver")
	if w.dead {
		return
	}
	if r := w.ready(); h < r {
		w.rep(w.classifyStall(h), fmt.Sprintf("both parts of all blocks up to %d were delivered but the node is at %d", r, h))
	}
}

// classifyDeath: the sync loop returned.  The one recognised cause: the data cached for the next height is junk (it was
// delivered by a junkdat op, i.e. unauthenticated P2P data not matching the header) and the header of that height is there.
func (w *World) classifyDeath() string {
	next := w.full.Height() + 1
	if w.junkDel[next] && w.hdrDel[next] {
		return "C02/loop-terminated/junk-p2p-data-for-next-height"
	}
	return "C02/loop-terminated"
}

// dataSeen: the commitment of d is in the node's data seen-set
func (w *World) dataSeen(d *types.Data) bool {
	dc := d.DACommitment().String()
	for _, x := range w.full.M.DataCache().VerifSeen() {
		if strings.EqualFold(x, dc) {
			return true
		}
	}
	return false
}

func hasHeight(l []uint64, k uint64) bool {
	for _, x := range l {
		if x == k {
			return true
		}
	}
	return false
}

// classifyStall: both parts of block h+1 were delivered and the node stays at h.  A cause is named only when the node's own
// caches show it (anything else is "other" = a new violation):
//   - no data is cached at h+1 and the commitment of the genuine data of h+1 IS in the data seen-set: the genuine data was (and
//     will always be) dropped as "already seen".  Why it is there although block h+1 is not applied:
//     junk-p2p-data-marked-genuine-commitment-seen: a junk item copying the genuine transactions of h+1 was delivered (repaired
//     by /repo c3c43a6: only applied blocks are marked)
//     tx-list-repeats-an-earlier-block:  another block of the chain (applied, or its data delivered) carries the same tx list
//   - no data is cached at h+1, the commitment is NOT in the seen-set, and a junk item for h+1 was delivered while the genuine data
//     was cached there and the genuine data has not been delivered since: junk-p2p-data-replaced-cached-data (recorded finding;
//     the node recovers when the genuine data arrives again)
//   - header and data of h+1 are both cached after a restart on stale cache files (nothing triggered trySyncNextBlock)
func (w *World) classifyStall(h uint64) string {
	ctx := context.Background()
	dcH := w.full.M.DataCache().VerifItemHeights()
	hcH := w.full.M.HeaderCache().VerifItemHeights()
	_, d, err := w.prod.Store.GetBlockData(ctx, h+1)
	if err == nil && len(d.Txs) > 0 {
		dc := d.DACommitment()
		seen := false
		for _, x := range w.full.M.DataCache().VerifSeen() {
			if strings.EqualFold(x, dc.String()) {
				seen = true
			}
		}
		if seen && !hasHeight(dcH, h+1) {
			// a twin block explains the mark whether or not a junk copy was delivered as well: since c3c43a6 only an
			// APPLIED block marks its commitment, so look for the twin first (an applied one, k <= h)
			for k := w.opt.InitialHeight; k <= w.prod.Height(); k++ {
				if k == h+1 {
					continue
				}
				if _, dk, err := w.prod.Store.GetBlockData(ctx, k); err == nil && len(dk.Txs) > 0 && bytes.Equal(dk.DACommitment(), dc) && k <= h {
					return "C02/stall/tx-list-repeats-an-earlier-block"
				}
			}
			if w.junkSame[h+1] {
				return "C02/stall/junk-p2p-data-marked-genuine-commitment-seen"
			}
			for k := w.opt.InitialHeight; k <= w.prod.Height(); k++ {
				if k == h+1 {
					continue
				}
				if _, dk, err := w.prod.Store.GetBlockData(ctx, k); err == nil && len(dk.Txs) > 0 && bytes.Equal(dk.DACommitment(), dc) && w.datDel[k] {
					return "C02/stall/tx-list-repeats-an-earlier-block"
				}
			}
		}
		if !seen && !hasHeight(dcH, h+1) && w.junkReplaced[h+1] {
			return "C02/stall/junk-p2p-data-replaced-cached-data"
		}
		// the genuine data of h+1 was dropped the moment it arrived (never cached, never marked) and has not been delivered since
		if dist, ok := w.dropDist[h+1]; ok && !seen && !hasHeight(dcH, h+1) {
			if dist > farAhead {
				return "C02/stall/far-ahead-data-dropped"
			}
			return "C02/stall/data-dropped-on-arrival"
		}
	}
	if w.stale && hasHeight(hcH, h+1) && hasHeight(dcH, h+1) {
		return "C02/stall/stale-cache-files"
	}
	st, errS := w.full.Store.GetState(ctx)
	if errS == nil && st.LastBlockHeight != h {
		return "C05/stall/state-and-chain-height-disagree"
	}
	return "C02/stall/other"
}

// monitorStore: everything the node has applied is exactly the proposer's chain, executed in order.
func (w *World) monitorStore(when string) {
	e := w.full
	ctx := context.Background()
	h := e.Height()
	ih := w.opt.InitialHeight
	for k := ih; k <= h; k++ {
		psh, pd, perr := w.prod.Store.GetBlockData(ctx, k)
		sh, d, err := e.Store.GetBlockData(ctx, k)
		if err != nil {
			w.rep("C05/block-missing-below-chain-height", fmt.Sprintf("height %d of %d after %s: %v", k, h, when, err))
			return
		}
		if perr != nil {
			w.rep("C02/applied-block-not-of-proposer", fmt.Sprintf("height %d", k))
			continue
		}
		if !bytes.Equal(sh.Hash(), psh.Hash()) {
			w.rep("C02/store/header-hash-differs", fmt.Sprintf("height %d", k))
		}
		if len(d.Txs) != len(pd.Txs) {
			w.rep("C02/store/txs-differ", fmt.Sprintf("height %d", k))
		} else {
			for i := range d.Txs {
				if !bytes.Equal(d.Txs[i], pd.Txs[i]) {
					w.rep("C02/store/txs-differ", fmt.Sprintf("height %d tx %d", k, i))
					break
				}
			}
		}
		// the stored signature verifies for the stored header (verified once per node instance and (header hash, signature) pair:
		// long chains are checked after every event)
		sig, err := e.Store.GetSignature(ctx, k)
		if err != nil {
			w.rep("C02/store/signature", fmt.Sprintf("height %d", k))
		} else if key := string(sh.Hash()) + "/" + string(*sig); w.sigOK[k] != key {
			if bm.SigClass(e.Pub, &sh.Header, *sig) != "valid" {
				w.rep("C02/store/signature", fmt.Sprintf("height %d", k))
			} else {
				w.sigOK[k] = key
			}
		}
	}
	st, err := e.Store.GetState(ctx)
	if h >= ih {
		pst := types.State{}
		// the proposer's state root after block h = AppHash of its block h+1, or its current state
		if psh, _, err := w.prod.Store.GetBlockData(ctx, h+1); err == nil && w.prod.Height() >= h+1 {
			pst.AppHash = psh.AppHash
		} else {
			pst = w.prod.M.GetLastState()
		}
		if err != nil || st.LastBlockHeight != h {
			w.rep("C05/state-height-differs-from-chain-height", fmt.Sprintf("state %d chain %d after %s", st.LastBlockHeight, h, when))
		} else if !bytes.Equal(st.AppHash, pst.AppHash) {
			w.rep("C02/state-root-differs", fmt.Sprintf("height %d", h))
		}
	}
	// execution calls: consecutive heights with the proposer's transactions
	calls := e.Exec.Calls
	for i, cl := range calls {
		if i > 0 && cl.Height != calls[i-1].Height+1 {
			w.rep("C02/exec/not-consecutive", fmt.Sprintf("%d after %d", cl.Height, calls[i-1].Height))
		}
		if _, pd, err := w.prod.Store.GetBlockData(ctx, cl.Height); err == nil {
			if len(pd.Txs) != len(cl.Txs) {
				w.rep("C02/exec/txs-differ", fmt.Sprintf("height %d", cl.Height))
			}
		}
	}
}
