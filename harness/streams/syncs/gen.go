package syncs

import (
	"fmt"
	"io"

	"verifharness/bm"
	"verifharness/hx"

	"github.com/evstack/ev-node/types"
)

const sec = int64(1_000_000_000)
const baseTime = int64(1_700_000_000) * sec

func paHex() string {
	_, pub := bm.DetKey(1)
	return hx.Hex(types.KeyAddress(pub))
}

type chainGen struct {
	da     uint64 // > 0: events carry increasing DA heights (the DA height of an event must not influence what is stored)
	w      io.Writer
	r      *hx.Rng
	ts     int64
	seq    int
	empty  map[uint64]bool
	n      uint64 // number of blocks produced (heights ih .. ih+n-1)
	ih     uint64
	resets int
}

func (g *chainGen) reset(ih uint64) {
	g.ih, g.n, g.ts, g.empty = ih, 0, baseTime, map[uint64]bool{}
	g.resets++
	// every other scenario runs with a non-default signature payload provider
	fmt.Fprintf(g.w, "reset ih=%d gt=%d pa=%s cp=%d\n", ih, baseTime, paHex(), g.resets%2)
	// the first production step commits the genesis block (always empty, no batch consumed)
	g.produceRaw(nil)
}

func (g *chainGen) produceRaw(txs [][]byte) {
	g.ts += sec
	fmt.Fprintf(g.w, "produce txs=%s ts=%d\n", hx.HexList(txs), g.ts)
	h := g.ih + g.n
	if g.n == 0 {
		g.empty[h] = true // genesis block
	} else {
		g.empty[h] = len(txs) == 0
	}
	g.n++
}

// kind: 0 empty, 1 fresh txs, 2 repeat of an earlier tx list (the recorded finding)
func (g *chainGen) produce(kind int) {
	switch kind {
	case 0:
		g.produceRaw(nil)
	case 2:
		g.produceRaw([][]byte{[]byte("same-tx")})
	default:
		g.seq++
		n := 1 + g.r.Intn(3)
		var txs [][]byte
		for i := 0; i < n; i++ {
			txs = append(txs, []byte(fmt.Sprintf("k%d.%d=v", g.seq, i)))
		}
		g.produceRaw(txs)
	}
}

type ev struct {
	dat bool
	h   uint64
}

func (g *chainGen) events() []ev {
	var evs []ev
	for i := uint64(0); i < g.n; i++ {
		h := g.ih + i
		evs = append(evs, ev{false, h})
		if !g.empty[h] {
			evs = append(evs, ev{true, h})
		}
	}
	return evs
}

func (g *chainGen) emit(e ev) {
	verb := "hdr"
	if e.dat {
		verb = "dat"
	}
	if g.da > 0 {
		g.da += uint64(g.r.Intn(3))
		fmt.Fprintf(g.w, "%s h=%d da=%d\n", verb, e.h, g.da)
		return
	}
	fmt.Fprintf(g.w, "%s h=%d\n", verb, e.h)
}

// junkSame: unauthenticated P2P data naming height h that COPIES the genuine transactions (genuine commitment) under a wrong time
func (g *chainGen) junkSame(h uint64) {
	fmt.Fprintf(g.w, "junkdat h=%d same=1\n", h)
}

// junk: unauthenticated P2P data naming height h (genuine chain id / height / time) with transactions no block holds
func (g *chainGen) junk(h uint64) {
	g.seq++
	fmt.Fprintf(g.w, "junkdat h=%d txs=%s\n", h, hx.HexList([][]byte{[]byte(fmt.Sprintf("junk%d", g.seq))}))
}

func permute(a []ev, f func([]ev)) {
	var rec func(k int)
	rec = func(k int) {
		if k == len(a) {
			f(a)
			return
		}
		for i := k; i < len(a); i++ {
			a[k], a[i] = a[i], a[k]
			rec(k + 1)
			a[k], a[i] = a[i], a[k]
		}
	}
	rec(0)
}

func GenC02(r *hx.Rng, tier string, w io.Writer) {
	g := &chainGen{w: w, r: r}
	// corpus: the recorded finding (a block repeating an earlier block's tx list), in order
	g.reset(1)
	g.produce(2)
	g.produce(1)
	g.produce(2)
	g.produce(1)
	for _, e := range g.events() {
		g.emit(e)
	}
	// corpus: junk P2P data (types.Data is not signed).  (a) the repaired halt: junk for the next height, then the genuine
	// header; the genuine data later.  (b) junk replacing the locally built data of an empty block whose predecessor is not
	// applied yet.  (c) junk for applied, far-future and non-existing heights.
	g.reset(1)
	g.produce(1)
	g.produce(0)
	g.produce(1)
	g.emit(ev{false, 1})
	g.junk(2)
	g.emit(ev{false, 2})
	g.emit(ev{false, 3})
	g.junk(3)
	g.junk(1)
	g.junk(9)
	g.emit(ev{true, 2})
	g.emit(ev{false, 4})
	g.junk(4)
	g.emit(ev{true, 4})
	g.junk(4)
	// (c') junk that copies the genuine transactions of a block (same data commitment) under a wrong time, before and after the
	// header: it must not make the genuine data count as already seen (repaired by /repo c3c43a6)
	g.reset(1)
	g.produce(1)
	g.produce(1)
	g.produce(1)
	g.emit(ev{false, 1})
	g.junkSame(2)
	g.emit(ev{false, 2})
	g.emit(ev{true, 2})
	g.emit(ev{false, 3})
	g.junkSame(3)
	g.junkSame(4)
	g.emit(ev{true, 3})
	g.emit(ev{true, 4})
	g.emit(ev{false, 4})
	// (d) what remains (recorded finding): the genuine data is cached, a junk item replaces it, the header arrives (the junk is
	// dropped): the node stays behind until the genuine data is delivered again (then it recovers)
	g.reset(1)
	g.produce(1)
	g.produce(1)
	g.emit(ev{false, 1})
	g.emit(ev{true, 2})
	g.junk(2)
	g.emit(ev{false, 2})
	g.emit(ev{true, 2})
	g.emit(ev{false, 3})
	g.emit(ev{true, 3})
	// corpus: events carrying increasing DA heights, with a restart in between
	g.reset(2)
	g.da = 7
	g.produce(1)
	g.produce(0)
	g.produce(1)
	for i, e := range g.events() {
		g.emit(e)
		if i == 2 {
			fmt.Fprintln(w, "restart")
		}
	}
	g.da = 0
	// every delivery order of a small chain: genesis(empty), non-empty, empty, non-empty
	shape := []int{1, 0, 1}
	if tier == "thorough" {
		shape = []int{1, 0, 1, 1}
	}
	var base []ev
	{
		g.reset(1)
		for _, k := range shape {
			g.produce(k)
		}
		base = g.events()
	}
	count := 0
	permute(base, func(p []ev) {
		count++
		if tier != "thorough" && count%6 != int(r.U64()%6) && count > 1 {
			return // quick: a sixth of the orders, chosen by the seed
		}
		if tier == "thorough" && count%9 != int(r.Seed%9) && count > 1 {
			return // thorough: a ninth of the 8! orders per seed (nine consecutive seeds cover them all; the tier runs three)
		}
		g.reset(1)
		for _, k := range shape {
			g.produce(k)
		}
		for _, e := range p {
			g.emit(e)
		}
	})
	if tier == "thorough" {
		// and EVERY order of the smaller chain (720), on every seed: a complete enumeration
		small := []int{1, 0, 1}
		g.reset(1)
		for _, k := range small {
			g.produce(k)
		}
		sb := g.events()
		permute(sb, func(p []ev) {
			g.reset(1)
			for _, k := range small {
				g.produce(k)
			}
			for _, e := range p {
				g.emit(e)
			}
		})
	}
	// long chains: parts of far-ahead blocks arrive first
	farFamily(g, r, tier, w)
	// random chains, orders with duplicates, restarts
	n := 40
	maxBlocks := 8
	if tier == "thorough" {
		n, maxBlocks = 300, 24
	}
	for i := 0; i < n; i++ {
		g.reset([]uint64{1, 1, 2, 5}[r.Intn(4)])
		nb := 1 + r.Intn(maxBlocks)
		repeats := r.Chance(12)
		for j := 0; j < nb; j++ {
			k := 1
			if r.Chance(35) {
				k = 0
			}
			if repeats && r.Chance(40) {
				k = 2
			}
			g.produce(k)
		}
		evs := g.events()
		// duplicates
		nd := r.Intn(len(evs) + 1)
		for j := 0; j < nd; j++ {
			evs = append(evs, evs[r.Intn(len(evs))])
		}
		// data events for empty blocks (must be ignored)
		if r.Chance(30) {
			evs = append(evs, ev{true, g.ih})
		}
		var order []ev
		switch r.Intn(4) {
		case 0: // in order
			order = evs
		case 1: // reversed
			for j := len(evs) - 1; j >= 0; j-- {
				order = append(order, evs[j])
			}
		default:
			for _, j := range r.Perm(len(evs)) {
				order = append(order, evs[j])
			}
		}
		// a quarter of the scenarios: events carry increasing DA heights
		if r.Chance(25) {
			g.da = 1 + uint64(r.Intn(50))
		}
		// a third of the scenarios: junk P2P data items for random heights at random positions - but only BEFORE the genuine
		// data of that height (junk after it is the recorded finding, generated deliberately above)
		junky := r.Chance(33)
		datSeen := map[uint64]bool{}
		for _, e := range order {
			if junky && r.Chance(25) {
				h := g.ih + uint64(r.Intn(int(g.n)+2))
				if !datSeen[h] {
					if r.Chance(40) {
						g.junkSame(h)
					} else {
						g.junk(h)
					}
				}
			}
			g.emit(e)
			if e.dat {
				datSeen[e.h] = true
			}
			if r.Chance(6) {
				fmt.Fprintln(w, "restart")
			}
		}
		// everything once more, in order: afterwards the node must be at the proposer's height
		for _, e := range g.events() {
			g.emit(e)
		}
		g.da = 0
	}
}

// farScenario: a LONG chain (dist blocks above the node's start, almost all empty, a few non-empty blocks with pairwise different
// tx lists near the top and one on the way) of which parts of the FAR-AHEAD non-empty blocks are delivered FIRST - while the node
// is still at its start, dist (100 .. 1000+) heights below - and every part exactly once after that: nothing brings a part back
// (the DA retriever never re-reads a DA height, the P2P store loops move their cursors past what they handed over), so a node
// that does not keep an early part stays below the top for ever.  Duplicates of the early parts follow them IMMEDIATELY (still
// far ahead); later duplicates are of headers only.
//
//	first: 0 data of the far blocks, 1 their headers, 2 both (data, then header), 3 both (header, then data)
//	rest:  0 in height order, 1 shuffled, 2 shuffled inside windows of 40 events
//	da:    events carry increasing DA heights (DA origin) or none (P2P origin)
func farScenario(g *chainGen, r *hx.Rng, ih uint64, dist int, first, rest int, da bool, restart bool) {
	g.reset(ih) // block ih (empty) is produced by reset: the node starts at ih-1
	top := ih - 1 + uint64(dist)
	mid := ih - 1 + uint64(dist) - 120 // on the way: some 120 heights below the top, when the chain is that long
	tail := r.Intn(3)                  // blocks above the far block
	for h := ih + 1; h <= top+uint64(tail); h++ {
		switch {
		case h == top, h == top-1 && r.Chance(50), h == top+1 && r.Chance(50), dist > 130 && h == mid:
			g.produce(1)
		default:
			g.produce(0)
		}
	}
	if da {
		g.da = 1 + uint64(r.Intn(50))
	}
	var far []uint64
	for h := ih; h < ih+g.n; h++ {
		if !g.empty[h] {
			far = append(far, h)
		}
	}
	if r.Chance(50) { // highest first
		for i, j := 0, len(far)-1; i < j; i, j = i+1, j-1 {
			far[i], far[j] = far[j], far[i]
		}
	}
	early := map[ev]bool{}
	for _, h := range far {
		var parts []ev
		switch first {
		case 0:
			parts = []ev{{true, h}}
		case 1:
			parts = []ev{{false, h}}
		case 2:
			parts = []ev{{true, h}, {false, h}}
		default:
			parts = []ev{{false, h}, {true, h}}
		}
		for _, e := range parts {
			g.emit(e)
			early[e] = true
			if r.Chance(35) {
				g.emit(e) // duplicate, still far ahead
			}
		}
	}
	if restart { // a clean stop: the caches with the far-ahead parts are saved and loaded
		fmt.Fprintln(g.w, "restart")
	}
	var evs []ev
	for _, e := range g.events() {
		if !early[e] {
			evs = append(evs, e)
		}
	}
	idx := make([]int, len(evs))
	for i := range idx {
		idx[i] = i
	}
	switch rest {
	case 1:
		idx = r.Perm(len(evs))
	case 2:
		for lo := 0; lo < len(evs); lo += 40 {
			hi := lo + 40
			if hi > len(evs) {
				hi = len(evs)
			}
			for i, j := range r.Perm(hi - lo) {
				idx[lo+i] = lo + j
			}
		}
	}
	for _, i := range idx {
		g.emit(evs[i])
		if !evs[i].dat && r.Chance(3) {
			g.emit(ev{false, g.ih + uint64(r.Intn(int(g.n)))}) // a duplicate header
		}
	}
	g.da = 0
}

// farFamily: see farScenario.  Sizes are fixed per tier; the seed chooses the variants.
func farFamily(g *chainGen, r *hx.Rng, tier string, w io.Writer) {
	if tier != "thorough" {
		// P2P origin, data first, distance just above 256, the rest in order
		farScenario(g, r, 1, 257+r.Intn(8), 0, 0, false, false)
		// DA origin, distance 300, data or both first, the rest shuffled
		farScenario(g, r, []uint64{1, 3}[r.Intn(2)], 300, []int{0, 2, 3}[r.Intn(3)], 1+r.Intn(2), true, r.Chance(30))
		// distance 100, headers (or both) first
		farScenario(g, r, 1, 100, 1+r.Intn(3), r.Intn(3), r.Chance(50), false)
		return
	}
	for _, dist := range []int{100, 257, 300, 600} {
		for first := 0; first < 4; first++ {
			if dist == 600 && first != int(r.Seed%4) && first != 0 {
				continue // the 600 chain: data first and one more variant per seed
			}
			farScenario(g, r, []uint64{1, 1, 2, 5}[r.Intn(4)], dist+r.Intn(6), first, r.Intn(3), (first+dist+int(r.Seed))%2 == 0, r.Chance(25))
		}
	}
	// 1000+ heights ahead: once, data first, the rest in order; P2P / DA origin by the seed
	farScenario(g, r, 1, 1030, 0, 0, r.Seed%2 == 0, false)
}

// GenC05: a crash after every prefix of the three durable writes of applying a block, then any delivery order
// of the remaining (re-delivered) events; nested crashes.
func GenC05(r *hx.Rng, tier string, w io.Writer) {
	g := &chainGen{w: w, r: r}
	shapes := [][]int{{1, 1, 1}, {0, 1, 0}, {1, 0, 0, 1}}
	if tier == "thorough" {
		shapes = append(shapes, []int{1, 1, 0, 1, 1}, []int{0, 0, 0}, []int{1, 0, 1, 0, 1, 1})
	}
	for _, ih := range []uint64{1, 3} {
		for _, shape := range shapes {
			total := len(shape) + 1
			for at := 0; at < total; at++ { // crash while applying block number `at`
				for keep := 0; keep <= 3; keep++ {
					for nested := -1; nested <= 3; nested++ {
						if nested >= 0 && tier != "thorough" && (keep+at)%2 == 0 {
							continue
						}
						g.reset(ih)
						for _, k := range shape {
							g.produce(k)
						}
						evs := g.events()
						// deliver in order up to and including the events of block `at`
						cut := 0
						for i, e := range evs {
							if e.h <= ih+uint64(at) {
								cut = i + 1
							}
						}
						for _, e := range evs[:cut] {
							g.emit(e)
						}
						fmt.Fprintf(w, "crash keep=%d\n", keep)
						if nested >= 0 {
							for _, e := range evs {
								g.emit(e)
								if e.h == ih+uint64(at) {
									break
								}
							}
							fmt.Fprintf(w, "crash keep=%d\n", nested)
						}
						// re-delivery of everything in a random order, then in order
						for _, j := range r.Perm(len(evs)) {
							g.emit(evs[j])
						}
						for _, e := range evs {
							g.emit(e)
						}
					}
				}
			}
		}
	}
	staleFamily(g, r, tier, w)
}

// staleFamily: a crash after an earlier CLEAN stop restarts on the cache files of that older generation (items by height,
// seen-sets): the caches may then hold header and data of the next height while every re-delivery is dropped as seen.
func staleFamily(g *chainGen, r *hx.Rng, tier string, w io.Writer) {
	shapes := [][]int{{1, 1, 1}, {1, 0, 1}}
	if tier == "thorough" {
		shapes = append(shapes, []int{0, 1, 1, 0}, []int{1, 1, 0, 1, 1})
	}
	for _, ih := range []uint64{1, 4} {
		for _, shape := range shapes {
			if tier != "thorough" && ih != 1 && len(shape) > 0 && shape[1] == 1 {
				continue // quick: the second initial height only with the shape that has an empty block
			}
			total := uint64(len(shape) + 1)
			for gap := uint64(0); gap+1 < total; gap++ { // the block whose parts arrive only after the clean restart
				maxKeep := 3 * int(total-gap)
				for keep := 0; keep <= maxKeep; keep++ {
					if tier != "thorough" && keep%2 == 1 && keep != 1 {
						continue
					}
					for variant := 0; variant < 3; variant++ {
						if tier != "thorough" && ((variant == 2 && keep%4 != 0) || (variant == 1 && keep != 4)) {
							continue
						}
						g.reset(ih)
						for _, k := range shape {
							g.produce(k)
						}
						evs := g.events()
						// generation 1 of the caches: everything except block `gap`, delivered out of order, then a clean stop
						for _, j := range r.Perm(len(evs)) {
							if evs[j].h != ih+gap {
								g.emit(evs[j])
							}
						}
						fmt.Fprintln(w, "restart")
						if variant == 1 { // a second generation: the same caches written again after a duplicate
							g.emit(evs[len(evs)-1])
							fmt.Fprintln(w, "restart")
						}
						// the gap is filled: blocks gap..top are applied in one step; the process dies after `keep` of its writes
						if !g.empty[ih+gap] {
							g.emit(ev{true, ih + gap})
						}
						g.emit(ev{false, ih + gap})
						fmt.Fprintf(w, "crash keep=%d stale=1\n", keep)
						if variant == 2 { // nested: the restart's own writes (it applies blocks from the stale caches) are cut as well
							fmt.Fprintf(w, "crash keep=%d stale=1\n", 1+keep%3)
						}
						// everything again, in a random order and then in order
						for _, j := range r.Perm(len(evs)) {
							g.emit(evs[j])
						}
						for _, e := range evs {
							g.emit(e)
						}
					}
				}
			}
		}
	}
}

func init() {
	hx.Register("C02", hx.Stream{Gen: GenC02, Run: Run})
	hx.Register("C05", hx.Stream{Gen: GenC05, Run: Run})
}
