package c20

import (
	"fmt"
	"strings"

	based "github.com/evstack/ev-node/sequencers/based"

	"verifharness/hx"
)

// Facts asked from the compiled code: the default size limit, and what the REAL sequencer releases
// on the three witness histories of Spec.C20 (ids per call) - the inputs that refuted the
// release-sequence clauses before the repair of GetNextBatch -, so that the kernel-checked
// "now behaves" theorems are statements about today's code and not only about the model.
type wcall struct {
	put  map[uint64][][]byte // DA growth before the call
	head uint64
	max  uint64
}

func witnessRun(start, drift uint64, calls []wcall) (string, error) {
	d := newDA()
	n, err := newNode(d, start, drift, nil)
	if err != nil {
		return "", err
	}
	s := &scen{start: start, drift: drift, da: d, a: n, b: n, m: newMonitor(false)}
	var per []string
	for _, c := range calls {
		for h, txs := range c.put {
			d.blobs[h] = txs
			if h >= d.head {
				d.head = h + 1
			}
		}
		if c.head > d.head {
			d.head = c.head
		}
		r := s.call(n, c.max, nil, false)
		if r.kind != "batch" && r.kind != "nil" {
			return "", fmt.Errorf("witness call answered %s", r.kind)
		}
		ids := make([]string, len(r.ids))
		for i, id := range r.ids {
			ids[i] = hx.LeanBytes(id)
		}
		per = append(per, "["+strings.Join(ids, ", ")+"]")
	}
	return "[" + strings.Join(per, ",\n   ") + "]", nil
}

func init() {
	hx.RegisterFacts("C20", func() (string, error) {
		var b strings.Builder
		fmt.Fprintf(&b, "def defaultMaxBlobSize : Nat := %d\n", based.DefaultMaxBlobSize)
		w1, err := witnessRun(1, 2, []wcall{
			{put: map[uint64][][]byte{1: {{0xaa, 1}, {0xaa, 2}, {0xaa, 3}}, 2: {{0xbb, 1}}}, head: 50, max: 5},
			{max: 5}, {max: 5}})
		if err != nil {
			return "", err
		}
		fmt.Fprintf(&b, "/-- ids released per call by the real sequencer: start=1 drift=2, height 1 = aa01 aa02 aa03, height 2 = bb01, head 50, three calls with limit 5 -/\ndef w1Ids : List (List Bytes) :=\n  %s\n", w1)
		w2, err := witnessRun(1, 1, []wcall{
			{put: map[uint64][][]byte{1: {{1}}}, max: 0},
			{put: map[uint64][][]byte{2: {{2}}}, head: 10, max: 0}, {max: 0}})
		if err != nil {
			return "", err
		}
		fmt.Fprintf(&b, "/-- start=1 drift=1: height 1 = 01 (head 2), one call; then height 2 = 02 appears (head 10), two calls -/\ndef w2Ids : List (List Bytes) :=\n  %s\n", w2)
		w3, err := witnessRun(1, 1, []wcall{
			{put: map[uint64][][]byte{1: {{1}, {9, 9, 9, 9, 9, 9}, {3}}, 2: {{4}}}, head: 20, max: 4},
			{max: 4}, {max: 4}})
		if err != nil {
			return "", err
		}
		fmt.Fprintf(&b, "/-- start=1 drift=1: height 1 = 01, 090909090909 (6 bytes), 03; height 2 = 04; three calls with limit 4 -/\ndef w3Ids : List (List Bytes) :=\n  %s\n", w3)
		return b.String(), nil
	})
}
