package c20

import (
	"bytes"
	"fmt"
	"strings"

	based "github.com/evstack/ev-node/sequencers/based"

	"verifharness/hx"
)

// monitor is the property's oracle, written against observable effects only (responses, the
// durable image, the DA double's content and fetch log); it does not know the Lean model.
//
// Clauses of C20 and their signatures:
//   size          C20/size/batch-exceeds-limit                     (every scenario, also contract=0)
//   content       C20/content/released-tx-not-da-content
//   exactly once  C20/exactly-once/height-rereleased | …/other
//   order/drop    C20/order/oversize-tx-overtaken | C20/order/unfit-carry-over-overtaken |
//                 C20/dropped/future-height-skipped | C20/dropped/other
//   push-back     C20/pushback/unfit-tx-not-first-in-next-batch | C20/pushback/fitting-carry-over-not-released
//   restart       C20/restart/diverges-from-unrestarted-run | …/scan-position-regressed | …/scan-position-not-persisted
//   completeness  C20/complete/stuck-at-rereleased-height | …/left-in-carry-over | …/other   (`end` op)
type monitor struct {
	contract  bool // the caller echoes back the previous BatchData and uses the right chain id
	callNo    int
	restarts  int
	released  map[string]int    // id -> call of first release
	touchedAt map[uint64]int    // height -> first call in which one of its txs was released or queued
	rescanned map[uint64]bool   // height fetched again, as the first height of a scan, after it had been touched
	rere      map[uint64]bool   // heights with a confirmed re-release
	passed    map[uint64]uint64 // height -> DA head when the scan position first moved past it
	flagged   map[string]bool
	torn      map[uint64]string // height queued durably while the durable scan position is still at or below it (crash) -> cause
	broken    bool // a contract=1 scenario in which the caller contract was left (explicit echo / bad id)
}

func newMonitor(contract bool) *monitor {
	return &monitor{contract: contract, released: map[string]int{}, touchedAt: map[uint64]int{}, rescanned: map[uint64]bool{},
		rere: map[uint64]bool{}, torn: map[uint64]string{}, passed: map[uint64]uint64{}, flagged: map[string]bool{}}
}

// tornKnown: the one crash window of the current code that leaves a height both in the persisted carry-over and at or
// above the persisted scan position (Spec.C20.C20_crash_torn_pushback_duplicates); beyond C20's quantifier.
const tornKnown = "pushback-saved-before-scan-position"

func (m *monitor) crashDup(c *hx.Ctx, w, what string) {
	if w == tornKnown {
		c.Hit("beyond-quantifier/duplicated/" + w)
		return
	}
	c.Report("C20/crash/unaccounted/duplicated-"+w, what)
}

// report: signatures under beyond-quantifier/ are effects of a crash INSIDE a call (k >= 1), which C20 does not
// quantify over: they go to the histogram, not to the findings.
func report(c *hx.Ctx, sig, what string) {
	if strings.HasPrefix(sig, "beyond-quantifier/") {
		c.Hit(sig)
		return
	}
	c.Report(sig, what)
}

func effMax(max uint64) uint64 {
	if max == 0 {
		return based.DefaultMaxBlobSize
	}
	return max
}

func flatten(q []entry) []item {
	var out []item
	for _, e := range q {
		out = append(out, e.items...)
	}
	return out
}

func findItem(l []item, id []byte) int {
	for i, it := range l {
		if bytes.Equal(it.id, id) {
			return i
		}
	}
	return -1
}

// classifyMissing names the cause for a DA tx that is neither released nor where it should be.
func (m *monitor) classifyMissing(s *scen, h uint64, id []byte, r *callRes, relNow map[string]bool) string {
	eff := effMax(r.max)
	qa, qb := flatten(r.qAfter), flatten(r.qBefore)
	if w, ok := m.torn[h]; ok {
		if w == tornKnown {
			return "beyond-quantifier/reordered/" + w
		}
		return "C20/crash/unaccounted/reordered-" + w
	}
	if findItem(qa, id) >= 0 && len(qa) > 0 {
		if uint64(len(qa[0].tx)) > eff {
			return "C20/order/oversize-tx-overtaken"
		}
		return "C20/order/unfit-carry-over-overtaken"
	}
	if findItem(qb, id) >= 0 {
		for _, z := range qb {
			if !relNow[string(z.id)] {
				if uint64(len(z.tx)) > eff {
					return "C20/order/oversize-tx-overtaken"
				}
				break
			}
		}
		return "C20/order/unfit-carry-over-overtaken"
	}
	if head, ok := m.passed[h]; ok && head <= h {
		return "C20/dropped/future-height-skipped"
	}
	// the missing DA entry has a byte-identical twin in its own height: entries are told apart by position only
	if _, i, ok := splitID(id); ok && i >= 0 && i < len(s.da.blobs[h]) {
		for j, b := range s.da.blobs[h] {
			if j != i && bytes.Equal(b, s.da.blobs[h][i]) {
				return "C20/dropped/identical-tx-in-one-height"
			}
		}
	}
	return "C20/dropped/other"
}

func (m *monitor) afterCall(c *hx.Ctx, s *scen, r *callRes, contractCall bool) {
	k := m.callNo
	m.callNo++
	eff := effMax(r.max)
	var sum uint64
	for _, tx := range r.txs {
		sum += uint64(len(tx))
	}
	if sum > eff {
		c.Report("C20/size/batch-exceeds-limit", fmt.Sprintf("call %d released %d bytes with limit %d", k, sum, eff))
	}
	if sum == eff {
		c.Hit("size:exactly-limit")
	}
	if !contractCall {
		m.broken = true
	}
	if !m.contract || m.broken {
		return
	}
	if r.kind != "batch" && r.kind != "nil" {
		c.Report("C20/error/unexpected-"+r.kind, fmt.Sprintf("call %d: a caller that keeps the contract got %s", k, r.kind))
		return
	}
	scanStart := s.start
	if r.posBefore != nil && *r.posBefore > scanStart {
		scanStart = *r.posBefore
	}
	for _, h := range r.served {
		if t, ok := m.touchedAt[h]; ok && t < k && h == scanStart {
			m.rescanned[h] = true
			c.Hit("rescan-of-touched-height")
		}
	}
	relNow := map[string]bool{}
	for _, id := range r.ids {
		relNow[string(id)] = true
	}
	qb, qa := flatten(r.qBefore), flatten(r.qAfter)

	// push-back clause: what did not fit comes first in the next batch
	if len(qb) > 0 {
		c.Hit("call-with-carry-over")
		y := qb[0]
		switch {
		case len(r.ids) > 0 && !bytes.Equal(r.ids[0], y.id):
			if uint64(len(y.tx)) > eff {
				c.Report("C20/order/oversize-tx-overtaken", fmt.Sprintf("call %d (limit %d): carry-over head %s has %d bytes and stays queued while %s is released", k, eff, hx.Hex(y.id), len(y.tx), hx.Hex(r.ids[0])))
			} else {
				c.Report("C20/pushback/unfit-tx-not-first-in-next-batch", fmt.Sprintf("call %d: carry-over head %s, batch starts with %s", k, hx.Hex(y.id), hx.Hex(r.ids[0])))
			}
		case len(r.ids) == 0 && uint64(len(y.tx)) <= eff:
			c.Report("C20/pushback/fitting-carry-over-not-released", fmt.Sprintf("call %d (limit %d): carry-over head %s (%d bytes) fits but nothing was released", k, eff, hx.Hex(y.id), len(y.tx)))
		case len(r.ids) > 0:
			c.Hit("pushback-first-ok")
		}
	}

	// content, exactly once, DA order
	for j, id := range r.ids {
		h, i, ok := splitID(id)
		if !ok || h < s.start || h >= s.da.head || i < 0 || i >= len(s.da.blobs[h]) || j >= len(r.txs) || !bytes.Equal(s.da.blobs[h][i], r.txs[j]) {
			c.Report("C20/content/released-tx-not-da-content", fmt.Sprintf("call %d: id %s / tx %d is not what the DA holds at heights >= %d", k, hx.Hex(id), j, s.start))
			continue
		}
		if first, dup := m.released[string(id)]; dup {
			if w, ok := m.torn[h]; ok {
				m.crashDup(c, w, fmt.Sprintf("call %d releases id %s (height %d, index %d) again (first in call %d): a crash inside an earlier call left the height both in the persisted carry-over and ahead of the persisted scan position", k, hx.Hex(id), h, i, first))
			} else if m.rescanned[h] {
				m.rere[h] = true
				c.Report("C20/exactly-once/height-rereleased", fmt.Sprintf("call %d releases id %s (height %d, index %d) again (first in call %d): the scan restarted at height %d although its txs had been taken", k, hx.Hex(id), h, i, first, h))
			} else {
				c.Report("C20/exactly-once/other", fmt.Sprintf("call %d releases id %s (height %d, index %d) again (first in call %d)", k, hx.Hex(id), h, i, first))
			}
			continue
		}
		m.released[string(id)] = k
		for hy := s.start; hy <= h; hy++ {
			for iy := range s.da.blobs[hy] {
				if hy == h && iy >= i {
					break
				}
				y := mkID(hy, iy)
				if _, ok := m.released[string(y)]; ok || m.flagged[string(y)] {
					continue
				}
				m.flagged[string(y)] = true
				report(c, m.classifyMissing(s, hy, y, r, relNow), fmt.Sprintf("call %d releases %s while the earlier DA tx (height %d, index %d) has not been released", k, hx.Hex(id), hy, iy))
			}
		}
	}

	// a queued id that was already released will be released twice
	for _, it := range qa {
		if h, _, ok := splitID(it.id); ok {
			if _, dup := m.released[string(it.id)]; dup && findItem(qb, it.id) < 0 {
				if w, ok := m.torn[h]; ok {
					m.crashDup(c, w, fmt.Sprintf("call %d queues id %s (height %d) again although it was released: a crash inside an earlier call left the height both in the persisted carry-over and ahead of the persisted scan position", k, hx.Hex(it.id), h))
				} else if m.rescanned[h] {
					m.rere[h] = true
					c.Report("C20/exactly-once/height-rereleased", fmt.Sprintf("call %d queues id %s (height %d) again although it was released: the scan restarted at height %d", k, hx.Hex(it.id), h, h))
				} else {
					c.Report("C20/exactly-once/other", fmt.Sprintf("call %d queues id %s (height %d) although it was already released", k, hx.Hex(it.id), h))
				}
			}
		}
	}

	// scan position
	switch {
	case r.posAfter == nil:
		c.Report("C20/restart/scan-position-not-persisted", fmt.Sprintf("call %d left no scan position in the datastore", k))
	case r.posBefore != nil && *r.posAfter < *r.posBefore:
		c.Report("C20/restart/scan-position-regressed", fmt.Sprintf("call %d: %d -> %d", k, *r.posBefore, *r.posAfter))
	}
	posAfter := scanStart
	if r.posAfter != nil {
		posAfter = *r.posAfter
	}

	// nothing dropped: every tx of a height the scan has passed or touched is released or durably queued
	for _, it := range qa {
		if h, _, ok := splitID(it.id); ok {
			if _, seen := m.touchedAt[h]; !seen {
				m.touchedAt[h] = k
			}
		}
	}
	for _, id := range r.ids {
		if h, _, ok := splitID(id); ok {
			if _, seen := m.touchedAt[h]; !seen {
				m.touchedAt[h] = k
			}
		}
	}
	for h := scanStart; h < posAfter && h < scanStart+4096; h++ {
		if _, ok := m.passed[h]; !ok {
			m.passed[h] = s.da.head
		}
	}
	for h := s.start; h < s.da.head; h++ {
		_, touched := m.touchedAt[h]
		if !(h < posAfter || touched) {
			continue
		}
		for i := range s.da.blobs[h] {
			y := mkID(h, i)
			if _, ok := m.released[string(y)]; ok || m.flagged[string(y)] || findItem(qa, y) >= 0 {
				continue
			}
			m.flagged[string(y)] = true
			report(c, m.classifyMissing(s, h, y, r, relNow), fmt.Sprintf("after call %d (scan position %d) the DA tx (height %d, index %d) is neither released nor in the persisted carry-over", k, posAfter, h, i))
		}
	}
	if len(qa) > 0 {
		c.Hit("pushback")
	}
	if m.restarts > 0 {
		c.Hit("call-after-restart")
	}
}

// afterCrash: the call r ran on the real sequencer, the process died when the first k of its durable writes
// (names) were on disk, its answer was NOT delivered; img is the durable image the restarted sequencer sees.
// C20 quantifies over restarts BETWEEN two calls (= the crash point k=0). What a crash INSIDE a call (k >= 1) does
// is beyond the property: it is observed (the observation line is diffed against the Lean model at every crash point),
// counted in the histogram, and reported only when it is MORE than Spec.C20.C20_crash_accounting allows:
//   hit    beyond-quantifier/dropped/pop-saved-before-answer-returned            popped by the dying call, pop saved
//   hit    beyond-quantifier/dropped/scan-position-saved-before-answer-returned  scanned by the dying call, all writes on disk
//   hit    beyond-quantifier/duplicated|reordered/pushback-saved-before-scan-position  (observed later, afterCall)
//   REPORT C20/crash/unaccounted/not-in-undelivered-answer        a tx the dying call did not even try to release is lost
//   REPORT C20/crash/unaccounted/lost-before-first-write          k=0 is a restart between calls: nothing may be lost
//   REPORT C20/crash/unaccounted/scanned-tx-lost-before-last-write  the position passed a scanned tx before the last write
//   REPORT C20/crash/unaccounted/duplicated-|reordered-<write>-saved-before-<write>   a torn window the current code does not have
func (m *monitor) afterCrash(c *hx.Ctx, s *scen, r *callRes, k int, names []string, img map[string][]byte, contractCall bool) {
	kc := m.callNo
	m.callNo++
	if !contractCall {
		m.broken = true
	}
	if !m.contract || m.broken {
		return
	}
	if r.kind != "batch" && r.kind != "nil" {
		c.Report("C20/error/unexpected-"+r.kind, fmt.Sprintf("call %d: a caller that keeps the contract got %s", kc, r.kind))
		return
	}
	window := "before-the-first-write"
	cause := "no-write-before-crash"
	if k > 0 && k <= len(names) {
		nxt := "answer-returned"
		if k < len(names) {
			nxt = names[k]
		}
		window = "between " + names[k-1] + " and " + nxt
		cause = strings.TrimSuffix(names[k-1], "-save") + "-saved-before-" + strings.TrimSuffix(nxt, "-save")
	}
	scanStart := s.start
	if r.posBefore != nil && *r.posBefore > scanStart {
		scanStart = *r.posBefore
	}
	pos := s.start
	if p := readPos(img); p != nil && *p > pos {
		pos = *p
	}
	if pos < scanStart {
		c.Report("C20/restart/scan-position-regressed", fmt.Sprintf("crash in call %d (%s): %d -> %d", kc, window, scanStart, pos))
	}
	qe, _ := readQueue(img)
	q := flatten(qe)
	for _, it := range q {
		if h, _, ok := splitID(it.id); ok {
			if _, seen := m.touchedAt[h]; !seen {
				m.touchedAt[h] = kc
			}
			if h >= pos {
				// the heights pos..h will be scanned again although the carry-over of h is on disk: what the dying
				// call took from them comes AFTER that carry-over, which is then released a second time
				c.Hit("crash:torn-pushback")
				for hh := pos; hh <= h && hh < pos+4096; hh++ {
					if _, ok := m.torn[hh]; !ok {
						m.torn[hh] = cause
					}
				}
			}
		}
	}
	for h := scanStart; h < pos && h < scanStart+4096; h++ {
		if _, ok := m.passed[h]; !ok {
			m.passed[h] = s.da.head
		}
	}
	und := map[string]bool{}
	for _, id := range r.ids {
		und[string(id)] = true
	}
	qb := flatten(r.qBefore)
	lost := 0
	for h := s.start; h < s.da.head; h++ {
		_, touched := m.touchedAt[h]
		_, torn := m.torn[h]
		if !(h < pos || (touched && !torn)) {
			continue
		}
		for i := range s.da.blobs[h] {
			y := mkID(h, i)
			if _, ok := m.released[string(y)]; ok || m.flagged[string(y)] || findItem(q, y) >= 0 {
				continue
			}
			m.flagged[string(y)] = true
			lost++
			what := fmt.Sprintf("call %d died %s (after %d of its %d durable writes), its answer (%d txs) was not delivered: the DA tx (height %d, index %d) is neither released nor in the persisted carry-over, and the persisted scan position %d will not come back to it", kc, window, k, len(names), len(r.ids), h, i, pos)
			// what the accounting theorem (Spec.C20.C20_crash_accounting, lostAt) allows a crash INSIDE a call to lose:
			// nothing before the first write; what the dying call popped from the persisted carry-over once the pop is
			// saved; its whole undelivered answer once ALL its writes are on disk. Such a loss is beyond C20's quantifier
			// (restarts between two calls): counted, not reported. Anything else is reported.
			popped := findItem(qb, y) >= 0
			switch {
			case !und[string(y)]:
				c.Report("C20/crash/unaccounted/not-in-undelivered-answer", what)
			case k == 0:
				c.Report("C20/crash/unaccounted/lost-before-first-write", what)
			case popped && names[0] == "pop-save":
				c.Hit("beyond-quantifier/dropped/pop-saved-before-answer-returned")
			case k == len(names) && names[k-1] == "scan-position-save":
				c.Hit("beyond-quantifier/dropped/scan-position-saved-before-answer-returned")
			default:
				c.Report("C20/crash/unaccounted/scanned-tx-lost-before-last-write", what+" ("+cause+")")
			}
		}
	}
	if lost == 0 {
		c.Hit("crash:nothing-lost")
	}
}

// atEnd: after `calls` further calls with a limit above every tx size and no fault left, every
// DA tx of heights [start, head) must have been released.
func (m *monitor) atEnd(c *hx.Ctx, s *scen, max, calls uint64, pos *uint64, q []entry) {
	if !m.contract || m.broken || len(s.da.errIDs)+len(s.da.errGet) > 0 {
		return
	}
	eff := effMax(max)
	var ntx uint64
	for h := s.start; h < s.da.head; h++ {
		for _, tx := range s.da.blobs[h] {
			ntx++
			if uint64(len(tx)) >= eff {
				return // not a draining limit
			}
		}
	}
	if s.da.head > s.start && calls < ntx+(s.da.head-s.start)+2 {
		return
	}
	c.Hit("end-checked")
	p := s.start
	if pos != nil && *pos > p {
		p = *pos
	}
	fq := flatten(q)
	for h := s.start; h < s.da.head; h++ {
		for i := range s.da.blobs[h] {
			y := mkID(h, i)
			if _, ok := m.released[string(y)]; ok || m.flagged[string(y)] {
				continue
			}
			what := fmt.Sprintf("after %d draining calls (limit %d) the DA tx (height %d, index %d) was never released; scan position %d", calls, eff, h, i, p)
			twin := false
			for j, b := range s.da.blobs[h] {
				if j != i && bytes.Equal(b, s.da.blobs[h][i]) {
					twin = true
				}
			}
			switch {
			case twin && findItem(fq, y) < 0 && h < p:
				c.Report("C20/dropped/identical-tx-in-one-height", what)
			case h >= p && m.rere[p]:
				c.Report("C20/complete/stuck-at-rereleased-height", what)
			case findItem(fq, y) >= 0:
				c.Report("C20/complete/left-in-carry-over", what)
			default:
				c.Report("C20/complete/other", what)
			}
		}
	}
}
