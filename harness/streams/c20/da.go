// Package c20 is the correspondence stream and the monitors of property C20 (based sequencer).
package c20

import (
	"bytes"
	"context"
	"crypto/sha256"
	"encoding/binary"
	"errors"
	"fmt"
	"time"

	coreda "github.com/evstack/ev-node/core/da"
)

// daD is the scripted DA layer: immutable content per height below head, heights >= head are
// "from the future", per-height retrieval faults set and cleared by ops (every height is fetched
// at most once per GetNextBatch call, so set/clear between calls expresses any error pattern).
type daD struct {
	head   uint64
	blobs  map[uint64][][]byte
	errIDs map[uint64]bool
	errGet map[uint64]bool
	// fetch log of the call in progress: heights whose content was served
	served []uint64
	asked  []uint64
	// contentIDs (`reset … ids=content`): ids are height ‖ sha256(blob), exactly what core/da.DummyDA hands out
	// (core/da/dummy.go:202-207, makeID in core/da/da.go:117): byte-identical blobs of one height share an id.
	contentIDs bool
}

func cID(h uint64, blob []byte) []byte {
	sum := sha256.Sum256(blob)
	id := make([]byte, 8, 40)
	binary.LittleEndian.PutUint64(id, h)
	return append(id, sum[:]...)
}

// positions of the blobs of height h whose content id is id (several when the height holds identical blobs)
func (d *daD) positionsOf(id []byte) (h uint64, pos []int) {
	if len(id) != 40 {
		return 0, nil
	}
	h = binary.LittleEndian.Uint64(id)
	for i, b := range d.blobs[h] {
		if bytes.Equal(cID(h, b), id) {
			pos = append(pos, i)
		}
	}
	return h, pos
}

func newDA() *daD {
	return &daD{blobs: map[uint64][][]byte{}, errIDs: map[uint64]bool{}, errGet: map[uint64]bool{}}
}

func mkID(h uint64, i int) []byte {
	id := make([]byte, 16)
	binary.LittleEndian.PutUint64(id, h)
	binary.LittleEndian.PutUint64(id[8:], uint64(i)+1)
	return id
}

// splitID is the harness' own reading of an id (monitor side).
func splitID(id []byte) (h uint64, i int, ok bool) {
	if len(id) != 16 {
		return 0, 0, false
	}
	return binary.LittleEndian.Uint64(id), int(binary.LittleEndian.Uint64(id[8:])) - 1, true
}

func (d *daD) GetIDs(_ context.Context, h uint64, _ []byte) (*coreda.GetIDsResult, error) {
	d.asked = append(d.asked, h)
	if d.errIDs[h] {
		return nil, errors.New("rpc failure while listing")
	}
	if h >= d.head {
		return nil, fmt.Errorf("%w: requested %d, current %d", coreda.ErrHeightFromFuture, h, d.head)
	}
	n := len(d.blobs[h])
	if n == 0 {
		return nil, coreda.ErrBlobNotFound
	}
	ids := make([]coreda.ID, n)
	for i := range ids {
		if d.contentIDs {
			ids[i] = cID(h, d.blobs[h][i])
		} else {
			ids[i] = mkID(h, i)
		}
	}
	return &coreda.GetIDsResult{IDs: ids, Timestamp: time.Unix(int64(1000+h), 0)}, nil
}

func (d *daD) Get(_ context.Context, ids []coreda.ID, _ []byte) ([]coreda.Blob, error) {
	out := make([]coreda.Blob, 0, len(ids))
	if d.contentIDs {
		for k, id := range ids {
			h, pos := d.positionsOf(id)
			if len(pos) == 0 {
				return nil, coreda.ErrBlobNotFound
			}
			if k == 0 && d.errGet[h] {
				return nil, errors.New("rpc failure while fetching")
			}
			if k == 0 {
				d.served = append(d.served, h)
			}
			out = append(out, append([]byte(nil), d.blobs[h][pos[0]]...))
		}
		return out, nil
	}
	for k, id := range ids {
		h, i, ok := splitID(id)
		if !ok || i < 0 || i >= len(d.blobs[h]) {
			return nil, coreda.ErrBlobNotFound
		}
		if k == 0 && d.errGet[h] {
			return nil, errors.New("rpc failure while fetching")
		}
		out = append(out, append([]byte(nil), d.blobs[h][i]...))
	}
	if len(ids) > 0 {
		h, _, _ := splitID(ids[0])
		d.served = append(d.served, h)
	}
	return out, nil
}

func (d *daD) GetProofs(context.Context, []coreda.ID, []byte) ([]coreda.Proof, error) {
	return nil, nil
}
func (d *daD) Commit(context.Context, []coreda.Blob, []byte) ([]coreda.Commitment, error) {
	return nil, nil
}
func (d *daD) Validate(_ context.Context, ids []coreda.ID, _ []coreda.Proof, _ []byte) ([]bool, error) {
	return make([]bool, len(ids)), nil
}
func (d *daD) Submit(context.Context, []coreda.Blob, float64, []byte) ([]coreda.ID, error) {
	return nil, errors.New("not used")
}
func (d *daD) SubmitWithOptions(context.Context, []coreda.Blob, float64, []byte, []byte) ([]coreda.ID, error) {
	return nil, errors.New("not used")
}
func (d *daD) GasPrice(context.Context) (float64, error)      { return -1, nil }
func (d *daD) GasMultiplier(context.Context) (float64, error) { return 0, nil }

var _ coreda.DA = (*daD)(nil)
