package c20

import (
	"fmt"
	"io"

	"verifharness/hx"
)

// Scenario families (every random choice from r). Since the repair of GetNextBatch (a push-back
// consumes its height, a height from the future stops the scan, no scan past un-popped carry-over)
// every family must stay silent; the families named after the former findings are the inputs that
// showed them and now guard the repair:
//   single     one call on any DA content / limit / fault pattern, then restart
//   exactfill  uniform tx size, limit = k*size: push-back and carry-over batches that fill the limit
//              exactly; restarts between calls
//   allfit     everything fits, many heights, faults set/cleared, restarts, drained up to the DA head
//   rerelease  push-back followed by further calls, drained   (was: height-rereleased, stuck-at-rereleased-height)
//   future     the scan reaches the DA head, content arrives later, drained   (was: future-height-skipped)
//   oversize   a tx larger than the limit: nil responses until a larger limit arrives, then drained
//              (was: oversize-tx-overtaken)
//   anylimit   a different limit on every call, many smaller than a tx, restarts, drained
//   flaky      the DA grows between the calls, retrieval faults come and go, then drained
//   crash      the process dies INSIDE a call (`crash-next at=k`): after k = 0, 1, 2, 3 (and beyond) of the call's
//              durable writes, with and without carry-over, batch cut by the limit, a DA fault in the middle;
//              then drained. Beyond C20's quantifier (restarts between calls): effects counted as beyond-quantifier/..., only C20/crash/unaccounted/... is reported
//   identical  ids=content (ids = height ‖ sha256(blob), as core/da.DummyDA): heights with 2-4 byte-identical txs, adjacent
//              and not, the same bytes also in the next height; limits that push several copies back in one call;
//              restarts between calls; drained: every DA ENTRY (position) is released exactly once
//   lawless    forged LastBatchData, wrong chain id, any op order (contract=0: size bound + correspondence only)
//   malformed  broken op lines
type g struct {
	r   *hx.Rng
	w   io.Writer
	ctr int
}

func (g *g) p(f string, a ...any) { fmt.Fprintf(g.w, f+"\n", a...) }

func (g *g) tx(size int) []byte {
	g.ctr++
	b := make([]byte, size)
	for i := range b {
		b[i] = byte(g.ctr + i*7)
	}
	if size >= 2 {
		b[0], b[1] = byte(g.ctr>>8), byte(g.ctr)
	}
	return b
}

func (g *g) txs(n, lo, hi int) [][]byte {
	out := make([][]byte, n)
	for i := range out {
		out[i] = g.tx(lo + g.r.Intn(hi-lo+1))
	}
	return out
}

func (g *g) maybeRestart(pct int) {
	if g.r.Chance(pct) {
		g.p("restart")
	}
}

func (g *g) single() {
	start, drift := uint64(g.r.Intn(4)), uint64(g.r.Intn(5))
	g.p("reset start=%d drift=%d fam=single", start, drift)
	nh := 1 + g.r.Intn(6)
	total := 0
	var sizes []int
	for h := 0; h < nh; h++ {
		n := 0
		if !g.r.Chance(30) {
			n = 1 + g.r.Intn(5)
		}
		t := g.txs(n, 0, 12)
		for _, x := range t {
			total += len(x)
			sizes = append(sizes, len(x))
		}
		g.p("put h=%d txs=%s", h, hx.HexList(t))
	}
	if g.r.Chance(60) {
		g.p("head n=%d", nh+g.r.Intn(12))
	}
	if g.r.Chance(25) {
		g.p("fault h=%d k=%s", g.r.Intn(nh+1), []string{"errids", "errget"}[g.r.Intn(2)])
	}
	max := 0
	switch g.r.Intn(6) {
	case 0:
		max = 0
	case 1:
		max = 1 + g.r.Intn(3)
	case 2: // an exact prefix sum, and its neighbours
		k, acc := g.r.Intn(len(sizes)+1), 0
		for _, s := range sizes[:k] {
			acc += s
		}
		max = acc + g.r.Intn(3) - 1
		if max < 1 {
			max = 1
		}
	case 3:
		max = total + 1 + g.r.Intn(3)
	default:
		max = 1 + g.r.Intn(total+2)
	}
	g.p("next max=%d", max)
	g.p("restart")
}

func (g *g) exactfill() {
	s := 1 + g.r.Intn(4)
	k := 2 + g.r.Intn(3)
	m := 1 + g.r.Intn(3)
	start := uint64(g.r.Intn(3))
	g.p("reset start=%d drift=%d fam=exactfill", start, g.r.Intn(4))
	h := int(start)
	pre := g.r.Intn(k - 1) // txs on earlier heights, all released by the first call
	if pre > 0 {
		g.p("put h=%d txs=%s", h, hx.HexList(g.txs(pre, s, s)))
		h++
		if g.r.Bool() {
			h++ // an empty height in between
		}
	}
	g.p("put h=%d txs=%s", h, hx.HexList(g.txs(k-1-pre+k*m, s, s)))
	g.p("head n=%d", h+1+g.r.Intn(10))
	for i := 0; i < m+1; i++ {
		g.p("next max=%d", k*s)
		g.maybeRestart(50)
	}
}

func (g *g) allfit() {
	start, drift := uint64(g.r.Intn(4)), uint64(g.r.Intn(4))
	g.p("reset start=%d drift=%d fam=allfit", start, drift)
	nh := 4 + g.r.Intn(14)
	ntx := 0
	for h := 0; h < nh; h++ {
		n := 0
		if !g.r.Chance(35) {
			n = 1 + g.r.Intn(4)
		}
		ntx += n
		g.p("put h=%d txs=%s", h, hx.HexList(g.txs(n, 0, 9)))
	}
	head := nh + g.r.Intn(6)
	g.p("head n=%d", head)
	max := []int{0, 100000, 5000}[g.r.Intn(3)]
	calls := 3 + g.r.Intn(10)
	var faulty []int
	for i := 0; i < calls; i++ {
		if g.r.Chance(25) {
			f := g.r.Intn(nh + 2)
			g.p("fault h=%d k=%s", f, []string{"errids", "errget"}[g.r.Intn(2)])
			faulty = append(faulty, f)
		}
		if len(faulty) > 0 && g.r.Chance(40) {
			g.p("fault h=%d k=none", faulty[0])
			faulty = faulty[1:]
		}
		g.p("next max=%d", max)
		g.maybeRestart(35)
	}
	for _, f := range faulty {
		g.p("fault h=%d k=none", f)
	}
	// drain up to the DA head (the scan stops there and is not allowed to run past it)
	_ = drift
	g.p("end max=%d calls=%d", 100000, ntx+head+3)
}

func (g *g) rerelease() {
	start, drift := uint64(g.r.Intn(3)), uint64(g.r.Intn(4))
	g.p("reset start=%d drift=%d fam=rerelease", start, drift)
	nh := 2 + g.r.Intn(5)
	ntx := 0
	for h := 0; h < nh; h++ {
		n := 1 + g.r.Intn(5)
		if h > 0 && g.r.Chance(25) {
			n = 0
		}
		ntx += n
		g.p("put h=%d txs=%s", h, hx.HexList(g.txs(n, 1, 6)))
	}
	g.p("head n=%d", 300)
	max := 8 + g.r.Intn(10) // above every tx size, below most heights' content
	for i, n := 0, 2+g.r.Intn(6); i < n; i++ {
		g.p("next max=%d", max)
		g.maybeRestart(30)
	}
	k := ntx + 300 + 3
	if k <= 400 && g.r.Chance(60) {
		g.p("end max=%d calls=%d", max, k)
	}
}

func (g *g) future() {
	start, drift := uint64(g.r.Intn(3)), uint64(1+g.r.Intn(4))
	g.p("reset start=%d drift=%d fam=future", start, drift)
	nh := int(start) + 1 + g.r.Intn(3)
	ntx := 0
	for h := int(start); h < nh; h++ {
		n := 1 + g.r.Intn(3)
		ntx += n
		g.p("put h=%d txs=%s", h, hx.HexList(g.txs(n, 1, 6)))
	}
	// calls until the scan has run into the future
	for i := 0; i < 2+g.r.Intn(3); i++ {
		g.p("next max=0")
		g.maybeRestart(30)
	}
	// the DA grows: the heights the scan had reached now hold txs
	top := nh + 1 + g.r.Intn(3)
	for h := nh; h < top; h++ {
		n := 1 + g.r.Intn(3)
		ntx += n
		g.p("put h=%d txs=%s", h, hx.HexList(g.txs(n, 1, 6)))
	}
	head := top + 3 + g.r.Intn(30)
	g.p("head n=%d", head)
	for i := 0; i < 2+g.r.Intn(3); i++ {
		g.p("next max=0")
		g.maybeRestart(20)
	}
	g.p("end max=0 calls=%d", ntx+head+3)
}

func (g *g) oversize() {
	start, drift := uint64(g.r.Intn(2)), uint64(g.r.Intn(3))
	g.p("reset start=%d drift=%d fam=oversize", start, drift)
	max := 4 + g.r.Intn(6)
	h := int(start)
	small := g.txs(1+g.r.Intn(2), 1, 2)
	big := g.tx(max + 1 + g.r.Intn(4))
	after := g.txs(1+g.r.Intn(2), 1, 2)
	g.p("put h=%d txs=%s", h, hx.HexList(append(append(small, big), after...)))
	g.p("put h=%d txs=%s", h+1, hx.HexList(g.txs(2, 1, 2)))
	head := h + 2 + g.r.Intn(20)
	g.p("head n=%d", head)
	for i := 0; i < 3+g.r.Intn(3); i++ {
		g.p("next max=%d", max)
		g.maybeRestart(30)
	}
	// a limit that admits the big tx (sometimes exactly) arrives: it must come first
	g.p("next max=%d", len(big)+g.r.Intn(3))
	g.maybeRestart(30)
	g.p("end max=%d calls=%d", len(big)+1+g.r.Intn(8), 8+head+3)
}

func (g *g) anylimit() {
	start, drift := uint64(g.r.Intn(3)), uint64(g.r.Intn(4))
	g.p("reset start=%d drift=%d fam=anylimit", start, drift)
	nh := 2 + g.r.Intn(6)
	ntx := 0
	for h := 0; h < nh; h++ {
		n := g.r.Intn(5)
		ntx += n
		g.p("put h=%d txs=%s", h, hx.HexList(g.txs(n, 0, 7)))
	}
	head := nh + g.r.Intn(5)
	g.p("head n=%d", head)
	for i, n := 0, 4+g.r.Intn(12); i < n; i++ {
		g.p("next max=%d", 1+g.r.Intn(10))
		g.maybeRestart(25)
	}
	g.p("end max=%d calls=%d", 8+g.r.Intn(10), ntx+head+3)
}

func (g *g) flaky() {
	start, drift := uint64(g.r.Intn(3)), uint64(g.r.Intn(4))
	g.p("reset start=%d drift=%d fam=flaky", start, drift)
	h, ntx := 0, 0
	var faulty []int
	for i, n := 0, 6+g.r.Intn(14); i < n; i++ {
		switch g.r.Intn(6) {
		case 0, 1: // the DA grows
			k := g.r.Intn(4)
			ntx += k
			g.p("put h=%d txs=%s", h, hx.HexList(g.txs(k, 1, 6)))
			h++
		case 2:
			f := g.r.Intn(h + 2)
			g.p("fault h=%d k=%s", f, []string{"errids", "errget"}[g.r.Intn(2)])
			faulty = append(faulty, f)
		case 3:
			if len(faulty) > 0 {
				g.p("fault h=%d k=none", faulty[0])
				faulty = faulty[1:]
			}
		default:
			g.p("next max=%d", []int{0, 4, 7, 9, 30}[g.r.Intn(5)])
			g.maybeRestart(25)
		}
	}
	for _, f := range faulty {
		g.p("fault h=%d k=none", f)
	}
	g.p("end max=%d calls=%d", 7+g.r.Intn(30), ntx+h+3)
}

func (g *g) crash() {
	start, drift := uint64(g.r.Intn(3)), uint64(g.r.Intn(4))
	g.p("reset start=%d drift=%d fam=crash", start, drift)
	nh := 2 + g.r.Intn(5)
	ntx := 0
	for h := 0; h < nh; h++ {
		n := 1 + g.r.Intn(4)
		if h > 0 && g.r.Chance(25) {
			n = 0
		}
		ntx += n
		g.p("put h=%d txs=%s", h, hx.HexList(g.txs(n, 1, 6)))
	}
	head := nh + g.r.Intn(4)
	g.p("head n=%d", head)
	max := 7 + g.r.Intn(10) // above every tx size: the drain below is a draining limit
	if g.r.Chance(15) {
		max = 0
	}
	fault := -1
	for i, n := 0, 3+g.r.Intn(7); i < n; i++ {
		if fault < 0 && g.r.Chance(15) {
			fault = g.r.Intn(nh + 1)
			g.p("fault h=%d k=%s", fault, []string{"errids", "errget"}[g.r.Intn(2)])
		} else if fault >= 0 && g.r.Chance(40) {
			g.p("fault h=%d k=none", fault)
			fault = -1
		}
		m := max
		if g.r.Chance(20) {
			m = 1 + g.r.Intn(8)
		}
		if g.r.Chance(45) {
			g.p("crash-next at=%d max=%d", g.r.Intn(5), m)
		} else {
			g.p("next max=%d", m)
			g.maybeRestart(20)
		}
	}
	if fault >= 0 {
		g.p("fault h=%d k=none", fault)
	}
	g.p("end max=%d calls=%d", max, ntx+head+3)
}

func (g *g) identical() {
	start, drift := uint64(g.r.Intn(2)), uint64(1+g.r.Intn(3))
	g.p("reset start=%d drift=%d ids=content fam=identical", start, drift)
	sz := 2 + g.r.Intn(4)
	b := g.tx(sz) // the tx that occurs several times
	nh := 1 + g.r.Intn(3)
	ntx := 0
	first := 0
	for h := 0; h < nh; h++ {
		var l [][]byte
		copies := 2 + g.r.Intn(3)
		if h > 0 && g.r.Chance(40) {
			copies = 1 // the same bytes again, in another height (a different id)
		}
		n := copies + g.r.Intn(3)
		at := g.r.Perm(n)[:copies]
		if g.r.Chance(50) { // adjacent copies at the end of the height
			at = at[:0]
			for i := n - copies; i < n; i++ {
				at = append(at, i)
			}
		}
		isCopy := map[int]bool{}
		for _, i := range at {
			isCopy[i] = true
		}
		for i := 0; i < n; i++ {
			if isCopy[i] {
				l = append(l, b)
			} else {
				l = append(l, g.tx(sz))
			}
		}
		if h == 0 {
			first = n
		}
		ntx += n
		g.p("put h=%d txs=%s", h+int(start), hx.HexList(l))
	}
	head := int(start) + nh + g.r.Intn(3)
	g.p("head n=%d", head)
	// takes j txs per scan and pushes the rest of the height back: j small => several copies go back in one call
	j := 1 + g.r.Intn(2)
	if first > 3 && g.r.Chance(30) {
		j = first - 2
	}
	max := j*sz + 1
	for i, n := 0, 2+g.r.Intn(5); i < n; i++ {
		g.p("next max=%d", max)
		g.maybeRestart(40)
	}
	g.p("end max=%d calls=%d", max, ntx+head+3)
}

func (g *g) lawless() {
	start, drift := uint64(g.r.Intn(4)), uint64(g.r.Intn(4))
	g.p("reset start=%d drift=%d contract=0 fam=lawless", start, drift)
	h := 0
	for i, n := 0, 6+g.r.Intn(20); i < n; i++ {
		switch g.r.Intn(10) {
		case 0, 1:
			g.p("put h=%d txs=%s", h, hx.HexList(g.txs(g.r.Intn(5), 0, 10)))
			h += 1 + g.r.Intn(2)
		case 2:
			g.p("head n=%d", h+g.r.Intn(6))
		case 3:
			g.p("fault h=%d k=%s", g.r.Intn(h+2), []string{"errids", "errget", "none"}[g.r.Intn(3)])
		case 4:
			if g.r.Bool() {
				g.p("restart")
			} else {
				g.p("crash-next at=%d max=%d", g.r.Intn(4), g.r.Intn(25))
			}
		case 5: // forged or malformed echo
			var echo [][]byte
			for j := g.r.Intn(3); j >= 0; j-- {
				switch g.r.Intn(4) {
				case 0:
					echo = append(echo, g.r.Bytes(g.r.Intn(9))) // too short for SplitID
				case 1:
					echo = append(echo, mkID(uint64(g.r.Intn(h+6)), g.r.Intn(4)))
				case 2:
					echo = append(echo, append(mkID(uint64(g.r.Intn(h+3)), 0)[:9], g.r.Bytes(g.r.Intn(5))...))
				default:
					echo = append(echo, []byte{})
				}
			}
			g.p("next max=%d echo=%s", g.r.Intn(25), hx.HexList(echo))
		case 6:
			g.p("next max=%d echo=none", g.r.Intn(25))
		case 7:
			g.p("next max=%d badid=1", g.r.Intn(25))
		default:
			g.p("next max=%d", g.r.Intn(25))
		}
	}
	if g.r.Chance(30) {
		g.p("end max=%d calls=%d", 1+g.r.Intn(30), g.r.Intn(12))
	}
}

func (g *g) malformed() {
	g.p("reset start=1 drift=1 contract=0 fam=malformed")
	lines := []string{
		"put h=1 txs=zz", "put txs=01", "put h=x txs=01", "put h=1", "head", "head n=-1", "fault h=1 k=what", "fault k=errids",
		"next", "next max=abc", "next max=5 echo=0g", "next max=5 echo=012", "end max=3", "end calls=3", "end max=3 calls=9999",
		"crash-next", "crash-next max=3", "crash-next at=1", "crash-next at=x max=3", "crash-next at=1 max=3 echo=0g", "crash-next at=1 max=3",
		"frobnicate", "put h=1 txs=0102,.,03", "next max=3", "put h=0 txs=01", "next max=2 echo=.", "restart now", "next max=4",
	}
	for _, i := range g.r.Perm(len(lines)) {
		g.p("%s", lines[i])
	}
}

func gen(r *hx.Rng, tier string, w io.Writer) {
	x := &g{r: r, w: w}
	n := 40
	if tier == "thorough" {
		n = 400
	}
	// the input that showed the former findings height-rereleased / stuck-at-rereleased-height
	x.p("reset start=1 drift=2 fam=seeded")
	x.p("put h=1 txs=aa01,aa02,aa03")
	x.p("put h=2 txs=bb01")
	x.p("head n=50")
	x.p("next max=5")
	x.p("next max=5")
	x.p("next max=5")
	x.p("end max=5 calls=60")
	// crashes inside a call (beyond the quantifier; every crash window is hit on every run): the pop is saved before the answer is returned ...
	x.p("reset start=1 drift=2 fam=seeded-crash-pop")
	x.p("put h=1 txs=aa01,aa02,aa03")
	x.p("head n=3")
	x.p("next max=5")
	x.p("crash-next at=1 max=5")
	x.p("end max=5 calls=10")
	// ... the scan position is saved before the answer is returned ...
	x.p("reset start=1 drift=2 fam=seeded-crash-scan")
	x.p("put h=1 txs=aa01")
	x.p("head n=3")
	x.p("crash-next at=2 max=0")
	x.p("end max=0 calls=10")
	// ... and the push-back is saved before the scan position: the height is both queued and re-scanned
	x.p("reset start=1 drift=2 fam=seeded-crash-torn")
	x.p("put h=1 txs=aa01,aa02,aa03")
	x.p("head n=3")
	x.p("crash-next at=2 max=5")
	x.p("next max=5")
	x.p("next max=5")
	x.p("end max=5 calls=10")
	// two byte-identical DA entries in one height (content-derived ids: they share an id), both pushed back in one call
	x.p("reset start=1 drift=2 ids=content fam=seeded-identical")
	x.p("put h=1 txs=aa01,bb02,bb02")
	x.p("head n=3")
	x.p("next max=3")
	x.p("restart")
	x.p("end max=3 calls=10")
	for i := 0; i < n; i++ {
		x.single()
		x.identical()
		x.crash()
		x.crash()
		x.exactfill()
		x.allfit()
		x.rerelease()
		x.future()
		x.oversize()
		x.anylimit()
		x.flaky()
		x.lawless()
		if i%8 == 0 {
			x.malformed()
		}
	}
}
