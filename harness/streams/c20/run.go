package c20

import (
	"context"
	"encoding/json"
	"errors"
	"fmt"
	"strconv"
	"strings"
	"time"

	ds "github.com/ipfs/go-datastore"
	logging "github.com/ipfs/go-log/v2"

	coresequencer "github.com/evstack/ev-node/core/sequencer"
	based "github.com/evstack/ev-node/sequencers/based"

	"verifharness/hx"
)

const (
	keyPending = "/sequencer/pendingTxs"
	keyScan    = "/sequencer/lastScannedDAHeight"
)

var chainID = []byte("c20-chain")

type item struct{ tx, id []byte }
type entry struct {
	ts    int64
	items []item
}

// node is one real based sequencer on its own logging datastore, plus its caller's lastBatchData.
type node struct {
	ds   *hx.LogDS
	seq  *based.Sequencer
	last [][]byte
}

type scen struct {
	start, drift uint64
	da           *daD
	a, b         *node // a: restarted by `restart` ops; b: the same calls, never restarted
	m            *monitor
}

type callRes struct {
	kind           string // batch | nil | err:<class> | panic
	txs, ids       [][]byte
	ts             int64
	max            uint64
	writes         string
	posBefore      *uint64
	posAfter       *uint64
	qBefore, qAfter []entry
	qAfterPresent  bool
	served         []uint64
	w0, nw         int // datastore writes before the call, and made by it
}

func newNode(d *daD, start, drift uint64, image map[string][]byte) (*node, error) {
	store := hx.NewLogDS(image)
	_ = logging.SetLogLevel("c20", "fatal")
	s, err := based.NewSequencer(logging.Logger("c20"), d, chainID, start, drift, store)
	if err != nil {
		return nil, err
	}
	return &node{ds: store, seq: s}, nil
}

func readPos(img map[string][]byte) *uint64 {
	raw, ok := img[keyScan]
	if !ok {
		return nil
	}
	n, err := strconv.ParseUint(string(raw), 10, 64)
	if err != nil {
		return nil
	}
	return &n
}

func readQueue(img map[string][]byte) ([]entry, bool) {
	raw, ok := img[keyPending]
	if !ok {
		return nil, false
	}
	var l []based.TxsWithTimestamp
	if err := json.Unmarshal(raw, &l); err != nil {
		return nil, true
	}
	out := make([]entry, len(l))
	for i, e := range l {
		out[i].ts = e.Timestamp.Unix()
		for j, tx := range e.Txs {
			var id []byte
			if j < len(e.IDs) {
				id = e.IDs[j]
			}
			out[i].items = append(out[i].items, item{tx, id})
		}
	}
	return out, true
}

func tok(b []byte) string {
	if len(b) == 0 {
		return "."
	}
	return hx.Hex(b)
}

func showQ(q []entry, present bool) string {
	if !present {
		return "none"
	}
	if len(q) == 0 {
		return "-"
	}
	es := make([]string, len(q))
	for i, e := range q {
		its := make([]string, len(e.items))
		for j, it := range e.items {
			its[j] = tok(it.tx) + "@" + tok(it.id)
		}
		es[i] = fmt.Sprintf("%d#%s", e.ts, strings.Join(its, ","))
	}
	return strings.Join(es, "|")
}

func showPos(p *uint64) string {
	if p == nil {
		return "-"
	}
	return strconv.FormatUint(*p, 10)
}

func showWrites(log []hx.WriteSet) string {
	if len(log) == 0 {
		return "-"
	}
	parts := make([]string, 0, len(log))
	for _, ws := range log {
		for _, w := range ws {
			switch {
			case !w.Del && w.Key == keyPending:
				parts = append(parts, "P")
			case !w.Del && w.Key == keyScan:
				parts = append(parts, "S")
			default:
				parts = append(parts, "?"+w.Key)
			}
		}
	}
	return strings.Join(parts, ",")
}

// writeNames names the durable writes of one call by what they save: the first save of the queue is the pop
// (PopUpToMaxBytes), a later one the push-back (Push); the Put of the scan position.
func writeNames(log []hx.WriteSet) []string {
	var out []string
	seenP := false
	for _, ws := range log {
		for _, w := range ws {
			switch {
			case !w.Del && w.Key == keyPending && !seenP:
				seenP = true
				out = append(out, "pop-save")
			case !w.Del && w.Key == keyPending:
				out = append(out, "pushback-save")
			case !w.Del && w.Key == keyScan:
				out = append(out, "scan-position-save")
			default:
				out = append(out, "other-write")
			}
		}
	}
	return out
}

// call performs one GetNextBatch on the real sequencer of n. echo==nil: the caller's stored
// lastBatchData (what block.Manager.retrieveBatch sends); otherwise the explicit list.
func (s *scen) call(n *node, max uint64, echo *[][]byte, badID bool) (r *callRes) {
	r = &callRes{max: max}
	img := n.ds.Image()
	r.posBefore = readPos(img)
	r.qBefore, _ = readQueue(img)
	w0 := n.ds.NumWrites()
	s.da.served, s.da.asked = nil, nil
	id := chainID
	if badID {
		id = []byte("other-chain")
	}
	last := n.last
	if echo != nil {
		last = *echo
	}
	func() {
		defer func() {
			if p := recover(); p != nil {
				r.kind = "panic"
			}
		}()
		resp, err := n.seq.GetNextBatch(context.Background(), coresequencer.GetNextBatchRequest{Id: id, LastBatchData: last, MaxBytes: max})
		switch {
		case errors.Is(err, based.ErrInvalidId):
			r.kind = "err:invalid-id"
		case err != nil && strings.Contains(err.Error(), "failed to get last DA height"):
			r.kind = "err:last-da-height"
		case err != nil:
			r.kind = "err:other"
		case resp == nil || resp.Batch == nil:
			r.kind = "nil"
		default:
			r.kind = "batch"
			r.txs, r.ids, r.ts = resp.Batch.Transactions, resp.BatchData, resp.Timestamp.Unix()
			n.last = resp.BatchData // block/manager.go:577
		}
	}()
	n.ds.Sync(context.Background(), ds.NewKey("/"))
	r.writes = showWrites(n.ds.Log[w0:])
	r.w0, r.nw = w0, len(n.ds.Log)-w0
	img = n.ds.Image()
	r.posAfter = readPos(img)
	r.qAfter, r.qAfterPresent = readQueue(img)
	r.served = append([]uint64(nil), s.da.served...)
	return r
}

// The monitors identify a DA transaction by its POSITION (height, index), never by its bytes or its id: "each exactly
// once" is a statement about DA entries, and two byte-identical entries of one height are two transactions. With
// content-derived ids (ids=content) identical entries share an id, so what the sequencer shows (ids of the answer, of the
// persisted queue) is translated to positions by multiplicity before the monitors see it: the sequencer consumes a height
// in order, so the n-th occurrence of an id that is still outstanding (neither delivered nor known lost) stands for the
// n-th outstanding position carrying that id; an occurrence beyond the outstanding positions is mapped to the last
// position (and is then reported as a second release). Observation lines keep the real ids.
type posMap struct {
	s    *scen
	used map[string]int
}

func (s *scen) newPosMap(skip map[string]int) *posMap {
	u := map[string]int{}
	for k, v := range skip {
		u[k] = v
	}
	return &posMap{s: s, used: u}
}

func (p *posMap) id(id []byte) []byte {
	h, pos := p.s.da.positionsOf(id)
	if len(pos) == 0 {
		return id
	}
	var free []int
	for _, i := range pos {
		y := string(mkID(h, i))
		if _, rel := p.s.m.released[y]; !rel && !p.s.m.flagged[y] {
			free = append(free, i)
		}
	}
	n := p.used[string(id)]
	p.used[string(id)] = n + 1
	if n < len(free) {
		return mkID(h, free[n])
	}
	return mkID(h, pos[len(pos)-1])
}

func (p *posMap) queue(q []entry) []entry {
	out := make([]entry, len(q))
	for i, e := range q {
		out[i].ts = e.ts
		for _, it := range e.items {
			out[i].items = append(out[i].items, item{it.tx, p.id(it.id)})
		}
	}
	return out
}

func (s *scen) positional(r *callRes) *callRes {
	if !s.da.contentIDs {
		return r
	}
	t := *r
	t.qBefore = s.newPosMap(nil).queue(r.qBefore)
	pm := s.newPosMap(nil)
	t.ids = make([][]byte, len(r.ids))
	for i, id := range r.ids {
		t.ids[i] = pm.id(id)
	}
	t.qAfter = pm.queue(r.qAfter) // what is still queued comes after what was released
	return &t
}

func (s *scen) positionalQueue(q []entry) []entry {
	if !s.da.contentIDs {
		return q
	}
	return s.newPosMap(nil).queue(q)
}

// positionalImage: the durable image with the ids of the persisted queue translated (crash points).
func (s *scen) positionalImage(img map[string][]byte) map[string][]byte {
	if !s.da.contentIDs {
		return img
	}
	q, present := readQueue(img)
	if !present {
		return img
	}
	q = s.positionalQueue(q)
	l := make([]based.TxsWithTimestamp, len(q))
	for i, e := range q {
		l[i].Timestamp = time.Unix(e.ts, 0)
		for _, it := range e.items {
			l[i].Txs = append(l[i].Txs, it.tx)
			l[i].IDs = append(l[i].IDs, it.id)
		}
	}
	raw, err := json.Marshal(l)
	if err != nil {
		return img
	}
	out := map[string][]byte{}
	for k, v := range img {
		out[k] = v
	}
	out[keyPending] = raw
	return out
}

func (r *callRes) tail() string {
	return fmt.Sprintf("pos=%s q=%s", showPos(r.posAfter), showQ(r.qAfter, r.qAfterPresent))
}

func sameResp(x, y *callRes) bool {
	return x.kind == y.kind && hx.HexList(x.txs) == hx.HexList(y.txs) && hx.HexList(x.ids) == hx.HexList(y.ids)
}

// both runs one call on the restarted node and on the never-restarted twin and feeds the monitors.
func (s *scen) both(c *hx.Ctx, max uint64, echo *[][]byte, badID bool) *callRes {
	ra := s.call(s.a, max, echo, badID)
	served := ra.served
	rb := s.call(s.b, max, echo, badID)
	ra.served = served
	s.m.afterCall(c, s, s.positional(ra), echo == nil && !badID)
	if ra.kind == "panic" || rb.kind == "panic" {
		c.Report("C20/panic/get-next-batch", "GetNextBatch panicked")
	}
	if !sameResp(ra, rb) {
		c.Report("C20/restart/diverges-from-unrestarted-run", fmt.Sprintf("call %d: restarted sequencer answered %s ids=%s, the never-restarted one %s ids=%s",
			s.m.callNo, ra.kind, hx.HexList(ra.ids), rb.kind, hx.HexList(rb.ids)))
	}
	return ra
}

func run(c *hx.Ctx) {
	if c.St.Findings == nil {
		c.St.Findings = []hx.Finding{} // keep the stats JSON a list for ./check --replay
	}
	var s *scen
	fresh := func(start, drift uint64, contract bool, contentIDs bool) {
		d := newDA()
		d.contentIDs = contentIDs
		a, _ := newNode(d, start, drift, nil)
		b, _ := newNode(d, start, drift, nil)
		s = &scen{start: start, drift: drift, da: d, a: a, b: b, m: newMonitor(contract)}
	}
	fresh(0, 0, true, false)
	for {
		op, ok := c.Next()
		if !ok {
			return
		}
		c.Hit("op:" + op.Verb)
		switch op.Verb {
		case "reset":
			st, _ := op.U64("start")
			dr, _ := op.U64("drift")
			fresh(st, dr, !op.Has("contract") || op.Bool("contract"), op.Str("ids") == "content")
			c.Emit("ok")
		case "put":
			h, ok1 := op.U64("h")
			txs, err := hx.UnHexList(op.Str("txs"))
			if !ok1 || !op.Has("txs") || err != nil {
				c.Emit("bad-op")
				continue
			}
			if h < s.da.head {
				c.Emit("err:past")
				continue
			}
			s.da.head = h + 1
			if len(txs) > 0 {
				s.da.blobs[h] = txs
			}
			c.Emit("ok")
		case "head":
			n, ok1 := op.U64("n")
			if !ok1 {
				c.Emit("bad-op")
				continue
			}
			if n > s.da.head {
				s.da.head = n
			}
			c.Emit("ok")
		case "fault":
			h, ok1 := op.U64("h")
			k := op.Str("k")
			if !ok1 || (k != "errids" && k != "errget" && k != "none") {
				c.Emit("bad-op")
				continue
			}
			delete(s.da.errIDs, h)
			delete(s.da.errGet, h)
			if k == "errids" {
				s.da.errIDs[h] = true
			} else if k == "errget" {
				s.da.errGet[h] = true
			}
			c.Emit("ok")
		case "next":
			max, ok1 := op.U64("max")
			if !ok1 {
				c.Emit("bad-op")
				continue
			}
			var echo *[][]byte
			if op.Has("echo") {
				l := [][]byte{}
				if e := op.Str("echo"); e != "none" {
					x, err := hx.UnHexList(e)
					if err != nil {
						c.Emit("bad-op")
						continue
					}
					l = x
				}
				echo = &l
			}
			r := s.both(c, max, echo, op.Bool("badid"))
			c.Hit("resp:" + r.kind)
			t := r.tail() + " w=" + r.writes
			if r.kind == "batch" {
				c.Emit("rel=%s ids=%s ts=%d %s", hx.HexList(r.txs), hx.HexList(r.ids), r.ts, t)
			} else {
				c.Emit("%s %s", r.kind, t)
			}
		case "crash-next":
			// the REAL call runs on the logging datastore and dies when its first `at` durable writes are on
			// disk: the answer is never delivered (the caller keeps its lastBatchData), and a new sequencer
			// is built on the image after exactly those writes.
			max, ok1 := op.U64("max")
			at, ok2 := op.U64("at")
			if !ok1 || !ok2 {
				c.Emit("bad-op")
				continue
			}
			var echo *[][]byte
			if op.Has("echo") {
				l := [][]byte{}
				if e := op.Str("echo"); e != "none" {
					x, err := hx.UnHexList(e)
					if err != nil {
						c.Emit("bad-op")
						continue
					}
					l = x
				}
				echo = &l
			}
			badID := op.Bool("badid")
			last := s.a.last
			r := s.call(s.a, max, echo, badID)
			k := r.nw
			if at < uint64(k) {
				k = int(at)
			}
			names := writeNames(s.a.ds.Log[r.w0 : r.w0+r.nw])
			img := s.a.ds.ImageAt(r.w0 + k)
			a, err1 := newNode(s.da, s.start, s.drift, img)
			b, err2 := newNode(s.da, s.start, s.drift, img)
			if err1 != nil || err2 != nil {
				c.Report("C20/restart/cannot-restart", "after a crash inside GetNextBatch the sequencer does not start")
				c.Emit("err:restart")
				continue
			}
			a.last, b.last = last, last
			s.a, s.b = a, b
			s.m.restarts++
			if r.kind == "panic" {
				c.Report("C20/panic/get-next-batch", "GetNextBatch panicked")
			}
			s.m.afterCrash(c, s, s.positional(r), k, names, s.positionalImage(img), echo == nil && !badID)
			c.Hit(fmt.Sprintf("crash:at-%d-of-%d", k, r.nw))
			und := r.kind
			if r.kind == "batch" {
				und = "und=" + hx.HexList(r.ids)
			}
			q, _ := readQueue(img)
			c.Emit("crash k=%d %s pos=%s q=%s w=%s", k, und, showPos(readPos(img)), showQ(q, true), r.writes)
		case "restart":
			img := s.a.ds.Image()
			n, err := newNode(s.da, s.start, s.drift, img)
			if err != nil {
				c.Report("C20/restart/cannot-restart", err.Error())
				c.Emit("err:restart")
				continue
			}
			n.last = s.a.last // the block manager persists lastBatchData itself
			s.a = n
			s.m.restarts++
			q, _ := readQueue(img)
			c.Emit("ok pos=%s q=%s", showPos(readPos(img)), showQ(q, true))
		case "end":
			max, ok1 := op.U64("max")
			k, ok2 := op.U64("calls")
			if !ok1 || !ok2 || k > 400 {
				c.Emit("bad-op")
				continue
			}
			var all [][]byte
			var r *callRes
			for i := uint64(0); i < k; i++ {
				r = s.both(c, max, nil, false)
				all = append(all, r.ids...)
			}
			img := s.a.ds.Image()
			q, present := readQueue(img)
			s.m.atEnd(c, s, max, k, readPos(img), s.positionalQueue(q))
			c.Emit("n=%d rel=%s pos=%s q=%s", k, hx.HexList(all), showPos(readPos(img)), showQ(q, present))
		default:
			c.Emit("bad-op")
		}
	}
}

func init() { hx.Register("C20", hx.Stream{Gen: gen, Run: run}) }
