// Package flow: correspondence stream and monitors for C11 (no transaction taken from the mempool is lost):
// the REAL reaper, the REAL single sequencer and the REAL producer on one logging datastore, so that a crash
// can be placed between any two durable writes of the whole node.
package flow

import (
	"bytes"
	"context"
	"fmt"
	"io"
	"os"
	"strings"
	"time"

	ds "github.com/ipfs/go-datastore"
	"github.com/ipfs/go-datastore/namespace"
	logging "github.com/ipfs/go-log/v2"

	"verifharness/bm"
	"verifharness/hx"

	"github.com/evstack/ev-node/block"
	coresequencer "github.com/evstack/ev-node/core/sequencer"
	"github.com/evstack/ev-node/sequencers/single"
)

// recSeq records what the real sequencer releases.
type recSeq struct {
	coresequencer.Sequencer
	w *World
}

func (r recSeq) GetNextBatch(ctx context.Context, req coresequencer.GetNextBatchRequest) (*coresequencer.GetNextBatchResponse, error) {
	res, err := r.Sequencer.GetNextBatch(ctx, req)
	if err == nil && res != nil && res.Batch != nil && len(res.Batch.Transactions) > 0 {
		var b [][]byte
		for _, t := range res.Batch.Transactions {
			b = append(b, append([]byte(nil), t...))
		}
		r.w.released = append(r.w.released, b)
	}
	// cancel=during-getnext: the stop request lands while the sequencer call is in flight: the context of the production
	// step is cancelled before GetNextBatch returns its (already destructive) answer; aware = the execution layer honours
	// the cancelled context (ExecuteTxs returns ctx.Err()), otherwise it ignores it
	if r.w.cancelStep != nil {
		r.w.cancelStep()
		r.w.cancelStep = nil
		r.w.cancelled = true
		if r.w.cancelAware {
			r.w.exec.Fail = true
		}
	}
	// the sequencing layer's clock: the real single sequencer stamps time.Now(); `same` = a coarse clock that still shows
	// the time of the previous block, `back` = a clock that stepped backwards (1 ns before the previous block)
	if err == nil && res != nil && r.w.env != nil {
		switch r.w.clock {
		case "same":
			res.Timestamp = r.w.env.M.GetLastState().LastBlockTime
		case "back":
			res.Timestamp = r.w.env.M.GetLastState().LastBlockTime.Add(-time.Nanosecond)
		}
	}
	return res, err
}

// SubmitBatchTxs: what the sequencing layer ACKNOWLEDGED is what was handed over
func (r recSeq) SubmitBatchTxs(ctx context.Context, req coresequencer.SubmitBatchTxsRequest) (*coresequencer.SubmitBatchTxsResponse, error) {
	res, err := r.Sequencer.SubmitBatchTxs(ctx, req)
	if err != nil {
		r.w.refused = true
	}
	if err == nil && req.Batch != nil {
		for _, t := range req.Batch.Transactions {
			r.w.acked = append(r.w.acked, append([]byte(nil), t...))
		}
	}
	return res, err
}

// failPut: the reaper's seen-store with injectable Put errors
type failPut struct {
	ds.Batching
	n *int
}

func (f failPut) Put(ctx context.Context, k ds.Key, v []byte) error {
	if *f.n > 0 {
		*f.n--
		return hx.ErrInjected
	}
	return f.Batching.Put(ctx, k, v)
}

type World struct {
	c        *hx.Ctx
	env      *bm.Env
	reaper   *block.Reaper
	opt      bm.Options
	qmax     int
	from     int
	dead     bool
	handed   [][]byte // ghost: transactions handed to the sequencing layer, in hand-off order
	crashed  bool
	cause    string
	exec     *hx.Exec   // the execution layer (and its mempool) outlives a restart of the node
	released [][][]byte // ghost: non-empty batches released by the sequencing layer, in order
	// lossCause: for a transaction of a released batch that was found neither in the chain, nor in the block waiting
	// at height+1, nor (again) in the sequencer's queue after some operation: what that operation was
	lossCause map[string]string
	// handedBefore: len(handed) before the last operation if that was a reap, -1 otherwise
	handedBefore int
	lastBatch    [][]byte        // what the last operation handed over, if it was a reap
	relBefore    int             // len(released) before the last operation, if that was a production step (-1 otherwise)
	dupHanded    map[string]bool // handed over twice by ONE hand-off: the mempool response held the bytes twice
	handOffs     map[string]int  // number of hand-offs (acknowledged SubmitBatchTxs calls) that contained the transaction
	copiesInOne  map[string]int  // copies of it in the (last) hand-off that contained it
	dupExcused   map[string]bool // a crash fell between the queue write of its hand-off and its seen-mark: may be handed over again
	fromAtCrash  int
	acked        [][]byte           // what SubmitBatchTxs acknowledged during the current reap
	refused      bool               // SubmitBatchTxs answered the current reap with an error
	cancelStep   context.CancelFunc // armed: cancel the production step\'s context inside GetNextBatch
	cancelAware  bool               // … and the execution layer honours the cancelled context
	cancelled    bool
	clock        string            // the sequencing layer's clock during the current production step ("" = real)
	armed        string            // datastore fault armed for the next operation: qput | seen | qdel | blk
	seenFail     int               // next n Puts of the reaper's seen-store fail
	mustRestart  bool              // a store write of the last production step failed: that error ends the node
	faultExcused map[string]bool   // lost / included twice because of an injected datastore error (outside the property's quantifier)
	notHanded    map[string]string // draining mempool: taken by a GetTxs call but not handed over -> why
}

func describe(ws hx.WriteSet) string {
	if len(ws) == 1 {
		k := ws[0].Key
		switch {
		case strings.HasPrefix(k, "/seq/"):
			if ws[0].Del {
				return "qdel"
			}
			return "qput"
		case strings.HasPrefix(k, "/reap/"):
			return "seen"
		}
	}
	return bm.DescribeWS(ws)
}

func (w *World) writes() string {
	var out []string
	for _, ws := range w.env.DS.Log[w.from:w.env.DS.NumWrites()] {
		out = append(out, describe(ws))
	}
	if len(out) == 0 {
		return "-"
	}
	return strings.Join(out, ",")
}

func (w *World) count(prefix string) int {
	n := 0
	for k := range w.env.DS.Image() {
		if strings.HasPrefix(k, prefix) {
			n++
		}
	}
	return n
}

func (w *World) blockTxs(h uint64) string {
	_, d, err := w.env.Store.GetBlockData(context.Background(), h)
	if err != nil {
		return "none"
	}
	txs := make([][]byte, len(d.Txs))
	for i := range d.Txs {
		txs[i] = d.Txs[i]
	}
	return hx.HexList(txs)
}

func (w *World) observe(before uint64) string {
	h := w.env.Height()
	var nb []string
	for k := before + 1; k <= h; k++ {
		nb = append(nb, fmt.Sprintf("%d:%s", k, w.blockTxs(k)))
	}
	n := "-"
	if len(nb) > 0 {
		n = strings.Join(nb, ";")
	}
	return fmt.Sprintf("height=%d new=%s pend=%s qd=%d seen=%d w=%s", h, n, w.blockTxs(h+1), w.count("/seq/"), w.count("/reap/"), w.writes())
}

func (w *World) start(img map[string][]byte) string {
	o := w.opt
	o.Image = img
	o.Exec = w.exec
	qmax := w.qmax
	o.MakeSeq = func(d *hx.LogDS) (coresequencer.Sequencer, error) {
		sq, err := single.NewSequencerWithQueueSize(context.Background(), logging.Logger("verif"), namespace.Wrap(d, ds.NewKey("seq")), nil,
			[]byte(bm.ChainID), time.Second, nil, true, qmax)
		if err != nil {
			return nil, err
		}
		return recSeq{sq, w}, nil
	}
	if w.env != nil {
		w.env.Cleanup()
	}
	env, err := bm.New(o)
	w.env = env
	w.from = 0
	if err != nil {
		w.dead = true
		return "start err"
	}
	w.dead = false
	w.mustRestart = false
	w.reaper = block.NewReaper(context.Background(), env.Exec, env.RealSeq, bm.ChainID, time.Hour, logging.Logger("verif"),
		failPut{namespace.Wrap(env.DS, ds.NewKey("reap")), &w.seenFail})
	w.reaper.SetManager(env.M)
	w.from = env.DS.NumWrites()
	return "start " + w.observe(env.Height())
}

func Run(c *hx.Ctx) {
	w := &World{c: c}
	defer func() {
		if w.env != nil {
			w.env.Cleanup()
		}
	}()
	for {
		o, ok := c.Next()
		if !ok {
			return
		}
		c.Hit(o.Verb)
		hb, lb, rb := w.handedBefore, w.lastBatch, w.relBefore
		if o.Verb != "mempool" && o.Verb != "drain" {
			// (`mempool` and `drain` write nothing: the last operation with durable writes stays the last)
			w.handedBefore, w.lastBatch, w.relBefore = -1, nil, -1
		}
		if o.Verb != "reset" && (w.env == nil || w.dead) {
			c.Emit("dead")
			continue
		}
		if w.mustRestart && o.Verb != "reset" && o.Verb != "restart" && o.Verb != "crash" {
			c.Emit("needs-restart") // a failed store write has ended the node
			continue
		}
		armed := w.armed
		w.armed = ""
		switch o.Verb {
		case "reset":
			w.opt = bm.Options{InitialHeight: 1, GenesisTime: time.Unix(0, o.I64("gt")), Aggregator: true}
			w.qmax = o.Int("qmax")
			w.handed, w.crashed, w.cause, w.released = nil, false, "", nil
			w.lossCause = map[string]string{}
			w.dupHanded, w.dupExcused, w.notHanded = map[string]bool{}, map[string]bool{}, map[string]string{}
			w.handOffs, w.copiesInOne = map[string]int{}, map[string]int{}
			w.lastBatch, w.relBefore = nil, -1
			w.armed, w.seenFail, w.faultExcused = "", 0, map[string]bool{}
			w.exec = &hx.Exec{}
			c.Emit("%s", w.start(nil))
		case "fail":
			// a transient datastore error during the NEXT operation: qput = the queue's write-ahead Put of a hand-off,
			// seen = the reaper's mark of the first transaction, qdel = the queue's Delete of the batch handed out,
			// blk = the first block save of a production step
			switch o.Str("what") {
			case "qput", "seen", "qdel", "blk":
				w.armed = o.Str("what")
				c.Emit("ok")
			default:
				c.Emit("bad-op")
			}
		case "mempool":
			// mode=drain: GetTxs is destructive (the in-repo reference executor's is): every transaction is answered once
			w.env.Exec.Mempool = o.List("txs")
			w.env.Exec.Drain = o.Str("mode") == "drain"
			c.Emit("ok")
		case "reap":
			e := w.env
			before := e.Height()
			w.from = e.DS.NumWrites()
			w.handedBefore = len(w.handed)
			offered := append([][]byte(nil), e.Exec.Mempool...)
			drainMode := e.Exec.Drain
			unseen := map[string]int{} // not marked before this round: how often in this response
			for _, tx := range offered {
				if !w.isSeen(tx) {
					unseen[string(tx)]++
				}
			}
			switch armed {
			case "qput":
				e.DS.FailPut = 1
			case "seen":
				w.seenFail = 1
			}
			w.acked, w.refused = nil, false
			w.reaper.SubmitTxs()
			if armed == "qput" && e.DS.FailPut == 0 {
				c.Hit("fault-qput")
			}
			e.DS.FailPut, w.seenFail = 0, 0
			// ghost: what the sequencing layer acknowledged was handed over
			ackedN := map[string]int{}
			for _, tx := range w.acked {
				ackedN[string(tx)]++
				w.handed = append(w.handed, tx)
				w.lastBatch = append(w.lastBatch, tx)
				delete(w.notHanded, string(tx))
				if ackedN[string(tx)] == 1 {
					w.handOffs[string(tx)]++
				}
				w.copiesInOne[string(tx)] = ackedN[string(tx)]
				if ackedN[string(tx)] > 1 {
					w.dupHanded[string(tx)] = true // the response holds the bytes twice: both copies are handed over
				}
				if armed == "seen" && !w.isSeen(tx) {
					// its mark failed (logged, ignored by the reaper): it will be handed over again
					w.faultExcused[string(tx)] = true
					c.Hit("fault-seen")
				}
			}
			for _, tx := range offered {
				k := string(tx)
				if unseen[k] == 0 || ackedN[k] > 0 {
					continue
				}
				unseen[k] = 0
				if drainMode {
					// taken from a draining mempool and not handed over: nobody will ever offer it again
					if _, ok := w.notHanded[k]; !ok {
						if w.refused {
							w.notHanded[k] = "refused-handoff-with-draining-mempool"
						} else {
							w.notHanded[k] = "not-handed-over-with-draining-mempool"
						}
					}
				}
			}
			c.Emit("reap %s", w.observe(before))
			w.track("after-reap", nil)
		case "produce":
			e := w.env
			before := e.Height()
			w.from = e.DS.NumWrites()
			// exec=fail: the execution layer answers this step's ExecuteTxs with an error (engine unreachable / time-out);
			// followed by `restart` this is also "the node dies while the execution layer works on the block"
			fail := o.Str("exec") == "fail"
			// clock=same|back: the timestamp of this step's GetNextBatch answer (see recSeq)
			w.clock = o.Str("clock")
			if w.clock != "same" && w.clock != "back" {
				w.clock = ""
			}
			cancelMode := o.Str("cancel") == "during-getnext" && !fail && w.clock == ""
			if fail || w.clock != "" || cancelMode {
				armed = "" // a datastore fault applies to a plain step only
			}
			ctx := context.Background()
			w.cancelled = false
			var cancelCtx context.CancelFunc
			if cancelMode {
				ctx, cancelCtx = context.WithCancel(ctx)
				w.cancelStep, w.cancelAware = cancelCtx, o.Str("exec") == "ctx"
			}
			switch armed {
			case "qdel":
				e.DS.FailDelete = 1
			case "blk":
				e.DS.FailCommit = 1
			}
			w.exec.Fail = fail
			w.relBefore = len(w.released)
			var err error
			if armed == "qdel" {
				// BatchQueue.Next reports a failing Delete with fmt.Printf on the process's stdout: keep it out of the observation stream
				stdout := os.Stdout
				if null, oerr := os.OpenFile(os.DevNull, os.O_WRONLY, 0); oerr == nil {
					os.Stdout = null
					err = e.M.VerifPublishBlock(ctx)
					os.Stdout = stdout
					null.Close()
				} else {
					err = e.M.VerifPublishBlock(ctx)
				}
			} else {
				err = e.M.VerifPublishBlock(ctx)
			}
			w.exec.Fail = false
			w.cancelStep = nil
			if cancelCtx != nil {
				cancelCtx()
			}
			if w.cancelled {
				c.Hit("produce-cancelled-in-getnext")
			}
			cls := "nil"
			if err != nil {
				cls = errClass(err)
			}
			c.Emit("produce out=%s %s", cls, w.observe(before))
			cause := "after-production-step"
			switch {
			case fail:
				c.Hit("produce-exec-fail")
				cause = "after-execution-failure"
			case w.clock == "same":
				c.Hit("produce-clock-same")
				cause = "after-production-step-with-equal-timestamp"
			case w.clock == "back":
				c.Hit("produce-clock-back")
			}
			// the recorded regression drop: THIS step answered with the time error, and what is missing is the batch the
			// sequencer released in THIS step - nothing else is explained by it
			var regressed map[string]bool
			if cls == "err:time" {
				regressed = map[string]bool{}
				for _, b := range w.released[w.relBefore:] {
					for _, tx := range b {
						regressed[string(tx)] = true
					}
				}
			}
			faulted := (armed == "qdel" && e.DS.FailDelete == 0) || (armed == "blk" && e.DS.FailCommit == 0)
			if armed == "blk" && e.DS.FailCommit == 0 {
				w.mustRestart = true // "failed to save block": the error ends the aggregation loop and the node
			}
			e.DS.FailDelete, e.DS.FailCommit = 0, 0
			if faulted {
				// a datastore error is outside the property's quantifier: what it makes the node lose (early save failed after
				// the batch was taken) or include twice (the record of a batch handed out stays in the queue) is not reported
				c.Hit("fault-" + armed)
				for _, b := range w.released[w.relBefore:] {
					for _, tx := range b {
						w.faultExcused[string(tx)] = true
					}
				}
			}
			if regressed != nil && w.clock == "back" {
				w.trackElse("batch-dropped-on-timestamp-regression", regressed, "other")
			} else {
				w.track(cause, nil)
			}
			w.clock = ""
		case "restart", "crash":
			e := w.env
			n := e.DS.NumWrites()
			w.fromAtCrash = w.from
			keep := n
			if o.Verb == "crash" {
				if k := o.Int("keep"); w.from+k < n {
					keep = w.from + k
					last := "start"
					if keep > w.from {
						last = kindOf(describe(e.DS.Log[keep-1]))
					}
					w.cause = "crash-between-" + last + "-and-" + kindOf(describe(e.DS.Log[keep]))
					w.crashed = true
					if keep == w.from && hb >= 0 {
						// the process died before the queue write of the hand-off was durable: the sequencing layer never
						// acknowledged it, nothing is marked, the transactions are still the mempool's (offered again)
						// ... so it does not count as a hand-off of these transactions either
						undone := map[string]bool{}
						for _, tx := range w.handed[hb:] {
							if !undone[string(tx)] {
								undone[string(tx)] = true
								if w.handOffs[string(tx)] > 0 {
									w.handOffs[string(tx)]--
								}
								if w.handOffs[string(tx)] == 0 {
									delete(w.copiesInOne, string(tx))
									delete(w.dupHanded, string(tx))
								}
							}
						}
						w.handed = w.handed[:hb]
					}
				}
			}
			img := e.DS.ImageAt(keep)
			cut := keep < n
			c.Emit("%s", w.start(img))
			if w.dead {
				c.Report("C11/restart-fails", "node does not start after "+o.Verb)
			} else if cut {
				// the batch in flight at the crash: released by the production step / handed over by the reap that was cut
				inflight := map[string]bool{}
				if rb >= 0 {
					for _, b := range w.released[rb:] {
						for _, tx := range b {
							inflight[string(tx)] = true
						}
					}
				}
				for _, tx := range lb {
					inflight[string(tx)] = true
					if keep > w.fromAtCrash && !w.isSeen(tx) {
						// queue write durable, this mark not: the transaction is offered and handed over again
						w.dupExcused[string(tx)] = true
					}
				}
				w.track(w.cause, inflight)
			} else {
				w.track("after-restart", nil)
			}
		case "drain":
			// quiescence: reap until nothing is new, produce until the queue is empty, then check conservation
			// (what is still in flight — in the block waiting at height+1 or in the queue's WAL — is printed and compared
			// with the model: such a transaction is not lost, and a node that stops including them shows as a difference)
			c.Emit("ok inflight=%d", w.inFlight())
			w.checkConservation()
		default:
			c.Emit("bad-op")
		}
	}
}

func kindOf(d string) string {
	if i := strings.IndexByte(d, ':'); i > 0 {
		return d[:i]
	}
	return d
}

func errClass(err error) string {
	s := err.Error()
	switch {
	case strings.Contains(s, "failed to validate block"):
		switch {
		case strings.Contains(s, "invalid height"):
			return "err:validate:height"
		case strings.Contains(s, "block time must be"):
			return "err:validate:time"
		}
		return "err:validate:other"
	case strings.Contains(s, "timestamp is not monotonically increasing"):
		return "err:time"
	case strings.Contains(s, "error applying block"):
		return "err:exec"
	case strings.Contains(s, "failed to save block"):
		return "err:store"
	}
	return "err:other"
}

func containsTx(l [][]byte, tx []byte) bool {
	for _, x := range l {
		if bytes.Equal(x, tx) {
			return true
		}
	}
	return false
}

func (w *World) wasHanded(tx []byte) bool { return containsTx(w.handed, tx) }

// isSeen: the reaper's durable mark of the transaction
func (w *World) isSeen(tx []byte) bool {
	has, _ := namespace.Wrap(w.env.DS, ds.NewKey("reap")).Has(context.Background(), ds.NewKey(hashTx(tx)))
	return has
}

// checkConservation: every transaction handed to the sequencing layer is in a committed block, in hand-off order;
// without crashes none is included twice.
func (w *World) checkConservation() {
	c, e := w.c, w.env
	var chain [][]byte
	for k := uint64(1); k <= e.Height(); k++ {
		_, d, err := e.Store.GetBlockData(context.Background(), k)
		if err != nil {
			continue
		}
		for _, tx := range d.Txs {
			chain = append(chain, tx)
		}
	}
	dur := w.durableTxs()
	reported := map[string]bool{}
	report := func(sig, what string) {
		if !reported[sig] {
			reported[sig] = true
			c.Report(sig, what)
		}
	}
	for _, tx := range w.handed {
		if !containsTx(chain, tx) && !dur[string(tx)] && !w.faultExcused[string(tx)] {
			// the operation after which the transaction was in no block, not waiting at height+1 and not queued names the
			// cause; a loss no operation of the scenario explains is `other`
			sig := "C11/lost/other"
			if cause, ok := w.lossCause[string(tx)]; ok {
				sig = "C11/lost/" + cause
			}
			report(sig, fmt.Sprintf("transaction %s was taken from the mempool and handed to the sequencer but is in no block", hx.Hex(tx)))
		}
	}
	for k, cause := range w.notHanded {
		if !containsTx(chain, []byte(k)) && !dur[k] {
			report("C11/lost/"+cause, fmt.Sprintf("transaction %s was taken from the (draining) mempool, never handed to the sequencer and is in no block", hx.Hex([]byte(k))))
		}
	}
	// no transaction twice — unless a crash fell between the queue write of its hand-off and its seen-mark (then it is
	// offered and handed over again: allowed by the property); the check stays armed for every other transaction
	count := map[string]int{}
	for _, tx := range chain {
		count[string(tx)]++
	}
	inOneBlock := map[string]int{} // most copies of the transaction in a single block
	for k := uint64(1); k <= e.Height(); k++ {
		if _, d, err := e.Store.GetBlockData(context.Background(), k); err == nil {
			n := map[string]int{}
			for _, tx := range d.Txs {
				n[string(tx)]++
				if n[string(tx)] > inOneBlock[string(tx)] {
					inOneBlock[string(tx)] = n[string(tx)]
				}
			}
		}
	}
	for _, tx := range chain {
		k := string(tx)
		if count[k] < 2 || w.dupExcused[k] || w.faultExcused[k] {
			continue
		}
		// the recorded finding explains a duplicate inclusion only when ONE GetTxs response held the bytes that often, the
		// response was handed over as ONE batch, nothing else ever handed them over, and all copies sit in ONE block
		if w.dupHanded[k] && w.handOffs[k] == 1 && w.copiesInOne[k] == count[k] && inOneBlock[k] == count[k] {
			report("C11/twice/same-bytes-twice-in-one-mempool-response", fmt.Sprintf("transaction %s is included twice", hx.Hex(tx)))
		} else {
			report("C11/twice/other", fmt.Sprintf("transaction %s is included %d times (handed over by %d hand-offs, %d copies in one of them, at most %d copies in one block)",
				hx.Hex(tx), count[k], w.handOffs[k], w.copiesInOne[k], inOneBlock[k]))
		}
	}
	// batches are included in the order the sequencing layer released them: the non-empty blocks of the chain,
	// in height order, are exactly the released batches, in release order (a batch released right before a crash may be missing)
	var blocks [][][]byte
	for k := uint64(1); k <= e.Height(); k++ {
		if _, d, err := e.Store.GetBlockData(context.Background(), k); err == nil && len(d.Txs) > 0 {
			var b [][]byte
			for _, tx := range d.Txs {
				b = append(b, tx)
			}
			blocks = append(blocks, b)
		}
	}
	i := 0
	for _, b := range blocks {
		for i < len(w.released) && !sameBatch(w.released[i], b) {
			i++ // released but never included: reported as lost above when it matters
		}
		if i == len(w.released) {
			c.Report("C11/order/block-is-not-the-next-released-batch", "a block's transactions are not a batch the sequencing layer released after the previous block's")
			break
		}
		i++
	}
}

// durableTxs: every transaction of the committed blocks, of the block waiting at height+1, and of the batches in the
// sequencer's durable queue
func (w *World) durableTxs() map[string]bool {
	e := w.env
	out := map[string]bool{}
	for k := uint64(1); k <= e.Height()+1; k++ {
		if _, d, err := e.Store.GetBlockData(context.Background(), k); err == nil {
			for _, tx := range d.Txs {
				out[string(tx)] = true
			}
		}
	}
	for k, v := range e.DS.Image() {
		if !strings.HasPrefix(k, "/seq/") {
			continue
		}
		for _, tx := range decodeBatch(v) {
			out[string(tx)] = true
		}
	}
	return out
}

// inFlight: number of transactions in the block waiting at height+1 plus in the queue's WAL
func (w *World) inFlight() int {
	e := w.env
	n := 0
	if _, d, err := e.Store.GetBlockData(context.Background(), e.Height()+1); err == nil {
		n += len(d.Txs)
	}
	for k, v := range e.DS.Image() {
		if strings.HasPrefix(k, "/seq/") {
			n += len(decodeBatch(v))
		}
	}
	return n
}

// decodeBatch: `repeated bytes txs = 1` (the queue's WAL value)
func decodeBatch(v []byte) [][]byte {
	var out [][]byte
	for len(v) > 0 {
		if v[0] != 0x0a {
			return out
		}
		v = v[1:]
		n, sh, i := 0, uint(0), 0
		for ; i < len(v); i++ {
			n |= int(v[i]&0x7f) << sh
			sh += 7
			if v[i]&0x80 == 0 {
				i++
				break
			}
		}
		v = v[i:]
		if n > len(v) {
			return out
		}
		out = append(out, append([]byte(nil), v[:n]...))
		v = v[n:]
	}
	return out
}

// track: after an operation, every transaction of every batch the sequencing layer released must be durable somewhere
// (a committed block, the block waiting at height+1, or the queue again); the first operation after which it is not
// names the cause of the loss that checkConservation reports when the transaction never reaches a block.
func (w *World) track(cause string, inflight map[string]bool) {
	w.trackElse(cause, inflight, cause+"/not-the-batch-in-flight")
}

// trackElse: like track; a transaction outside `inflight` (when given) that is nowhere durable gets `elseCause`
func (w *World) trackElse(cause string, inflight map[string]bool, elseCause string) {
	if w.dead || w.env == nil {
		return
	}
	dur := w.durableTxs()
	mark := func(tx []byte) {
		k := string(tx)
		if dur[k] {
			delete(w.lossCause, k)
		} else if _, ok := w.lossCause[k]; !ok {
			c := cause
			if inflight != nil && !inflight[k] {
				// a crash / a time error explains the loss of the batch that was in flight, of nothing else
				c = elseCause
			}
			w.lossCause[k] = c
		}
	}
	for _, tx := range w.handed {
		mark(tx)
	}
	for _, b := range w.released {
		for _, tx := range b {
			mark(tx)
		}
	}
}

func sameBatch(a, b [][]byte) bool {
	if len(a) != len(b) {
		return false
	}
	for i := range a {
		if !bytes.Equal(a[i], b[i]) {
			return false
		}
	}
	return true
}

var _ io.Writer
