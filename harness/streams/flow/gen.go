package flow

import (
	"crypto/sha256"
	"encoding/hex"
	"fmt"
	"io"

	"verifharness/bm"
	"verifharness/hx"

	"github.com/evstack/ev-node/types"
)

const baseTime = int64(1_700_000_000) * 1_000_000_000

func hashTx(tx []byte) string {
	h := sha256.Sum256(tx)
	return hex.EncodeToString(h[:])
}

func paHex() string {
	_, pub := bm.DetKey(1)
	return hx.Hex(types.KeyAddress(pub))
}

type g struct {
	w         io.Writer
	r         *hx.Rng
	seq       int
	mem       [][]byte
	drainMode bool
}

func (g *g) reset(qmax int) {
	g.mem = nil
	g.drainMode = false
	fmt.Fprintf(g.w, "reset gt=%d qmax=%d pa=%s\n", baseTime, qmax, paHex())
	fmt.Fprintln(g.w, "produce") // genesis block
}

func (g *g) arrive(n int) {
	if g.drainMode {
		// only what arrived since: what was answered before is gone from the mempool
		var fresh [][]byte
		for i := 0; i < n; i++ {
			g.seq++
			fresh = append(fresh, []byte(fmt.Sprintf("tx-%d", g.seq)))
		}
		fmt.Fprintf(g.w, "mempool mode=drain txs=%s\n", hx.HexList(fresh))
		return
	}
	for i := 0; i < n; i++ {
		g.seq++
		g.mem = append(g.mem, []byte(fmt.Sprintf("tx-%d", g.seq)))
	}
	if g.r.Chance(4) && len(g.mem) > 0 { // the mempool shows an old transaction again
		g.mem = append(g.mem, g.mem[g.r.Intn(len(g.mem))])
	}
	if len(g.mem) > 6 {
		g.mem = g.mem[len(g.mem)-6:]
	}
	fmt.Fprintf(g.w, "mempool txs=%s\n", hx.HexList(g.mem))
}

func (g *g) drain(n int) {
	fmt.Fprintln(g.w, "mempool txs=-")
	for i := 0; i < n; i++ {
		fmt.Fprintln(g.w, "produce")
	}
	fmt.Fprintln(g.w, "drain")
}

// resplitPair returns two DIFFERENT transaction lists with the same number n of transactions and the same concatenated
// bytes, cut at different places (e.g. ["ab","c"] / ["a","bc"]); all 2n transactions are non-empty, pairwise distinct and
// new to the scenario, so the reaper's seen-filter lets both lists through as two consecutive batches.  The sequencer's
// queue tells the two batches apart only through the per-transaction length fields of Batch.Hash.
func (g *g) resplitPair(n int) (a, b [][]byte) {
	const alpha = "0123456789abcdef"
	for {
		g.seq++
		s := []byte(fmt.Sprintf("rs%d:", g.seq))
		for i := n + g.r.Intn(5); i >= 0; i-- {
			s = append(s, alpha[g.r.Intn(len(alpha))])
		}
		cut := func() [][]byte {
			// n-1 strictly ascending cut positions in 1..len(s)-1
			pos := g.r.Perm(len(s) - 1)[:n-1]
			for i := range pos {
				for j := i; j > 0 && pos[j-1] > pos[j]; j-- {
					pos[j-1], pos[j] = pos[j], pos[j-1]
				}
			}
			var out [][]byte
			prev := 0
			for _, p := range append(pos, len(s)-1) {
				out = append(out, append([]byte{}, s[prev:p+1]...))
				prev = p + 1
			}
			return out
		}
		a, b = cut(), cut()
		distinct := map[string]bool{}
		for _, tx := range append(append([][]byte{}, a...), b...) {
			distinct[string(tx)] = true
		}
		if len(distinct) == 2*n {
			return a, b
		}
	}
}

// resplit: the mempool makes the reaper hand over a re-split pair as two consecutive batches; both are queued when the
// node is restarted / dies (before and after the first of them went into a block).  Nothing may be lost.
func (g *g) resplit(variant int, drainMode bool) {
	w := g.w
	qmax := 0
	if g.r.Chance(30) {
		qmax = 2 + g.r.Intn(3)
	}
	g.reset(qmax)
	g.drainMode = drainMode
	if g.r.Chance(50) {
		g.arrive(1 + g.r.Intn(2))
		fmt.Fprintln(w, "reap")
		fmt.Fprintln(w, "produce")
	}
	a, b := g.resplitPair(2 + g.r.Intn(2))
	mode := ""
	if drainMode {
		mode = "mode=drain "
	}
	fmt.Fprintf(w, "mempool %stxs=%s\n", mode, hx.HexList(a))
	fmt.Fprintln(w, "reap")
	second := b
	if !drainMode && g.r.Chance(50) {
		second = append(append([][]byte{}, a...), b...) // the mempool still shows the first list: filtered as seen
	}
	fmt.Fprintf(w, "mempool %stxs=%s\n", mode, hx.HexList(second))
	fmt.Fprintln(w, "reap")
	stop := func() {
		if !drainMode && g.r.Chance(35) {
			// the queue write of the last hand-off is durable (keep >= 1), its seen-marks maybe not
			fmt.Fprintf(w, "crash keep=%d\n", []int{1, 2, 3, 9}[g.r.Intn(4)])
		} else {
			fmt.Fprintln(w, "restart")
		}
	}
	switch variant {
	case 0: // both queued at the restart
		stop()
	case 1: // the first went into a block, the second is still queued
		fmt.Fprintln(w, "produce")
		stop()
	case 2: // both
		stop()
		fmt.Fprintln(w, "produce")
		stop()
	default: // no restart: the neighbour where nothing can be seen
	}
	fmt.Fprintln(w, "reap")
	g.drain(6)
}

func Gen(r *hx.Rng, tier string, w io.Writer) {
	x := &g{w: w, r: r}
	// corpus: crash between "batch removed from the queue" and "block first saved" (recorded finding)
	x.reset(0)
	x.arrive(2)
	fmt.Fprintln(w, "reap")
	fmt.Fprintln(w, "produce")
	fmt.Fprintln(w, "crash keep=1")
	x.drain(3)
	// every crash point of reaping and of taking + producing
	for keep := 0; keep <= 7; keep++ {
		for _, op := range []string{"reap", "produce"} {
			x.reset(0)
			x.arrive(2)
			fmt.Fprintln(w, "reap")
			x.arrive(1)
			if op == "produce" {
				fmt.Fprintln(w, "reap")
			}
			fmt.Fprintln(w, op)
			fmt.Fprintf(w, "crash keep=%d\n", keep)
			fmt.Fprintln(w, "reap")
			x.drain(5)
		}
	}
	// the execution layer fails while a block freshly built from a batch is produced: the retry reuses the block saved
	// early; so does a restart ("the node died during ExecuteTxs") and a crash at every write boundary of the failed step
	for _, after := range []string{"", "restart", "crash keep=0", "crash keep=1", "crash keep=2", "crash keep=3", "crash keep=4"} {
		x.reset(0)
		x.arrive(2)
		fmt.Fprintln(w, "reap")
		x.arrive(1)
		fmt.Fprintln(w, "produce exec=fail")
		if after != "" {
			fmt.Fprintln(w, after)
		}
		fmt.Fprintln(w, "reap")
		fmt.Fprintln(w, "produce")
		x.drain(5)
	}
	// … twice in a row, and while the pending block itself is re-executed; a failure with an empty queue
	x.reset(0)
	fmt.Fprintln(w, "produce exec=fail")
	x.arrive(3)
	fmt.Fprintln(w, "reap")
	fmt.Fprintln(w, "produce exec=fail")
	fmt.Fprintln(w, "produce exec=fail")
	fmt.Fprintln(w, "restart")
	fmt.Fprintln(w, "produce exec=fail")
	fmt.Fprintln(w, "crash keep=0")
	fmt.Fprintln(w, "produce")
	x.arrive(2)
	fmt.Fprintln(w, "reap")
	x.drain(5)
	// a DRAINING mempool (the in-repo reference executor: every transaction is answered by exactly one GetTxs) and a
	// sequencer that refuses the hand-off (queue at its bound): the refused transactions are forgotten (recorded finding)
	x.reset(1)
	fmt.Fprintf(w, "mempool mode=drain txs=%s\n", hx.HexList([][]byte{[]byte("d-1"), []byte("d-2")}))
	fmt.Fprintln(w, "reap")
	fmt.Fprintf(w, "mempool mode=drain txs=%s\n", hx.HexList([][]byte{[]byte("d-3")}))
	fmt.Fprintln(w, "reap") // refused: the queue holds one batch
	fmt.Fprintln(w, "produce")
	fmt.Fprintln(w, "reap") // the queue has room again, but the mempool does not offer d-3 any more
	x.drain(3)
	// … the same with room in the queue: nothing is lost
	x.reset(2)
	fmt.Fprintf(w, "mempool mode=drain txs=%s\n", hx.HexList([][]byte{[]byte("d-1"), []byte("d-2")}))
	fmt.Fprintln(w, "reap")
	fmt.Fprintf(w, "mempool mode=drain txs=%s\n", hx.HexList([][]byte{[]byte("d-3")}))
	fmt.Fprintln(w, "reap")
	fmt.Fprintln(w, "restart")
	x.drain(4)
	// the sequencing layer's clock: a batch stamped with the SAME time as the previous block is committed like any other
	// (twice in a row, after a restart, with an empty queue); one stamped EARLIER is dropped after it was taken (recorded finding)
	x.reset(0)
	x.arrive(2)
	fmt.Fprintln(w, "reap")
	fmt.Fprintln(w, "produce clock=same")
	x.arrive(1)
	fmt.Fprintln(w, "reap")
	fmt.Fprintln(w, "produce clock=same")
	fmt.Fprintln(w, "produce clock=same") // empty queue: an empty block with the same timestamp
	fmt.Fprintln(w, "restart")
	x.arrive(2)
	fmt.Fprintln(w, "reap")
	fmt.Fprintln(w, "produce clock=same")
	x.drain(3)
	x.reset(0)
	x.arrive(2)
	fmt.Fprintln(w, "reap")
	fmt.Fprintln(w, "produce clock=back")
	fmt.Fprintln(w, "reap")
	x.drain(3)
	// the stop request arrives while GetNextBatch is running: the step's context is cancelled when the sequencer has already
	// deleted the batch; the step goes on (nothing between the call and ExecuteTxs looks at the context) - with an execution
	// layer that honours the context it fails after the early save; then an ordinary stop and start
	for _, how := range []string{"produce cancel=during-getnext", "produce cancel=during-getnext exec=ctx"} {
		x.reset(0)
		x.arrive(2)
		fmt.Fprintln(w, "reap")
		x.arrive(1)
		fmt.Fprintln(w, how)
		fmt.Fprintln(w, "restart")
		fmt.Fprintln(w, "reap")
		fmt.Fprintln(w, "produce")
		fmt.Fprintln(w, how) // the queue still holds the second batch
		fmt.Fprintln(w, how) // empty queue / a block waits at height+1: no sequencer call, nothing to cancel
		x.drain(4)
	}
	// transient datastore errors (outside the property's quantifier; the behaviour of the real code is pinned down by the
	// model): the queue's write-ahead Put fails -> the hand-off is refused, nothing changes, the retry hands over ONCE
	for _, qmax := range []int{0, 1} {
		x.reset(qmax)
		x.arrive(2)
		fmt.Fprintln(w, "fail what=qput")
		fmt.Fprintln(w, "reap")
		fmt.Fprintln(w, "reap")
		x.arrive(1)
		fmt.Fprintln(w, "fail what=qput")
		fmt.Fprintln(w, "reap")
		fmt.Fprintln(w, "produce")
		fmt.Fprintln(w, "reap")
		x.drain(4)
	}
	// the mark of the first transaction fails (logged, ignored): handed over again; the queue's Delete fails (logged,
	// ignored): after a restart the batch is handed out again; the early block save fails: the step's error ends the node
	x.reset(0)
	x.arrive(2)
	fmt.Fprintln(w, "fail what=seen")
	fmt.Fprintln(w, "reap")
	fmt.Fprintln(w, "reap")
	x.drain(4)
	x.reset(0)
	x.arrive(2)
	fmt.Fprintln(w, "reap")
	fmt.Fprintln(w, "fail what=qdel")
	fmt.Fprintln(w, "produce")
	fmt.Fprintln(w, "restart")
	x.drain(4)
	for _, first := range []string{"produce", "produce exec=fail"} {
		x.reset(0)
		x.arrive(2)
		fmt.Fprintln(w, "reap")
		if first != "produce" {
			fmt.Fprintln(w, first) // the block waits at height+1: the failing save is the final one
		}
		fmt.Fprintln(w, "fail what=blk")
		fmt.Fprintln(w, "produce")
		fmt.Fprintln(w, "reap") // needs-restart
		fmt.Fprintln(w, "restart")
		fmt.Fprintln(w, "reap")
		x.drain(4)
	}
	n := 60
	if tier == "thorough" {
		n = 800
	}
	for i := 0; i < n; i++ {
		qmax := 0
		if r.Chance(40) {
			qmax = 1 + r.Intn(3) // a full queue refuses hand-offs: they must be retried
		}
		x.reset(qmax)
		crashes := r.Chance(25)
		execFails := r.Chance(35)
		// a draining mempool; no crashes then: what a destructive GetTxs handed out and a crash caught before the durable
		// queue write exists nowhere any more (inherent to that interface, listed under the assumptions)
		x.drainMode = !crashes && r.Chance(20)
		steps := 5 + r.Intn(20)
		for j := 0; j < steps; j++ {
			switch r.Intn(8) {
			case 0, 1:
				x.arrive(1 + r.Intn(3))
			case 2, 3:
				if r.Chance(8) {
					fmt.Fprintln(w, "fail what=qput") // a failing queue write is a refusal: harmless everywhere
				}
				fmt.Fprintln(w, "reap")
			case 4, 5:
				if execFails && r.Chance(30) {
					fmt.Fprintln(w, "produce exec=fail")
				} else if r.Chance(10) {
					fmt.Fprintln(w, "produce clock=same")
				} else if r.Chance(8) {
					if r.Chance(50) {
						fmt.Fprintln(w, "produce cancel=during-getnext")
					} else {
						fmt.Fprintln(w, "produce cancel=during-getnext exec=ctx")
					}
				} else {
					fmt.Fprintln(w, "produce")
				}
			case 6:
				fmt.Fprintln(w, "restart")
			default:
				if crashes {
					fmt.Fprintf(w, "crash keep=%d\n", r.Intn(8))
				} else {
					fmt.Fprintln(w, "reap")
				}
			}
		}
		fmt.Fprintln(w, "reap")
		fmt.Fprintln(w, "reap")
		x.drain(8)
	}
	// re-split pairs handed over as two consecutive batches (last, so that the random choices above are unchanged)
	m := 12
	if tier == "thorough" {
		m = 80
	}
	for i := 0; i < m; i++ {
		x.resplit(i%4, i%5 == 4)
	}
}

func init() { hx.Register("C11", hx.Stream{Gen: Gen, Run: Run}) }
