package c14

import (
	"bytes"
	"encoding/binary"
	"fmt"
	"math"
	"strings"

	"verifharness/hx"

	storepkg "github.com/evstack/ev-node/pkg/store"
	"github.com/evstack/ev-node/types"
)

// Facts: the datastore key strings (and height encodings) the compiled store really uses, read from
// the write log of hx.LogDS after running the real methods on sample heights, hashes and metadata keys.
// Which key of a block-save batch is the header / data / signature / index key is decided by the VALUE
// stored under it, so a change of prefix or a swap of prefixes moves these facts.
func init() {
	hx.RegisterFacts("C14", func() (string, error) {
		var b strings.Builder
		lds := hx.NewLogDS(nil)
		st := storepkg.New(lds)
		last := func() (hx.WriteSet, error) {
			if len(lds.Log) == 0 {
				return nil, fmt.Errorf("no write was issued")
			}
			return lds.Log[len(lds.Log)-1], nil
		}
		nat := func(n uint64) string { return fmt.Sprintf("%d", n) }

		heights := []uint64{0, 1, 2, 9, 10, 11, 99, 100, 255, 256, 1000, 65535, 65536, 1 << 32, 1<<63 - 1, 1 << 63, math.MaxUint64}
		var hk, dk, ck, ik, hv, batchSizes, batchCounts []string
		for i, h := range heights {
			sh := types.SignedHeader{Header: types.Header{BaseHeader: types.BaseHeader{Height: h, Time: uint64(i) + 1, ChainID: "facts"}, AppHash: []byte{byte(i), 1, 2}}}
			d := types.Data{Txs: types.Txs{types.Tx(fmt.Sprintf("facts-tx-%d", i))}}
			sig := types.Signature(bytes.Repeat([]byte{byte(0xA0 + i)}, 64))
			hb, _ := sh.MarshalBinary()
			db, _ := d.MarshalBinary()
			hash := []byte(sh.Hash())
			before := len(lds.Log)
			if err := st.SaveBlockData(ctx, &sh, &d, &sig); err != nil {
				return "", err
			}
			batchCounts = append(batchCounts, nat(uint64(len(lds.Log)-before)))
			var all hx.WriteSet
			for _, ws := range lds.Log[before:] {
				all = append(all, ws...)
			}
			batchSizes = append(batchSizes, nat(uint64(len(all))))
			le := make([]byte, 8)
			binary.LittleEndian.PutUint64(le, h)
			find := func(val []byte) string {
				for _, w := range all {
					if !w.Del && bytes.Equal(w.Val, val) {
						return w.Key
					}
				}
				return "<no key holds this value>"
			}
			hk = append(hk, fmt.Sprintf("(%d, %s)", h, hx.LeanString(find(hb))))
			dk = append(dk, fmt.Sprintf("(%d, %s)", h, hx.LeanString(find(db))))
			ck = append(ck, fmt.Sprintf("(%d, %s)", h, hx.LeanString(find(sig))))
			ik = append(ik, fmt.Sprintf("(%s, %s)", hx.LeanBytes(hash), hx.LeanString(find(le))))
		}
		// saving a height again: under ANOTHER header the same batch also deletes the replaced header's index
		// entry; under the SAME header (other signature: the block manager's early + final save) four puts only
		rl := hx.NewLogDS(nil)
		rs := storepkg.New(rl)
		mkHdr := func(t uint64) types.SignedHeader {
			return types.SignedHeader{Header: types.Header{BaseHeader: types.BaseHeader{Height: 7, Time: t, ChainID: "facts"}}}
		}
		shA, shB := mkHdr(1), mkHdr(2)
		dd := types.Data{}
		sig1, sig2 := types.Signature([]byte{1}), types.Signature([]byte{2})
		count := func(from int) (atomic, puts, dels int, delKey string) {
			for _, ws := range rl.Log[from:] {
				atomic++
				for _, w := range ws {
					if w.Del {
						dels++
						delKey = w.Key
					} else {
						puts++
					}
				}
			}
			return
		}
		if err := rs.SaveBlockData(ctx, &shA, &dd, &sig1); err != nil {
			return "", err
		}
		n1 := len(rl.Log)
		if err := rs.SaveBlockData(ctx, &shA, &dd, &sig2); err != nil {
			return "", err
		}
		sameA, sameP, sameD, _ := count(n1)
		n2 := len(rl.Log)
		if err := rs.SaveBlockData(ctx, &shB, &dd, &sig2); err != nil {
			return "", err
		}
		otherA, otherP, otherD, otherKey := count(n2)
		resave := fmt.Sprintf("/-- saving height 7 again under the same header: (atomic writes, puts, deletes) -/\ndef resaveSame : Nat × Nat × Nat := (%d, %d, %d)\n/-- … and under another header; the deleted key and the hash of the replaced header -/\ndef resaveOther : Nat × Nat × Nat := (%d, %d, %d)\ndef resaveDeleted : Bytes × String := (%s, %s)\n",
			sameA, sameP, sameD, otherA, otherP, otherD, hx.LeanBytes([]byte(shA.Hash())), hx.LeanString(otherKey))

		// index keys for hashes of other lengths (GetBlockByHash takes any byte string): read side is not
		// logged, so save is the only source; the empty hash and short hashes are covered by the stream.

		// height: key and stored value
		hl := hx.NewLogDS(nil)
		hs := storepkg.New(hl)
		var heightKey string
		for _, h := range []uint64{1, 2, 255, 256, 1 << 32, 1 << 63, math.MaxUint64} {
			if err := hs.SetHeight(ctx, h); err != nil {
				return "", err
			}
			ws := hl.Log[len(hl.Log)-1]
			if len(ws) != 1 || ws[0].Del {
				return "", fmt.Errorf("SetHeight did not issue exactly one put")
			}
			heightKey = ws[0].Key
			hv = append(hv, fmt.Sprintf("(%d, %s)", h, hx.LeanBytes(ws[0].Val)))
		}
		nw := len(hl.Log)
		if err := hs.SetHeight(ctx, 5); err != nil {
			return "", err
		}
		lowerWrites := len(hl.Log) - nw

		// state
		if err := st.UpdateState(ctx, types.State{ChainID: "facts"}); err != nil {
			return "", err
		}
		ws, err := last()
		if err != nil || len(ws) != 1 {
			return "", fmt.Errorf("UpdateState did not issue exactly one put")
		}
		stateKey := ws[0].Key

		// metadata: the node's keys, look-alikes, and keys path.Clean rewrites
		var mk []string
		keys := append([]string(nil), NodeMetaKeys(0, 18446744073709551615, 7, 1234567890)...)
		keys = append(keys, trickyMetaKeys...)
		keys = append(keys, uncleanMetaKeys...)
		seen := map[string]bool{}
		for _, k := range keys {
			if seen[k] {
				continue
			}
			seen[k] = true
			if err := st.SetMetadata(ctx, k, []byte("v")); err != nil {
				return "", err
			}
			ws, err := last()
			if err != nil || len(ws) != 1 {
				return "", fmt.Errorf("SetMetadata did not issue exactly one put")
			}
			mk = append(mk, fmt.Sprintf("(%s, %s)", hx.LeanString(k), hx.LeanString(ws[0].Key)))
		}
		var nodeKeys []string
		for _, k := range NodeMetaKeys(3, 4) {
			nodeKeys = append(nodeKeys, hx.LeanString(k))
		}
		scan, err := ScanMetaKeys()
		if err != nil {
			return "", err
		}
		var constKeys, fmtKeys, extSites, siteLines []string
		for _, k := range scan.Const {
			constKeys = append(constKeys, hx.LeanString(k))
		}
		for _, f := range scan.Formats {
			fmtKeys = append(fmtKeys, fmt.Sprintf("(%s, %s)", hx.LeanString(f[0]), hx.LeanString(f[1])))
		}
		for _, e := range scan.External {
			extSites = append(extSites, hx.LeanString(e))
		}
		for _, l := range scan.Sites {
			siteLines = append(siteLines, "--   "+l)
		}

		list := func(name, ty string, items []string) {
			fmt.Fprintf(&b, "def %s : List (%s) := [\n  %s]\n", name, ty, strings.Join(items, ",\n  "))
		}
		fmt.Fprintf(&b, "def heightKey : String := %s\n", hx.LeanString(heightKey))
		fmt.Fprintf(&b, "def stateKey : String := %s\n", hx.LeanString(stateKey))
		list("headerKeys", "Nat × String", hk)
		list("dataKeys", "Nat × String", dk)
		list("signatureKeys", "Nat × String", ck)
		list("indexKeys", "Bytes × String", ik)
		list("heightValues", "Nat × Bytes", hv)
		list("metaKeys", "String × String", mk)
		fmt.Fprintf(&b, "-- SetMetadata/GetMetadata call sites found in the source (go/parser), with the key each resolves to:\n%s\n", strings.Join(siteLines, "\n"))
		fmt.Fprintf(&b, "/-- constant metadata keys passed to SetMetadata/GetMetadata anywhere in the node's source -/\ndef nodeMetaConst : List String := [%s]\n", strings.Join(constKeys, ", "))
		fmt.Fprintf(&b, "/-- per-height metadata keys: (prefix, suffix) around the decimal height -/\ndef nodeMetaFormats : List (String × String) := [%s]\n", strings.Join(fmtKeys, ", "))
		fmt.Fprintf(&b, "/-- call sites whose key is not built from constants (file:function) -/\ndef nodeMetaExternal : List String := [%s]\n", strings.Join(extSites, ", "))
		fmt.Fprintf(&b, "/-- the constant keys, then every per-height key for heights 3 and 4 -/\ndef nodeMetaKeys : List String := [%s]\n", strings.Join(nodeKeys, ", "))
		b.WriteString(resave)
		fmt.Fprintf(&b, "/-- atomic writes issued by one SaveBlockData, per sample -/\ndef saveAtomicWrites : List Nat := [%s]\n", strings.Join(batchCounts, ", "))
		fmt.Fprintf(&b, "/-- puts inside them -/\ndef savePuts : List Nat := [%s]\n", strings.Join(batchSizes, ", "))
		fmt.Fprintf(&b, "/-- atomic writes issued by SetHeight(5) when the recorded height is 2^64-1 -/\ndef lowerHeightWrites : Nat := %d\n", lowerWrites)
		return b.String(), nil
	})
}
