package c14

import (
	"context"
	"os"

	ds "github.com/ipfs/go-datastore"

	"verifharness/hx"

	storepkg "github.com/evstack/ev-node/pkg/store"
)

// backend is the datastore under the real store plus the record of the atomic writes it received.
type backend interface {
	ds.Batching
	NumWrites() int
	WritesSince(n int) []hx.WriteSet
}

// logBackend: hx.LogDS (atomic batches, write log, ImageAt) — crash points are available.
type logBackend struct{ *hx.LogDS }

func (b logBackend) WritesSince(n int) []hx.WriteSet {
	if n > len(b.Log) {
		n = len(b.Log)
	}
	return append([]hx.WriteSet(nil), b.Log[n:]...)
}

// recDS records the atomic writes that reach a real datastore (badger).
type recDS struct {
	ds.Batching
	log []hx.WriteSet
}

func (r *recDS) NumWrites() int { return len(r.log) }
func (r *recDS) WritesSince(n int) []hx.WriteSet {
	if n > len(r.log) {
		n = len(r.log)
	}
	return append([]hx.WriteSet(nil), r.log[n:]...)
}
func (r *recDS) Put(ctx context.Context, k ds.Key, v []byte) error {
	if err := r.Batching.Put(ctx, k, v); err != nil {
		return err
	}
	r.log = append(r.log, hx.WriteSet{{Key: k.String(), Val: append([]byte(nil), v...)}})
	return nil
}
func (r *recDS) Delete(ctx context.Context, k ds.Key) error {
	if err := r.Batching.Delete(ctx, k); err != nil {
		return err
	}
	r.log = append(r.log, hx.WriteSet{{Del: true, Key: k.String()}})
	return nil
}

type recBatch struct {
	r  *recDS
	b  ds.Batch
	ws hx.WriteSet
}

func (r *recDS) Batch(ctx context.Context) (ds.Batch, error) {
	b, err := r.Batching.Batch(ctx)
	if err != nil {
		return nil, err
	}
	return &recBatch{r: r, b: b}, nil
}
func (b *recBatch) Put(ctx context.Context, k ds.Key, v []byte) error {
	b.ws = append(b.ws, hx.W{Key: k.String(), Val: append([]byte(nil), v...)})
	return b.b.Put(ctx, k, v)
}
func (b *recBatch) Delete(ctx context.Context, k ds.Key) error {
	b.ws = append(b.ws, hx.W{Del: true, Key: k.String()})
	return b.b.Delete(ctx, k)
}
func (b *recBatch) Commit(ctx context.Context) error {
	if err := b.b.Commit(ctx); err != nil {
		return err
	}
	b.r.log = append(b.r.log, b.ws)
	b.ws = nil
	return nil
}

// workDir: scratch space under $VERIF_WORK (set by ./check), else the system temp dir.
func workDir() (string, error) {
	base := os.Getenv("VERIF_WORK")
	if base == "" {
		base = os.TempDir()
	}
	return os.MkdirTemp(base, "c14-badger-")
}

// openBadger opens the node's default on-disk key-value store (pkg/store/kv.go) in dir.
func openBadger(dir string) (ds.Batching, error) {
	return storepkg.NewDefaultKVStore(dir, "db", "c14")
}
