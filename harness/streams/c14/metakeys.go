package c14

// The metadata keys the node uses, READ FROM THE CURRENT SOURCE of /repo (go/parser, no type information):
// every call x.SetMetadata(ctx, key, value) / x.GetMetadata(ctx, key) in a non-test file of a package that
// imports pkg/store (or is pkg/store), with the key expression resolved through string constants,
// fmt.Sprintf formats, local assignments, struct fields (composite literals) and function parameters (call
// sites).  A key that cannot be resolved to constants/formats is an EXTERNAL key site (today exactly one: the
// RPC server hands a network-supplied key to GetMetadata).  A Go build overlay (VERIF_OVERLAY or GOFLAGS
// -overlay=, used for mutation tests) is honoured, so a new key, a changed constant or a changed rhb format
// moves the regenerated facts (Gen.C14.nodeMetaConst / nodeMetaFormats / nodeMetaExternal).

import (
	"encoding/json"
	"fmt"
	"go/ast"
	"go/parser"
	"go/token"
	"os"
	"path/filepath"
	"reflect"
	"runtime"
	"sort"
	"strconv"
	"strings"
	"sync"

	storepkg "github.com/evstack/ev-node/pkg/store"
)

const storeImport = "github.com/evstack/ev-node/pkg/store"
const modulePath = "github.com/evstack/ev-node"

// MetaKeySites is the result of the source scan.
type MetaKeySites struct {
	Const    []string    // constant keys, sorted
	Formats  [][2]string // (prefix, suffix) of keys "<prefix><height><suffix>", sorted
	External []string    // "<file relative to the repo>:<function>" of calls whose key is not built from constants
	Sites    []string    // every call site with what it resolved to (for notes / debugging)
}

func repoRoot() string {
	if d := os.Getenv("VERIF_REPO"); d != "" {
		return d
	}
	if _, err := os.Stat("/repo/pkg/store/store.go"); err == nil {
		return "/repo"
	}
	if f := runtime.FuncForPC(reflect.ValueOf(storepkg.New).Pointer()); f != nil {
		file, _ := f.FileLine(f.Entry())
		if file != "" {
			return filepath.Dir(filepath.Dir(filepath.Dir(file)))
		}
	}
	return "/repo"
}

func overlayMap() map[string]string {
	out := map[string]string{}
	path := os.Getenv("VERIF_OVERLAY")
	if path == "" {
		for _, f := range strings.Fields(os.Getenv("GOFLAGS")) {
			if strings.HasPrefix(f, "-overlay=") {
				path = strings.TrimPrefix(f, "-overlay=")
			}
		}
	}
	if path == "" {
		return out
	}
	b, err := os.ReadFile(path)
	if err != nil {
		return out
	}
	var ov struct{ Replace map[string]string }
	if json.Unmarshal(b, &ov) == nil {
		for k, v := range ov.Replace {
			out[k] = v
		}
	}
	return out
}

type srcPkg struct {
	dir   string
	files []*ast.File
	names []string // file paths, parallel to files
	// package-level string constants (literal values only)
	consts map[string]string
}

type scanner struct {
	root string
	ov   map[string]string
	fset *token.FileSet
	pkgs map[string]*srcPkg // by directory
}

func (s *scanner) parseDir(dir string) *srcPkg {
	if p, ok := s.pkgs[dir]; ok {
		return p
	}
	p := &srcPkg{dir: dir, consts: map[string]string{}}
	s.pkgs[dir] = p
	names := map[string]bool{}
	if ents, err := os.ReadDir(dir); err == nil {
		for _, e := range ents {
			if !e.IsDir() {
				names[filepath.Join(dir, e.Name())] = true
			}
		}
	}
	for k := range s.ov { // files that exist only in the overlay
		if filepath.Dir(k) == dir {
			names[k] = true
		}
	}
	var sorted []string
	for n := range names {
		sorted = append(sorted, n)
	}
	sort.Strings(sorted)
	for _, n := range sorted {
		base := filepath.Base(n)
		if !strings.HasSuffix(base, ".go") || strings.HasSuffix(base, "_test.go") || strings.HasPrefix(base, "verif_hooks") {
			continue
		}
		src := n
		if r, ok := s.ov[n]; ok {
			if r == "" {
				continue
			}
			src = r
		}
		b, err := os.ReadFile(src)
		if err != nil {
			continue
		}
		f, err := parser.ParseFile(s.fset, n, b, parser.SkipObjectResolution)
		if err != nil {
			continue
		}
		p.files = append(p.files, f)
		p.names = append(p.names, n)
	}
	// string constants; a constant defined by another constant is followed once the table is complete
	type pending struct {
		name string
		e    ast.Expr
	}
	var later []pending
	for _, f := range p.files {
		for _, d := range f.Decls {
			gd, ok := d.(*ast.GenDecl)
			if !ok || (gd.Tok != token.CONST && gd.Tok != token.VAR) {
				continue
			}
			for _, sp := range gd.Specs {
				vs, ok := sp.(*ast.ValueSpec)
				if !ok || gd.Tok == token.VAR {
					continue
				}
				for i, nm := range vs.Names {
					if i >= len(vs.Values) {
						continue
					}
					if bl, ok := vs.Values[i].(*ast.BasicLit); ok && bl.Kind == token.STRING {
						if v, err := strconv.Unquote(bl.Value); err == nil {
							p.consts[nm.Name] = v
						}
					} else {
						later = append(later, pending{nm.Name, vs.Values[i]})
					}
				}
			}
		}
	}
	for _, l := range later {
		if id, ok := l.e.(*ast.Ident); ok {
			if v, ok := p.consts[id.Name]; ok {
				p.consts[l.name] = v
			}
		}
	}
	return p
}

// importDir: the directory of an imported package of this module, "" otherwise.
func (s *scanner) importDir(f *ast.File, alias string) string {
	for _, im := range f.Imports {
		path, err := strconv.Unquote(im.Path.Value)
		if err != nil {
			continue
		}
		name := filepath.Base(path)
		if im.Name != nil {
			name = im.Name.Name
		}
		if name != alias {
			continue
		}
		if path == modulePath {
			return s.root
		}
		if strings.HasPrefix(path, modulePath+"/") {
			return filepath.Join(s.root, strings.TrimPrefix(path, modulePath+"/"))
		}
	}
	return ""
}

// a resolved key: either a constant or a format
type keyPat struct {
	format string // with %d left in place, %s substituted
	ok     bool
}

type ctxt struct {
	pkg  *srcPkg
	file *ast.File
	fn   *ast.FuncDecl
}

const maxDepth = 8

func (s *scanner) resolve(e ast.Expr, c ctxt, depth int) []keyPat {
	bad := []keyPat{{ok: false}}
	if depth > maxDepth {
		return bad
	}
	switch x := e.(type) {
	case *ast.ParenExpr:
		return s.resolve(x.X, c, depth+1)
	case *ast.BasicLit:
		if x.Kind == token.STRING {
			if v, err := strconv.Unquote(x.Value); err == nil {
				return []keyPat{{format: strings.ReplaceAll(v, "%", "%%"), ok: true}}
			}
		}
		return bad
	case *ast.Ident:
		if v, ok := c.pkg.consts[x.Name]; ok {
			return []keyPat{{format: strings.ReplaceAll(v, "%", "%%"), ok: true}}
		}
		if c.fn != nil {
			// a local variable: every assignment in the function
			var out []keyPat
			found := false
			ast.Inspect(c.fn, func(n ast.Node) bool {
				as, ok := n.(*ast.AssignStmt)
				if !ok || len(as.Lhs) != len(as.Rhs) {
					return true
				}
				for i, l := range as.Lhs {
					if id, ok := l.(*ast.Ident); ok && id.Name == x.Name {
						found = true
						out = append(out, s.resolve(as.Rhs[i], c, depth+1)...)
					}
				}
				return true
			})
			if found {
				return out
			}
			// a parameter: every call site of the function in the package
			if idx := paramIndex(c.fn, x.Name); idx >= 0 {
				var out []keyPat
				sites := 0
				for fi, f := range c.pkg.files {
					_ = fi
					for _, d := range f.Decls {
						fd, ok := d.(*ast.FuncDecl)
						if !ok || fd.Body == nil {
							continue
						}
						ast.Inspect(fd.Body, func(n ast.Node) bool {
							call, ok := n.(*ast.CallExpr)
							if !ok || calleeName(call) != c.fn.Name.Name || idx >= len(call.Args) {
								return true
							}
							sites++
							out = append(out, s.resolve(call.Args[idx], ctxt{c.pkg, f, fd}, depth+1)...)
							return true
						})
					}
				}
				if sites > 0 {
					return out
				}
			}
		}
		return bad
	case *ast.SelectorExpr:
		if id, ok := x.X.(*ast.Ident); ok {
			if dir := s.importDir(c.file, id.Name); dir != "" {
				if v, ok := s.parseDir(dir).consts[x.Sel.Name]; ok {
					return []keyPat{{format: strings.ReplaceAll(v, "%", "%%"), ok: true}}
				}
				return bad
			}
		}
		// a struct field: every `field: expr` of a composite literal and every `y.field = expr` in the package
		var out []keyPat
		found := false
		for _, f := range c.pkg.files {
			for _, d := range f.Decls {
				fd, ok := d.(*ast.FuncDecl)
				if !ok || fd.Body == nil {
					continue
				}
				ast.Inspect(fd.Body, func(n ast.Node) bool {
					switch y := n.(type) {
					case *ast.KeyValueExpr:
						if k, ok := y.Key.(*ast.Ident); ok && k.Name == x.Sel.Name {
							found = true
							out = append(out, s.resolve(y.Value, ctxt{c.pkg, f, fd}, depth+1)...)
						}
					case *ast.AssignStmt:
						if len(y.Lhs) == len(y.Rhs) {
							for i, l := range y.Lhs {
								if se, ok := l.(*ast.SelectorExpr); ok && se.Sel.Name == x.Sel.Name {
									found = true
									out = append(out, s.resolve(y.Rhs[i], ctxt{c.pkg, f, fd}, depth+1)...)
								}
							}
						}
					}
					return true
				})
			}
		}
		if found {
			return out
		}
		return bad
	case *ast.CallExpr:
		if se, ok := x.Fun.(*ast.SelectorExpr); ok {
			if id, ok := se.X.(*ast.Ident); ok && id.Name == "fmt" && se.Sel.Name == "Sprintf" && len(x.Args) >= 1 {
				fs := s.resolve(x.Args[0], c, depth+1)
				if len(fs) != 1 || !fs[0].ok {
					return bad
				}
				// the literal format (undo the escaping done for plain strings)
				format := strings.ReplaceAll(fs[0].format, "%%", "%")
				var sb strings.Builder
				arg := 1
				for i := 0; i < len(format); i++ {
					if format[i] != '%' || i+1 >= len(format) {
						sb.WriteByte(format[i])
						continue
					}
					i++
					switch format[i] {
					case '%':
						sb.WriteString("%%")
					case 'd':
						sb.WriteString("%d")
						arg++
					case 's', 'v':
						if arg >= len(x.Args) {
							return bad
						}
						as := s.resolve(x.Args[arg], c, depth+1)
						arg++
						if len(as) != 1 || !as[0].ok || strings.Contains(strings.ReplaceAll(as[0].format, "%%", ""), "%") {
							return bad
						}
						sb.WriteString(as[0].format)
					default:
						return bad
					}
				}
				return []keyPat{{format: sb.String(), ok: true}}
			}
		}
		return bad
	}
	return bad
}

func paramIndex(fn *ast.FuncDecl, name string) int {
	i := 0
	for _, fl := range fn.Type.Params.List {
		if len(fl.Names) == 0 {
			i++
			continue
		}
		for _, n := range fl.Names {
			if n.Name == name {
				return i
			}
			i++
		}
	}
	return -1
}

func calleeName(call *ast.CallExpr) string {
	f := call.Fun
	for {
		switch x := f.(type) {
		case *ast.IndexExpr:
			f = x.X
			continue
		case *ast.IndexListExpr:
			f = x.X
			continue
		case *ast.Ident:
			return x.Name
		case *ast.SelectorExpr:
			return x.Sel.Name
		}
		return ""
	}
}

func importsStore(f *ast.File) bool {
	for _, im := range f.Imports {
		if p, err := strconv.Unquote(im.Path.Value); err == nil && p == storeImport {
			return true
		}
	}
	return false
}

var (
	scanOnce sync.Once
	scanRes  MetaKeySites
	scanErr  error
)

// ScanMetaKeys walks the module at repoRoot() (nested modules such as apps/ and the generated code under
// types/pb and test/mocks are skipped) and resolves the key of every SetMetadata/GetMetadata call.
func ScanMetaKeys() (MetaKeySites, error) {
	scanOnce.Do(func() { scanRes, scanErr = scanMetaKeys() })
	return scanRes, scanErr
}

func scanMetaKeys() (MetaKeySites, error) {
	s := &scanner{root: repoRoot(), ov: overlayMap(), fset: token.NewFileSet(), pkgs: map[string]*srcPkg{}}
	var dirs []string
	err := filepath.WalkDir(s.root, func(path string, d os.DirEntry, err error) error {
		if err != nil {
			return nil
		}
		if !d.IsDir() {
			return nil
		}
		rel, _ := filepath.Rel(s.root, path)
		base := filepath.Base(path)
		if rel != "." && (strings.HasPrefix(base, ".") || base == "testdata" || base == "vendor" || base == "node_modules") {
			return filepath.SkipDir
		}
		if rel == filepath.Join("types", "pb") || rel == filepath.Join("test", "mocks") {
			return filepath.SkipDir
		}
		if rel != "." {
			if _, err := os.Stat(filepath.Join(path, "go.mod")); err == nil {
				return filepath.SkipDir // a nested module (its own replace of this one): not the node
			}
		}
		dirs = append(dirs, path)
		return nil
	})
	if err != nil {
		return MetaKeySites{}, err
	}
	sort.Strings(dirs)
	consts, formats, external := map[string]bool{}, map[[2]string]bool{}, map[string]bool{}
	var res MetaKeySites
	ncalls := 0
	for _, dir := range dirs {
		p := s.parseDir(dir)
		isStore := dir == filepath.Join(s.root, "pkg", "store")
		for fi, f := range p.files {
			if !isStore && !importsStore(f) {
				continue
			}
			rel, _ := filepath.Rel(s.root, p.names[fi])
			for _, d := range f.Decls {
				fd, ok := d.(*ast.FuncDecl)
				if !ok || fd.Body == nil {
					continue
				}
				ast.Inspect(fd.Body, func(n ast.Node) bool {
					call, ok := n.(*ast.CallExpr)
					if !ok {
						return true
					}
					se, ok := call.Fun.(*ast.SelectorExpr)
					if !ok {
						return true
					}
					var key ast.Expr
					switch {
					case se.Sel.Name == "SetMetadata" && len(call.Args) == 3:
						key = call.Args[1]
					case se.Sel.Name == "GetMetadata" && len(call.Args) == 2:
						key = call.Args[1]
					default:
						return true
					}
					ncalls++
					site := fmt.Sprintf("%s:%s", filepath.ToSlash(rel), fd.Name.Name)
					pats := s.resolve(key, ctxt{p, f, fd}, 0)
					var shown []string
					for _, kp := range pats {
						if !kp.ok {
							external[site] = true
							shown = append(shown, "<external>")
							continue
						}
						plain := strings.ReplaceAll(kp.format, "%%", "\x00")
						switch strings.Count(plain, "%d") {
						case 0:
							consts[strings.ReplaceAll(plain, "\x00", "%")] = true
							shown = append(shown, strconv.Quote(strings.ReplaceAll(plain, "\x00", "%")))
						case 1:
							i := strings.Index(plain, "%d")
							pre, suf := strings.ReplaceAll(plain[:i], "\x00", "%"), strings.ReplaceAll(plain[i+2:], "\x00", "%")
							formats[[2]string{pre, suf}] = true
							shown = append(shown, strconv.Quote(pre+"<height>"+suf))
						default:
							external[site] = true
							shown = append(shown, "<format with several numbers>")
						}
					}
					res.Sites = append(res.Sites, fmt.Sprintf("%s.%s: %s", site, se.Sel.Name, strings.Join(shown, " | ")))
					return true
				})
			}
		}
	}
	if ncalls == 0 {
		return MetaKeySites{}, fmt.Errorf("no SetMetadata/GetMetadata call found under %s", s.root)
	}
	for k := range consts {
		res.Const = append(res.Const, k)
	}
	sort.Strings(res.Const)
	for k := range formats {
		res.Formats = append(res.Formats, k)
	}
	sort.Slice(res.Formats, func(i, j int) bool {
		if res.Formats[i][0] != res.Formats[j][0] {
			return res.Formats[i][0] < res.Formats[j][0]
		}
		return res.Formats[i][1] < res.Formats[j][1]
	})
	for k := range external {
		res.External = append(res.External, k)
	}
	sort.Strings(res.External)
	sort.Strings(res.Sites)
	return res, nil
}

// NodeMetaKeys: every metadata key the node uses, instantiated at the given heights — derived from the source
// scan (constants first, then every format at every height).
func NodeMetaKeys(heights ...uint64) []string {
	r, err := ScanMetaKeys()
	if err != nil {
		panic("C14: cannot read the node's metadata keys from the source: " + err.Error())
	}
	out := append([]string(nil), r.Const...)
	for _, h := range heights {
		for _, f := range r.Formats {
			out = append(out, f[0]+strconv.FormatUint(h, 10)+f[1])
		}
	}
	return out
}
