// Package c14 drives the real pkg/store.DefaultStore with random operation histories (saves,
// overwrites, reads by height and hash, height, state, metadata, crashes at write boundaries,
// reopen) over the atomic-batch logging datastore and over real badger, prints one canonical
// observation per op for the correspondence with lean/Drv/C14.lean, and checks every read against
// an in-memory reference map that does not depend on the Lean model.
package c14

import (
	"bytes"
	"context"
	"crypto/ed25519"
	"crypto/sha256"
	"errors"
	"fmt"
	"io"
	"math"
	"os"
	"sort"
	"strconv"
	"strings"
	"time"
	"unicode/utf8"

	ds "github.com/ipfs/go-datastore"
	"github.com/libp2p/go-libp2p/core/crypto"

	"verifharness/hx"

	storepkg "github.com/evstack/ev-node/pkg/store"
	"github.com/evstack/ev-node/types"
)

var ctx = context.Background()

// ---------------------------------------------------------------- op arguments (same names as C12)

func u(o hx.Op, k string) uint64 { n, _ := o.U64(k); return n }

func headerOfOp(o hx.Op) types.Header {
	return types.Header{
		Version:         types.Version{Block: u(o, "vb"), App: u(o, "va")},
		BaseHeader:      types.BaseHeader{Height: u(o, "h"), Time: u(o, "t"), ChainID: string(o.Bytes("cid"))},
		LastHeaderHash:  o.Bytes("lhh"),
		LastCommitHash:  o.Bytes("lch"),
		DataHash:        o.Bytes("dh"),
		ConsensusHash:   o.Bytes("ch"),
		AppHash:         o.Bytes("ah"),
		LastResultsHash: o.Bytes("lrh"),
		ProposerAddress: o.Bytes("pa"),
		ValidatorHash:   o.Bytes("vh"),
	}
}
func dataOfOp(o hx.Op) types.Data {
	d := types.Data{}
	if o.Bool("meta") {
		d.Metadata = &types.Metadata{ChainID: string(o.Bytes("mcid")), Height: u(o, "mh"), Time: u(o, "mt"), LastDataHash: o.Bytes("mldh")}
	}
	for _, t := range o.List("txs") {
		d.Txs = append(d.Txs, types.Tx(t))
	}
	return d
}
func signerOfOp(o hx.Op) types.Signer {
	s := types.Signer{Address: o.Bytes("sa")}
	if pk := o.Bytes("pk"); len(pk) > 0 {
		if k, err := crypto.UnmarshalPublicKey(pk); err == nil {
			s.PubKey = k
		}
	}
	return s
}
func showHeaderArgs(h *types.Header) string {
	return fmt.Sprintf("vb=%d va=%d h=%d t=%d lhh=%s lch=%s dh=%s ch=%s ah=%s lrh=%s pa=%s vh=%s cid=%s",
		h.Version.Block, h.Version.App, h.BaseHeader.Height, h.BaseHeader.Time, hx.Hex(h.LastHeaderHash), hx.Hex(h.LastCommitHash),
		hx.Hex(h.DataHash), hx.Hex(h.ConsensusHash), hx.Hex(h.AppHash), hx.Hex(h.LastResultsHash), hx.Hex(h.ProposerAddress),
		hx.Hex(h.ValidatorHash), hx.Hex([]byte(h.BaseHeader.ChainID)))
}
func showDataArgs(d *types.Data) string {
	s := "meta=0"
	if d.Metadata != nil {
		s = fmt.Sprintf("meta=1 mcid=%s mh=%d mt=%d mldh=%s", hx.Hex([]byte(d.Metadata.ChainID)), d.Metadata.Height, d.Metadata.Time, hx.Hex(d.Metadata.LastDataHash))
	}
	txs := make([][]byte, len(d.Txs))
	for i := range d.Txs {
		txs[i] = d.Txs[i]
	}
	return s + " txs=" + hx.HexList(txs)
}

func stateOfOp(o hx.Op) types.State {
	return types.State{
		Version:         types.Version{Block: u(o, "vb"), App: u(o, "va")},
		ChainID:         string(o.Bytes("cid")),
		InitialHeight:   u(o, "ih"),
		LastBlockHeight: u(o, "lbh"),
		LastBlockTime:   time.Unix(int64(u(o, "ts")), int64(u(o, "tn")%1000000000)).UTC(),
		DAHeight:        u(o, "da"),
		LastResultsHash: o.Bytes("lrh"),
		AppHash:         o.Bytes("ah"),
	}
}
func showState(s *types.State) string {
	return fmt.Sprintf("vb=%d va=%d cid=%s ih=%d lbh=%d ts=%d tn=%d da=%d lrh=%s ah=%s",
		s.Version.Block, s.Version.App, hx.Hex([]byte(s.ChainID)), s.InitialHeight, s.LastBlockHeight,
		uint64(s.LastBlockTime.Unix()), s.LastBlockTime.Nanosecond(), s.DAHeight, hx.Hex(s.LastResultsHash), hx.Hex(s.AppHash))
}

// ---------------------------------------------------------------- canonical results

func cls(err error) string {
	if errors.Is(err, hx.ErrInjected) {
		return "err:io" // an injected transient read fault of the datastore (op `fault`)
	}
	if errors.Is(err, ds.ErrNotFound) {
		return "err:notfound"
	}
	return "err:corrupt"
}
func showBlk(h *types.SignedHeader, d *types.Data) string {
	hb, err := h.MarshalBinary()
	if err != nil {
		return "err:remarshal"
	}
	db, err := d.MarshalBinary()
	if err != nil {
		return "err:remarshal"
	}
	return "ok hdr=" + hx.Hex(hb) + " data=" + hx.Hex(db)
}
func showHdr(h *types.SignedHeader) string {
	hb, err := h.MarshalBinary()
	if err != nil {
		return "err:remarshal"
	}
	return "ok hdr=" + hx.Hex(hb)
}

// valTag: the first four bytes of sha256(value): the written VALUES are part of the observation, not only
// the keys (a save that wrote other bytes than the ones read back later is a correspondence diff at the write).
func valTag(v []byte) string {
	d := sha256.Sum256(v)
	return hx.Hex(d[:4])
}
func describeWS(ws hx.WriteSet) string {
	parts := make([]string, len(ws))
	for i, w := range ws {
		if w.Del {
			parts[i] = "del:" + w.Key
		} else {
			parts[i] = "put:" + w.Key + "=" + valTag(w.Val)
		}
	}
	sort.Strings(parts)
	return strings.Join(parts, ",")
}
func describe(wss []hx.WriteSet) string {
	if len(wss) == 0 {
		return "-"
	}
	parts := make([]string, len(wss))
	for i, ws := range wss {
		parts[i] = describeWS(ws)
	}
	return strings.Join(parts, ";")
}

func rdBlock(st storepkg.Store, h uint64) string {
	hd, d, err := st.GetBlockData(ctx, h)
	if err != nil {
		return cls(err)
	}
	return showBlk(hd, d)
}
func rdHeader(st storepkg.Store, h uint64) string {
	hd, err := st.GetHeader(ctx, h)
	if err != nil {
		return cls(err)
	}
	return showHdr(hd)
}
func rdSig(st storepkg.Store, h uint64) string {
	s, err := st.GetSignature(ctx, h)
	if err != nil {
		return cls(err)
	}
	return "ok sig=" + hx.Hex(*s)
}
func rdByHash(st storepkg.Store, x []byte) string {
	hd, d, err := st.GetBlockByHash(ctx, x)
	if err != nil {
		return cls(err)
	}
	return showBlk(hd, d)
}
func rdSigByHash(st storepkg.Store, x []byte) string {
	s, err := st.GetSignatureByHash(ctx, x)
	if err != nil {
		return cls(err)
	}
	return "ok sig=" + hx.Hex(*s)
}
func rdHeight(st storepkg.Store) string {
	h, err := st.Height(ctx)
	if err != nil {
		return cls(err)
	}
	return fmt.Sprintf("ok h=%d", h)
}
func rdState(st storepkg.Store) string {
	s, err := st.GetState(ctx)
	if err != nil {
		return cls(err)
	}
	return "ok " + showState(&s)
}
func rdMeta(st storepkg.Store, k string) string {
	v, err := st.GetMetadata(ctx, k)
	if err != nil {
		return cls(err)
	}
	return "ok v=" + hx.Hex(v)
}

// ---------------------------------------------------------------- reference map (the oracle)

type refBlock struct {
	hdr, data, sig []byte
	hash           string
	seq            int // number of the save that wrote it
	// the signature arguments (hex) of every EARLIER save of this height, whatever the header: a signature read that
	// returns one of these returns a write that is not the latest (never mutated in place: clones share it)
	older []string
}
type refEntry struct {
	height uint64
	seq    int
}

// refState is what the property says, written down without looking at the store's key layout:
// the block of a height is the last one saved at that height; the block of a hash is the last one saved
// UNDER THAT HASH, and there is none any more once its height was saved again with another block.
type refState struct {
	height uint64
	seq    int
	blocks map[uint64]refBlock
	index  map[string]refEntry // hex(header hash) -> the latest save under that hash
	state  string              // canonical state, "" = none
	meta   map[string][]byte
}

func newRef() *refState {
	return &refState{blocks: map[uint64]refBlock{}, index: map[string]refEntry{}, meta: map[string][]byte{}}
}

// byHash: the block last saved under hash x, if it is still the block of its height.
func (r *refState) byHash(x string) (refBlock, bool) {
	e, ok := r.index[x]
	if !ok {
		return refBlock{}, false
	}
	b, ok := r.blocks[e.height]
	if !ok || b.seq != e.seq {
		return refBlock{}, false
	}
	return b, true
}

// overwritten: x was saved, and its height was saved again since with another block.
func (r *refState) overwritten(x string) bool {
	e, ok := r.index[x]
	if !ok {
		return false
	}
	b, ok := r.blocks[e.height]
	return ok && b.seq != e.seq
}
func (r *refState) save(h uint64, hk string, hb, db, sig []byte) {
	r.seq++
	var older []string
	if old, ok := r.blocks[h]; ok {
		older = append(append([]string(nil), old.older...), hx.Hex(old.sig))
	}
	r.blocks[h] = refBlock{hdr: hb, data: db, sig: append([]byte(nil), sig...), hash: hk, seq: r.seq, older: older}
	r.index[hk] = refEntry{height: h, seq: r.seq}
}
func (r *refState) clone() *refState {
	c := newRef()
	c.height, c.state, c.seq = r.height, r.state, r.seq
	for k, v := range r.blocks {
		c.blocks[k] = v
	}
	for k, v := range r.index {
		c.index[k] = v
	}
	for k, v := range r.meta {
		c.meta[k] = v
	}
	return c
}
func (r *refState) expBlock(h uint64) string {
	b, ok := r.blocks[h]
	if !ok {
		return "err:notfound"
	}
	return "ok hdr=" + hx.Hex(b.hdr) + " data=" + hx.Hex(b.data)
}
func (r *refState) expHeader(h uint64) string {
	b, ok := r.blocks[h]
	if !ok {
		return "err:notfound"
	}
	return "ok hdr=" + hx.Hex(b.hdr)
}
func (r *refState) expSig(h uint64) string {
	b, ok := r.blocks[h]
	if !ok {
		return "err:notfound"
	}
	return "ok sig=" + hx.Hex(b.sig)
}
func (r *refState) expByHash(x []byte) string {
	b, ok := r.byHash(hx.Hex(x))
	if !ok {
		return "err:notfound"
	}
	return "ok hdr=" + hx.Hex(b.hdr) + " data=" + hx.Hex(b.data)
}
func (r *refState) expSigByHash(x []byte) string {
	b, ok := r.byHash(hx.Hex(x))
	if !ok {
		return "err:notfound"
	}
	return "ok sig=" + hx.Hex(b.sig)
}
func (r *refState) expHeight() string { return fmt.Sprintf("ok h=%d", r.height) }
func (r *refState) expState() string {
	if r.state == "" {
		return "err:notfound"
	}
	return "ok " + r.state
}
func (r *refState) expMeta(k string) string {
	v, ok := r.meta[k]
	if !ok {
		return "err:notfound"
	}
	return "ok v=" + hx.Hex(v)
}

type mismatch struct {
	kind string // block header signature hash sighash height state meta
	id   string
	got  string
	want string
}

func short(s string) string {
	if len(s) > 90 {
		return s[:90] + "…"
	}
	return s
}
func (m mismatch) String() string {
	return fmt.Sprintf("%s %s: store returns %s, reference map says %s", m.kind, m.id, short(m.got), short(m.want))
}

// universe: everything the scenario ever mentioned (plus a few never-written ids)
type universe struct {
	heights map[uint64]bool
	hashes  map[string][]byte
	metas   map[string]bool
}

func newUniverse() *universe {
	u := &universe{heights: map[uint64]bool{}, hashes: map[string][]byte{}, metas: map[string]bool{}}
	u.heights[0], u.heights[1], u.heights[77] = true, true, true
	u.hashes["-"] = nil
	u.metas["never-written"] = true
	return u
}

// audit compares every read of the store with the reference map.
func audit(st storepkg.Store, ref *refState, un *universe) []mismatch {
	var out []mismatch
	chk := func(kind, id, got, want string) {
		if got != want {
			out = append(out, mismatch{kind, id, got, want})
		}
	}
	hs := make([]uint64, 0, len(un.heights))
	for h := range un.heights {
		hs = append(hs, h)
	}
	sort.Slice(hs, func(i, j int) bool { return hs[i] < hs[j] })
	for _, h := range hs {
		id := fmt.Sprint(h)
		chk("block", id, rdBlock(st, h), ref.expBlock(h))
		chk("header", id, rdHeader(st, h), ref.expHeader(h))
		chk("signature", id, rdSig(st, h), ref.expSig(h))
	}
	for _, k := range hx.SortedKeys(un.hashes) {
		x := un.hashes[k]
		chk("hash", k, rdByHash(st, x), ref.expByHash(x))
		chk("sighash", k, rdSigByHash(st, x), ref.expSigByHash(x))
	}
	chk("height", "", rdHeight(st), ref.expHeight())
	chk("state", "", rdState(st), ref.expState())
	for _, k := range hx.SortedKeys(un.metas) {
		chk("meta", k, rdMeta(st, k), ref.expMeta(k))
	}
	return out
}

// ---------------------------------------------------------------- the world of one scenario

type snap struct {
	writes int
	ref    *refState
	op     string
	stale  map[string]bool // faultStale at that boundary
}

func copySet(m map[string]bool) map[string]bool {
	out := make(map[string]bool, len(m))
	for k, v := range m {
		if v {
			out[k] = true
		}
	}
	return out
}

type world struct {
	kind  string // log | badger
	mon   bool
	lds   *hx.LogDS
	rec   *recDS
	dir   string
	be    backend
	st    storepkg.Store
	ref   *refState
	un    *universe
	snaps []snap
	// reads that already disagree with the reference (reported once); the monitor stays armed for every
	// other read, and for these as soon as they agree again
	diverged map[string]bool
	// read faults armed by the last `fault` op for the NEXT store call only (log backend): the first pendSkip
	// datastore reads of that call succeed, the following pendGet reads fail with hx.ErrInjected
	pendGet, pendSkip int
	// hashes whose index entry a block save that met a read fault left behind (the defect repaired by /repo 3ba0234:
	// C14/read/by-hash-returns-other-block-after-height-overwrite/after-read-fault)
	faultStale map[string]bool
}

// fresh returns the mismatches that were not there at the previous look and remembers the current set.
func (w *world) fresh(ms []mismatch) []mismatch {
	cur := map[string]bool{}
	var out []mismatch
	for _, m := range ms {
		k := m.kind + "|" + m.id
		cur[k] = true
		if !w.diverged[k] {
			out = append(out, m)
		}
	}
	w.diverged = cur
	return out
}

// novel: the mismatches that are not already known (does not change what is remembered).
func (w *world) novel(ms []mismatch) []mismatch {
	var out []mismatch
	for _, m := range ms {
		if !w.diverged[m.kind+"|"+m.id] {
			out = append(out, m)
		}
	}
	return out
}

// cause names the known ways a read can be wrong more precisely than "<kind> differs".
func (w *world) cause(m mismatch) string { return w.causeIn(w.ref, m) }

// causeIn: causeOf, made more specific when the stale hash index entry was left behind by a block save whose
// look-up of the replaced header met an injected read fault.
func (w *world) causeIn(ref *refState, m mismatch) string {
	sig := causeOf(ref, m)
	if sig == sigStaleIndex && w.faultStale[m.id] {
		sig += "/after-read-fault"
	}
	return sig
}

const (
	sigStaleIndex   = "C14/read/by-hash-returns-other-block-after-height-overwrite"
	sigNotLatestSig = "C14/read/signature-not-the-latest-write"
)

func causeOf(ref *refState, m mismatch) string {
	if (m.kind == "hash" || m.kind == "sighash") && strings.HasPrefix(m.got, "ok ") && m.want == "err:notfound" && ref.overwritten(m.id) {
		return sigStaleIndex
	}
	// a signature read (by height / by header hash) that answers with the signature argument of an EARLIER save of
	// that height instead of the last one: the signature is a record of its own, not a function of header and data
	if (m.kind == "signature" || m.kind == "sighash") && strings.HasPrefix(m.got, "ok sig=") && strings.HasPrefix(m.want, "ok sig=") {
		var b refBlock
		ok := false
		if m.kind == "signature" {
			if h, err := strconv.ParseUint(m.id, 10, 64); err == nil {
				b, ok = ref.blocks[h]
			}
		} else {
			b, ok = ref.byHash(m.id)
		}
		if ok {
			got := strings.TrimPrefix(m.got, "ok sig=")
			for _, o := range b.older {
				if o == got {
					return sigNotLatestSig
				}
			}
		}
	}
	return ""
}

func (w *world) close() {
	if w == nil {
		return
	}
	if w.kind == "badger" {
		if w.st != nil {
			_ = w.st.Close()
		}
		if w.dir != "" {
			_ = os.RemoveAll(w.dir)
		}
	}
}

func newWorld(kind string, mon bool) (*world, error) {
	w := &world{kind: kind, mon: mon, ref: newRef(), un: newUniverse()}
	switch kind {
	case "log":
		w.lds = hx.NewLogDS(nil)
		w.be = logBackend{w.lds}
	case "badger":
		dir, err := workDir()
		if err != nil {
			return nil, err
		}
		w.dir = dir
		db, err := openBadger(dir)
		if err != nil {
			_ = os.RemoveAll(dir)
			return nil, err
		}
		w.rec = &recDS{Batching: db}
		w.be = w.rec
	default:
		return nil, fmt.Errorf("unknown backend")
	}
	w.st = storepkg.New(w.be)
	w.snaps = []snap{{writes: 0, ref: w.ref.clone(), op: "reset"}}
	return w, nil
}

func (w *world) postAudit(c *hx.Ctx, op string, touched func(kind, id string) bool) {
	if !w.mon {
		return
	}
	for _, m := range w.fresh(audit(w.st, w.ref, w.un)) {
		if sig := w.cause(m); sig != "" {
			c.Report(sig, "after "+op+": "+m.String())
		} else if touched != nil && touched(m.kind, m.id) {
			c.Report("C14/read/"+m.kind+"-after-"+op, "after "+op+": "+m.String())
		} else {
			c.Report("C14/kinds/"+op+"-changes-"+m.kind, "after "+op+" a record it must not touch changed: "+m.String())
		}
	}
}

func (w *world) snapshot(op string) {
	w.snaps = append(w.snaps, snap{writes: w.be.NumWrites(), ref: w.ref.clone(), op: op, stale: copySet(w.faultStale)})
}

// checkRead: an explicit read op must agree with the reference map (akind = the audit's name of the read).
func (w *world) checkRead(c *hx.Ctx, kind, akind, id, got, want string) {
	if !w.mon {
		return
	}
	k := akind + "|" + id
	if got == want {
		delete(w.diverged, k)
		return
	}
	if w.diverged[k] {
		return // reported when it first went wrong
	}
	if w.diverged == nil {
		w.diverged = map[string]bool{}
	}
	w.diverged[k] = true
	m := mismatch{akind, id, got, want}
	if sig := w.cause(m); sig != "" {
		c.Report(sig, m.String())
		return
	}
	c.Report("C14/read/"+kind, mismatch{kind, id, got, want}.String())
}

func guard(c *hx.Ctx, what string, f func() string) (out string) {
	defer func() {
		if r := recover(); r != nil {
			c.Report("C14/panic/"+what, fmt.Sprint(r))
			out = "panic"
		}
	}()
	return f()
}

func parseHash(o hx.Op, k string) ([]byte, bool) {
	if !o.Has(k) {
		return nil, false
	}
	b, err := hx.UnHex(o.Str(k))
	return b, err == nil
}
func parseKey(o hx.Op) (string, bool) {
	b, ok := parseHash(o, "k")
	if !ok || !utf8.Valid(b) {
		return "", false
	}
	return string(b), true
}

func runC14(c *hx.Ctx) {
	var w *world
	defer func() { w.close() }()
	if c.St.Findings == nil {
		c.St.Findings = []hx.Finding{} // "findings": [] rather than null in the stats file
	}
	for {
		op, ok := c.Next()
		if !ok {
			break
		}
		if op.Verb == "reset" {
			w.close()
			w = nil
			kind := op.Str("backend")
			if kind == "" {
				kind = "log"
			}
			nw, err := newWorld(kind, op.Str("mon") != "0")
			if err != nil {
				c.Emit("bad-op")
				continue
			}
			w = nw
			c.Hit("scenario-" + kind)
			c.Emit("ok")
			continue
		}
		if w == nil {
			c.Emit("bad-op")
			continue
		}
		ww := w
		c.Emit("%s", guard(c, op.Verb, func() string { return ww.do(c, op) }))
	}
}

func (w *world) do(c *hx.Ctx, op hx.Op) string {
	if op.Verb == "fault" {
		// fault get=<n> [skip=<k>]: of the datastore reads made by the NEXT store call, the first k succeed and the
		// following n fail with a transient error; whatever is left of the budget is dropped after that call
		n, ok := op.U64("get")
		if !ok || w.kind != "log" {
			return "bad-op"
		}
		k, _ := op.U64("skip")
		w.pendGet, w.pendSkip = int(min(n, 1<<20)), int(min(k, 1<<20))
		c.Hit("fault-armed")
		return "ok"
	}
	fg, fs := w.pendGet, w.pendSkip
	w.pendGet, w.pendSkip = 0, 0
	// arm right before the store call under test; disarm right after it (the monitor's own reads are fault-free)
	// and say whether a fault fired
	arm := func() {
		if w.kind == "log" {
			w.lds.FailGet, w.lds.FailGetSkip = fg, fs
		}
	}
	disarm := func() bool {
		if w.kind != "log" {
			return false
		}
		hit := fg > 0 && w.lds.FailGet < fg
		w.lds.FailGet, w.lds.FailGetSkip = 0, 0
		if hit {
			c.Hit("read-fault-" + op.Verb)
		}
		return hit
	}
	switch op.Verb {
	case "save":
		sh := types.SignedHeader{Header: headerOfOp(op), Signature: op.Bytes("hsig"), Signer: signerOfOp(op)}
		d := dataOfOp(op)
		sig := types.Signature(op.Bytes("sig"))
		if sig == nil {
			sig = types.Signature{}
		}
		h := sh.Height()
		hash := []byte(sh.Hash())
		before := w.be.NumWrites()
		refBefore := w.ref.clone()
		arm()
		err := w.st.SaveBlockData(ctx, &sh, &d, &sig)
		hit := disarm()
		if err != nil {
			c.Hit("save-err")
			// a failed save must leave nothing behind
			w.postAudit(c, "save-failed", func(kind, id string) bool { return kind != "height" && kind != "state" && kind != "meta" })
			return cls(err)
		}
		after := w.be.NumWrites()
		wss := w.be.WritesSince(before)
		hb, _ := sh.MarshalBinary()
		db, _ := d.MarshalBinary()
		hk := hx.Hex(hash)
		oldHash := ""
		if old, ok := w.ref.blocks[h]; ok {
			oldHash = old.hash
			if old.hash != hk {
				c.Hit("save-overwrite-different")
			} else {
				c.Hit("save-overwrite-same")
			}
		} else {
			c.Hit("save-new")
		}
		w.ref.save(h, hk, hb, db, sig)
		w.un.heights[h] = true
		w.un.hashes[hk] = hash
		delete(w.faultStale, hk)
		if hit && oldHash != "" && oldHash != hk {
			// the look-up of the replaced header met a read fault: if its index entry is left behind, say so
			if w.faultStale == nil {
				w.faultStale = map[string]bool{}
			}
			w.faultStale[oldHash] = true
		}
		// all-or-nothing under every crash prefix of this op's writes (independent of the model)
		if w.mon && w.kind == "log" {
			for n := before + 1; n < after; n++ {
				tmp := storepkg.New(hx.NewLogDS(w.lds.ImageAt(n)))
				if a, b := w.novel(audit(tmp, refBefore, w.un)), w.novel(audit(tmp, w.ref, w.un)); len(a) > 0 && len(b) > 0 {
					c.Report("C14/atomic/save-torn", fmt.Sprintf("a crash after %d of the %d atomic writes of one block save leaves neither the old nor the new store: vs old: %s; vs new: %s", n-before, after-before, a[0], b[0]))
				}
			}
		}
		w.postAudit(c, "save", func(kind, id string) bool {
			switch kind {
			case "block", "header", "signature":
				return id == fmt.Sprint(h)
			case "hash", "sighash":
				return id == hk || id == oldHash
			}
			return false
		})
		if hit && oldHash != "" && !w.diverged["hash|"+oldHash] && !w.diverged["sighash|"+oldHash] {
			delete(w.faultStale, oldHash) // nothing was left behind
		}
		w.snapshot("save")
		return "ok hash=" + hk + " ws=" + describe(wss)
	case "get", "geth", "sig":
		at, ok := op.U64("at")
		if !ok {
			return "bad-op"
		}
		w.un.heights[at] = true
		var got, want, kind string
		arm()
		switch op.Verb {
		case "get":
			got, want, kind = rdBlock(w.st, at), w.ref.expBlock(at), "block-by-height"
		case "geth":
			got, want, kind = rdHeader(w.st, at), w.ref.expHeader(at), "header-by-height"
		default:
			got, want, kind = rdSig(w.st, at), w.ref.expSig(at), "signature-by-height"
		}
		c.Hit(op.Verb + "-" + strings.SplitN(got, " ", 2)[0])
		if disarm() && got == "err:io" {
			return got // the read failed because of the injected fault: outside the property's quantifier
		}
		w.checkRead(c, kind, map[string]string{"get": "block", "geth": "header", "sig": "signature"}[op.Verb], fmt.Sprint(at), got, want)
		return got
	case "getbyhash", "sigbyhash":
		x, ok := parseHash(op, "x")
		if !ok {
			return "bad-op"
		}
		w.un.hashes[hx.Hex(x)] = x
		var got, want, kind string
		arm()
		if op.Verb == "getbyhash" {
			got = rdByHash(w.st, x)
		} else {
			got = rdSigByHash(w.st, x)
		}
		if disarm() && got == "err:io" {
			c.Hit(op.Verb + "-err:io")
			return got
		}
		if op.Verb == "getbyhash" {
			want, kind = w.ref.expByHash(x), "block-by-hash"
			// always armed, and independent of the reference map: a block found under hash x has hash x
			if w.mon && strings.HasPrefix(got, "ok ") {
				if hd, _, err := w.st.GetBlockByHash(ctx, x); err == nil && !bytes.Equal(hd.Hash(), x) {
					sig := "C14/read/block-by-hash-has-other-hash"
					if w.ref.overwritten(hx.Hex(x)) {
						sig = "C14/read/by-hash-returns-other-block-after-height-overwrite"
						if w.faultStale[hx.Hex(x)] {
							sig += "/after-read-fault"
						}
					}
					c.Report(sig, fmt.Sprintf("GetBlockByHash(%s) returned the block of height %d whose header hash is %s", hx.Hex(x), hd.Height(), hx.Hex(hd.Hash())))
				}
			}
		} else {
			want, kind = w.ref.expSigByHash(x), "signature-by-hash"
		}
		c.Hit(op.Verb + "-" + strings.SplitN(got, " ", 2)[0])
		w.checkRead(c, kind, map[string]string{"getbyhash": "hash", "sigbyhash": "sighash"}[op.Verb], hx.Hex(x), got, want)
		return got
	case "height":
		arm()
		got := rdHeight(w.st)
		if disarm() && got == "err:io" {
			return got
		}
		w.checkRead(c, "height", "height", "", got, w.ref.expHeight())
		return got
	case "setheight":
		to, ok := op.U64("to")
		if !ok {
			return "bad-op"
		}
		before := w.be.NumWrites()
		old := w.ref.height
		arm()
		err := w.st.SetHeight(ctx, to)
		hit := disarm()
		// judged on the state AFTER the call, with a fault-free read, whether the call failed or not: the recorded
		// height only grows (a call that fails because of a transient read error must not have lowered it either)
		if w.mon {
			// (a height read that already disagrees with the reference was reported when it went wrong: this call is
			// not blamed for it)
			if h, e := w.st.Height(ctx); e == nil && h < old && !w.diverged["height|"] {
				sig, how := "C14/height/decreased", ""
				if hit {
					sig, how = sig+"/after-read-fault", fmt.Sprintf(" (its read of the height record met a transient datastore error; the call answered %v)", err)
				}
				c.Report(sig, fmt.Sprintf("SetHeight(%d) lowered the recorded height from %d to %d%s", to, old, h, how))
			}
		}
		if err != nil {
			c.Hit("setheight-err")
			// a failed SetHeight must leave nothing behind
			w.postAudit(c, "setheight-failed", func(kind, id string) bool { return kind == "height" })
			return cls(err)
		}
		wss := w.be.WritesSince(before)
		if to > w.ref.height {
			w.ref.height = to
			c.Hit("setheight-up")
		} else {
			c.Hit("setheight-not-up")
		}
		w.postAudit(c, "setheight", func(kind, id string) bool { return kind == "height" })
		w.snapshot("setheight")
		return "ok ws=" + describe(wss)
	case "state":
		s := stateOfOp(op)
		before := w.be.NumWrites()
		arm()
		err := w.st.UpdateState(ctx, s)
		disarm()
		if err != nil {
			return cls(err)
		}
		wss := w.be.WritesSince(before)
		w.ref.state = showState(&s)
		c.Hit("state")
		w.postAudit(c, "state", func(kind, id string) bool { return kind == "state" })
		w.snapshot("state")
		return "ok ws=" + describe(wss)
	case "getstate":
		arm()
		got := rdState(w.st)
		if disarm() && got == "err:io" {
			return got
		}
		c.Hit("getstate-" + strings.SplitN(got, " ", 2)[0])
		w.checkRead(c, "state", "state", "", got, w.ref.expState())
		return got
	case "setmeta":
		k, ok := parseKey(op)
		if !ok {
			return "bad-op"
		}
		v := op.Bytes("v")
		before := w.be.NumWrites()
		arm()
		err := w.st.SetMetadata(ctx, k, v)
		disarm()
		if err != nil {
			return cls(err)
		}
		wss := w.be.WritesSince(before)
		w.ref.meta[k] = append([]byte(nil), v...)
		w.un.metas[k] = true
		c.Hit("setmeta")
		w.postAudit(c, "setmeta", func(kind, id string) bool { return kind == "meta" && id == k })
		w.snapshot("setmeta")
		return "ok ws=" + describe(wss)
	case "getmeta":
		k, ok := parseKey(op)
		if !ok {
			return "bad-op"
		}
		w.un.metas[k] = true
		arm()
		got := rdMeta(w.st, k)
		if disarm() && got == "err:io" {
			return got
		}
		c.Hit("getmeta-" + strings.SplitN(got, " ", 2)[0])
		w.checkRead(c, "meta", "meta", k, got, w.ref.expMeta(k))
		return got
	case "crash":
		back, ok := op.U64("back")
		if !ok {
			return "bad-op"
		}
		n := w.be.NumWrites()
		if w.kind != "log" {
			// no crash points inside badger: the same as close + reopen
			w.reopen(c, "crash")
			return fmt.Sprintf("ok n=%d", n)
		}
		keep := 0
		if uint64(n) > back {
			keep = n - int(back)
		}
		img := w.lds.ImageAt(keep)
		w.lds = hx.NewLogDS(img)
		w.be = logBackend{w.lds}
		w.st = storepkg.New(w.be)
		// the reference state at that write boundary
		lo := 0
		for i, s := range w.snaps {
			if s.writes <= keep {
				lo = i
			}
		}
		chosen := w.snaps[lo].ref
		exact := w.snaps[lo].writes == keep
		// index entries left behind by a faulted save up to that boundary are back as they were then
		w.faultStale = copySet(w.snaps[lo].stale)
		for k := range w.snaps[min(lo+1, len(w.snaps)-1)].stale {
			if !exact {
				w.faultStale[k] = true
			}
		}
		c.Hit(fmt.Sprintf("crash-back-%d", min(int(back), 4)))
		if w.mon {
			if exact {
				for _, m := range w.fresh(audit(w.st, chosen, w.un)) {
					if sig := w.causeIn(chosen, m); sig != "" {
						c.Report(sig, fmt.Sprintf("after a crash that kept %d of %d atomic writes (an operation boundary): %s", keep, n, m))
						continue
					}
					c.Report("C14/crash/"+m.kind+"-differs-at-op-boundary", fmt.Sprintf("after a crash that kept %d of %d atomic writes (an operation boundary): %s", keep, n, m))
				}
			} else {
				// inside an operation that issued several atomic writes: all or nothing
				hi := w.snaps[min(lo+1, len(w.snaps)-1)]
				a, b := w.novel(audit(w.st, chosen, w.un)), w.novel(audit(w.st, hi.ref, w.un))
				if len(a) > 0 && len(b) > 0 {
					c.Report("C14/atomic/"+hi.op+"-torn", fmt.Sprintf("a crash that kept %d of %d atomic writes cut a %s in the middle: vs before: %s; vs after: %s", keep, n, hi.op, a[0], b[0]))
				} else if len(a) > 0 {
					chosen = hi.ref
				}
			}
		}
		if w.mon {
			w.fresh(audit(w.st, chosen, w.un)) // what is wrong now was reported above: do not blame later operations
		}
		w.ref = chosen.clone()
		w.snaps = []snap{{writes: 0, ref: w.ref.clone(), op: "crash", stale: copySet(w.faultStale)}}
		return fmt.Sprintf("ok n=%d", keep)
	case "reopen":
		w.reopen(c, "reopen")
		return "ok"
	case "bigsave":
		// exploration on REAL badger (own scratch database, the scenario's store is not touched): is a block save
		// whose values approach / exceed badger's value threshold still ONE badger transaction?
		hn, ok1 := op.U64("hdr")
		dn, ok2 := op.U64("data")
		sn, ok3 := op.U64("sig")
		if !ok1 || !ok2 || !ok3 {
			return "bad-op"
		}
		if hn > 1<<25 || dn > 1<<25 || sn > 1<<25 {
			return "ok" // sizes the generator never asks for
		}
		bigSave(c, int(hn), int(dn), int(sn))
		return "ok"
	}
	return "bad-op"
}

func (w *world) reopen(c *hx.Ctx, why string) {
	c.Hit(why + "-" + w.kind)
	if w.kind == "badger" {
		if err := w.st.Close(); err != nil {
			c.Report("C14/durable/close-error", err.Error())
		}
		db, err := openBadger(w.dir)
		if err != nil {
			c.Report("C14/durable/reopen-error", err.Error())
			panic(err)
		}
		w.rec.Batching = db
	}
	w.st = storepkg.New(w.be)
	if w.mon {
		for _, m := range w.fresh(audit(w.st, w.ref, w.un)) {
			if sig := w.cause(m); sig != "" {
				c.Report(sig, "after close and reopen: "+m.String())
				continue
			}
			c.Report("C14/durable/"+m.kind+"-lost-on-reopen", "after close and reopen: "+m.String())
		}
	}
}

// ---------------------------------------------------------------- generator

func detPub(seed byte) crypto.PubKey {
	sd := bytes.Repeat([]byte{seed}, ed25519.SeedSize)
	_, pub, err := crypto.GenerateEd25519Key(bytes.NewReader(sd))
	if err != nil {
		panic(err)
	}
	return pub
}

func rbytes(r *hx.Rng, choices ...int) []byte { return r.Bytes(choices[r.Intn(len(choices))]) }
func ru64(r *hx.Rng) uint64 {
	switch r.Intn(6) {
	case 0:
		return 0
	case 1:
		return math.MaxUint64
	case 2, 3:
		return uint64(r.Intn(300))
	case 4:
		return 1 << uint(r.Intn(64))
	default:
		return r.U64()
	}
}
func rchain(r *hx.Rng) string {
	switch r.Intn(5) {
	case 0:
		return ""
	case 1:
		return "chain-é-世界"
	default:
		return fmt.Sprintf("chain-%d", r.Intn(1000))
	}
}

type gblock struct {
	sh   types.SignedHeader
	d    types.Data
	sig  []byte
	line string
	pre  string // line without the signature argument: pre + " sig=<hex>" saves the same header and data
	hash []byte
}

func rblock(r *hx.Rng, height uint64) gblock {
	h := types.Header{
		Version:         types.Version{Block: ru64(r), App: uint64(r.Intn(3))},
		BaseHeader:      types.BaseHeader{Height: height, Time: ru64(r), ChainID: rchain(r)},
		LastHeaderHash:  rbytes(r, 0, 32, 32, 1),
		LastCommitHash:  rbytes(r, 0, 0, 32),
		DataHash:        rbytes(r, 0, 32, 32),
		ConsensusHash:   rbytes(r, 0, 32),
		AppHash:         rbytes(r, 0, 32, 12),
		LastResultsHash: rbytes(r, 0, 0, 32),
		ProposerAddress: rbytes(r, 0, 32, 20),
		ValidatorHash:   rbytes(r, 0, 32),
	}
	sh := types.SignedHeader{Header: h, Signature: rbytes(r, 0, 64, 64)}
	pk := "-"
	switch r.Intn(4) {
	case 0: // no signer at all
	case 1: // address without key (how a full node stores its genesis header)
		sh.Signer.Address = r.Bytes(32)
	default:
		pub := detPub(byte(1 + r.Intn(5)))
		sh.Signer = types.Signer{PubKey: pub, Address: types.KeyAddress(pub)}
		b, _ := crypto.MarshalPublicKey(pub)
		pk = hx.Hex(b)
	}
	d := types.Data{}
	if r.Chance(60) {
		d.Metadata = &types.Metadata{ChainID: h.ChainID(), Height: height, Time: ru64(r), LastDataHash: rbytes(r, 0, 32)}
	}
	for i, n := 0, r.Intn(4); i < n; i++ {
		d.Txs = append(d.Txs, types.Tx(rbytes(r, 0, 1, 3, 40, 130)))
	}
	sig := rbytes(r, 0, 64, 64, 64, 5)
	pre := fmt.Sprintf("save %s hsig=%s sa=%s pk=%s %s", showHeaderArgs(&sh.Header), hx.Hex(sh.Signature), hx.Hex(sh.Signer.Address), pk, showDataArgs(&d))
	return gblock{sh: sh, d: d, sig: sig, line: pre + " sig=" + hx.Hex(sig), pre: pre, hash: sh.Hash()}
}

func rstateLine(r *hx.Rng) string {
	ts := uint64(1700000000 + r.Intn(100000))
	tn := uint64(r.Intn(1000000000))
	switch r.Intn(6) {
	case 0: // time.Time{}
		var z time.Time
		ts, tn = uint64(z.Unix()), 0
	case 1:
		ts, tn = 0, 0
	case 2:
		tn = 0
	}
	return fmt.Sprintf("state vb=%d va=%d cid=%s ih=%d lbh=%d ts=%d tn=%d da=%d lrh=%s ah=%s",
		ru64(r), uint64(r.Intn(3)), hx.Hex([]byte(rchain(r))), ru64(r), ru64(r), ts, tn, ru64(r), hx.Hex(rbytes(r, 0, 32)), hx.Hex(rbytes(r, 0, 32, 8)))
}

// metadata keys that look like the other kinds' keys but are left alone by path.Clean
var trickyMetaKeys = []string{"h", "h/1", "d/1", "c/1", "t", "s", "i", "m", "m/d", "i/00", "h/01", "rhb", "..."}

// metadata keys that path.Clean rewrites (outside the property's quantifier; correspondence only)
var uncleanMetaKeys = []string{"", ".", "..", "../h/1", "../d/1", "../c/1", "../t", "../s", "a//b", "a/./b", "a/../b", "a/", "/a", "../../x", "../m/d", "x/..", "../i", "./d"}

var heightSets = [][]uint64{
	{0, 1, 2, 3}, {1, 2, 3, 4, 5}, {1, 2}, {7, 8, 9, 10, 11}, {9, 10, 99, 100}, {1, 255, 256, 65536},
	{1 << 32, 1<<32 + 1, 1 << 63, math.MaxUint64}, {1, 10, 11, 100, 101},
}

func genScenario(r *hx.Rng, w io.Writer, backend string, nops int, unclean bool, faults ...bool) {
	withFaults := len(faults) > 0 && faults[0] && backend == "log"
	mon := "1"
	if unclean {
		mon = "0"
	}
	fmt.Fprintf(w, "reset backend=%s mon=%s\n", backend, mon)
	hs := heightSets[r.Intn(len(heightSets))]
	// pool: several blocks per height so that heights are overwritten with the same and with other headers
	var pool []gblock
	for i, n := 0, 3+r.Intn(5); i < n; i++ {
		pool = append(pool, rblock(r, hs[r.Intn(len(hs))]))
	}
	rheight := func() uint64 {
		switch r.Intn(8) {
		case 0:
			return uint64(r.Intn(12))
		case 1:
			return ru64(r)
		default:
			return hs[r.Intn(len(hs))]
		}
	}
	rhash := func() []byte {
		switch r.Intn(10) {
		case 0:
			return nil
		case 1:
			return r.Bytes(32)
		case 2:
			return r.Bytes(1 + r.Intn(3))
		default:
			return pool[r.Intn(len(pool))].hash
		}
	}
	metas := append([]string(nil), NodeMetaKeys(hs[0], hs[len(hs)-1])...)
	metas = append(metas, trickyMetaKeys[r.Intn(len(trickyMetaKeys))], trickyMetaKeys[r.Intn(len(trickyMetaKeys))])
	if unclean {
		metas = append(metas, uncleanMetaKeys...)
		metas = append(metas, uncleanMetaKeys...)
	}
	rmeta := func() string { return metas[r.Intn(len(metas))] }
	states := []string{rstateLine(r), rstateLine(r)}
	for i := 0; i < nops; i++ {
		if withFaults && r.Chance(18) {
			// a transient read fault of the datastore meets the next store call: the first read (mostly), a later
			// read, or several; every second one is aimed at SetHeight (above, equal to and below what is recorded)
			fmt.Fprintf(w, "fault get=%d skip=%d\n", []int{1, 1, 1, 2, 3, 0}[r.Intn(6)], []int{0, 0, 0, 1, 1, 2}[r.Intn(6)])
			if r.Chance(50) {
				fmt.Fprintf(w, "setheight to=%d\n", rheight())
				continue
			}
		}
		x := r.Intn(100)
		switch {
		case x < 22:
			fmt.Fprintln(w, pool[r.Intn(len(pool))].line)
		case x < 33:
			fmt.Fprintf(w, "get at=%d\n", rheight())
		case x < 36:
			fmt.Fprintf(w, "geth at=%d\n", rheight())
		case x < 41:
			fmt.Fprintf(w, "sig at=%d\n", rheight())
		case x < 52:
			fmt.Fprintf(w, "getbyhash x=%s\n", hx.Hex(rhash()))
		case x < 56:
			fmt.Fprintf(w, "sigbyhash x=%s\n", hx.Hex(rhash()))
		case x < 60:
			fmt.Fprintln(w, "height")
		case x < 68:
			fmt.Fprintf(w, "setheight to=%d\n", rheight())
		case x < 72:
			fmt.Fprintln(w, states[r.Intn(len(states))])
		case x < 76:
			fmt.Fprintln(w, "getstate")
		case x < 84:
			v := rbytes(r, 0, 8, 8, 1, 20)
			if unclean && r.Chance(50) {
				v = [][]byte{{0xff}, {0x07}, {1, 2, 3}}[r.Intn(3)]
			}
			fmt.Fprintf(w, "setmeta k=%s v=%s\n", hx.Hex([]byte(rmeta())), hx.Hex(v))
		case x < 92:
			fmt.Fprintf(w, "getmeta k=%s\n", hx.Hex([]byte(rmeta())))
		case x < 97:
			if backend == "log" {
				fmt.Fprintf(w, "crash back=%d\n", r.Intn(4))
			} else {
				fmt.Fprintln(w, "height")
			}
		default:
			if backend == "log" || r.Chance(40) {
				fmt.Fprintln(w, "reopen")
			} else {
				fmt.Fprintln(w, "getstate")
			}
		}
	}
	// close every scenario with a crash at the last write boundary and a reopen, then read everything back
	if backend == "log" {
		fmt.Fprintf(w, "crash back=%d\n", r.Intn(2))
	}
	fmt.Fprintln(w, "reopen")
	for _, h := range hs {
		fmt.Fprintf(w, "get at=%d\n", h)
	}
	for _, b := range pool {
		fmt.Fprintf(w, "getbyhash x=%s\n", hx.Hex(b.hash))
	}
	fmt.Fprintln(w, "height")
	fmt.Fprintln(w, "getstate")
}

// genBadgerSmoke: save two heights (one of them twice, under another header), height, state, a node metadata key,
// reopen the real badger directory, read everything back.
func genBadgerSmoke(r *hx.Rng, w io.Writer) {
	fmt.Fprintln(w, "reset backend=badger mon=1")
	b1, b1x, b2 := rblock(r, 1), rblock(r, 1), rblock(r, 2)
	for _, l := range []string{b1.line, b2.line, b1x.line, "setheight to=2", rstateLine(r)} {
		fmt.Fprintln(w, l)
	}
	fmt.Fprintf(w, "setmeta k=%s v=%s\n", hx.Hex([]byte("d")), hx.Hex([]byte{2, 0, 0, 0, 0, 0, 0, 0}))
	fmt.Fprintf(w, "setmeta k=%s v=%s\n", hx.Hex([]byte("rhb/2/h")), hx.Hex(r.Bytes(8)))
	fmt.Fprintln(w, "reopen")
	for _, l := range []string{"get at=1", "get at=2", "geth at=2", "sig at=1", "get at=3", "height", "getstate"} {
		fmt.Fprintln(w, l)
	}
	for _, b := range []gblock{b1, b1x, b2} {
		fmt.Fprintf(w, "getbyhash x=%s\n", hx.Hex(b.hash))
		fmt.Fprintf(w, "sigbyhash x=%s\n", hx.Hex(b.hash))
	}
	fmt.Fprintf(w, "getmeta k=%s\n", hx.Hex([]byte("d")))
	fmt.Fprintf(w, "getmeta k=%s\n", hx.Hex([]byte("rhb/2/h")))
}

// genReadFaults: the deliberate read-fault scenarios (every run): SetHeight below / equal to / above the recorded
// height with its read of the height record faulted; a height saved again under another header while the look-up
// of the replaced header (first read) or of its index entry (second read) is faulted - the input of the repaired
// defect C14/read/by-hash-returns-other-block-after-height-overwrite/after-read-fault (/repo 3ba0234); faulted getters.
func genReadFaults(r *hx.Rng, w io.Writer) {
	fmt.Fprintln(w, "reset backend=log mon=1")
	for _, l := range []string{"fault get=1", "setheight to=10", "height", "setheight to=10", "fault get=1", "setheight to=3", "height",
		"fault get=1", "setheight to=10", "height", "fault get=1", "setheight to=12", "height", "fault get=1 skip=1", "setheight to=12",
		"fault get=1", "height", "height", "fault", "fault get=zz", "fault get=0", "setheight to=13", "crash back=0", "reopen", "height"} {
		fmt.Fprintln(w, l)
	}
	for _, f := range []string{"fault get=1", "fault get=1 skip=1", "fault get=2 skip=0"} {
		fmt.Fprintln(w, "reset backend=log mon=1")
		a, b, a2 := rblock(r, 5), rblock(r, 5), rblock(r, 6)
		for _, l := range []string{a.line, a2.line, f, b.line, "getbyhash x=" + hx.Hex(a.hash), "sigbyhash x=" + hx.Hex(a.hash),
			"getbyhash x=" + hx.Hex(b.hash), "get at=5", f, "get at=5", f, "getbyhash x=" + hx.Hex(b.hash), f, "sigbyhash x=" + hx.Hex(b.hash),
			f, "geth at=5", f, "sig at=5", rstateLine(r), f, "getstate", f, rstateLine(r), "getstate",
			"setmeta k=64 v=0102", f, "getmeta k=64", f, "setmeta k=64 v=03", "getmeta k=64",
			"fault get=3 skip=2", "getbyhash x=" + hx.Hex(a2.hash), "fault get=1", a.line, "getbyhash x=" + hx.Hex(a.hash), "getbyhash x=" + hx.Hex(b.hash),
			"crash back=0", "reopen", "getbyhash x=" + hx.Hex(a.hash), "getbyhash x=" + hx.Hex(b.hash)} {
			fmt.Fprintln(w, l)
		}
	}
	fmt.Fprintln(w, "reset backend=badger mon=1")
	fmt.Fprintln(w, "fault get=1") // no fault injection on real badger: bad-op on both sides
	fmt.Fprintln(w, "height")
}

func genC14(r *hx.Rng, tier string, w io.Writer) {
	nlog, nunclean, nbadger, nops, nfault := 250, 30, 0, 45, 70
	if tier == "thorough" {
		nlog, nunclean, nbadger, nops, nfault = 900, 80, 16, 60, 250
	}
	// malformed / out-of-order lines: both sides must answer bad-op
	fmt.Fprintln(w, "get at=1")
	fmt.Fprintln(w, "reset backend=log mon=1")
	for _, l := range []string{"get", "getbyhash", "getbyhash x=zz", "setmeta v=00", "setheight", "crash", "frobnicate a=1", "getmeta k=ff"} {
		fmt.Fprintln(w, l)
	}
	for i := 0; i < nlog; i++ {
		genScenario(r, w, "log", nops, false)
	}
	for i := 0; i < nunclean; i++ {
		genScenario(r, w, "log", nops, true)
	}
	for i := 0; i < nbadger; i++ {
		genScenario(r, w, "badger", 40, false)
	}
	if tier != "thorough" {
		// quick: ONE small scenario on a real badger directory (saves, metadata, state, reopen, read everything back),
		// so that the store is exercised on its production datastore on every run (costs well under 2 s); generated
		// last among the random scenarios so that the log-backend scenarios of a seed stay what they were
		genBadgerSmoke(r, w)
	}
	// transient READ faults of the datastore (log backend), generated after everything else so that the scenarios
	// above stay what they were for a seed
	genReadFaults(r, w)
	for i := 0; i < nfault; i++ {
		genScenario(r, w, "log", nops, i%8 == 7, true)
	}
	// re-saves of the same header and data under ANOTHER signature argument (resign.go), generated after everything
	// else so that the scenarios above stay what they were for a seed
	genResignFixed(r, w)
	nresign, nresignBadger := 60, 0
	if tier == "thorough" {
		nresign, nresignBadger = 250, 6
	}
	for i := 0; i < nresign; i++ {
		genResign(r, w, "log", 40)
	}
	for i := 0; i < nresignBadger; i++ {
		genResign(r, w, "badger", 30)
	}
	if tier == "thorough" {
		// values just below badger's 1 MiB value threshold (they count in full towards the transaction size
		// limit, ~10 MB with the node's options), above it (they count as pointers), and small
		fmt.Fprintln(w, "reset backend=log mon=1")
		for _, l := range []string{"bigsave hdr=1048000 data=1048000 sig=1048000", "bigsave hdr=100 data=1048575 sig=64",
			"bigsave hdr=3000000 data=6000000 sig=3000000", "bigsave hdr=200 data=12000000 sig=64", "bigsave hdr=100 data=100 sig=64", "bigsave hdr=1"} {
			fmt.Fprintln(w, l)
		}
	}
}

func init() { hx.Register("C14", hx.Stream{Gen: genC14, Run: runC14}) }
