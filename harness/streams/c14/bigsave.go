package c14

import (
	"bytes"
	"fmt"
	"os"

	badger "github.com/dgraph-io/badger/v4"
	badger4 "github.com/ipfs/go-ds-badger4"

	"verifharness/hx"

	storepkg "github.com/evstack/ev-node/pkg/store"
	"github.com/evstack/ev-node/types"
)

// bigSave opens the node's default badger store in a scratch directory, saves one block whose header, data and
// signature records have about the given sizes, saves the height again under another header (the batch with
// the delete), and looks at the COMMIT VERSION badger gave each record: records written by one badger
// transaction carry the same version; go-ds-badger4's Batch is a badger WriteBatch, which silently commits
// and starts a new transaction when one grows past the size/count limit (ErrTxnTooBig) — the records of a
// split save would carry different versions.  Nothing of this is proved; it is reported if observed.
func bigSave(c *hx.Ctx, hn, dn, sn int) {
	dir, err := workDir()
	if err != nil {
		c.Hit("bigsave-no-workdir")
		return
	}
	defer os.RemoveAll(dir)
	kv, err := openBadger(dir)
	if err != nil {
		c.Hit("bigsave-open-failed")
		return
	}
	defer kv.Close()
	bd, ok := kv.(*badger4.Datastore)
	if !ok {
		c.Hit("bigsave-not-badger")
		return
	}
	c.Hit(fmt.Sprintf("bigsave-badger-maxBatchSize=%d-maxBatchCount=%d", bd.DB.MaxBatchSize(), bd.DB.MaxBatchCount()))
	st := storepkg.New(kv)
	mk := func(t uint64) *types.SignedHeader {
		return &types.SignedHeader{Header: types.Header{BaseHeader: types.BaseHeader{Height: 9, Time: t, ChainID: "big"},
			ValidatorHash: bytes.Repeat([]byte{0x5a}, hn)}}
	}
	d := &types.Data{Txs: types.Txs{types.Tx(bytes.Repeat([]byte{0xd7}, dn))}}
	sig := types.Signature(bytes.Repeat([]byte{0x51}, sn))
	versions := func(keys ...string) ([]uint64, error) {
		var vs []uint64
		err := bd.DB.View(func(txn *badger.Txn) error {
			for _, k := range keys {
				it, err := txn.Get([]byte(k))
				if err != nil {
					return fmt.Errorf("%s: %w", k, err)
				}
				vs = append(vs, it.Version())
			}
			return nil
		})
		return vs, err
	}
	check := func(what string, sh *types.SignedHeader) bool {
		if err := st.SaveBlockData(ctx, sh, d, &sig); err != nil {
			c.Hit("bigsave-save-error")
			c.Report("C14/atomic/badger-save-error", fmt.Sprintf("%s (header≈%d data≈%d signature=%d bytes): %v", what, hn, dn, sn, err))
			return false
		}
		keys := []string{"/h/9", "/d/9", "/c/9", "/i/" + sh.Hash().String()}
		vs, err := versions(keys...)
		if err != nil {
			c.Report("C14/atomic/badger-save-incomplete", fmt.Sprintf("%s: a record of the saved block is missing: %v", what, err))
			return false
		}
		for _, v := range vs[1:] {
			if v != vs[0] {
				c.Report("C14/atomic/badger-save-split", fmt.Sprintf("%s (header≈%d data≈%d signature=%d bytes): the records %v were committed by different badger transactions (versions %v): the batch was split, a crash between the parts leaves a partial block", what, hn, dn, sn, keys, vs))
				return false
			}
		}
		hd, dd, err := st.GetBlockData(ctx, 9)
		if err != nil || !bytes.Equal(hd.Hash(), sh.Hash()) || len(dd.Txs) != 1 || len(dd.Txs[0]) != dn {
			c.Report("C14/read/big-block", fmt.Sprintf("%s: the block read back is not the block saved (err=%v)", what, err))
			return false
		}
		return true
	}
	a, b := mk(1), mk(2)
	if check("first save", a) && check("save of the same height under another header", b) {
		if _, _, err := st.GetBlockByHash(ctx, a.Hash()); err == nil {
			c.Report("C14/read/by-hash-returns-other-block-after-height-overwrite", "big block on badger: the replaced header's hash still leads to the height")
		}
		c.Hit("bigsave-one-transaction")
	}
}
