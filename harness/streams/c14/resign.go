package c14

import (
	"bytes"
	"fmt"
	"io"

	"verifharness/hx"
)

// Re-saves of the SAME block under ANOTHER signature argument.
//
// SaveBlockData(header, data, signature) takes the signature as an argument of its own and stores it in a
// record of its own: it is not a function of header and data.  The node itself saves a height twice (early save
// with a provisional signature, final save), and a block can arrive again with another signature.  The property
// (reads return the latest write; a saved block is retrievable together with its signature) therefore demands that
//
//	SaveBlockData(h, d, s1); SaveBlockData(h, d, s2); GetSignature(height) == s2 == GetSignatureByHash(h.Hash())
//
// immediately, after other operations, after a crash at any write boundary, and after close + reopen.  The random
// scenarios of genScenario save a pool block always with the one signature it was drawn with, so a store that
// decides "nothing to do" by looking at header and data only was invisible to the reference-map monitor.

// altSig: a signature argument different from cur: empty vs non-empty, other length (1, 5, 63, 64, 65, 96), same
// length with one byte changed, a prefix, an extension.
func altSig(r *hx.Rng, cur []byte) []byte {
	var s []byte
	switch r.Intn(9) {
	case 0:
		s = nil
	case 1:
		s = r.Bytes(64)
	case 2:
		s = r.Bytes([]int{1, 5, 63, 65, 96}[r.Intn(5)])
	case 3: // same length, last byte changed
		s = append([]byte(nil), cur...)
		if len(s) > 0 {
			s[len(s)-1] ^= 0x01
		}
	case 4: // same length, first byte changed
		s = append([]byte(nil), cur...)
		if len(s) > 0 {
			s[0] ^= 0x80
		}
	case 5: // a proper prefix
		if len(cur) > 0 {
			s = append([]byte(nil), cur[:len(cur)-1]...)
		}
	case 6: // an extension
		s = append(append([]byte(nil), cur...), byte(r.Intn(256)))
	case 7: // one zero byte (not the empty signature)
		s = []byte{0}
	default:
		s = r.Bytes(64)
	}
	if bytes.Equal(s, cur) {
		s = append(append([]byte(nil), cur...), 0x5a)
	}
	return s
}

func saveWithSig(w io.Writer, b gblock, sig []byte) { fmt.Fprintln(w, b.pre+" sig="+hx.Hex(sig)) }

// genResignFixed: the deliberate scenarios (every run, both backends).
func genResignFixed(r *hx.Rng, w io.Writer) {
	for _, backend := range []string{"log", "badger"} {
		fmt.Fprintf(w, "reset backend=%s mon=1\n", backend)
		a, b := rblock(r, 5), rblock(r, 6)
		s1, s2, s3 := r.Bytes(64), r.Bytes(64), r.Bytes(65)
		ha, hb := hx.Hex(a.hash), hx.Hex(b.hash)
		rd := func() {
			fmt.Fprintln(w, "sig at=5")
			fmt.Fprintln(w, "sigbyhash x="+ha)
		}
		// immediately: provisional, then final signature
		saveWithSig(w, a, s1)
		saveWithSig(w, a, s2)
		rd()
		// after other operations; non-empty -> empty -> non-empty; other length
		saveWithSig(w, b, s1)
		fmt.Fprintln(w, "setheight to=6")
		saveWithSig(w, a, nil)
		rd()
		fmt.Fprintln(w, "get at=5")
		saveWithSig(w, a, s2[:5])
		rd()
		saveWithSig(w, a, s3)
		// a crash at the boundary after the re-save keeps the new signature; close + reopen too
		if backend == "log" {
			fmt.Fprintln(w, "crash back=0")
			rd()
		}
		fmt.Fprintln(w, "reopen")
		rd()
		// a crash that loses the re-save brings the previous signature back; the save after it counts again
		saveWithSig(w, a, s1)
		if backend == "log" {
			fmt.Fprintln(w, "crash back=1")
			rd()
		}
		saveWithSig(w, a, s1)
		rd()
		saveWithSig(w, a, append(append([]byte(nil), s1...), 7))
		fmt.Fprintln(w, "reopen")
		rd()
		// the other height was never touched by all this
		fmt.Fprintln(w, "sig at=6")
		fmt.Fprintln(w, "sigbyhash x="+hb)
		fmt.Fprintln(w, "getbyhash x="+ha)
	}
}

// genResign: a random scenario whose saves are mostly re-saves of the block a height currently holds (as far as
// the generator knows: a crash may have rolled the last saves back, then the line is an ordinary save) under
// another signature argument, interleaved with reads of the signature by height and by hash, other writes,
// crashes at and before the last write boundaries and reopen.
func genResign(r *hx.Rng, w io.Writer, backend string, nops int) {
	fmt.Fprintf(w, "reset backend=%s mon=1\n", backend)
	hs := heightSets[r.Intn(len(heightSets))]
	var pool []gblock
	for i, n := 0, 2+r.Intn(3); i < n; i++ {
		pool = append(pool, rblock(r, hs[r.Intn(len(hs))]))
	}
	last := make([][]byte, len(pool)) // the signature each pool block was last saved with
	cur := map[uint64]int{}           // height -> pool block last saved there
	var held []uint64                 // heights in cur, in order of first save
	save := func(i int, sig []byte) {
		saveWithSig(w, pool[i], sig)
		h := pool[i].sh.Height()
		if _, ok := cur[h]; !ok {
			held = append(held, h)
		}
		cur[h], last[i] = i, sig
	}
	for i := range pool {
		last[i] = pool[i].sig
	}
	save(0, pool[0].sig)
	for i := 0; i < nops; i++ {
		x := r.Intn(100)
		switch {
		case x < 10: // any pool block with the signature it had last (a byte-identical re-save if it is the current one)
			j := r.Intn(len(pool))
			save(j, last[j])
		case x < 36: // the block a height holds, under another signature; sometimes twice or three times in a row
			j := cur[held[r.Intn(len(held))]]
			for k, n := 0, 1+[]int{0, 0, 1, 2}[r.Intn(4)]; k < n; k++ {
				save(j, altSig(r, last[j]))
			}
		case x < 50:
			fmt.Fprintf(w, "sig at=%d\n", hs[r.Intn(len(hs))])
		case x < 64:
			fmt.Fprintf(w, "sigbyhash x=%s\n", hx.Hex(pool[r.Intn(len(pool))].hash))
		case x < 69:
			fmt.Fprintf(w, "get at=%d\n", hs[r.Intn(len(hs))])
		case x < 74:
			fmt.Fprintf(w, "getbyhash x=%s\n", hx.Hex(pool[r.Intn(len(pool))].hash))
		case x < 78:
			fmt.Fprintf(w, "setheight to=%d\n", hs[r.Intn(len(hs))])
		case x < 81:
			fmt.Fprintf(w, "setmeta k=%s v=%s\n", hx.Hex([]byte("d")), hx.Hex(r.Bytes(8)))
		case x < 83:
			fmt.Fprintln(w, rstateLine(r))
		case x < 93:
			if backend == "log" {
				fmt.Fprintf(w, "crash back=%d\n", []int{0, 0, 1, 1, 2, 3}[r.Intn(6)])
			} else {
				fmt.Fprintln(w, "reopen")
			}
		default:
			fmt.Fprintln(w, "reopen")
		}
	}
	if backend == "log" {
		fmt.Fprintf(w, "crash back=%d\n", r.Intn(2))
	}
	fmt.Fprintln(w, "reopen")
	for _, h := range hs {
		fmt.Fprintf(w, "sig at=%d\n", h)
	}
	for _, b := range pool {
		fmt.Fprintf(w, "sigbyhash x=%s\n", hx.Hex(b.hash))
		fmt.Fprintf(w, "getbyhash x=%s\n", hx.Hex(b.hash))
	}
}
